#!/usr/bin/env python3
"""mutation_sweep.py <muts.jsonl> <outdir> [workers]

Sensitivity tooling (not a check). For every splice produced by bin/mutgen: apply it to a scratch copy of /repo,
keep it if the copy still builds and the whole test suite passes ("survivor"), and analyse each survivor with
`goosecheck -all`. Writes <outdir>/results.jsonl: one line per mutant with status nocompile|killed|survivor and,
for survivors, the alarms. Scratch copies live under /tmp and are removed at the end.
"""
import json, os, shutil, subprocess, sys, multiprocessing as mp, tempfile

ENV = dict(os.environ, GOFLAGS='-mod=mod', GOPROXY='off', GOSUMDB='off', GOTOOLCHAIN='local')
ENV.pop('GOWORK', None)
REPO = '/repo'

def sh(cmd, cwd, timeout):
    try:
        p = subprocess.run(cmd, cwd=cwd, env=ENV, stdout=subprocess.PIPE, stderr=subprocess.STDOUT, timeout=timeout, shell=True, text=True)
        return p.returncode, p.stdout
    except subprocess.TimeoutExpired:
        subprocess.run("pkill -f '%s' || true" % cwd, shell=True)
        return 124, 'timeout'

_dir = None
def init():
    global _dir
    _dir = tempfile.mkdtemp(prefix='mw-', dir='/tmp')
    subprocess.run(['cp', '-a', REPO + '/.', _dir + '/'])
    shutil.rmtree(_dir + '/.git', ignore_errors=True)

def work(m):
    path = os.path.join(_dir, m['file'])
    orig = open(os.path.join(REPO, m['file']), 'rb').read()
    mut = orig[:m['start']] + m['repl'].encode() + orig[m['end']:]
    open(path, 'wb').write(mut)
    res = dict(m)
    try:
        rc, out = sh('go build ./...', _dir, 180)
        if rc != 0:
            res['status'] = 'nocompile'; return res
        rc, out = sh('go test -vet=off -count=1 -timeout 90s ./... 2>&1 | tail -40', _dir, 200)
        if rc != 0 or '\nFAIL' in '\n' + out or 'panic:' in out:
            res['status'] = 'killed'; return res
        res['status'] = 'survivor'
        rc, out = sh('/verif/bin/goosecheck.sweep -all -repo %s -verif /verif' % _dir, '/verif', 600)
        res['alarms'] = [l for l in out.splitlines() if l.startswith(('ALARM', 'LOAD-FAIL', 'panic', 'PANIC'))]
        res['silent'] = (rc == 0)
        return res
    finally:
        open(path, 'wb').write(orig)

def main():
    muts = [json.loads(l) for l in open(sys.argv[1])]
    outdir = sys.argv[2]; os.makedirs(outdir, exist_ok=True)
    n = int(sys.argv[3]) if len(sys.argv) > 3 else 12
    done = set()
    rp = os.path.join(outdir, 'results.jsonl')
    if os.path.exists(rp):
        for l in open(rp):
            done.add(json.loads(l)['id'])
    muts = [m for m in muts if m['id'] not in done]
    with mp.Pool(n, initializer=init) as pool, open(rp, 'a') as f:
        for i, r in enumerate(pool.imap_unordered(work, muts)):
            f.write(json.dumps(r) + '\n'); f.flush()
            if i % 50 == 0:
                print(i, len(muts), flush=True)
    subprocess.run('rm -rf /tmp/mw-*', shell=True)

if __name__ == '__main__':
    main()
