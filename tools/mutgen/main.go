// mutgen enumerates small syntactic mutants of the non-test Go sources of a repository as text splices
// (file, byte range, replacement). It is sensitivity tooling: tools/mutation_sweep.py applies each splice to a
// scratch copy, keeps those that still build and pass the test suite, and analyses the survivors with
// `goosecheck -all`. Nothing here decides a property.
package main

import (
	"encoding/json"
	"fmt"
	"go/ast"
	"go/parser"
	"go/token"
	"os"
	"path/filepath"
	"regexp"
	"strconv"
	"strings"
)

type Mut struct {
	ID    int    `json:"id"`
	File  string `json:"file"`
	Start int    `json:"start"`
	End   int    `json:"end"`
	Repl  string `json:"repl"`
	Op    string `json:"op"`
	Line  int    `json:"line"`
	Func  string `json:"func"`
	Orig  string `json:"orig"`
}

var msgCall = regexp.MustCompile(`(?i)^(unsupported|todo|nope|futureWork|Errorf|Fprintf|Printf|Println|Print|panic|Fatal|Fatalf|Fatalln|New|Sprintf|NewError|Usage|StringVar|BoolVar|String|Bool|Fprintln|Fprint|errorf|fail|Panicf)$`)

func main() {
	root := os.Args[1]
	var out []Mut
	skipDir := map[string]bool{".git": true, "testdata": true, "internal/examples": true, "test": true, "docs": true, "etc": true, "internal/go_test": true}
	filepath.Walk(root, func(path string, fi os.FileInfo, err error) error {
		rel, _ := filepath.Rel(root, path)
		if fi.IsDir() {
			if skipDir[rel] {
				return filepath.SkipDir
			}
			return nil
		}
		if !strings.HasSuffix(rel, ".go") || strings.HasSuffix(rel, "_test.go") {
			return nil
		}
		out = append(out, mutate(root, rel)...)
		return nil
	})
	for i := range out {
		out[i].ID = i
	}
	enc := json.NewEncoder(os.Stdout)
	for _, m := range out {
		enc.Encode(m)
	}
	fmt.Fprintf(os.Stderr, "%d mutants\n", len(out))
}

func mutate(root, rel string) []Mut {
	fset := token.NewFileSet()
	src, _ := os.ReadFile(filepath.Join(root, rel))
	f, err := parser.ParseFile(fset, rel, src, parser.ParseComments)
	if err != nil {
		return nil
	}
	var ms []Mut
	off := func(p token.Pos) int { return fset.Position(p).Offset }
	text := func(n ast.Node) string { return string(src[off(n.Pos()):off(n.End())]) }
	curFunc := ""
	add := func(n ast.Node, s, e int, repl, op string) {
		o := string(src[s:e])
		if len(o) > 80 {
			o = o[:80] + "…"
		}
		ms = append(ms, Mut{File: rel, Start: s, End: e, Repl: repl, Op: op, Line: fset.Position(n.Pos()).Line, Func: curFunc, Orig: o})
	}
	swap := map[token.Token]string{
		token.EQL: "!=", token.NEQ: "==", token.LSS: "<=", token.LEQ: "<", token.GTR: ">=", token.GEQ: ">",
		token.LAND: "||", token.LOR: "&&", token.ADD: "-", token.SUB: "+",
	}
	var stack []ast.Node
	ast.Inspect(f, func(n ast.Node) bool {
		if n == nil {
			stack = stack[:len(stack)-1]
			return true
		}
		var parent ast.Node
		if len(stack) > 0 {
			parent = stack[len(stack)-1]
		}
		stack = append(stack, n)
		switch n := n.(type) {
		case *ast.FuncDecl:
			curFunc = n.Name.Name
			if n.Recv != nil && len(n.Recv.List) > 0 {
				curFunc = strings.TrimPrefix(text(n.Recv.List[0].Type), "*") + "." + curFunc
			}
			// a use of one parameter replaced by another parameter of the function (copy-paste confusion);
			// the compiler filters the ill-typed ones
			if n.Body != nil && n.Type.Params != nil {
				var params []string
				for _, f := range n.Type.Params.List {
					for _, nm := range f.Names {
						if nm.Name != "_" {
							params = append(params, nm.Name)
						}
					}
				}
				if len(params) >= 2 {
					isParam := map[string]bool{}
					for _, pn := range params {
						isParam[pn] = true
					}
					ast.Inspect(n.Body, func(m ast.Node) bool {
						if sel, ok := m.(*ast.SelectorExpr); ok {
							// only the base of a selector is a variable use
							if id, ok := sel.X.(*ast.Ident); ok && isParam[id.Name] && id.Obj != nil && id.Obj.Kind == ast.Var {
								for _, o := range params {
									if o != id.Name {
										add(id, off(id.Pos()), off(id.End()), o, "param-swap")
									}
								}
							}
							return false
						}
						if id, ok := m.(*ast.Ident); ok && isParam[id.Name] && id.Obj != nil && id.Obj.Kind == ast.Var {
							if _, isField := id.Obj.Decl.(*ast.Field); isField {
								for _, o := range params {
									if o != id.Name {
										add(id, off(id.Pos()), off(id.End()), o, "param-swap")
									}
								}
							}
						}
						return true
					})
				}
			}
		case *ast.IfStmt:
			add(n, off(n.Cond.Pos()), off(n.Cond.End()), "!("+text(n.Cond)+")", "negate-if")
			if n.Else != nil {
				add(n, off(n.Body.End()), off(n.Else.End()), "", "drop-else")
			}
		case *ast.ForStmt:
			if n.Cond != nil {
				add(n, off(n.Cond.Pos()), off(n.Cond.End()), "!("+text(n.Cond)+")", "negate-for")
			}
		case *ast.BinaryExpr:
			if r, ok := swap[n.Op]; ok {
				add(n, off(n.OpPos), off(n.OpPos)+len(n.Op.String()), r, "binop "+n.Op.String()+"→"+r)
			}
		case *ast.UnaryExpr:
			if n.Op == token.NOT {
				add(n, off(n.OpPos), off(n.OpPos)+1, "", "drop-not")
			}
		case *ast.Ident:
			if n.Name == "true" || n.Name == "false" {
				if kv, ok := parent.(*ast.KeyValueExpr); ok && kv.Key == n {
					break
				}
				r := "true"
				if n.Name == "true" {
					r = "false"
				}
				add(n, off(n.Pos()), off(n.End()), r, "flip-bool")
			}
		case *ast.BasicLit:
			switch n.Kind {
			case token.INT:
				v, err := strconv.ParseInt(n.Value, 0, 64)
				if err != nil {
					break
				}
				if v == 0 {
					add(n, off(n.Pos()), off(n.End()), "1", "int 0→1")
				} else {
					add(n, off(n.Pos()), off(n.End()), strconv.FormatInt(v-1, 10), "int n→n-1")
					add(n, off(n.Pos()), off(n.End()), strconv.FormatInt(v+1, 10), "int n→n+1")
				}
			case token.STRING:
				if _, ok := parent.(*ast.ImportSpec); ok {
					break
				}
				if c, ok := parent.(*ast.CallExpr); ok {
					name := ""
					switch fn := c.Fun.(type) {
					case *ast.Ident:
						name = fn.Name
					case *ast.SelectorExpr:
						name = fn.Sel.Name
					}
					if msgCall.MatchString(name) {
						break
					}
				}
				if f, ok := parent.(*ast.Field); ok && f.Tag == n {
					break
				}
				if strings.HasPrefix(n.Value, "`") {
					add(n, off(n.Pos()), off(n.End()), n.Value[:len(n.Value)-1]+"X`", "string +X")
				} else {
					add(n, off(n.Pos()), off(n.End()), n.Value[:len(n.Value)-1]+"X\"", "string +X")
					if len(n.Value) > 2 {
						add(n, off(n.Pos()), off(n.End()), `""`, "string →empty")
					}
				}
			}
		case *ast.ExprStmt:
			if c, ok := n.X.(*ast.CallExpr); ok {
				name := ""
				switch fn := c.Fun.(type) {
				case *ast.Ident:
					name = fn.Name
				case *ast.SelectorExpr:
					name = fn.Sel.Name
				}
				_ = name
			}
			add(n, off(n.Pos()), off(n.End()), "", "del-stmt")
		case *ast.AssignStmt:
			if n.Tok != token.DEFINE {
				if _, isFor := parent.(*ast.ForStmt); !isFor {
					add(n, off(n.Pos()), off(n.End()), "", "del-assign")
				}
			}
		case *ast.IncDecStmt:
			if _, isFor := parent.(*ast.ForStmt); !isFor {
				add(n, off(n.Pos()), off(n.End()), "", "del-incdec")
			}
		case *ast.DeferStmt:
			add(n, off(n.Pos()), off(n.End()), "", "del-defer")
			add(n, off(n.Pos()), off(n.Pos())+len("defer "), "", "undefer")
		case *ast.GoStmt:
			add(n, off(n.Pos()), off(n.Pos())+len("go "), "", "ungo")
		case *ast.BranchStmt:
			if n.Tok == token.BREAK || n.Tok == token.CONTINUE {
				r := "continue"
				if n.Tok == token.CONTINUE {
					r = "break"
				}
				if n.Label == nil {
					add(n, off(n.Pos()), off(n.End()), r, "branch-swap")
				}
			}
		case *ast.CaseClause:
			if len(n.List) > 0 {
				add(n, off(n.Pos()), off(n.End()), "", "del-case")
				if len(n.List) > 1 {
					for i, e := range n.List {
						s, en := off(e.Pos()), off(e.End())
						if i+1 < len(n.List) {
							en = off(n.List[i+1].Pos())
						} else {
							s = off(n.List[i-1].End())
						}
						add(e, s, en, "", "del-case-value")
					}
				}
			} else if len(n.Body) > 0 {
				add(n, off(n.Body[0].Pos()), off(n.Body[len(n.Body)-1].End()), "", "empty-default")
			}
		case *ast.CompositeLit:
			for i, e := range n.Elts {
				if _, ok := e.(*ast.KeyValueExpr); !ok {
					continue
				}
				s, en := off(e.Pos()), off(e.End())
				if i+1 < len(n.Elts) {
					en = off(n.Elts[i+1].Pos())
				} else {
					// trailing comma, if any
					j := en
					for j < len(src) && (src[j] == ' ' || src[j] == '\t') {
						j++
					}
					if j < len(src) && src[j] == ',' {
						en = j + 1
					}
				}
				add(e, s, en, "", "del-elt")
			}
		case *ast.BlockStmt:
			// exchange two adjacent statements (ordering mistakes: unlock before the update, rename before fsync)
			for i := 0; i+1 < len(n.List); i++ {
				a, b := n.List[i], n.List[i+1]
				if _, ok := a.(*ast.DeclStmt); ok {
					continue
				}
				if _, ok := b.(*ast.ReturnStmt); ok {
					continue
				}
				if text(a) == text(b) {
					continue
				}
				add(a, off(a.Pos()), off(b.End()), text(b)+string(src[off(a.End()):off(b.Pos())])+text(a), "swap-stmts")
			}
		case *ast.ReturnStmt:
			if len(n.Results) == 0 {
				break
			}
		case *ast.CallExpr:
			// swap adjacent arguments (compile filter discards ill-typed ones)
			if len(n.Args) >= 2 && len(n.Args) <= 4 {
				for i := 0; i+1 < len(n.Args); i++ {
					a, b := n.Args[i], n.Args[i+1]
					if text(a) == text(b) {
						continue
					}
					add(n, off(a.Pos()), off(b.End()), text(b)+string(src[off(a.End()):off(b.Pos())])+text(a), "swap-args")
				}
			}
		}
		return true
	})
	return ms
}
