module verif/mutgen

go 1.22
