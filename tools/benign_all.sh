#!/bin/bash
# benign_all.sh [props]: run every benign patch against the given properties (default all); prints alarms only
props=${1:-C01,C02,C03,C04,C05,C06,C07,C08,C09,C10,C11,C12,C13,C14,C15,C16,C17,C18}
ls /verif/mutants/benign/*.patch | while read p; do n=$(basename $p .patch); echo "$p $n $props"; done | xargs -P 8 -L1 /verif/tools/benign_fast.sh 2>&1
