#!/bin/bash
# breaking_all.sh [filter]: analyse every breaking variant (seeded/*/patch.diff, mutants/C*/*.patch) on a scratch
# copy with the checks expected to catch it (seed: the properties named in meta.json caught_by_checks; mutant: its own
# property). Prints one line per variant: caught / MISSED.
one() {
  patch=$1; name=$2; props=$3
  d=$(mktemp -d /tmp/br-XXXX); trap 'rm -rf $d' EXIT
  cp -a /repo/. $d/ && rm -rf $d/.git
  (cd $d && git apply "$patch") 2>/dev/null || { echo "$name: PATCH-DOES-NOT-APPLY"; exit 2; }
  got=""
  for p in ${props//,/ }; do
    out=$(/verif/bin/goosecheck -prop $p -repo $d -no-evidence 2>&1)
    if echo "$out" | grep -q "^VIOLATION"; then got="$got $p"; fi
  done
  if [ -n "$got" ]; then echo "$name: caught by$got (of $props)"; else echo "$name: MISSED (ran $props)"; fi
}
export -f one
cd /verif
{
for s in seeded/*/; do
  n=$(basename $s)
  props=$(python3 -c "import json,sys;d=json.load(open('$s/meta.json'));print(','.join(sorted({c.split(':')[0] for c in d.get('caught_by_checks',[])}) or [d['breaks_property']]))")
  echo "/verif/$s/patch.diff $n $props"
done
for m in mutants/C*/*.patch; do
  pr=$(basename $(dirname $m)); echo "/verif/$m $pr/$(basename $m .patch) $pr"
done
} | grep -E "${1:-.}" | xargs -P 8 -L1 bash -c 'one "$0" "$1" "$2"' 2>&1 | sort
