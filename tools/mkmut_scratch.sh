#!/bin/bash
# mkmut_scratch.sh <prop> <name> <file> <sed-script>: like mkmut.py but never touches /repo (safe while a sweep is running):
# applies the sed script to a scratch copy of <file> and stores the diff as mutants/<prop>/<name>.patch
set -e
prop=$1; name=$2; f=$3; script=$4
t=$(mktemp); sed "$script" /repo/$f > $t
mkdir -p /verif/mutants/$prop
diff -u --label a/$f --label b/$f /repo/$f $t > /verif/mutants/$prop/$name.patch || true
rm -f $t
test -s /verif/mutants/$prop/$name.patch || { echo "empty patch"; exit 1; }
echo wrote /verif/mutants/$prop/$name.patch
