#!/bin/bash
# r2_brk.sh <patch> <name> <props>: analyse a breaking patch in a scratch copy with the given props; print caught/missed with rules
patch=$(realpath "$1"); name=$2; props=$3
d=$(mktemp -d /tmp/rb-XXXX); trap 'rm -rf $d' EXIT
cp -a /repo/. $d/ && rm -rf $d/.git
(cd $d && git apply "$patch") 2>/dev/null || { echo "$name: PATCH-DOES-NOT-APPLY"; exit 2; }
res=""
for p in ${props//,/ }; do
  out=$(/verif/bin/goosecheck -prop $p -repo $d -no-evidence 2>&1)
  if echo "$out" | grep -q "^VIOLATION"; then res="$res\n  [$p] $(echo "$out" | grep "^  rule " | head -3 | cut -c1-260 | paste -sd'|' | sed 's/|/\n       /g')"; fi
done
if [ -z "$res" ]; then echo "$name: MISSED (ran $props)"; else printf "$name: caught$res\n"; fi
