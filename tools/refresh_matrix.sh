#!/bin/bash
# refresh_matrix.sh: re-analyse every seeded change under every property and rewrite caught_by_checks in its meta.json
one() {
  name=$1
  d=$(mktemp -d /tmp/mx-XXXX); trap 'rm -rf $d' EXIT
  cp -a /repo/. $d/ && rm -rf $d/.git
  (cd $d && git apply /verif/seeded/$name/patch.diff) 2>/dev/null || { echo "$name: PATCH-DOES-NOT-APPLY"; exit 2; }
  res=""
  for p in C01 C02 C03 C04 C05 C06 C07 C08 C09 C10 C11 C12 C13 C14 C15 C16 C17 C18; do
    out=$(/verif/bin/goosecheck -prop $p -repo $d -no-evidence 2>&1)
    if echo "$out" | grep -q "^VIOLATION"; then
      rules=$(echo "$out" | grep "^  rule " | sed 's/^  rule \(R[0-9a-z]*\) \[\(.*\)\] at .*/\1 [\2]/' | head -4 | paste -sd';')
      res="$res$p: $rules\n"
    fi
  done
  printf "%b" "$res" > /tmp/mxres-$name.txt
  python3 - "$name" <<'PY'
import json,sys
n=sys.argv[1]
p=f'/verif/seeded/{n}/meta.json'
m=json.load(open(p))
lines=[l for l in open(f'/tmp/mxres-{n}.txt').read().split('\n') if l.strip()]
m['caught_by_checks']=lines
json.dump(m,open(p,'w'),indent=1)
print(n, 'caught by', ','.join(l.split(':')[0] for l in lines) or 'NONE')
PY
  rm -f /tmp/mxres-$name.txt
}
export -f one
ls /verif/seeded | grep -E "${1:-.}" | xargs -P 6 -I{} bash -c 'one {}'
