#!/bin/bash
# benign.sh <patch> <name> <props,comma> : scratch copy of /repo, apply, build+suite must pass, run the checks, report alarms
patch=$(realpath "$1"); name=$2; props=$3
export GOFLAGS=-mod=mod GOPROXY=off GOSUMDB=off GOTOOLCHAIN=local
d=$(mktemp -d /tmp/bn-XXXX); trap 'rm -rf $d' EXIT
cp -a /repo/. $d/ && rm -rf $d/.git
(cd $d && git apply "$patch") 2>/dev/null || { echo "$name: PATCH-DOES-NOT-APPLY"; exit 2; }
(cd $d && go build ./... && go test -vet=off -count=1 ./... ) >$d/.log 2>&1 || { echo "$name: SUITE-FAILS"; tail -5 $d/.log; exit 3; }
alarms=""
for p in ${props//,/ }; do
  out=$(/verif/bin/goosecheck -prop $p -repo $d -no-evidence 2>&1)
  if echo "$out" | grep -q "^VIOLATION"; then
    alarms="$alarms\n  [$p] $(echo "$out" | grep "^  rule " | head -6 | cut -c1-330 | paste -sd'|' | sed 's/|/\n       /g')"
  fi
done
if [ -z "$alarms" ]; then echo "$name: silent [$props]"; else printf "$name: ALARM$alarms\n"; fi
