#!/usr/bin/env python3
"""Regenerates the generated tables of DESIGN.md (between the BEGIN/END GENERATED markers) from the checker source,
known-findings.json, seeded/*/meta.json and mutants/."""
import json, glob, re, os, subprocess
def esc(x): return x.replace('|','\\|')
V='/verif'
out=[]
# --- rules
out.append("### 9.1 Rules as implemented (generated from the checker source)\n")
out.append("| property | rule | what is decided | minimum instances |\n|---|---|---|---|")
rules=[]
for f in sorted(glob.glob(V+'/checker/rules_*.go')):
    for m in re.finditer(r'r\.Rule\("(R\d+[a-z]?)", "((?:[^"\\]|\\.)*)", (\d+)\)', open(f).read()):
        rules.append((m.group(1), m.group(2).replace('\\"','"'), m.group(3)))
seen=set()
for rid,text,mn in sorted(rules, key=lambda r:(int(re.match(r'R(\d+)',r[0]).group(1)), r[0])):
    if rid in seen: continue
    seen.add(rid)
    prop="C"+re.match(r'R(\d+)',rid).group(1)
    out.append(f"| {prop} | {rid} | {esc(text)} | {mn} |")
# --- findings
d=json.load(open(V+'/known-findings.json'))['findings']
out.append("\n### 9.2 Genuine defects repaired in /repo (`fix:` commits)\n")
out.append("| property | rule that sees it | commit | what failed |\n|---|---|---|---|")
for f in d:
    if f['status']=='fixed':
        out.append(f"| {f['property']} | {f.get('rule','')} | {f.get('commit','')} | {esc(f['what'])} |")
out.append("\n### 9.3 Known findings (recorded, not repaired)\n")
out.append("| property | rule | construct | what fails |\n|---|---|---|---|")
for f in d:
    if f['status']=='known':
        w=f['what']
        if f['rule']=='R02d': w=w.split(' A user package')[0]
        out.append(f"| {f['property']} | {f['rule']} | `{f['key']}` | {esc(w)} |")
# --- catch matrix
out.append("\n### 9.4 Which checks catch which changes\n")
out.append("Seeded changes (independent sub-agents; each compiles, passes the 195 tests and has a demonstration):\n")
out.append("| change | breaks | what it does | caught by (property: rule [obligation]) |\n|---|---|---|---|")
for s in sorted(glob.glob(V+'/seeded/*/meta.json'), key=lambda p:(p.split('/')[-2].split('-')[0], int(p.split('/')[-2].split('-')[1]))):
    m=json.load(open(s))
    cb=m.get('caught_by_checks',[])
    cbs='; '.join(c[:150] for c in cb) if cb else 'MISSED'
    out.append(f"| {m['id']} | {m['breaks_property']} | {esc(m.get('summary',''))[:160]} | {esc(cbs)} |")
out.append("\nHand-written mutants (`mutants/<property>/*.patch`), all reported by the property's own check:\n")
for pdir in sorted(glob.glob(V+'/mutants/C*')):
    names=sorted(os.path.basename(x)[:-6] for x in glob.glob(pdir+'/*.patch'))
    out.append(f"- {os.path.basename(pdir)}: "+', '.join(names))
nb=len(glob.glob(V+'/mutants/benign/*.patch'))
out.append(f"\nBehaviour-preserving refactorings (`mutants/benign/*.patch`, {nb} patches with a description each): every property's check is silent on every one of them (tools/benign_all.sh; re-run in the thorough tier). A second, held-out corpus is in `mutants/benign-heldout/` with its outcome in RESULTS.txt (see §9.0.4).")
txt='\n'.join(out)+'\n'
p=V+'/DESIGN.md'
s=open(p).read()
b='<!-- BEGIN GENERATED -->\n'; e='<!-- END GENERATED -->\n'
if b in s:
    s=s[:s.index(b)+len(b)]+txt+s[s.index(e):]
else:
    s+= '\n'+b+txt+e
open(p,'w').write(s)
print("ok", len(txt))
