#!/bin/bash
# ben_corpora.sh <props>: run the named properties over all three behaviour-preserving corpora; prints alarms only
props=$1
for dir in benign benign-heldout benign-heldout2 benign-heldout3 benign-heldout4 benign-heldout5 benign-heldout6 benign-heldout7 benign-heldout8; do
  for p in /verif/mutants/$dir/*.patch; do echo "$p $dir/$(basename $p .patch) $props"; done
done | xargs -P 10 -L1 /verif/tools/benign_fast.sh 2>&1 | grep -v ": silent" 
echo "(done)"
