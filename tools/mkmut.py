#!/usr/bin/env python3
"""mkmut.py <prop> <name> <file> <<< 'OLD\n=====\nNEW'   — create /verif/mutants/<prop>/<name>.patch by replacing OLD with NEW (exactly once) in /repo/<file>.
Multiple edits: separate blocks with a line '#####' and start each block with a line 'FILE <path>' (then the file arg is ignored)."""
import sys, subprocess, os
prop, name, path = sys.argv[1], sys.argv[2], sys.argv[3]
spec = sys.stdin.read()
blocks = spec.split("\n#####\n")
assert subprocess.run(["git","-C","/repo","diff","--quiet"]).returncode == 0, "repo dirty"
try:
    for b in blocks:
        f = path
        if b.startswith("FILE "):
            first, b = b.split("\n",1)
            f = first[5:].strip()
        old, new = b.split("\n=====\n")
        old = old.strip("\n"); new = new.strip("\n")
        s = open("/repo/"+f).read()
        assert s.count(old) == 1, (f, old, s.count(old))
        open("/repo/"+f,"w").write(s.replace(old,new))
    env = dict(os.environ, GOFLAGS="-mod=mod", GOPROXY="off", GOSUMDB="off", GOTOOLCHAIN="local")
    b = subprocess.run(["go","build","./..."],cwd="/repo",env=env,capture_output=True,text=True)
    assert b.returncode == 0, "mutant does not build:\n"+b.stderr
    d = subprocess.run(["git","-C","/repo","diff"],capture_output=True,text=True).stdout
    os.makedirs(f"/verif/mutants/{prop}",exist_ok=True)
    open(f"/verif/mutants/{prop}/{name}.patch","w").write(d)
    if "--test" in sys.argv:
        t = subprocess.run(["go","test","-vet=off","-count=1","./..."],cwd="/repo",env=env,capture_output=True,text=True)
        print("suite:", "PASS" if t.returncode==0 else "FAIL")
    print("wrote", f"/verif/mutants/{prop}/{name}.patch")
finally:
    subprocess.run(["git","-C","/repo","checkout","--","."])
