#!/bin/bash
# try_mut.sh <muts.jsonl> <id> <props> [bin]: apply mutant <id> to a scratch copy, run the named properties, print VIOLATION lines
muts=$1; id=$2; props=$3; bin=${4:-/verif/bin/goosecheck}
d=$(mktemp -d /tmp/tm-XXXX); cp -a /repo/. $d/; rm -rf $d/.git
python3 - "$muts" "$id" "$d" <<'PY'
import json,sys
for l in open(sys.argv[1]):
    m=json.loads(l)
    if m['id']==int(sys.argv[2]):
        p=sys.argv[3]+'/'+m['file']; b=open(p,'rb').read()
        open(p,'wb').write(b[:m['start']]+m['repl'].encode()+b[m['end']:])
        print('mutant',m['id'],m['file'],m['line'],m['op'],repr(m['orig'][:60]),'->',repr(m['repl'][:60]))
PY
for p in ${props//,/ }; do $bin -prop $p -repo $d -no-evidence 2>&1 | grep -A1 "^VIOLATION" | grep -v "^VIOLATION\|^--" | cut -c1-260; $bin -prop $p -repo $d -no-evidence 2>&1 | tail -1; done
rm -rf $d
