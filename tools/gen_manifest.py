#!/usr/bin/env python3
"""Regenerates /verif/MANIFEST.json from the table below (single source of truth)."""
import json, subprocess, sys

CHECKS = {
 # id: (technique, level text, level note, design ref)
 "C09": ("SSA must-facts (guard domination with helper summaries) + alias-flow ownership + lockset",
         "Decides necessary structural conditions of the register-array behaviour for every address, buffer and history at once: range/size guards dominate every storage access, offsets are exactly addr*BlockSize, caller memory is never retained or exposed, disk fields are immutable after construction, async_disk and the global wrappers are pure aliases/forwarders, a refused operation cannot leave the in-memory disk locked. Level 'other': a static proof of these clauses, not of Mem/File result equality.",
         "Does not decide equality of results over all histories. Trusts go/types, go/ssa, documented semantics of copy/make/pread/pwrite.", "DESIGN.md §4 C09"),
 "C10": ("lockset dataflow on SSA (sets of lock configurations) + lock-identity + who-may-call on syscalls",
         "Decides the lock discipline that linearizability of the in-memory disk rests on, for every interleaving: each element read under the mutex (R/W), each element write under W, released on every exit including panics, the mutex is shared (not a per-call copy); the file disk transfers data only by pread/pwrite and has no mutable shared state. Level 'other'.",
         "Linearizability itself and kernel atomicity of pread/pwrite are not decided; sync.RWMutex is trusted.", "DESIGN.md §4 C10"),
 "C01": ("table extraction from SSA (operator, op-assign, width, literal and type-name tables) compared with each other and with the reference GooseLang notation; pass-through audit; reference vocabulary of emitted library and type names, kind-specific names only under a dominating go/types fact, operand order, full primitive table; let-scope rules shared with C05",
         "Decides necessary conditions of meaning preservation that hold for every program at once: each Go operator is printed with GooseLang's notation for it, op-assign agrees with the plain operator, + is append exactly for strings, integer widths/literals/type names/conversions are consistent, and every handler that translates a construct as its operand is audited. Level 'other': the semantic equality itself needs GooseLang's semantics (Perennial) and is not decided.",
         "GooseLang semantics are outside the repository. Four known findings (type assertion dropped, integer conversion pass-through, two let-scope leaks).", "DESIGN.md §4 C01"),
 "C02": ("interprocedural AST-field consumption analysis on SSA (per node value, summaries to a fixpoint), slice-arity bounds from must-facts, path-enumerated token dispatch (tables in any shape), enumeration of spelling comparisons against resolved recognisers found by role, control-effect facts, multi-result agreement of binding constructions, dead-placeholder analysis (a placeholder is returned only after a diverging rejection, for an absent input or on an infeasible path), definite assignment of every sub-term field of the syntax nodes the translator builds",
         "Decides for every input program at once the translator-side conditions of reject-or-translate: every meaning-carrying field of every inspected go/ast node is read by a guard or a translation, constant indices cover their slices, token dispatch has no silent default, meaning is not chosen by spelling where a predeclared name is meant, and return/break/continue are translated only where their control effect is available (with a sound must-end analysis). Level 'other'.",
         "That an accepted construct's translation includes Go's behaviour is C01's semantic core. Known findings: type-assertion type ignored, package/type look-alikes by spelling (one entry per class and literal).", "DESIGN.md §4 C02"),
 "C03": ("path-enumerated case tables of the sync translators (switches or constant package-level maps) compared with the reference library mapping; positive abstract paths of the recognisers; dispatch-order facts; spawn-shape facts on the abstract paths of the go-statement translation",
         "Decides the translator-side necessary conditions for concurrent programs: every sync method/function is mapped to the GooseLang library function of the reference table and nothing else is, the type recognisers accept exactly *sync.Mutex/Cond/WaitGroup and are consulted before the generic method path, go statements are translated only for argument-less function literals with no control effect. Level 'other'.",
         "Interleavings of the emitted program under GooseLang's scheduler are not decided (scheduler and libraries are not in the repository).", "DESIGN.md §4 C03"),
 "C04": ("name-provenance classification at global-reference sinks paired with addDep on all paths (SSA), registration dominance at every spec-to-declaration producer call, CFG facts of the emission function (found by role), path-sensitive ok-discipline of (info, ok) lookups, value flow from the per-unit tracker loop back to the declaration splitter (ordering unit = one definition), backward slice of conversion names to argument/parameter positions",
         "Decides, for every input program at once, the translator-side necessary conditions of defined-before-use and unique naming: every emitted same-package global reference is paired with dependency recording on every path, definition names are registered in their final form, the emission closure marks, visits every recorded dependency unconditionally and only then appends, method names come from one function. Level 'other'.",
         "Coq accepting the file is not decided. Three known findings (T__m collision; struct-to-interface conversions named after the wrong parameter/argument position at the definition and at the use site).", "DESIGN.md §4 C04"),
 "C05": ("per-path delimiter balance of every printer function, needs_paren classification of every emitter, taint from Go text to Coq string/comment sinks with value-specific guard facts, control-dependence of configuration flags, cross-check of sibling printers (path signatures of text-buffer operations), sentence shape of declaration printers, dominance of the comment-only type test over every whole-line write of a binding's expression",
         "Decides by structural induction over the printer (every emitter balanced given balanced holes, every emitter honours/passes needs_paren or is closed/atomic) and by taint analysis that source text reaches Coq strings only under a no-quote fact for that value and comments only through the two-pass sanitiser, that flags cannot influence bodies and that no declaration text is used as a term. Level 'other'.",
         "Coq's actual parser is not run; its documented lexical rules are used. Three known findings (for-init and non-tail block scope leak, quotes inside comments).", "DESIGN.md §4 C05"),
 "C06": ("map-range idiom classification, global-store and mutating-method scan, goroutine capture analysis (own-slot writes, per-iteration captured index), ambient-source and channel-receive who-may-call, type-directed scan of the operands formatted into structured-error messages (no address-printing types), with a positive-control package",
         "Decides the structural causes of non-determinism and cross-package influence for every run and schedule: no order-sensitive map iteration, package-level state immutable after init, workers write only their own slot and follow the WaitGroup protocol, no clock/random/env sources, sort before emit, the command writes a package's file depending only on that package's error. Level 'other'.",
         "Races inside go/packages/go/types are not decided (documented concurrency-safe).", "DESIGN.md §4 C06"),
 "C07": ("call-graph recover discipline + audited enumeration of every potential run-time panic site (raw panics, single-result assertions, constant and variable indices, slice bounds, partial helpers, partial accessors of go/constant, nil-returning accessors of go/types, nil packages, nil-able AST fields, binding arity) with automatic discharge by must-facts (length bounds, nil/kind/type tests, caller-established facts), structural invariants and construct-keyed audit tables; completeness of context and types.Info literals; the deferred recoverer stores or re-panics on every path",
         "Decides for all type-correct inputs that a structured error is always recovered, and that every raw panic, single-result type assertion, constant slice index, partial-helper call, nil go/types package and documented-nil go/ast field in the translator and printer is guarded or justified by a named go/ast / go/types / Go-typing invariant; new unaudited sites fail. Also categories, positions and error aggregation. Level 'other'.",
         "Termination and panics inside dependencies are not decided; the invariant tables are reviewed by hand and listed in the evidence.", "DESIGN.md §4 C07"),
 "C08": ("table extraction from init SSA, callback-shape facts (packages.Visit pre/post), path enumeration of header/footer, structural keys of the emitted Require and file paths on abstract paths (every occurrence of the import path lies inside the one path mapping)",
         "Decides that the FFI table is consistent with the builtin table, the import-graph walk prunes exactly at FFI packages and refuses two FFIs, header/footer pair up, the Require path and the output file path both derive from pathToCoqPath of the whole import path, ImportDecls are produced exactly for non-builtin imports, printed once sorted and de-duplicated. Level 'other'.",
         "Coq resolving the Require is not decided.", "DESIGN.md §4 C08"),
 "C11": ("path enumeration with branch facts (error/count result discipline), must-pass-through (fsync), unit-aware open-path rule",
         "Decides for every path through every system call of the file disk that a failure cannot reach a normal return (error tested or returned; pread/pwrite count proven equal to the block size), that Barrier/Close pass through fsync/close of the disk's descriptor on every returning path, and that a successful open either resizes a regular file to numBlocks*BlockSize bytes or proved that size in bytes, with O_CREAT|O_RDWR and without O_TRUNC. Level 'other'.",
         "Durability on hardware and crash recovery are not decided; documented syscall semantics trusted.", "DESIGN.md §4 C11"),
 "C12": ("alias/provenance flow on SSA, must-facts (create-only-when-absent, result constant under the existence fact), sibling shape, parameter roles of Link in both implementations, origin analysis of the listing result",
         "Decides necessary structural clauses of the reference model for all histories: descriptors come from a fresh allocation, caller/returned byte slices never alias stored contents, Create updates nothing when the name exists, ReadAt returns buf[:n] of a fresh buffer from the requested offset, Link shares the inode, Delete removes only the directory entry, wrappers forward, AtomicCreate installs exactly the data. Level 'other'.",
         "Equality with a reference model over all histories is not decided. One known finding (MemFs.Open shares the creator's descriptor).", "DESIGN.md §4 C12"),
 "C13": ("protocol-order dominance + path enumeration, write-all loop idioms (remaining slice, offset), flag and path-provenance checks, shared non-zero counter step",
         "Decides on every normally returning path of the directory-backed AtomicCreate the order openat(staging) < write-all < fsync < renameat, every error checked, staging file starts empty, rename source is the staging path, staging path unique per call; and that the in-memory version installs a private complete copy under a fresh inode. Level 'other'.",
         "Host-filesystem crash atomicity and rename atomicity are trusted, not decided.", "DESIGN.md §4 C13"),
 "C14": ("lockset dataflow with interprocedural helper entry states, allocator freshness idiom (every allocated number inserted before return), exactly one acquisition of the mutex on every abstract path of an operation, flag checks",
         "Decides for every interleaving the lock discipline of the in-memory filesystem (all map reads/writes under its mutex, helpers only called with it held, released on every exit incl. panics), that the inode allocator is fresh (insert-only contents map, len+1), that DirFs.Create is a single O_CREAT|O_EXCL openat and DirFs has no in-process shared state. Level 'other'.",
         "Linearizability against the model and kernel atomicity are not decided.", "DESIGN.md §4 C14"),
 "C15": ("idiom recognition over the resolved program (delegation to encoding/binary.LittleEndian or explicit little-endian lane map)",
         "Decides that each Put/Get is exactly a forwarded call of the matching LittleEndian method (or a verified lane idiom with refusal-before-write); with the documented contract of encoding/binary this gives little-endian framing and invertibility for every value and buffer. Level 'other'.",
         "Trusted base: documented contract of encoding/binary.", "DESIGN.md §4 C15"),
 "C16": ("idiom recognition + exhaustive two-valued CFG evaluation (Assume/Assert); forwarding shape or, for a timed wait implemented here, lock-last and timer facts on its abstract paths; the implementation of the timed wait is followed into the dependency and every return must observe the completion of the background waiter it started (select-arm facts)",
         "Decides canonical-decimal formatting of the uint64 parameter, delete-all MapClear (clear builtin), Assume/Assert panic iff the argument is false by exhaustive evaluation of their CFG for c in {true,false}, and the forwarding shape of WaitTimeout/NewProph/Sleep. Level 'other'.",
         "WaitTimeout's timing and lock state live in another module and are timing dependent: not decided.", "DESIGN.md §4 C16"),
 "C17": ("abstract interprocedural paths of translate/TranslatePackages/the file writer (helpers spliced in, loop state symbolic so that a one-iteration path is an inductive step) for exit status, write gating, file placement, compare-before-write and loading; phi-structure of the error flag or integer status; exit status as what reaches os.Exit (directly or as the returned status); dominance of flag.Parse; table extraction of loader config and flag wiring",
         "Decides that the exit status is non-zero iff some package failed (monotone flag, return only on flag false, every os.Exit non-zero), that every clean package is written and a failed one only under -ignore-errors, at path.Join(out, ImportToPath(pkg path)), unchanged files are not rewritten and changed ones are written by os.WriteFile, the loader uses -tags goose / Dir / unchanged patterns, and the partial file carries the declarations that translated. Level 'other'.",
         "What go/packages matches and file-system effects are not decided.", "DESIGN.md §4 C17"),
 "C18": ("regular-language equivalence (regexp/syntax -> NFA -> simultaneous subset construction) of the two generators' patterns; facts and ordered events on the abstract interprocedural paths of main (generators identified by what they write; callbacks spliced in; suffix predicates incl. table-driven helpers) for filters, scan loop and emissions (symbolic reconstruction of the matched name); the generated Go text is assembled from the constant templates, parsed (go/parser), resolved, and type-checked against the semantics package through a go/packages overlay (go/types; nothing is executed)",
         "Decides that both generators match exactly the same lines (language equivalence of the two regex literals and of their groups, name reconstruction), apply the same file filter, emit exactly one test per match with Fail iff the failing group is non-empty, and truncate the output file. Level 'other'.",
         "Matches inside raw strings/block comments are a shared limitation of the line-regex approach: not decided. One known finding (testX and failing_testX share the suite method name TestX).", "DESIGN.md §4 C18"),
}

NOT_APPLICABLE = {
}

def main():
    props = [json.loads(l)["id"] for l in open("/verif/properties.jsonl")]
    checks = []
    for pid in props:
        if pid in CHECKS:
            tech, text, note, ref = CHECKS[pid]
            checks.append({
                "property_id": pid,
                "quick_cmd": f"./check {pid} quick",
                "thorough_cmd": f"./check {pid} thorough",
                "evidence_file": f"/verif/evidence/{pid}.json",
                "replay_cmd_template": f"./check {pid} quick   # replay file {{path}} names the rule and construct",
                "engine": "goosecheck",
                "level_claimed": {"category": "other", "text": text, "design_ref": ref},
                "level_note": note,
                "technique": "static analysis: " + tech,
            })
    na = []
    for pid in props:
        if pid not in CHECKS:
            na.append({"property_id": pid, "reason": NOT_APPLICABLE.get(pid, "static rules for this property are designed in DESIGN.md but not yet implemented in the committed checker; not claimed until they are")})
    m = {
        "version": 1,
        "setup_cmd": "cd /verif/checker && GOFLAGS=-mod=mod GOPROXY=off GOSUMDB=off GOTOOLCHAIN=local GOWORK=off go build -o /verif/bin/goosecheck .",
        "hooks": {"guard": "verif", "enable": "none needed: static analysis reads /repo's source, nothing is instrumented",
                  "baseline_off_cmd": "cd /repo && GOFLAGS=-mod=mod go test -vet=off -count=1 ./...",
                  "source_commits": [], "add_only": True},
        "engines": [{"name": "goosecheck", "path": "/verif/checker", "serves_properties": [c["property_id"] for c in checks],
                     "kind_free_text": "repository-specific static analyser (go/packages + go/ssa, x/tools v0.29.0): must-fact dataflow, lockset, alias flow, path enumeration, table extraction"}],
        "checks": checks,
        "not_applicable": na,
        "notes": "All checks are static analysis of /repo's working tree; nothing from /repo is executed. Genuine defects found were repaired by 'fix:' commits in /repo or are listed in /verif/known-findings.json.",
    }
    json.dump(m, open("/verif/MANIFEST.json", "w"), indent=1)
    print("wrote MANIFEST.json:", len(checks), "checks,", len(na), "not applicable")

main()
