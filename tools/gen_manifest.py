#!/usr/bin/env python3
"""Regenerates /verif/MANIFEST.json from the table below (single source of truth)."""
import json, subprocess, sys

CHECKS = {
 # id: (technique, level text, level note, design ref)
 "C09": ("SSA must-facts (guard domination with helper summaries) + alias-flow ownership + lockset",
         "Decides necessary structural conditions of the register-array behaviour for every address, buffer and history at once: range/size guards dominate every storage access, offsets are exactly addr*BlockSize, caller memory is never retained or exposed, disk fields are immutable after construction, async_disk and the global wrappers are pure aliases/forwarders, a refused operation cannot leave the in-memory disk locked. Level 'other': a static proof of these clauses, not of Mem/File result equality.",
         "Does not decide equality of results over all histories. Trusts go/types, go/ssa, documented semantics of copy/make/pread/pwrite.", "DESIGN.md §4 C09"),
 "C10": ("lockset dataflow on SSA (sets of lock configurations) + lock-identity + who-may-call on syscalls",
         "Decides the lock discipline that linearizability of the in-memory disk rests on, for every interleaving: each element read under the mutex (R/W), each element write under W, released on every exit including panics, the mutex is shared (not a per-call copy); the file disk transfers data only by pread/pwrite and has no mutable shared state. Level 'other'.",
         "Linearizability itself and kernel atomicity of pread/pwrite are not decided; sync.RWMutex is trusted.", "DESIGN.md §4 C10"),
}

NOT_APPLICABLE = {
}

def main():
    props = [json.loads(l)["id"] for l in open("/verif/properties.jsonl")]
    checks = []
    for pid in props:
        if pid in CHECKS:
            tech, text, note, ref = CHECKS[pid]
            checks.append({
                "property_id": pid,
                "quick_cmd": f"./check {pid} quick",
                "thorough_cmd": f"./check {pid} thorough",
                "evidence_file": f"/verif/evidence/{pid}.json",
                "replay_cmd_template": f"./check {pid} quick   # replay file {{path}} names the rule and construct",
                "engine": "goosecheck",
                "level_claimed": {"category": "other", "text": text, "design_ref": ref},
                "level_note": note,
                "technique": "static analysis: " + tech,
            })
    na = []
    for pid in props:
        if pid not in CHECKS:
            na.append({"property_id": pid, "reason": NOT_APPLICABLE.get(pid, "static rules for this property are designed in DESIGN.md but not yet implemented in the committed checker; not claimed until they are")})
    m = {
        "version": 1,
        "setup_cmd": "cd /verif/checker && GOFLAGS=-mod=mod GOPROXY=off GOSUMDB=off GOTOOLCHAIN=local GOWORK=off go build -o /verif/bin/goosecheck .",
        "hooks": {"guard": "verif", "enable": "none needed: static analysis reads /repo's source, nothing is instrumented",
                  "baseline_off_cmd": "cd /repo && GOFLAGS=-mod=mod go test -vet=off -count=1 ./...",
                  "source_commits": [], "add_only": True},
        "engines": [{"name": "goosecheck", "path": "/verif/checker", "serves_properties": [c["property_id"] for c in checks],
                     "kind_free_text": "repository-specific static analyser (go/packages + go/ssa, x/tools v0.29.0): must-fact dataflow, lockset, alias flow, path enumeration, table extraction"}],
        "checks": checks,
        "not_applicable": na,
        "notes": "All checks are static analysis of /repo's working tree; nothing from /repo is executed. Genuine defects found were repaired by 'fix:' commits in /repo or are listed in /verif/known-findings.json.",
    }
    json.dump(m, open("/verif/MANIFEST.json", "w"), indent=1)
    print("wrote MANIFEST.json:", len(checks), "checks,", len(na), "not applicable")

main()
