#!/usr/bin/env python3
"""mkmeta.py <id>... : create meta.json for verified seeds /verif/seeded/<id>/ from their README (round-2 format)."""
import json,os,re,sys
titles={json.loads(l)['id']:json.loads(l)['title'] for l in open('/verif/properties.jsonl')}
for sid in sys.argv[1:]:
    pid=sid.split('-')[0]
    d=f'/verif/seeded/{sid}'
    readme=open(d+'/README.md').read() if os.path.exists(d+'/README.md') else ''
    lines=[l.strip() for l in readme.split('\n') if l.strip()]
    summary=lines[0].lstrip('# ').strip() if lines else ''
    need=''
    for para in re.split(r'\n\s*\n', readme):
        if re.search(r'manifest|[Tt]rigger|needed|needs|only for|requires', para):
            need=' '.join(para.split())[:700]; break
    demo=[]
    for root,_,files in os.walk(d+'/demo'):
        for f in files: demo.append(os.path.relpath(os.path.join(root,f), d+'/demo'))
    m={"id":sid,"breaks_property":pid,"property_title":titles[pid],
       "origin":"independent sub-agent (round 2) given only the property text and its own scratch worktree",
       "needs_to_manifest":need,"demo":sorted(demo)[:12],
       "confirmed":{"how":"tools/verify_seed.sh: scratch worktree of /repo HEAD; git apply patch.diff; go build ./...; go test -vet=off -count=1 ./... (suite passes with the change); demo fails with the change; git checkout; demo passes without the change; worktree removed","build":"ok","suite_with_change":"pass","demo_with_change":"fail","demo_without_change":"pass"},
       "caught_by_checks":[],
       "checks_run":"tools/refresh_matrix.sh: every property's quick check run on a scratch copy with the patch applied (goosecheck -repo <copy> -no-evidence)",
       "summary":summary[:200],"change":' '.join(readme.split())[:900]}
    json.dump(m,open(d+'/meta.json','w'),indent=1)
    print('meta',sid)
