#!/usr/bin/env python3
"""sweep_recheck.py <results.jsonl> <out.jsonl> [workers] [filter: silent|all]: re-analyse the surviving mutants of a sweep with the
current bin/goosecheck (no rebuild/test run: survival was established by the sweep). Mutants of files that changed
in /repo since the sweep (different length) are skipped."""
import json, os, shutil, subprocess, sys, multiprocessing as mp, tempfile
ENV = dict(os.environ, GOFLAGS='-mod=mod', GOPROXY='off', GOSUMDB='off', GOTOOLCHAIN='local'); ENV.pop('GOWORK', None)
REPO='/repo'; _dir=None
def init():
    global _dir
    _dir = tempfile.mkdtemp(prefix='mr-', dir='/tmp')
    subprocess.run(['cp','-a',REPO+'/.',_dir+'/']); shutil.rmtree(_dir+'/.git', ignore_errors=True)
def work(m):
    path=os.path.join(_dir,m['file']); orig=open(os.path.join(REPO,m['file']),'rb').read()
    if orig[m['start']:m['end']].decode(errors='replace')[:80] != m['orig'].rstrip('…')[:80] and not m['orig'].endswith('…'):
        return None
    if m['orig'].endswith('…') and not orig[m['start']:m['end']].decode(errors='replace').startswith(m['orig'][:-1]):
        return None
    open(path,'wb').write(orig[:m['start']]+m['repl'].encode()+orig[m['end']:])
    try:
        p=subprocess.run('/verif/bin/goosecheck.sweep2 -all -repo %s -verif /verif'%_dir, shell=True, cwd='/verif', env=ENV, stdout=subprocess.PIPE, stderr=subprocess.STDOUT, text=True, timeout=900)
        r=dict(m); r['alarms']=[l for l in p.stdout.splitlines() if l.startswith(('ALARM','LOAD-FAIL','panic','PANIC'))]; r['silent']=(p.returncode==0)
        return r
    finally:
        open(path,'wb').write(orig)
def main():
    rs=[json.loads(l) for l in open(sys.argv[1])]
    n=int(sys.argv[3]) if len(sys.argv)>3 else 12
    flt=sys.argv[4] if len(sys.argv)>4 else 'silent'
    rs=[r for r in rs if r['status']=='survivor' and (flt=='all' or r.get('silent'))]
    shutil.copy('/verif/bin/goosecheck','/verif/bin/goosecheck.sweep2')
    with mp.Pool(n, initializer=init) as pool, open(sys.argv[2],'w') as f:
        for i,r in enumerate(pool.imap_unordered(work, rs)):
            if r is not None:
                r['status']='survivor'; f.write(json.dumps(r)+'\n'); f.flush()
            if i%50==0: print(i,len(rs),flush=True)
    subprocess.run('rm -rf /tmp/mr-*', shell=True)
main()
