#!/usr/bin/env python3
"""sweep_report.py <results.jsonl> [silent|alarm|all] [file-regex]: list surviving mutants (build + suite pass) with what goosecheck -all said."""
import json, sys, re, collections
rs=[json.loads(l) for l in open(sys.argv[1])]
mode=sys.argv[2] if len(sys.argv)>2 else 'all'
fre=re.compile(sys.argv[3]) if len(sys.argv)>3 else None
c=collections.Counter(r['status'] for r in rs)
sv=[r for r in rs if r['status']=='survivor']
print('#', dict(c), 'survivors silent', sum(1 for r in sv if r['silent']), 'alarmed', sum(1 for r in sv if not r['silent']))
sv.sort(key=lambda r:(r['file'],r['line'],r['id']))
for r in sv:
    if fre and not fre.search(r['file']): continue
    if mode=='silent' and not r['silent']: continue
    if mode=='alarm' and r['silent']: continue
    rules=sorted({' '.join(a.split()[1:3]) for a in r.get('alarms',[])})
    print(f"{r['id']:5} {r['file']}:{r['line']} {r['func']} | {r['op']} | {r['orig'][:50]!r} -> {r['repl'][:40]!r} | {'SILENT' if r['silent'] else ','.join(rules)[:100]}")
