#!/bin/bash
# matrix.sh <name> : analyse seeded change <name> in a scratch worktree with every property check; write caught list.
name=$1
wt=/tmp/mx/$name
mkdir -p /tmp/mx; rm -rf "$wt"
git -C /repo worktree add --detach -q "$wt" HEAD || exit 1
trap 'git -C /repo worktree remove --force "$wt" 2>/dev/null; rm -rf "$wt"' EXIT
git -C "$wt" apply /verif/seeded/$name/patch.diff || { echo "$name: patch does not apply"; exit 2; }
caught=""
for p in C01 C02 C03 C04 C05 C06 C07 C08 C09 C10 C11 C12 C13 C14 C15 C16 C17 C18; do
  out=$(/verif/bin/goosecheck -prop $p -repo "$wt" -no-evidence 2>&1)
  if echo "$out" | grep -q "^VIOLATION"; then
    rules=$(echo "$out" | grep "^  rule " | sed 's/^  rule \(R[0-9a-z]*\) \[\(.*\)\] at.*/\1 [\2]/' | head -4 | paste -sd';')
    caught="$caught$p: $rules\n"
  fi
done
printf "%b" "$caught" > /tmp/mx/$name.caught
echo "$name: $(printf "%b" "$caught" | cut -d: -f1 | paste -sd,)"
