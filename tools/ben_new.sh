#!/bin/bash
# ben_new.sh <props>: all benign corpora with bin/goosecheck.new; alarms only
props=$1
one() { patch=$1; name=$2; props=$3; d=$(mktemp -d /tmp/bq-XXXX); cp -a /repo/. $d/; rm -rf $d/.git; (cd $d && git apply "$patch") 2>/dev/null || { echo "$name: NOAPPLY"; rm -rf $d; return; }
  al=""; for p in ${props//,/ }; do out=$(/verif/bin/goosecheck.new -prop $p -repo $d -no-evidence 2>&1); if echo "$out" | grep -q "^VIOLATION"; then al="$al [$p] $(echo "$out" | grep '^  rule' | head -2 | cut -c1-160 | tr '\n' '|')"; fi; done
  [ -n "$al" ] && echo "$name: ALARM$al"; rm -rf $d; }
export -f one
for dir in benign benign-heldout benign-heldout2 benign-heldout3 benign-heldout4 benign-heldout5 benign-heldout6 benign-heldout7 benign-heldout8; do for p in /verif/mutants/$dir/*.patch; do echo "$p $dir/$(basename $p .patch) $props"; done; done | xargs -P 5 -L1 bash -c 'one "$0" "$1" "$2"'
echo "(done)"
