#!/bin/bash
# runs every seed/mutant patch against the property checks that should catch it; prints CAUGHT/MISSED
# usage: battery.sh  (reads /verif/tools/battery.txt: "<patch> <prop>[,<prop>...] <expect: caught|silent>")
cd /verif
while read -r patch props expect; do
  [ -z "$patch" ] && continue
  case "$patch" in \#*) continue;; esac
  if ! (cd /repo && git apply --check "$patch" 2>/dev/null); then echo "SKIP(does not apply) $patch"; continue; fi
  (cd /repo && git apply "$patch")
  res="silent"
  for p in ${props//,/ }; do
    out=$(/verif/bin/goosecheck -prop $p -no-evidence 2>&1)
    if echo "$out" | grep -q "^VIOLATION"; then res="caught"; fi
  done
  (cd /repo && git checkout -- . && git clean -fdq)
  if [ "$res" = "$expect" ]; then echo "ok   $expect $patch [$props]"; else echo "FAIL want=$expect got=$res $patch [$props]"; fi
done < /verif/tools/battery.txt
