#!/bin/bash
# quick_ben.sh <props> <glob-of-benign-names...>
props=$1; shift
for pat in "$@"; do for p in /verif/mutants/benign/$pat.patch; do n=$(basename $p .patch); echo "$p $n $props"; done; done | xargs -P 8 -L1 /verif/tools/benign_fast.sh 2>&1
