#!/bin/bash
# like benign.sh but without re-running the suite (patches were verified when collected)
patch=$(realpath "$1"); name=$2; props=$3
d=$(mktemp -d /tmp/bn-XXXX); trap 'rm -rf $d' EXIT
cp -a /repo/. $d/ && rm -rf $d/.git
(cd $d && git apply "$patch") 2>/dev/null || { echo "$name: PATCH-DOES-NOT-APPLY"; exit 2; }
alarms=""
for p in ${props//,/ }; do
  out=$(/verif/bin/goosecheck -prop $p -repo $d -no-evidence 2>&1)
  if echo "$out" | grep -q "^VIOLATION"; then
    alarms="$alarms\n  [$p] $(echo "$out" | grep "^  rule " | head -${BN_LINES:-3} | cut -c1-${BN_COLS:-200} | paste -sd'|' | sed 's/|/\n       /g')"
  fi
done
if [ -z "$alarms" ]; then echo "$name: silent"; else printf "$name: ALARM$alarms\n"; fi
