#!/bin/bash
# verify_seed.sh <srcdir> <name> : verify a seeded change (patch.diff + demo) in a scratch worktree of /repo HEAD;
# on success copy it to /verif/seeded/<name>/ with meta.json. Prints one status line.
src=$(realpath "$1"); name=$2
export GOFLAGS=-mod=mod GOPROXY=off GOSUMDB=off GOTOOLCHAIN=local
wt=/tmp/vs/$name
rm -rf "$wt"; mkdir -p /tmp/vs
git -C /repo worktree add --detach -q "$wt" HEAD 2>/dev/null || { echo "$name: WORKTREE-FAIL"; exit 1; }
cleanup() { git -C /repo worktree remove --force "$wt" 2>/dev/null; rm -rf "$wt"; }
trap cleanup EXIT
run_demo() { # runs the demo against $wt; exit status 0 = demo passes
  if [ -f "$src/demo/run.sh" ]; then
    (cd "$src/demo" && bash ./run.sh "$wt") >"$1" 2>&1; return $?
  fi
  tf=$(ls "$src"/demo/*_test.go 2>/dev/null | head -1)
  [ -z "$tf" ] && { echo "no demo" >"$1"; return 99; }
  pkg=$(grep -m1 "^package " "$tf" | awk "{print \$2}" | sed "s/_test$//")
  case "$pkg" in
    disk) dir=machine/disk;; filesys) dir=machine/filesys;; machine) dir=machine;; goose) dir=.;; coq) dir=internal/coq;; async_disk) dir=machine/async_disk;; *) dir=.;;
  esac
  tests=$(grep -o '^func Test[A-Za-z0-9_]*' "$tf" | sed 's/func //' | paste -sd'|')
  cp "$tf" "$wt/$dir/"
  (cd "$wt" && go test -vet=off -count=1 -run "^($tests)\$" "./$dir/") >"$1" 2>&1; rc=$?
  rm -f "$wt/$dir/$(basename "$tf")"
  return $rc
}
out=/tmp/vs/$name.log; : >"$out"
if ! git -C "$wt" apply "$src/patch.diff" 2>>"$out"; then echo "$name: PATCH-DOES-NOT-APPLY"; exit 2; fi
if ! (cd "$wt" && go build ./... ) >>"$out" 2>&1; then echo "$name: BUILD-FAIL"; exit 3; fi
if ! (cd "$wt" && go test -vet=off -count=1 ./... ) >>"$out" 2>&1; then echo "$name: SUITE-FAILS-WITH-CHANGE"; exit 4; fi
run_demo /tmp/vs/$name.with.log; rc_with=$?
git -C "$wt" checkout -q -- . ; git -C "$wt" clean -fdq
run_demo /tmp/vs/$name.without.log; rc_without=$?
if [ $rc_with -ne 0 ] && [ $rc_without -eq 0 ]; then
  dst=/verif/seeded/$name; rm -rf "$dst"; mkdir -p "$dst"
  cp "$src/patch.diff" "$dst/patch.diff"; cp -r "$src/demo" "$dst/demo"; [ -f "$src/README.md" ] && cp "$src/README.md" "$dst/README.md"
  tail -c 1500 /tmp/vs/$name.with.log > "$dst/demo_with_change.log"
  echo "$name: OK (demo rc with=$rc_with without=$rc_without)"
else
  echo "$name: DEMO-MISMATCH (with=$rc_with without=$rc_without)"; exit 5
fi
