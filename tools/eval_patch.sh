#!/bin/bash
# eval_patch.sh <patch> <name>: scratch copy of /repo + patch; build + suite; goosecheck -all. One summary line.
patch=$(realpath "$1"); name=$2
export GOFLAGS=-mod=mod GOPROXY=off GOSUMDB=off GOTOOLCHAIN=local
d=$(mktemp -d /tmp/ev-XXXX); trap 'rm -rf $d' EXIT
cp -a /repo/. $d/ && rm -rf $d/.git
(cd $d && git apply "$patch") 2>/dev/null || { echo "$name: PATCH-DOES-NOT-APPLY"; exit 2; }
if [ -z "$NOSUITE" ]; then
  (cd $d && go build ./... && go test -vet=off -count=1 ./... ) >/dev/null 2>&1 || { echo "$name: SUITE-FAILS"; exit 3; }
fi
out=$(${GC:-/verif/bin/goosecheck} -all -repo $d -verif /verif 2>&1)
if echo "$out" | grep -q "^SILENT"; then echo "$name: silent"; else echo "$name: ALARM $(echo "$out" | grep '^ALARM\|^LOAD\|anic' | awk '{print $2" "$3}' | sort -u | tr '\n' ',' | cut -c1-300)"; echo "$out" | grep '^ALARM\|^LOAD\|anic' | head -${EV_LINES:-4} | cut -c1-260 | sed 's/^/      /'; fi
