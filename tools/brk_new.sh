#!/bin/bash
# brk_new.sh <regex>: like breaking_all but with bin/goosecheck.new
one() { patch=$1; name=$2; props=$3; d=$(mktemp -d /tmp/bk-XXXX); cp -a /repo/. $d/; rm -rf $d/.git; (cd $d && git apply "$patch") 2>/dev/null || { echo "$name: NOAPPLY"; rm -rf $d; return; }
  got=""; for p in ${props//,/ }; do if /verif/bin/goosecheck.new -prop $p -repo $d -no-evidence 2>&1 | grep -q "^VIOLATION"; then got="$got $p"; fi; done
  if [ -n "$got" ]; then echo "$name: caught by$got"; else echo "$name: MISSED ($props)"; fi; rm -rf $d; }
export -f one
cd /verif
{ for s in seeded/*/; do n=$(basename $s); pr=$(python3 -c "import json;d=json.load(open('$s/meta.json'));print(','.join(sorted({c.split(':')[0] for c in d.get('caught_by_checks',[])}) or [d['breaks_property']]))"); echo "/verif/$s/patch.diff $n $pr"; done; for m in mutants/C*/*.patch; do pr=$(basename $(dirname $m)); echo "/verif/$m $pr/$(basename $m .patch) $pr"; done; } | grep -E "${1:-.}" | xargs -P 6 -L1 bash -c 'one "$0" "$1" "$2"' 2>&1 | sort
