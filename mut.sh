#!/bin/bash
# usage: mut.sh <patch> <prop>...   — apply patch to /repo, run the checks (no evidence written), revert.
set -u
patch=$(realpath "$1"); shift
cd /repo || exit 2
if ! git diff --quiet; then echo "repo dirty"; exit 2; fi
if ! git apply "$patch"; then echo "PATCH DOES NOT APPLY: $patch"; exit 3; fi
rc=0
for p in "$@"; do
  /verif/bin/goosecheck -prop "$p" -no-evidence 2>&1 | grep -E "VIOLATION|rule |KNOWN|^C[0-9]+:" | head -${MUT_LINES:-8}
done
git checkout -- . && git clean -fdq
