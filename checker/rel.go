package main

import (
	"go/token"
	"regexp"
	"sort"
	"strings"

	"golang.org/x/tools/go/ssa"
)

// relOf normalises a comparison fact (cond, truth) into a canonical relation
// string over exprKeys: "x < y", "x <= y", "x == y", "x != y". Orientation:
// > and >= are rewritten to < and <= by swapping; == and != sort operands.
// relKeyFn, when set, renders the operands of relations (used to resolve the phis nested in a
// condition according to its position on an enumerated path).
var relKeyFn func(ssa.Value) string

func rk(v ssa.Value) string {
	if relKeyFn != nil {
		return relKeyFn(v)
	}
	return sk(v)
}

func relOf(f fact) (string, bool) {
	b, ok := f.Cond.(*ssa.BinOp)
	if !ok {
		// a call of a straight-line helper that returns a comparison: use the comparison itself
		if c, isCall := f.Cond.(*ssa.Call); isCall {
			if r, ok := relFromKey(rk(c), f.Val); ok {
				return r, true
			}
		}
		// boolean value itself, or negation
		if u, ok := f.Cond.(*ssa.UnOp); ok && u.Op == token.NOT {
			return relOf(fact{Cond: u.X, Val: !f.Val})
		}
		if f.Val {
			return rk(f.Cond) + " == true", true
		}
		return rk(f.Cond) + " == false", true
	}
	op := b.Op
	x, y := rk(b.X), rk(b.Y)
	if !f.Val {
		switch op {
		case token.LSS:
			op = token.GEQ
		case token.LEQ:
			op = token.GTR
		case token.GTR:
			op = token.LEQ
		case token.GEQ:
			op = token.LSS
		case token.EQL:
			op = token.NEQ
		case token.NEQ:
			op = token.EQL
		default:
			return "", false
		}
	}
	switch op {
	case token.GTR:
		return y + " < " + x, true
	case token.GEQ:
		return y + " <= " + x, true
	case token.LSS:
		return x + " < " + y, true
	case token.LEQ:
		return x + " <= " + y, true
	case token.EQL, token.NEQ:
		if y < x {
			x, y = y, x
		}
		if op == token.EQL {
			return x + " == " + y, true
		}
		return x + " != " + y, true
	}
	return "", false
}

func relList(m relSet) []string {
	var l []string
	for k := range m {
		l = append(l, k)
	}
	sort.Strings(l)
	return l
}

func eqRel(x, y string) string {
	if y < x {
		x, y = y, x
	}
	return x + " == " + y
}

var identRe = regexp.MustCompile(`[A-Za-z_][A-Za-z_0-9]*`)

// substIdents replaces free identifiers (not preceded by '.', not followed by
// '(' i.e. not a field name or a function name) according to sub.
func substIdents(s string, sub map[string]string) string {
	var b strings.Builder
	last := 0
	for _, loc := range identRe.FindAllStringIndex(s, -1) {
		id := s[loc[0]:loc[1]]
		rep, ok := sub[id]
		if !ok {
			continue
		}
		if loc[0] > 0 && (s[loc[0]-1] == '.' || s[loc[0]-1] == '"') {
			continue
		}
		if loc[1] < len(s) && s[loc[1]] == '(' {
			continue
		}
		b.WriteString(s[last:loc[0]])
		b.WriteString(rep)
		last = loc[1]
	}
	b.WriteString(s[last:])
	return b.String()
}

// renormRel re-sorts the operands of == / != relations after substitution.
func renormRel(s string) string {
	// a comparison used as a boolean value: (a != b) == false is a == b
	for _, tv := range []string{"true", "false"} {
		for _, form := range [][2]string{{"", " == " + tv}, {tv + " == ", ""}} {
			if strings.HasPrefix(s, form[0]) && strings.HasSuffix(s, form[1]) && len(s) > len(form[0])+len(form[1]) {
				k := s[len(form[0]) : len(s)-len(form[1])]
				if len(k) > 2 && k[0] == '(' && k[len(k)-1] == ')' && topLevelIndex(k, " == ") < 0 && topLevelIndex(k, " != ") < 0 {
					if r, ok := relFromKey(k, tv == "true"); ok {
						return renormRel(r)
					}
				}
			}
		}
	}
	for _, op := range []string{" == ", " != "} {
		if i := topLevelIndex(s, op); i >= 0 {
			x, y := s[:i], s[i+len(op):]
			if y < x {
				x, y = y, x
			}
			return x + op + y
		}
	}
	return s
}

// topLevelIndex finds op outside parentheses/brackets.
func topLevelIndex(s, op string) int {
	d := 0
	for i := 0; i+len(op) <= len(s); i++ {
		switch s[i] {
		case '(', '[':
			d++
		case ')', ']':
			d--
		}
		if d == 0 && strings.HasPrefix(s[i:], op) {
			return i
		}
	}
	return -1
}

// relFromKey turns a key of the form "(A op B)" (an inlined comparison) with a truth value into a canonical relation.
func relFromKey(k string, val bool) (string, bool) {
	if len(k) < 2 || k[0] != '(' || k[len(k)-1] != ')' {
		return "", false
	}
	in := k[1 : len(k)-1]
	for _, op := range []string{" <= ", " >= ", " == ", " != ", " < ", " > "} {
		i := topLevelIndex(in, op)
		if i < 0 {
			continue
		}
		x, y := in[:i], in[i+len(op):]
		o := strings.TrimSpace(op)
		if !val {
			o = map[string]string{"<": ">=", "<=": ">", ">": "<=", ">=": "<", "==": "!=", "!=": "=="}[o]
		}
		switch o {
		case ">":
			return y + " < " + x, true
		case ">=":
			return y + " <= " + x, true
		case "<":
			return x + " < " + y, true
		case "<=":
			return x + " <= " + y, true
		case "==", "!=":
			if y < x {
				x, y = y, x
			}
			return x + " " + o + " " + y, true
		}
	}
	return "", false
}
