package main

import (
	"go/token"
	"go/types"
	"sort"
	"strings"

	"golang.org/x/tools/go/ssa"
)

// Resolved recognition of predeclared identifiers, found by role rather than by name.
//
// A *base* is a function of the translator that compares an object's Parent() scope with
// types.Universe and returns true only through that comparison. A *resolved recogniser* is a
// base, or a function every positive return of which (true / a non-empty string) lies on a
// path that positively depends on a call of a base or of another resolved recogniser. The
// facts "R(…,"name") == true" and ""name" == R(…)#0" for such an R are what licenses the
// translator to treat an identifier as the predeclared object of that name.

func (p *Prog) universeBases() []*ssa.Function {
	var out []*ssa.Function
	for _, f := range p.FuncsIn(Mod) {
		uses := false
		p.instrs(f, func(b *ssa.BasicBlock, i int, in ssa.Instruction) {
			bo, ok := in.(*ssa.BinOp)
			if !ok || bo.Op != token.EQL {
				return
			}
			for _, pr := range [][2]ssa.Value{{bo.X, bo.Y}, {bo.Y, bo.X}} {
				if isUniverseLoad(pr[0]) {
					if c, ok := pr[1].(*ssa.Call); ok && c.Call.IsInvoke() && c.Call.Method.Name() == "Parent" {
						uses = true
					}
				}
			}
		})
		if !uses {
			continue
		}
		// every positive return is the comparison itself
		ips, ok := p.ipaths(f)
		if !ok || len(ips) == 0 {
			continue
		}
		good := true
		for _, ip := range ips {
			if ip.Exit != "return" || len(ip.Ret) == 0 {
				continue
			}
			r0 := ip.Ret[0]
			if r0 == "false" || r0 == `""` {
				continue
			}
			if !strings.Contains(r0, "Universe") && !relsMention(ip.Rels, "Universe") {
				good = false
			}
		}
		if good {
			out = append(out, f)
		}
	}
	return out
}

func isUniverseLoad(v ssa.Value) bool {
	u, ok := v.(*ssa.UnOp)
	if !ok || u.Op != token.MUL {
		return false
	}
	g, ok := u.X.(*ssa.Global)
	return ok && g.Pkg != nil && g.Pkg.Pkg.Path() == "go/types" && g.Name() == "Universe"
}

// relsMention: some fact mentions sub positively (not as "… == false" / "… != …").
func relsMention(rs relSet, sub string) bool {
	for k := range rs {
		if !strings.Contains(k, sub) {
			continue
		}
		if strings.HasSuffix(k, " == false") {
			continue
		}
		if i := topLevelIndex(k, " != "); i >= 0 {
			continue
		}
		return true
	}
	return false
}

func (p *Prog) resolvedRecognisers() map[*ssa.Function]bool {
	if p.recognisers != nil {
		return p.recognisers
	}
	rec := map[*ssa.Function]bool{}
	for _, b := range p.universeBases() {
		rec[b] = true
	}
	for round := 0; round < 3; round++ {
		changed := false
		for _, f := range p.FuncsIn(Mod) {
			if rec[f] || f.Parent() != nil || f.Signature.Results().Len() == 0 {
				continue
			}
			r0t, ok := f.Signature.Results().At(0).Type().Underlying().(*types.Basic)
			if !ok || (r0t.Kind() != types.Bool && r0t.Kind() != types.String) {
				continue
			}
			calls := false
			p.instrs(f, func(b *ssa.BasicBlock, i int, in ssa.Instruction) {
				if c, ok := in.(*ssa.Call); ok && rec[calleeOf(&c.Call)] {
					calls = true
				}
			})
			if !calls {
				continue
			}
			keep := map[*ssa.Function]bool{}
			var names []string
			for g := range rec {
				keep[g] = true
				names = append(names, FuncName(g)+"(")
			}
			ips, ok := p.ipathsKeeping(f, keep)
			if !ok || len(ips) == 0 {
				continue
			}
			good := true
			for _, ip := range ips {
				if ip.Exit != "return" || len(ip.Ret) == 0 {
					continue
				}
				r0 := ip.Ret[0]
				if r0 == "false" || r0 == `""` {
					continue
				}
				hit := false
				for _, n := range names {
					if strings.Contains(r0, n) || relsMention(ip.Rels, n) {
						hit = true
					}
				}
				if !hit {
					good = false
				}
			}
			if good {
				rec[f] = true
				changed = true
			}
		}
		if !changed {
			break
		}
	}
	p.recognisers = rec
	return rec
}

// resolvedBuiltinNames: the predeclared names that the facts establish through resolved recognisers.
func (p *Prog) resolvedBuiltinNames(rs relSet) []string {
	rec := p.resolvedRecognisers()
	var prefixes []string
	for g := range rec {
		prefixes = append(prefixes, FuncName(g)+"(")
	}
	seen := map[string]bool{}
	for k := range rs {
		i := topLevelIndex(k, " == ")
		if i < 0 {
			continue
		}
		a, b := k[:i], k[i+4:]
		for _, pr := range [][2]string{{a, b}, {b, a}} {
			x, y := pr[0], pr[1]
			isRec := false
			for _, pf := range prefixes {
				if strings.HasPrefix(y, pf) {
					isRec = true
				}
			}
			if !isRec {
				continue
			}
			if x == "true" {
				// R(…,"name")
				if j := strings.LastIndex(y, `,"`); j >= 0 && strings.HasSuffix(y, `")`) {
					seen[y[j+2:len(y)-2]] = true
				}
			} else if len(x) >= 2 && x[0] == '"' && x[len(x)-1] == '"' && (strings.HasSuffix(y, ")") || strings.HasSuffix(y, ")#0")) {
				seen[x[1:len(x)-1]] = true
			}
		}
	}
	// third shape: the identifier was resolved once (R(ctx, id) == true) and its spelling is then compared:
	// "name" == id.Name
	for k := range rs {
		i := topLevelIndex(k, " == ")
		if i < 0 {
			continue
		}
		a, b := k[:i], k[i+4:]
		for _, pr := range [][2]string{{a, b}, {b, a}} {
			lit, key := pr[0], pr[1]
			if len(lit) < 2 || lit[0] != '"' || !strings.HasSuffix(key, ".Name") {
				continue
			}
			id := strings.TrimSuffix(key, ".Name")
			for _, pf := range prefixes {
				for f := range rs {
					if strings.HasPrefix(f, pf) && strings.HasSuffix(f, ","+id+") == true") || strings.HasPrefix(f, "true == "+pf) && strings.HasSuffix(f, ","+id+")") {
						seen[lit[1:len(lit)-1]] = true
					}
				}
			}
		}
	}
	var out []string
	for k := range seen {
		out = append(out, k)
	}
	sort.Strings(out)
	return out
}

// hasRecogniserFact: some fact positively involves a resolved recogniser.
func (p *Prog) hasRecogniserFact(rs relSet) bool {
	for g := range p.resolvedRecognisers() {
		if relsMention(rs, FuncName(g)+"(") {
			return true
		}
	}
	return false
}

// litSite: a string literal and the function in which it is written.
type litSite struct {
	Lit string
	Fn  *ssa.Function
	Pos token.Pos
}

// litOperands: the string literals a value may denote — a constant, or for a parameter the
// constants passed at every call site (followed through forwarding parameters, depth 3).
// complete reports whether every source was a literal.
func (p *Prog) litOperands(v ssa.Value, at ssa.Instruction, depth int) (lits []litSite, complete bool) {
	if s, ok := constString(v); ok {
		return []litSite{{s, at.Parent(), instrPos(at)}}, true
	}
	pa, ok := v.(*ssa.Parameter)
	if !ok || depth >= 3 {
		return nil, false
	}
	f := pa.Parent()
	idx := -1
	for i, q := range f.Params {
		if q == pa {
			idx = i
		}
	}
	if idx < 0 {
		return nil, false
	}
	complete = true
	n := 0
	for _, g := range p.srcFuncs {
		p.instrs(g, func(b *ssa.BasicBlock, i int, in ssa.Instruction) {
			c, ok := in.(ssa.CallInstruction)
			if !ok || c.Common().StaticCallee() != f || idx >= len(c.Common().Args) {
				return
			}
			n++
			ls, okc := p.litOperands(c.Common().Args[idx], in, depth+1)
			lits = append(lits, ls...)
			if !okc {
				complete = false
			}
		})
	}
	if n == 0 {
		complete = false
	}
	return lits, complete
}
