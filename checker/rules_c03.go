package main

import (
	"fmt"
	"go/types"
	"os"
	"sort"
	"strings"

	"golang.org/x/tools/go/ssa"
)

// emittedNames: constant Gallina names in the backward closure of v (through call arguments).
func emittedNames(v ssa.Value, pt *cfgPath) []string {
	set := map[string]bool{}
	seen := map[ssa.Value]bool{}
	// walkName: a plain string that is used as the callee name
	walkName := func(v ssa.Value) {
		switch x := v.(type) {
		case *ssa.Extract:
			if lk, ok := x.Tuple.(*ssa.Lookup); ok && x.Index == 0 {
				if g := globalOfLoad(lk.X); g != nil {
					set["\x00lookup:"+g.Name()+"\x00"+sk(lk.Index)] = true
				}
			}
		case *ssa.Lookup:
			if g := globalOfLoad(x.X); g != nil && !x.CommaOk {
				set["\x00lookup:"+g.Name()+"\x00"+sk(x.Index)] = true
			}
		}
	}
	var walk func(v ssa.Value)
	walk = func(v ssa.Value) {
		if v == nil || seen[v] {
			return
		}
		seen[v] = true
		if c, ok := v.(*ssa.Const); ok {
			if s, ok := constString(c); ok {
				if isCoqNamed(c.Type(), "GallinaIdent") {
					set[s] = true
				}
			}
			return
		}
		if c, ok := v.(*ssa.Call); ok {
			n := calleeName(c)
			if strings.HasSuffix(n, ".newCoqCall") {
				if s, ok := constString(c.Call.Args[1]); ok {
					set[s] = true
				} else {
					walkName(c.Call.Args[1])
				}
				return
			}
			if n == coqPkg+".NewCallExpr" {
				walk(c.Call.Args[0])
				return
			}
			if strings.HasSuffix(n, ".newCoqCallTypeArgs") || strings.HasSuffix(n, ".newCoqCallWithExpr") {
				walk(c.Call.Args[1])
				return
			}
			return
		}
		switch x := v.(type) {
		case *ssa.Extract:
			// value looked up in a constant package-level table: expanded per entry by caseTable
			if lk, ok := x.Tuple.(*ssa.Lookup); ok && x.Index == 0 {
				if g := globalOfLoad(lk.X); g != nil {
					set["\x00lookup:"+g.Name()+"\x00"+sk(lk.Index)] = true
				}
			}
		case *ssa.Lookup:
			if g := globalOfLoad(x.X); g != nil && !x.CommaOk {
				set["\x00lookup:"+g.Name()+"\x00"+sk(x.Index)] = true
			}
		case *ssa.MakeInterface:
			walk(x.X)
		case *ssa.ChangeType:
			if isCoqNamed(x.Type(), "GallinaIdent") {
				// GallinaIdent(s) for a plain string s chosen earlier (a constant on this path, or a table value)
				inner := x.X
				if ph, ok := inner.(*ssa.Phi); ok && pt != nil {
					inner = resolveOnPath(*pt, ph)
				}
				if cs, ok := constString(inner); ok {
					set[cs] = true
					return
				}
				walkName(inner)
			}
			walk(x.X)
		case *ssa.Phi:
			if pt != nil {
				if rv := resolveOnPath(*pt, x); rv != ssa.Value(x) {
					walk(rv)
					return
				}
			}
			for _, e := range x.Edges {
				walk(e)
			}
		case *ssa.UnOp:
			if a, ok := x.X.(*ssa.Alloc); ok {
				for _, rf := range refs(a) {
					if st, ok := rf.(*ssa.Store); ok && st.Addr == ssa.Value(a) {
						walk(st.Val)
					}
				}
			}
		}
	}
	walk(v)
	return sortedKeys(set)
}

// caseTable enumerates the paths of f and returns, per path that returns normally,
// the string constants the path required some value to equal, and the names it emits.
type caseRow struct {
	Cases   []string
	Emitted []string
	Ret     *ssa.Return
	Path    cfgPath
}

func caseTable(p *Prog, f *ssa.Function) ([]caseRow, bool) {
	return caseTableD(p, f, 0)
}

// caseTableD: a path that returns the result of another translator function of the package unchanged
// (tail delegation: the rest of a split handler) is continued with that function's rows.
func caseTableD(p *Prog, f *ssa.Function, depth int) ([]caseRow, bool) {
	paths, ok := p.enumPaths(f, 0, 20000)
	if !ok {
		return nil, false
	}
	var rows []caseRow
	for _, pt := range paths {
		ret, isRet := pt.endsInReturn()
		if !isRet || len(ret.Results) == 0 {
			continue
		}
		var cases []string
		for k := range pt.relsResolved() {
			if i := topLevelIndex(k, " == "); i >= 0 {
				a, b := k[:i], k[i+4:]
				for _, pr := range [][2]string{{a, b}, {b, a}} {
					if len(pr[0]) >= 2 && pr[0][0] == '"' && pr[0][len(pr[0])-1] == '"' && !strings.HasPrefix(pr[1], "\"") {
						cases = append(cases, strings.Trim(pr[0], "\"")+" @ "+pr[1])
					}
				}
			}
			// isIdent(e, "name") == true
			if strings.HasPrefix(k, "goose.isIdent(") && strings.HasSuffix(k, ") == true") {
				in := strings.TrimSuffix(strings.TrimPrefix(k, "goose.isIdent("), ") == true")
				if j := strings.LastIndex(in, ",\""); j >= 0 {
					cases = append(cases, strings.Trim(in[j+1:], "\"")+" @ "+in[:j])
				}
			}
		}
		sort.Strings(cases)
		// a value cannot equal two different constants: such a path is infeasible
		byWhere := map[string]map[string]bool{}
		for _, c := range cases {
			parts := strings.SplitN(c, " @ ", 2)
			if byWhere[parts[1]] == nil {
				byWhere[parts[1]] = map[string]bool{}
			}
			byWhere[parts[1]][parts[0]] = true
		}
		infeasible := false
		for _, m := range byWhere {
			if len(m) > 1 {
				infeasible = true
			}
		}
		if infeasible {
			continue
		}
		v := resolveOnPath(pt, ret.Results[0])
		em := emittedNames(v, &pt)
		// a name taken from a constant package-level map: one row per entry of the map
		expanded := false
		for _, e := range em {
			if !strings.HasPrefix(e, "\x00lookup:") {
				continue
			}
			parts := strings.SplitN(strings.TrimPrefix(e, "\x00lookup:"), "\x00", 2)
			var g *ssa.Global
			if f.Pkg != nil {
				g, _ = f.Pkg.Members[parts[0]].(*ssa.Global)
			}
			if g == nil {
				continue
			}
			tab, ok := p.stringMapRows(g)
			if !ok {
				continue
			}
			expanded = true
			for _, k := range sortedKeys(tab) {
				cs := append(append([]string{}, cases...), k+" @ "+parts[1])
				sort.Strings(cs)
				var others []string
				for _, o := range em {
					if o != e {
						others = append(others, o)
					}
				}
				rows = append(rows, caseRow{cs, append(others, tab[k]), ret, pt})
			}
		}
		if !expanded && len(em) == 0 && depth < 3 {
			// direct tail call, or the first result of a (value, ok) helper under the fact ok == true
			var c *ssa.Call
			okIdx := -1
			if cc, ok := v.(*ssa.Call); ok {
				c = cc
			} else if ex, ok := v.(*ssa.Extract); ok && ex.Index == 0 {
				if cc, ok := ex.Tuple.(*ssa.Call); ok && cc.Call.Signature().Results().Len() == 2 {
					if rs := pt.relsResolved(); rs[sk(cc)+"#1 == true"] || rs["true == "+sk(cc)+"#1"] {
						c, okIdx = cc, 1
					}
				}
			}
			if c != nil {
				if g := calleeOf(&c.Call); g != nil && g != f && g.Pkg == f.Pkg && len(g.Blocks) > 0 && len(g.Blocks) <= 60 {
					if sub, ok := caseTableD(p, g, depth+1); ok {
						// callee facts speak about its parameters: rename them to the arguments
						psub := map[string]string{}
						for i, pa := range g.Params {
							if i < len(c.Call.Args) {
								psub[pa.Name()] = sk(c.Call.Args[i])
							}
						}
						for _, sr := range sub {
							if okIdx >= 0 {
								// only the callee's rows that return ok == true
								if okIdx >= len(sr.Ret.Results) {
									continue
								}
								if k, isC := resolveOnPath(sr.Path, sr.Ret.Results[okIdx]).(*ssa.Const); !isC || k.Value == nil || k.Value.String() != "true" {
									continue
								}
							}
							cs := append([]string{}, cases...)
							for _, sc := range sr.Cases {
								parts := strings.SplitN(sc, " @ ", 2)
								if len(parts) == 2 {
									cs = append(cs, parts[0]+" @ "+substIdents(parts[1], psub))
								}
							}
							sort.Strings(cs)
							rows = append(rows, caseRow{cs, sr.Emitted, sr.Ret, pt})
						}
						expanded = true
					}
				}
			}
		}
		if !expanded {
			rows = append(rows, caseRow{cases, em, ret, pt})
		}
	}
	return rows, true
}

func globalOfLoad(v ssa.Value) *ssa.Global {
	if ld, ok := v.(*ssa.UnOp); ok {
		if g, ok := ld.X.(*ssa.Global); ok {
			return g
		}
	}
	return nil
}

// stringMapRows: the entries of a package-level map[string]string initialised with a literal and never updated.
func (p *Prog) stringMapRows(g *ssa.Global) (map[string]string, bool) {
	ini := g.Pkg.Func("init")
	if ini == nil {
		return nil, false
	}
	rows := map[string]string{}
	ok, n := true, 0
	p.instrs(ini, func(b *ssa.BasicBlock, i int, in ssa.Instruction) {
		st, isSt := in.(*ssa.Store)
		if !isSt || st.Addr != ssa.Value(g) {
			return
		}
		n++
		mk, isMk := st.Val.(*ssa.MakeMap)
		if !isMk {
			ok = false
			return
		}
		for _, rf := range refs(mk) {
			if mu, isMu := rf.(*ssa.MapUpdate); isMu {
				k, ok1 := constString(mu.Key)
				v, ok2 := constString(mu.Value)
				if !ok1 || !ok2 {
					ok = false
					continue
				}
				rows[k] = v
			}
		}
	})
	for _, fn := range p.srcFuncs {
		if fn == ini {
			continue
		}
		p.instrs(fn, func(b *ssa.BasicBlock, i int, in ssa.Instruction) {
			switch x := in.(type) {
			case *ssa.Store:
				if x.Addr == ssa.Value(g) {
					ok = false
				}
			case *ssa.MapUpdate:
				if globalOfLoad(x.Map) == g {
					ok = false
				}
			}
		})
	}
	return rows, ok && n == 1 && len(rows) > 0
}

// checkMapping compares the rows of f against want (case constant -> emitted name).
// Every row whose cases contain a key of want must emit exactly that name; every key must occur;
// rows with a case constant not in want (for the same discriminant) are unexpected entries.
func checkMapping(p *Prog, r *Report, rule string, f *ssa.Function, want map[string]string, discr string) {
	rows, ok := caseTable(p, f)
	if !ok {
		r.Unknown(rule, FuncName(f)+" table", f.Pos(), "too many paths")
		return
	}
	r.Func(FuncName(f))
	seen := map[string]bool{}
	extracted := map[string][]string{}
	for _, row := range rows {
		for _, c := range row.Cases {
			parts := strings.SplitN(c, " @ ", 2)
			name, where := parts[0], parts[1]
			if !strings.HasSuffix(where, discr) {
				continue
			}
			extracted[name] = append(extracted[name], strings.Join(row.Emitted, "+"))
			w, known := want[name]
			if !known {
				continue
			}
			seen[name] = true
			got := strings.Join(row.Emitted, "+")
			r.Check(rule, fmt.Sprintf("%s %s ↦ %s", FuncName(f), name, w), instrPos(row.Ret), got == w,
				fmt.Sprintf("the path for %q emits %q, the GooseLang library function for it is %q (path %s)", name, got, w, row.Path.String()))
		}
	}
	for name := range extracted {
		if _, known := want[name]; !known {
			em := extracted[name]
			nonEmpty := false
			for _, e := range em {
				if e != "" {
					nonEmpty = true
				}
			}
			if nonEmpty {
				r.Fail(rule, fmt.Sprintf("%s unexpected entry %s", FuncName(f), name), f.Pos(),
					fmt.Sprintf("%q is translated to %v but is not in the reference table for this library type: a Go operation with different semantics is given the meaning of a supported one", name, em), "")
			}
		}
	}
	for name, w := range want {
		if !seen[name] {
			r.Fail(rule, fmt.Sprintf("%s %s ↦ %s", FuncName(f), name, w), f.Pos(), "no path translates "+name, "")
		}
	}
	r.Table(FuncName(f), extracted)
}

func checkC03(p *Prog, r *Report) {
	r.Rule("R03a", "library mapping: every path of the sync-method translators that is selected by a method/function name emits exactly the GooseLang library function of the reference table (Lock↦lock.acquire, Unlock↦lock.release, Signal↦lock.condSignal, Broadcast↦lock.condBroadcast, Wait↦lock.condWait, Add/Done/Wait↦waitgroup.*, NewCond↦lock.newCond, new(sync.Mutex)↦lock.new, new(sync.WaitGroup)↦waitgroup.New, WaitTimeout↦lock.condWaitTimeout, Sleep↦time.Sleep); names outside the table reach a rejection; no extra entries", 14)
	r.Rule("R03b", "type-directed dispatch: the recognisers test exactly (sync, Mutex), (sync, Cond), (sync, WaitGroup) behind a pointer; in selectorMethod they are consulted before the generic struct/interface method path (facts recogniser == false at the generic path); sync.Mutex / sync.Cond by value are rejected", 5)
	r.Rule("R03c", "spawn shape: a go statement is translated only when its call has no arguments (fact len(Args) <= 0 at the translation) and its function is a literal; the body is translated with no control effect available; nothing of the literal's parameter list is translated", 4)
	r.Assume = append(r.Assume, "the GooseLang lock/waitgroup libraries and scheduler are not in this repository: interleavings of the emitted program are not decided", "reference table transcribed from Perennial's goose_lang/lib (lock, waitgroup, time)")
	for _, spec := range []struct {
		fn   string
		want map[string]string
	}{
		{"Ctx.lockMethod", map[string]string{"Lock": "lock.acquire", "Unlock": "lock.release"}},
		{"Ctx.condVarMethod", map[string]string{"Signal": "lock.condSignal", "Broadcast": "lock.condBroadcast", "Wait": "lock.condWait"}},
		{"Ctx.waitGroupMethod", map[string]string{"Add": "waitgroup.Add", "Done": "waitgroup.Done", "Wait": "waitgroup.Wait"}},
	} {
		f := p.Func(Mod, spec.fn)
		if f == nil {
			r.Anchor("R03a", "goose."+spec.fn)
			continue
		}
		checkMapping(p, r, "R03a", f, spec.want, ".Sel.Name")
	}
	if f := p.Func(Mod, "Ctx.packageMethod"); f != nil {
		// only the concurrency-relevant subset is compared; the other cases are listed in the evidence
		rows, ok := caseTable(p, f)
		if !ok {
			r.Unknown("R03a", "packageMethod table", f.Pos(), "too many paths")
		} else {
			want := map[string]string{"WaitTimeout": "lock.condWaitTimeout", "Sleep": "time.Sleep", "NewCond": "lock.newCond"}
			seen := map[string]bool{}
			all := map[string][]string{}
			for _, row := range rows {
				for _, c := range row.Cases {
					name := strings.SplitN(c, " @ ", 2)[0]
					where := strings.SplitN(c, " @ ", 2)[1]
					if !strings.HasSuffix(where, ".Sel.Name") {
						continue
					}
					got := strings.Join(row.Emitted, "+")
					all[name] = append(all[name], got)
					if w, ok := want[name]; ok {
						seen[name] = true
						r.Check("R03a", fmt.Sprintf("goose.Ctx.packageMethod %s ↦ %s", name, w), instrPos(row.Ret), got == w,
							fmt.Sprintf("a path for %q emits %q instead of %q (path %s): e.g. a timeout special case that drops the wait also drops the release/re-acquire of the mutex", name, got, w, row.Path.String()))
					}
				}
			}
			for name, w := range want {
				if !seen[name] {
					r.Fail("R03a", fmt.Sprintf("goose.Ctx.packageMethod %s ↦ %s", name, w), f.Pos(), "no path translates "+name, "")
				}
			}
			r.Table("goose.Ctx.packageMethod", all)
		}
	} else {
		r.Anchor("R03a", "goose.Ctx.packageMethod")
	}
	if f := p.Func(Mod, "Ctx.newExpr"); f != nil {
		rows, ok := caseTable(p, f)
		if os.Getenv("VERIF_DEBUG") == "R03a" {
			for _, row := range rows {
				fmt.Println("R03a newExpr row", row.Cases, row.Emitted, sk(resolveOnPath(row.Path, row.Ret.Results[0])))
			}
		}
		if ok {
			want := map[string]string{"Mutex": "lock.new", "WaitGroup": "waitgroup.New"}
			seen := map[string]bool{}
			for _, row := range rows {
				hasSync := false
				for _, c := range row.Cases {
					if strings.HasPrefix(c, "sync @ ") {
						hasSync = true
					}
				}
				for _, c := range row.Cases {
					name := strings.SplitN(c, " @ ", 2)[0]
					if w, ok := want[name]; ok && hasSync {
						seen[name] = true
						got := strings.Join(row.Emitted, "+")
						r.Check("R03a", fmt.Sprintf("goose.Ctx.newExpr new(sync.%s) ↦ %s", name, w), instrPos(row.Ret), got == w, "emits "+got)
					} else if hasSync && name != "sync" {
						got := strings.Join(row.Emitted, "+")
						if strings.HasPrefix(got, "lock.") || strings.HasPrefix(got, "waitgroup.") {
							r.Fail("R03a", "goose.Ctx.newExpr unexpected entry sync."+name, instrPos(row.Ret), "new(sync."+name+") is translated to "+got+": only Mutex and WaitGroup have GooseLang models (an RWMutex modelled as an exclusive lock deadlocks programs whose readers overlap)", "")
						}
					}
				}
			}
			for name, w := range want {
				if !seen[name] {
					r.Fail("R03a", fmt.Sprintf("goose.Ctx.newExpr new(sync.%s) ↦ %s", name, w), f.Pos(), "no path", "")
				}
			}
		}
	} else {
		r.Anchor("R03a", "goose.Ctx.newExpr")
	}
	c03Recognisers(p, r)
	c03Spawn(p, r)
}

func c03Recognisers(p *Prog, r *Report) {
	for _, spec := range []struct{ fn, pkg, typ string }{
		{"isLockRef", "sync", "Mutex"}, {"isCondVar", "sync", "Cond"}, {"isWaitGroup", "sync", "WaitGroup"},
	} {
		f := p.Func(Mod, spec.fn)
		if f == nil {
			r.Anchor("R03b", "goose."+spec.fn)
			continue
		}
		r.Func(FuncName(f))
		// every positive abstract path (helpers spliced in) compares exactly the package and type name, behind a pointer
		ips, okp := p.ipaths(f)
		want := []string{spec.typ, spec.pkg}
		sort.Strings(want)
		okAll, npos, detail := okp, 0, ""
		for _, ip := range ips {
			if ip.Exit != "return" || len(ip.Ret) == 0 || ip.Ret[0] == "false" {
				continue
			}
			npos++
			lits := map[string]bool{}
			ptr := false
			facts := relList(ip.Rels)
			negRet := false
			if ip.Ret[0] != "true" {
				// the last conjunct is returned as a value: (X == "lit"); a returned (X != "lit") accepts
				// everything but the type
				if rel, ok := relFromKey(ip.Ret[0], true); ok {
					facts = append(facts, rel)
					if topLevelIndex(rel, " != ") >= 0 {
						negRet = true
					}
				} else {
					facts = append(facts, ip.Ret[0])
				}
			}
			for _, k := range facts {
				if strings.Contains(k, ".(*Pointer)#1 == true") || strings.Contains(k, ".(*Pointer)#0") {
					ptr = true
				}
				// a value taken from a failed comma-ok assertion is nil: the path dereferences it
				if strings.Contains(k, ".(*Named)#1 == false") || strings.Contains(k, ".(*Pointer)#1 == false") || strings.HasPrefix(k, "false == ") && strings.Contains(k, ".(*") {
					okAll = false
					detail = "a positive path runs under a failed type assertion (" + k + "): the asserted value is nil there"
				}
				if topLevelIndex(k, " != ") >= 0 || strings.HasSuffix(k, " == false") {
					continue
				}
				for _, q := range quotedLits(k) {
					lits[q] = true
				}
			}
			got := sortedKeys(lits)
			if negRet {
				okAll = false
				detail = fmt.Sprintf("the recogniser returns the negation of a comparison (%s): it accepts every type but the one it names", ip.Ret[0])
			}
			if strings.Join(got, ",") != strings.Join(want, ",") || !ptr {
				okAll = false
				detail = fmt.Sprintf("a positive path compares against %v (pointer required=%v): %s", got, ptr, ip.Trace)
			}
		}
		if npos == 0 {
			okAll = false
			detail = "no positive path"
		}
		r.Check("R03b", fmt.Sprintf("goose.%s recognises exactly *%s.%s", spec.fn, spec.pkg, spec.typ), f.Pos(), okAll,
			detail+"; a recogniser that also accepts another type gives it this type's model")
	}
	sm := p.Func(Mod, "Ctx.selectorMethod")
	if sm == nil {
		r.Anchor("R03b", "goose.Ctx.selectorMethod")
		return
	}
	r.Func(FuncName(sm))
	// the generic (user-defined receiver) method path: the coq.MethodName call in selectorMethod or in a
	// function it hands the selector to; the facts there include what the callers established
	var scope []*ssa.Function
	scope = append(scope, sm)
	p.instrs(sm, func(b *ssa.BasicBlock, i int, in ssa.Instruction) {
		if c, ok := in.(*ssa.Call); ok {
			if g := calleeOf(&c.Call); g != nil && g.Pkg == sm.Pkg && g != sm && len(g.Params) > 0 {
				for _, pa := range g.Params {
					if types.TypeString(pa.Type(), nil) == "*go/ast.SelectorExpr" {
						scope = append(scope, g)
						break
					}
				}
			}
		}
	})
	// recogniser calls anywhere in the scope, with root identifiers blanked (parameter names differ per function)
	recKeys := map[string][]string{}
	for _, rec := range []string{"isLockRef", "isCondVar", "isWaitGroup"} {
		g := p.Func(Mod, rec)
		for _, fn := range scope {
			p.instrs(fn, func(b *ssa.BasicBlock, i int, in2 ssa.Instruction) {
				if c2, ok := in2.(*ssa.Call); ok && g != nil && calleeOf(&c2.Call) == g {
					recKeys[rec] = append(recKeys[rec], canonRoots(sk(c2)))
				}
			})
		}
	}
	n := 0
	for _, fn := range scope {
		rm := p.Rels(fn)
		entry := p.entryRels(fn)
		p.instrs(fn, func(b *ssa.BasicBlock, i int, in ssa.Instruction) {
			c, ok := in.(*ssa.Call)
			if !ok || !p.isMethodNameCall(c) {
				return
			}
			n++
			rs := p.RelsAt(rm, c)
			for k := range entry {
				rs[k] = true
			}
			var missing []string
			for _, rec := range []string{"isLockRef", "isCondVar", "isWaitGroup"} {
				okF := false
				for k := range rs {
					ck := canonRoots(k)
					for _, rk := range recKeys[rec] {
						if ck == rk+" == false" || ck == "false == "+rk {
							okF = true
						}
					}
				}
				if !okF {
					missing = append(missing, rec)
				}
			}
			r.Check("R03b", "selectorMethod consults the sync recognisers before the generic method path", instrPos(in), len(missing) == 0,
				fmt.Sprintf("the user-method translation is reachable without %v having answered false: a *sync.Mutex method could be translated as an ordinary method call", missing))
		})
	}
	if n == 0 {
		r.Unknown("R03b", "selectorMethod generic path", sm.Pos(), "no MethodName call")
	}
	// by-value sync.Mutex / sync.Cond rejected
	if st := p.Func(Mod, "Ctx.selectorExprType"); st != nil {
		rows, ok := caseTable(p, st)
		_ = rows
		rejected := false
		rmS := p.Rels(st)
		p.instrs(st, func(b *ssa.BasicBlock, i int, in ssa.Instruction) {
			if c, ok := in.(*ssa.Call); ok {
				if cal := calleeOf(&c.Call); cal != nil && p.NoReturn(cal) {
					rs := p.RelsAt(rmS, c)
					if hasFactContaining(rs, `,"sync")`) {
						rejected = true
					}
				}
			}
		})
		r.Check("R03b", "sync.Mutex / sync.Cond by value are rejected", st.Pos(), ok && rejected, "no rejection under the sync.X type test")
	} else {
		r.Anchor("R03b", "goose.Ctx.selectorExprType")
	}
}

func c03Spawn(p *Prog, r *Report) {
	// the translation of go statements, by role: the method of Ctx that takes a *ast.GoStmt
	var gs *ssa.Function
	for _, g := range p.FuncsIn(Mod) {
		if g.Parent() == nil && g.Signature.Recv() != nil && g.Signature.Params().Len() == 1 &&
			types.TypeString(g.Signature.Params().At(0).Type(), nil) == "*go/ast.GoStmt" {
			gs = g
		}
	}
	if gs == nil {
		r.Anchor("R03c", "the translation of go statements (a method taking *ast.GoStmt)")
		return
	}
	r.Func(FuncName(gs))
	// every normally returning abstract path (helpers spliced in) carries both shape facts
	ips, ok := p.ipaths(gs)
	nRet, badArgs, badLit := 0, "", ""
	for _, ip := range ips {
		if ip.Exit != "return" {
			continue
		}
		nRet++
		noArgs, isLit := false, false
		for k := range ip.Rels {
			if strings.Contains(k, ".Call.Args)") && (strings.HasPrefix(k, "len(") && (strings.HasSuffix(k, " <= 0") || strings.HasSuffix(k, " == 0")) || strings.HasPrefix(k, "0 == len(")) {
				noArgs = true
			}
			if strings.Contains(k, ".Call.Fun.(*FuncLit)#1 == true") {
				isLit = true
			}
		}
		if !noArgs {
			badArgs = "a go statement is translated on a path without the fact that its call has no arguments: " + ip.Trace
		}
		if !isLit {
			badLit = "a go statement is translated on a path without the fact that the spawned function is a literal: " + ip.Trace
		}
	}
	r.Check("R03c", "go statements with arguments are rejected", gs.Pos(), ok && nRet > 0 && badArgs == "",
		badArgs+" — arguments of `go f(x)` are evaluated by the parent before the fork; translating them inside the forked thread reads the parent's variables after later writes")
	r.Check("R03c", "only function literals are spawned", gs.Pos(), ok && nRet > 0 && badLit == "", badLit)
	// the body is translated with no control effect available and nothing of the literal's parameter list is used
	okLocal, nBody := true, 0
	touchesParams := false
	for _, g := range p.region([]*ssa.Function{gs}) {
		// only the go-statement translation itself and helpers that receive the spawned function expression
		if g != gs {
			isHelper := false
			p.instrs(gs, func(b *ssa.BasicBlock, i int, in ssa.Instruction) {
				if c, ok := in.(*ssa.Call); ok && calleeOf(&c.Call) == g {
					for _, a := range c.Call.Args {
						if strings.HasSuffix(sk(a), ".Call.Fun") {
							isHelper = true
						}
					}
				}
			})
			if !isHelper {
				continue
			}
			r.Func(FuncName(g))
		}
		p.instrs(g, func(b *ssa.BasicBlock, i int, in ssa.Instruction) {
			if c, ok := in.(*ssa.Call); ok && strings.HasSuffix(calleeName(c), ".blockStmt") {
				nBody++
				if k, ok := constInt(c.Call.Args[len(c.Call.Args)-1]); !ok || k != 0 {
					okLocal = false
				}
			}
			if v, ok := in.(ssa.Value); ok {
				if o, fld, okf := fieldOf(v); okf && o.Obj().Name() == "FuncLit" && fld == "Type" || okf && o.Obj().Name() == "FuncType" && fld == "Params" {
					touchesParams = true
				}
			}
		})
	}
	r.Check("R03c", "the spawned body has no control effect and binds no parameters", gs.Pos(), nBody > 0 && okLocal && !touchesParams,
		fmt.Sprintf("body translations=%d, usage is ExprValLocal=%v; literal's parameter list inspected=%v (parameters would have to be bound before the fork)", nBody, okLocal, touchesParams))
	r.Check("R03c", "the go statement's own function expression is what is spawned", gs.Pos(), nBody > 0, "no translation of the literal's body found in the go-statement translation")
}

// quotedLits: the string literals occurring in a key.
func quotedLits(k string) []string {
	var out []string
	for {
		i := strings.IndexByte(k, '"')
		if i < 0 {
			return out
		}
		j := strings.IndexByte(k[i+1:], '"')
		if j < 0 {
			return out
		}
		out = append(out, k[i+1:i+1+j])
		k = k[i+j+2:]
	}
}
