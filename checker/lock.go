package main

import (
	"fmt"
	"go/token"
	"go/types"
	"sort"
	"strings"

	"golang.org/x/tools/go/ssa"
)

// A4: lockset analysis on SSA. A configuration is (held locks with mode,
// deferred unlocks); each program point carries the SET of configurations
// possible there (union at joins), so "held on all paths" and "released on all
// exits" are both decidable exactly with respect to the CFG.

type lockCfg struct {
	held     map[string]int  // lock key -> 1 (read) / 2 (write)
	deferred map[string]bool // lock key -> an unlock is deferred
}

func (c lockCfg) key() string {
	var ks []string
	for k, m := range c.held {
		ks = append(ks, fmt.Sprintf("%s=%d", k, m))
	}
	for k := range c.deferred {
		ks = append(ks, "defer:"+k)
	}
	sort.Strings(ks)
	return strings.Join(ks, ";")
}

func (c lockCfg) clone() lockCfg {
	n := lockCfg{held: map[string]int{}, deferred: map[string]bool{}}
	for k, v := range c.held {
		n.held[k] = v
	}
	for k, v := range c.deferred {
		n.deferred[k] = v
	}
	return n
}

type cfgSet map[string]lockCfg

func (s cfgSet) add(c lockCfg) bool {
	k := c.key()
	if _, ok := s[k]; ok {
		return false
	}
	s[k] = c
	return true
}

// lockOp classifies a call as a mutex operation: returns (op, receiver key).
// op ∈ Lock, RLock, Unlock, RUnlock.
func lockOp(c *ssa.CallCommon) (string, string, bool) {
	f := calleeOf(c)
	if f == nil || len(c.Args) == 0 {
		return "", "", false
	}
	switch fullName(f) {
	case "(*sync.Mutex).Lock", "(*sync.RWMutex).Lock":
		return "Lock", sk(c.Args[0]), true
	case "(*sync.RWMutex).RLock":
		return "RLock", sk(c.Args[0]), true
	case "(*sync.Mutex).Unlock", "(*sync.RWMutex).Unlock":
		return "Unlock", sk(c.Args[0]), true
	case "(*sync.RWMutex).RUnlock":
		return "RUnlock", sk(c.Args[0]), true
	case "(*sync.Mutex).TryLock", "(*sync.RWMutex).TryLock", "(*sync.RWMutex).TryRLock":
		return "Try", sk(c.Args[0]), true
	}
	return "", "", false
}

// lockEvent is something the client rule wants to look at with the configurations in force.
type lockEvent struct {
	Fn   *ssa.Function
	In   ssa.Instruction
	Cfgs cfgSet
	Kind string // "instr" (every instruction), "exit-return", "exit-panic", "exit-noreturn-call", "maypanic-call", "misuse"
	Msg  string
}

// lockAnalysis runs the lockset dataflow over fn starting from the given entry
// configurations and reports events through visit. mayPanic tells which callees
// may panic (for the leak-on-panic clause). It returns, for each static callee
// inside `scope`, the union of configurations at its call sites.
func (p *Prog) lockAnalysis(fn *ssa.Function, entry cfgSet, scope map[*ssa.Function]bool,
	mayPanic func(*ssa.Function) bool, visit func(lockEvent)) map[*ssa.Function]cfgSet {

	calleeCfgs := map[*ssa.Function]cfgSet{}
	if len(fn.Blocks) == 0 {
		return calleeCfgs
	}
	in := map[*ssa.BasicBlock]cfgSet{fn.Blocks[0]: {}}
	for _, c := range entry {
		in[fn.Blocks[0]].add(c.clone())
	}
	if len(entry) == 0 {
		in[fn.Blocks[0]].add(lockCfg{held: map[string]int{}, deferred: map[string]bool{}})
	}
	work := []*ssa.BasicBlock{fn.Blocks[0]}
	inWork := map[*ssa.BasicBlock]bool{fn.Blocks[0]: true}
	// transfer computes the out-set of a block; when emit is true, events are reported.
	transfer := func(b *ssa.BasicBlock, emit bool) (cfgSet, bool) {
		cur := cfgSet{}
		for _, c := range in[b] {
			cur.add(c.clone())
		}
		apply := func(f func(c lockCfg) lockCfg) {
			nw := cfgSet{}
			for _, c := range cur {
				nw.add(f(c.clone()))
			}
			cur = nw
		}
		for _, ins := range b.Instrs {
			if emit {
				visit(lockEvent{Fn: fn, In: ins, Cfgs: cur, Kind: "instr"})
			}
			switch x := ins.(type) {
			case *ssa.Defer:
				if op, k, ok := lockOp(&x.Call); ok && (op == "Unlock" || op == "RUnlock") {
					apply(func(c lockCfg) lockCfg { c.deferred[k] = true; return c })
				}
			case *ssa.RunDefers:
				apply(func(c lockCfg) lockCfg {
					for k := range c.deferred {
						delete(c.held, k)
					}
					c.deferred = map[string]bool{}
					return c
				})
			case *ssa.Go:
			case *ssa.Call:
				if op, k, ok := lockOp(&x.Call); ok {
					switch op {
					case "Lock", "RLock":
						for _, c := range cur {
							if c.held[k] != 0 && emit {
								visit(lockEvent{Fn: fn, In: ins, Cfgs: cur, Kind: "misuse", Msg: "lock " + k + " acquired while already held (self-deadlock)"})
							}
						}
						m := 2
						if op == "RLock" {
							m = 1
						}
						apply(func(c lockCfg) lockCfg { c.held[k] = m; return c })
					case "Unlock", "RUnlock":
						want := 2
						if op == "RUnlock" {
							want = 1
						}
						for _, c := range cur {
							if c.held[k] != want && emit {
								visit(lockEvent{Fn: fn, In: ins, Cfgs: cur, Kind: "misuse", Msg: fmt.Sprintf("%s of %s while it is not held in the matching mode on some path", op, k)})
							}
						}
						apply(func(c lockCfg) lockCfg { delete(c.held, k); return c })
					case "Try":
						if emit {
							visit(lockEvent{Fn: fn, In: ins, Cfgs: cur, Kind: "misuse", Msg: "TryLock is outside the recognised locking idioms"})
						}
					}
					continue
				}
				callee := calleeOf(&x.Call)
				if callee != nil && scope[callee] {
					if calleeCfgs[callee] == nil {
						calleeCfgs[callee] = cfgSet{}
					}
					for _, c := range cur {
						// the callee starts with the caller's held locks and no deferred unlocks of its own
						cc := c.clone()
						cc.deferred = map[string]bool{}
						calleeCfgs[callee].add(cc)
					}
				}
				if callee != nil && p.NoReturn(callee) {
					if emit {
						visit(lockEvent{Fn: fn, In: ins, Cfgs: cur, Kind: "exit-noreturn-call"})
					}
					return cur, true
				}
				if callee != nil && mayPanic != nil && mayPanic(callee) && emit {
					visit(lockEvent{Fn: fn, In: ins, Cfgs: cur, Kind: "maypanic-call"})
				}
			case *ssa.Panic:
				if emit {
					visit(lockEvent{Fn: fn, In: ins, Cfgs: cur, Kind: "exit-panic"})
				}
				return cur, true
			case *ssa.Return:
				if emit {
					visit(lockEvent{Fn: fn, In: ins, Cfgs: cur, Kind: "exit-return"})
				}
			}
		}
		return cur, false
	}
	for len(work) > 0 {
		b := work[0]
		work = work[1:]
		inWork[b] = false
		out, dead := transfer(b, false)
		if dead {
			continue
		}
		for _, s := range b.Succs {
			if in[s] == nil {
				in[s] = cfgSet{}
			}
			ch := false
			for _, c := range out {
				if in[s].add(c.clone()) {
					ch = true
				}
			}
			if ch && !inWork[s] {
				inWork[s] = true
				work = append(work, s)
			}
		}
	}
	// final pass with events, in block order, over reached blocks only
	for _, b := range fn.Blocks {
		if in[b] == nil {
			continue
		}
		// the Recover block is entered after a recovered panic with all defers run
		transfer(b, true)
	}
	return calleeCfgs
}

// leaked returns lock keys that are held and have no deferred unlock in some configuration.
func leaked(cs cfgSet) []string {
	set := map[string]bool{}
	for _, c := range cs {
		for k := range c.held {
			if !c.deferred[k] {
				set[k] = true
			}
		}
	}
	return sortedKeys(set)
}

// mayPanicSet computes repo functions that contain a reachable panic or call one (transitively, static calls).
func (p *Prog) mayPanicSet() map[*ssa.Function]bool {
	mp := map[*ssa.Function]bool{}
	for changed := true; changed; {
		changed = false
		for _, f := range p.srcFuncs {
			if mp[f] {
				continue
			}
			hit := false
			p.instrs(f, func(b *ssa.BasicBlock, i int, in ssa.Instruction) {
				switch x := in.(type) {
				case *ssa.Panic:
					hit = true
				case *ssa.Call:
					if c := calleeOf(&x.Call); c != nil && (mp[c] || p.NoReturn(c)) {
						hit = true
					}
				}
			})
			if hit {
				mp[f] = true
				changed = true
			}
		}
	}
	return mp
}

// fieldLoadOf: if v is a load of (or the address of) field `name` of a struct of named type T, return the base key.
func fieldOf(v ssa.Value) (owner *types.Named, field string, ok bool) {
	var fa *ssa.FieldAddr
	switch x := v.(type) {
	case *ssa.UnOp:
		if x.Op != token.MUL {
			return nil, "", false
		}
		fa, _ = x.X.(*ssa.FieldAddr)
	case *ssa.FieldAddr:
		fa = x
	case *ssa.Field:
		n, _ := x.X.Type().(*types.Named)
		if n == nil {
			return nil, "", false
		}
		st, _ := n.Underlying().(*types.Struct)
		if st == nil {
			return nil, "", false
		}
		return n, st.Field(x.Field).Name(), true
	}
	if fa == nil {
		return nil, "", false
	}
	n, _ := deref(fa.X.Type()).(*types.Named)
	if n == nil {
		return nil, "", false
	}
	st, _ := n.Underlying().(*types.Struct)
	if st == nil {
		return nil, "", false
	}
	return n, st.Field(fa.Field).Name(), true
}

// heldAllSuffix: the weakest mode in which some lock whose key ends with suffix is held across all configurations.
func heldAllSuffix(cs cfgSet, suffix string) int {
	m := 3
	for _, c := range cs {
		best := 0
		for k, mode := range c.held {
			if strings.HasSuffix(k, suffix) && mode > best {
				best = mode
			}
		}
		if best < m {
			m = best
		}
	}
	if m == 3 {
		return 0
	}
	return m
}
