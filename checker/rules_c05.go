package main

import (
	"fmt"
	"go/token"
	"go/types"
	"sort"
	"strings"

	"golang.org/x/tools/go/ssa"
)

// delimiter effect of a constant piece of output text
type delim struct{ paren, brack, quote, copen, cclose int }

func (d delim) add(o delim) delim {
	return delim{d.paren + o.paren, d.brack + o.brack, d.quote + o.quote, d.copen + o.copen, d.cclose + o.cclose}
}

func (d delim) balanced() bool {
	return d.paren == 0 && d.brack == 0 && d.quote%2 == 0 && d.copen == d.cclose
}

func (d delim) String() string {
	return fmt.Sprintf("parens %+d, brackets %+d, quotes %d, comment opens %d / closes %d", d.paren, d.brack, d.quote, d.copen, d.cclose)
}

func delimOf(s string) delim {
	var d delim
	for i := 0; i < len(s); i++ {
		switch {
		case strings.HasPrefix(s[i:], "(*"):
			d.copen++
			i++
		case strings.HasPrefix(s[i:], "*)"):
			d.cclose++
			i++
		case s[i] == '(':
			d.paren++
		case s[i] == ')':
			d.paren--
		case s[i] == '[':
			d.brack++
		case s[i] == ']':
			d.brack--
		case s[i] == '"':
			d.quote++
		}
	}
	return d
}

// constStringsOf lists the constant string operands of an instruction (each operand occurrence once).
func constStringsOf(in ssa.Instruction) []string {
	var out []string
	var ops []*ssa.Value
	for _, o := range in.Operands(ops) {
		if o == nil || *o == nil {
			continue
		}
		if s, ok := constString(*o); ok {
			out = append(out, s)
		}
	}
	return out
}

func checkC05(p *Prog, r *Report) {
	r.Rule("R05a", "needs_paren discipline: every Coq(needs_paren) method of the printer either honours the flag (addParens(needs_paren, …)), passes it to another emitter, is closed (its text starts with an opening and ends with the matching closing delimiter on every path) or is atomic (a single token); an emitter in none of these classes can be re-associated by the surrounding text", 30)
	r.Rule("R05b", "sequence position: a non-final element of a sequence (`e ;;` / `let: … := e in`) is printed so that an element which is itself a sequence or binding cannot extend over the rest of the block", 1)
	r.Rule("R05c", "text sinks: Go-derived text reaches a Coq string only when the fact ContainsRune(text, '\"') == false holds for that very value, and reaches a Coq comment only through the sanitiser that rewrites `(*` and `*)` by two successive ReplaceAll passes; comments additionally need a quote sanitiser because Coq lexes strings inside comments", 6)
	r.Rule("R05d", "balance: on every path of every printer function the constant text pieces it contributes have balanced parentheses, brackets, quotes and comment delimiters (loops: one unrolling); holes are filled by other emitters, balanced by induction", 40)
	r.Rule("R05e", "flag independence: the three configuration flags are only tested to add comments, typing lemmas after the body, or extra conversion declarations; no body translator runs under their control and they are stored only into the lemma switches", 4)
	r.Rule("R05f", "term emitters emit no vernacular: no value of a declaration type is converted to coq.Expr / coq.Type by the translator, and no Coq(needs_paren) method that can be reached as a term prints `Definition`, `Theorem` or `Notation`", 2)
	r.Assume = append(r.Assume, "Coq's documented lexical rules (nested comments, strings inside comments) and the notation levels of let:/;;", "Coq's actual parse is not decided")
	c05Paren(p, r)
	c05Balance(p, r)
	c05Sinks(p, r)
	c05Flags(p, r)
	c05Vernacular(p, r)
	c05Siblings(p, r)
	c05FlagToChildren(p, r)
	c05Sentences(p, r)
	c05CommentNotTerm(p, r)
	// R05g: text rendered by the translator itself is spliced into application position
	r.Rule("R05g", "the translator renders sub-expressions to text only with needs_paren=true (it splices that text into argument positions of hand-built applications such as the struct-to-interface conversion)", 3)
	n := 0
	for _, f := range p.FuncsIn(Mod) {
		p.instrs(f, func(b *ssa.BasicBlock, i int, in ssa.Instruction) {
			c, ok := in.(*ssa.Call)
			if !ok {
				return
			}
			isCoq := (c.Call.IsInvoke() && c.Call.Method.Name() == "Coq") || strings.HasSuffix(calleeName(c), ").Coq")
			if !isCoq || len(c.Call.Args) == 0 {
				return
			}
			n++
			r.Sites++
			a := c.Call.Args[len(c.Call.Args)-1]
			k, isC := a.(*ssa.Const)
			r.Check("R05g", fmt.Sprintf("%s renders %s", FuncName(f), sk(c.Call.Value)), instrPos(in), isC && k.Value != nil && k.Value.String() == "true",
				"sub-expression rendered with needs_paren="+sk(a)+": a compound operand (call, struct literal, field access) spliced into an application is re-associated, e.g. `S__to__I mk #3` parses as `(S__to__I mk) #3`")
		})
	}
}

// ---------------------------------------------------------------------------

func coqMethods(p *Prog) []*ssa.Function {
	var out []*ssa.Function
	for _, f := range p.FuncsIn(coqPkg) {
		if f.Name() == "Coq" && f.Signature.Recv() != nil && f.Parent() == nil {
			out = append(out, f)
		}
	}
	sort.Slice(out, func(i, j int) bool { return FuncName(out[i]) < FuncName(out[j]) })
	return out
}

func declInterface(p *Prog) *types.Interface {
	cp := p.All[coqPkg]
	if cp == nil {
		return nil
	}
	tn, _ := cp.Types.Scope().Lookup("Decl").(*types.TypeName)
	if tn == nil {
		return nil
	}
	it, _ := tn.Type().Underlying().(*types.Interface)
	return it
}

// textShape describes the constant prefix/suffix of the string v as far as it can be seen.
func textEnds(v ssa.Value, depth int) (first, last string, ok bool) {
	if depth > 6 {
		return "", "", false
	}
	switch x := v.(type) {
	case *ssa.Const:
		if s, ok := constString(x); ok {
			return s, s, true
		}
	case *ssa.BinOp:
		if x.Op == token.ADD {
			f1, _, ok1 := textEnds(x.X, depth+1)
			_, l2, ok2 := textEnds(x.Y, depth+1)
			if !ok1 {
				f1 = ""
			}
			if !ok2 {
				l2 = ""
			}
			return f1, l2, true
		}
	case *ssa.Call:
		switch calleeName(x) {
		case "fmt.Sprintf":
			if fs, ok := constString(x.Call.Args[0]); ok {
				return fs, fs, true
			}
		case coqPkg + ".quote":
			return `"`, `"`, true
		}
	}
	return "", "", false
}

func c05Paren(p *Prog, r *Report) {
	declI := declInterface(p)
	openEmitters := map[types.Type]string{} // receiver type -> emitter name, for emitters classified open
	type passer struct {
		f     *ssa.Function
		iface *types.Interface
		pos   token.Pos
	}
	var passers []passer
	defer func() {
		// an emitter that hands needs_paren to a child of interface type is closed only if every
		// implementation of that interface is; an open implementation (even a recorded finding) makes
		// every delegating position a new place where its text is absorbed or split
		for _, ps := range passers {
			var bad []string
			for t, name := range openEmitters {
				if types.Implements(t, ps.iface) || types.Implements(types.NewPointer(t), ps.iface) {
					bad = append(bad, name)
				}
			}
			sort.Strings(bad)
			r.Check("R05a", FuncName(ps.f)+" delegates needs_paren only to emitters that honour it", ps.pos, len(bad) == 0,
				fmt.Sprintf("the child may be printed by %v, which ignore needs_paren and are not delimited: in this position their text is absorbed by or split from what follows", bad))
		}
	}()
	for _, f := range coqMethods(p) {
		r.Func(FuncName(f))
		if declI != nil && f.Signature.Recv() != nil && types.Implements(f.Signature.Recv().Type(), declI) {
			// a declaration emitter that also has a Coq method: never a term (R05f decides that)
			r.OK("R05a", FuncName(f), f.Pos(), "declaration emitter, not used in term position (R05f)")
			continue
		}
		var np *ssa.Parameter
		for _, pa := range f.Params {
			if b, ok := pa.Type().Underlying().(*types.Basic); ok && b.Kind() == types.Bool {
				np = pa
			}
		}
		key := FuncName(f)
		if np == nil {
			r.Unknown("R05a", key, f.Pos(), "no needs_paren parameter")
			continue
		}
		// the flag may be spilled to a local
		isFlag := func(v ssa.Value) bool {
			if v == ssa.Value(np) {
				return true
			}
			return sk(v) == np.Name()
		}
		classes := map[string]bool{}
		var notes []string
		p.instrs(f, func(b *ssa.BasicBlock, i int, in ssa.Instruction) {
			ret, ok := in.(*ssa.Return)
			if !ok || len(ret.Results) != 1 {
				return
			}
			v := ret.Results[0]
			switch x := v.(type) {
			case *ssa.Call:
				n := calleeName(x)
				if n == coqPkg+".addParens" && isFlag(x.Call.Args[0]) {
					classes["honours"] = true
					return
				}
				// passes the flag to another emitter
				if (strings.HasSuffix(n, ").Coq") || (x.Call.IsInvoke() && x.Call.Method.Name() == "Coq")) && len(x.Call.Args) > 0 && isFlag(x.Call.Args[len(x.Call.Args)-1]) {
					classes["passes"] = true
					// statement-level children (the Expr of a block's Binding) can be any emitter, including the
					// open statement forms; expression-level children (ReturnExpr.Value, …) are built from
					// translated expressions only
					if x.Call.IsInvoke() && strings.Contains(sk(x.Call.Value), ".Bindings[") {
						if it, ok := x.Call.Value.Type().Underlying().(*types.Interface); ok {
							passers = append(passers, passer{f, it, instrPos(in)})
						}
					}
					return
				}
				if n == coqPkg+".quote" || n == coqPkg+".binder" {
					classes["atomic"] = true
					return
				}
				if n == "("+coqPkg+".buffer).Build" || n == "(*"+coqPkg+".buffer).Build" {
					// text assembled in a buffer: closed iff the first piece opens and the last piece closes
					first, last := bufferEnds(p, f)
					if closedPair(first, last) {
						classes["closed"] = true
					} else if strings.HasPrefix(strings.TrimSpace(first), "(*") || first == "" && last == "" && onlyCommentEmitter(p, f) {
						classes["comment"] = true
					} else {
						classes["open"] = true
						notes = append(notes, fmt.Sprintf("buffer text starts with %q and ends with %q", trunc(first), trunc(last)))
					}
					return
				}
			}
			first, last, ok2 := textEnds(v, 0)
			if ok2 {
				if closedPair(first, last) {
					classes["closed"] = true
					return
				}
				if !strings.ContainsAny(strings.TrimSpace(first), " \n") && first == last {
					classes["atomic"] = true
					return
				}
				if strings.HasPrefix(first, "#") && !strings.ContainsAny(first, " ") {
					classes["atomic"] = true
					return
				}
			}
			if _, isConv := v.(*ssa.ChangeType); isConv {
				classes["atomic"] = true // string(t): an identifier
				return
			}
			if _, isConv := v.(*ssa.Convert); isConv {
				classes["atomic"] = true
				return
			}
			if ph, isPhi := v.(*ssa.Phi); isPhi {
				all := true
				for _, e := range ph.Edges {
					if s, ok := constString(e); !ok || strings.ContainsAny(s, " \n") {
						all = false
					}
				}
				if all {
					classes["atomic"] = true
					return
				}
			}
			if first, last := bufferEnds(p, f); first != "" || last != "" {
				if closedPair(first, last) {
					classes["closed"] = true
					return
				}
				notes = append(notes, fmt.Sprintf("buffer text starts with %q and ends with %q", trunc(first), trunc(last)))
			} else {
				notes = append(notes, "returns "+sk(v))
			}
			classes["open"] = true
		})
		var cl []string
		for c := range classes {
			cl = append(cl, c)
		}
		sort.Strings(cl)
		ok := !classes["open"] && len(classes) > 0
		if classes["open"] && f.Signature.Recv() != nil {
			openEmitters[f.Signature.Recv().Type()] = FuncName(f)
		}
		r.Check("R05a", key, f.Pos(), ok,
			fmt.Sprintf("classes %v; %s: the emitter ignores needs_paren and its text is neither delimited nor a single token, so text following it (`;;`, ` in`, an argument position) can be absorbed by or split from it", cl, strings.Join(notes, "; ")))
		if ok {
			r.Obls[len(r.Obls)-1].Detail = "classes: " + strings.Join(cl, ",")
		}
	}
	// R05b: non-final sequence operands
	at := p.Func(coqPkg, "Binding.AddTo")
	if at == nil {
		r.Anchor("R05b", "coq.Binding.AddTo")
		return
	}
	unparen := 0
	p.instrs(at, func(b *ssa.BasicBlock, i int, in ssa.Instruction) {
		c, ok := in.(*ssa.Call)
		if !ok || !c.Call.IsInvoke() || c.Call.Method.Name() != "Coq" {
			return
		}
		if k, ok := c.Call.Args[0].(*ssa.Const); ok && k.Value != nil && k.Value.String() == "false" {
			unparen++
		}
	})
	r.Check("R05b", "Binding.AddTo prints non-final operands with needs_paren=false", at.Pos(), unparen == 0,
		fmt.Sprintf("%d non-final operands (`%%s;;`, `let: x := %%s in`) are printed with needs_paren=false: an operand that is itself a sequence or binding (a nested block statement, a for loop with its init binding) is not parenthesised, so its let-bindings extend over the rest of the enclosing block (shadowing leaks)", unparen))
	if unparen > 0 {
		c05BlockStatements(p, r, "R05b")
	}
}

// c05BlockStatements: the instances of the non-final-operand finding. While Binding.AddTo prints
// statement operands unparenthesised, every place where the translator uses a block (a sequence with
// bindings of its own) as a *statement* of an enclosing sequence is a place where those bindings can
// extend over the following statements. Each such construction site is an obligation keyed by the syntax
// node it translates; a site whose bound names are synthetic (cannot clash with a Go identifier) is
// discharged. New sites are therefore reported even though the printer's defect is a recorded finding.
func c05BlockStatements(p *Prog, r *Report, rule string) {
	newAnon := p.Func(coqPkg, "NewAnon")
	n := 0
	for _, f := range p.FuncsIn(Mod) {
		rm := p.Rels(f)
		p.instrs(f, func(b *ssa.BasicBlock, i int, in ssa.Instruction) {
			mi, ok := in.(*ssa.MakeInterface)
			if !ok || !strings.HasSuffix(types.TypeString(mi.X.Type(), nil), "coq.BlockExpr") {
				return
			}
			// used as the Expr of a Binding: stored into the field, or passed to NewAnon
			asStmt := false
			for _, rf := range refs(mi) {
				switch x := rf.(type) {
				case *ssa.Store:
					if o, fld, ok := fieldOf(x.Addr); ok && o.Obj().Name() == "Binding" && fld == "Expr" {
						asStmt = true
					}
				case *ssa.Call:
					if newAnon != nil && calleeOf(&x.Call) == newAnon {
						asStmt = true
					}
				}
			}
			if !asStmt {
				return
			}
			n++
			// which syntax node is being translated here: the node parameter's type and the type tests that hold
			node := ""
			for _, pa := range f.Params {
				if t := types.TypeString(pa.Type(), nil); strings.HasPrefix(t, "*go/ast.") || strings.HasPrefix(t, "go/ast.") {
					node = strings.TrimPrefix(strings.TrimPrefix(t, "*"), "go/")
					break
				}
			}
			var tests []string
			for k := range p.RelsAt(rm, in) {
				if j := strings.Index(k, ".(*"); j >= 0 && strings.HasSuffix(k, ")#1 == true") {
					tests = append(tests, strings.TrimSuffix(k[j+3:], ")#1 == true"))
				}
			}
			sort.Strings(tests)
			key := "a block is used as a statement when translating " + node
			if len(tests) > 0 {
				key += " (" + strings.Join(tests, ",") + ")"
			}
			// synthetic names: every name bound inside comes from fmt.Sprintf with a format starting with a digit verb
			synthetic := false
			p.instrs(f, func(b2 *ssa.BasicBlock, i2 int, in2 ssa.Instruction) {
				if c, ok := in2.(*ssa.Call); ok && calleeName(c) == "fmt.Sprintf" {
					if fs, ok := constString(c.Call.Args[0]); ok && strings.HasPrefix(fs, "%d") {
						synthetic = true
					}
				}
			})
			if synthetic {
				r.OK(rule, key, instrPos(in), "the names bound by the block are synthetic (they start with a digit and cannot clash with a Go identifier)")
				return
			}
			// a continuation block: it contains the translation of the statements that follow (the handler's
			// []ast.Stmt parameter), so it is the last binding of the enclosing sequence; it is scoped correctly
			// iff everything placed before the continuation is anonymous (binds no name)
			if cont, named := blockElements(p, f, mi.X); cont {
				if len(named) == 0 {
					r.OK(rule, key, instrPos(in), "continuation block (it holds the translation of the following statements, so it is the last binding) whose other elements bind no names")
				} else {
					r.Fail(rule, key+" [named prefix]", instrPos(in), fmt.Sprintf("the following statements are translated inside a block that first binds names from a narrower Go scope (%v): those names shadow outer ones for the rest of the enclosing block", named), "")
				}
				return
			}
			r.Fail(rule, key, instrPos(in), "the block's let-bindings are printed into the enclosing sequence (Binding.AddTo does not parenthesise non-final operands): names declared inside stay in scope for the statements that follow, and statements translated inside it run under names that Go scopes more narrowly", "")
		})
	}
	if n == 0 {
		r.Unknown(rule, "blocks used as statements", token.NoPos, "no construction site found")
	}
}

// blockElements inspects the Bindings of a coq.BlockExpr value built in f: does it contain the
// continuation (a translation that receives f's []ast.Stmt parameter), and which other elements may bind names.
func blockElements(p *Prog, f *ssa.Function, blk ssa.Value) (cont bool, named []string) {
	var rest *ssa.Parameter
	for _, pa := range f.Params {
		if types.TypeString(pa.Type(), nil) == "[]go/ast.Stmt" {
			rest = pa
		}
	}
	if rest == nil {
		return false, nil
	}
	// the value stored into the Bindings field of the literal
	var bindings ssa.Value
	base := blk
	if ld, ok := blk.(*ssa.UnOp); ok {
		base = ld.X
	}
	for _, rf := range refs(base) {
		if fa, ok := rf.(*ssa.FieldAddr); ok {
			if _, fld, ok := fieldOf(fa); ok && fld == "Bindings" {
				for _, r2 := range refs(fa) {
					if st, ok := r2.(*ssa.Store); ok {
						bindings = st.Val
					}
				}
			}
		}
	}
	if bindings == nil {
		return false, nil
	}
	passesRest := func(c *ssa.Call) bool {
		for _, a := range c.Call.Args {
			if a == ssa.Value(rest) {
				return true
			}
		}
		return false
	}
	// operands of the slice, looking through append(...)
	var elems []ssa.Value
	seenV := map[ssa.Value]bool{}
	var collect func(v ssa.Value)
	collect = func(v ssa.Value) {
		for _, o := range flowOperands(v) {
			if seenV[o] {
				continue
			}
			seenV[o] = true
			elems = append(elems, o)
			if c, ok := o.(*ssa.Call); ok {
				if bi, ok := c.Call.Value.(*ssa.Builtin); ok && bi.Name() == "append" {
					for _, a := range c.Call.Args {
						collect(a)
					}
				}
			}
		}
	}
	collect(bindings)
	for _, v := range elems {
		c, ok := v.(*ssa.Call)
		if !ok {
			// tail.Bindings where tail is the translation of the remainder
			if ld, ok := v.(*ssa.UnOp); ok {
				if fa, ok := ld.X.(*ssa.FieldAddr); ok {
					if _, fld, ok := fieldOf(fa); ok && fld == "Bindings" {
						for _, o := range flowOperands(fa.X) {
							if c2, ok := o.(*ssa.Call); ok && passesRest(c2) {
								cont = true
							}
						}
						if al, ok := fa.X.(*ssa.Alloc); ok { // the struct result was spilled to a local
							for _, r3 := range refs(al) {
								if st, ok := r3.(*ssa.Store); ok && st.Addr == ssa.Value(al) {
									if c2, ok := st.Val.(*ssa.Call); ok && passesRest(c2) {
										cont = true
									}
								}
							}
						}
					}
				}
			}
			if fv, ok := v.(*ssa.Field); ok {
				if c2, ok := fv.X.(*ssa.Call); ok && passesRest(c2) {
					cont = true
				}
			}
			continue
		}
		if bi, ok := c.Call.Value.(*ssa.Builtin); ok && bi.Name() == "append" {
			continue
		}
		if !strings.HasSuffix(types.TypeString(c.Type(), nil), "coq.Binding") && !strings.HasSuffix(types.TypeString(c.Type(), nil), "coq.BlockExpr") {
			continue
		}
		switch {
		case passesRest(c):
			cont = true
		case calleeName(c) == coqPkg+".NewAnon":
		default:
			named = append(named, sk(c))
		}
	}
	sort.Strings(named)
	return cont, named
}

func trunc(s string) string {
	if len(s) > 30 {
		return s[:30] + "…"
	}
	return s
}

func closedPair(first, last string) bool {
	f, l := strings.TrimLeft(first, " \n"), strings.TrimRight(last, " \n")
	if f == "" || l == "" {
		return false
	}
	if strings.HasPrefix(f, "#(") {
		f = f[1:]
	}
	if f[0] == '(' && !strings.HasPrefix(f, "(*") {
		// ends with ")" possibly followed by a scope annotation like %ht
		if l[len(l)-1] == ')' {
			return true
		}
		if i := strings.LastIndex(l, ")%"); i >= 0 && !strings.ContainsAny(l[i+2:], " )") {
			return true
		}
	}
	return false
}

// bufferEnds: first and last constant pieces added to the function's buffer, by dominance order.
func bufferEnds(p *Prog, f *ssa.Function) (string, string) {
	var adds []*ssa.Call
	p.instrs(f, func(b *ssa.BasicBlock, i int, in ssa.Instruction) {
		if c, ok := in.(*ssa.Call); ok {
			n := calleeName(c)
			if n == "(*"+coqPkg+".buffer).Add" || n == "(*"+coqPkg+".buffer).AddLine" || n == "(*"+coqPkg+".buffer).Block" || n == "(*"+coqPkg+".buffer).AddComment" || n == "("+coqPkg+".Binding).AddTo" {
				adds = append(adds, c)
			} else if cal := calleeOf(&c.Call); cal != nil && cal.Pkg != nil && cal.Pkg.Pkg.Path() == coqPkg && len(c.Call.Args) > 1 {
				// helper or further method that writes into the same buffer (flowBranch(&pp, prefix, e, suffix),
				// pp.addBranch(prefix, e, suffix), …): anything that receives the buffer and some text
				if strings.HasSuffix(types.TypeString(c.Call.Args[0].Type(), nil), "coq.buffer") {
					hasText := false
					for _, a := range c.Call.Args[1:] {
						if _, ok := constString(a); ok {
							hasText = true
						}
					}
					if hasText {
						adds = append(adds, c)
					}
				}
			}
		}
	})
	if len(adds) == 0 {
		return "", ""
	}
	text := func(c *ssa.Call) string {
		n := calleeName(c)
		if strings.HasSuffix(n, ".AddComment") {
			return "(* … *)"
		}
		if strings.HasSuffix(n, ".AddTo") {
			return "let: … in"
		}
		s := ""
		for _, a := range c.Call.Args[1:] {
			if cs, ok := constString(a); ok {
				s += cs
			} else if len(s) > 0 {
				break
			}
		}
		return s
	}
	// for a helper call the last constant argument is what ends the text
	lastText := func(c *ssa.Call) string {
		if cal := calleeOf(&c.Call); cal != nil && !knownBufferAdd(calleeName(c)) {
			for i := len(c.Call.Args) - 1; i >= 1; i-- {
				if cs, ok := constString(c.Call.Args[i]); ok {
					return cs
				}
			}
		}
		return text(c)
	}
	// first: an add that dominates all others; last: one that every other add dominates… use entry/exit order
	first, last := adds[0], adds[0]
	for _, a := range adds {
		if dominatesInstr(a, first) {
			first = a
		}
	}
	for _, a := range adds {
		ok := true
		for _, o := range adds {
			if o != a && reachesInstr(a, o) && !reachesInstr(o, a) {
				ok = false
			}
		}
		if ok {
			last = a
		}
	}
	return text(first), lastText(last)
}

func onlyCommentEmitter(p *Prog, f *ssa.Function) bool {
	n, c := 0, 0
	p.instrs(f, func(b *ssa.BasicBlock, i int, in ssa.Instruction) {
		if cl, ok := in.(*ssa.Call); ok {
			nm := calleeName(cl)
			if strings.HasPrefix(nm, "(*"+coqPkg+".buffer).") && !strings.HasSuffix(nm, ".Build") {
				n++
				if strings.HasSuffix(nm, ".AddComment") {
					c++
				}
			}
		}
	})
	return n > 0 && n == c
}

// ---------------------------------------------------------------------------

func c05Balance(p *Prog, r *Report) {
	for _, f := range p.FuncsIn(coqPkg) {
		if len(f.Blocks) == 0 {
			continue
		}
		// only functions that produce text: return a string or write to a buffer / writer
		produces := false
		if f.Signature.Results().Len() == 1 {
			if b, ok := f.Signature.Results().At(0).Type().Underlying().(*types.Basic); ok && b.Kind() == types.String {
				produces = true
			}
		}
		for _, pa := range f.Params {
			ts := types.TypeString(pa.Type(), nil)
			if strings.HasSuffix(ts, "coq.buffer") || ts == "io.Writer" {
				produces = true
			}
		}
		if !produces {
			continue
		}
		r.Func(FuncName(f))
		paths, ok := p.enumPaths(f, 1, 4000)
		if !ok {
			r.Unknown("R05d", FuncName(f), f.Pos(), "too many paths")
			continue
		}
		// helper parameters that carry delimiters (prefix/suffix pieces) are accounted for at the call site
		bad := ""
		nRet := 0
		for _, pt := range paths {
			if _, isRet := pt.endsInReturn(); !isRet {
				continue
			}
			nRet++
			var d delim
			for _, b := range pt.Blocks {
				for _, in := range b.Instrs {
					if _, isPanic := in.(*ssa.Panic); isPanic {
						continue
					}
					if mu, isMu := in.(*ssa.MapUpdate); isMu {
						_ = mu
						continue // operator tables are data, their text is checked under C01
					}
					for _, s := range constStringsOf(in) {
						// separators given to strings.Join are repeated: must be neutral
						if c, ok := in.(*ssa.Call); ok && calleeName(c) == "strings.Join" {
							if !delimOf(s).balanced() || delimOf(s) != (delim{}) {
								bad = fmt.Sprintf("separator %q passed to strings.Join carries delimiters", s)
							}
							continue
						}
						if c, ok := in.(*ssa.Call); ok && (calleeName(c) == "strings.ReplaceAll" || calleeName(c) == "strings.ContainsRune" || calleeName(c) == "strings.Split" || calleeName(c) == "strings.TrimRight" || calleeName(c) == "strings.Trim") {
							continue // pattern/replacement text, checked by R05c
						}
						d = d.add(delimOf(s))
					}
				}
			}
			if !d.balanced() && bad == "" {
				bad = fmt.Sprintf("path %s contributes unbalanced constant text: %s", pt.String(), d)
			}
		}
		if nRet == 0 {
			continue
		}
		r.Check("R05d", FuncName(f), f.Pos(), bad == "", bad)
	}
	// goose package: functions that build Coq text by hand
	for _, name := range []string{"ffiHeaderFooter"} {
		f := p.Func(Mod, name)
		if f == nil {
			continue
		}
		paths, _ := p.enumPaths(f, 1, 1000)
		bad := ""
		for _, pt := range paths {
			ret, isRet := pt.endsInReturn()
			if !isRet {
				continue
			}
			var d delim
			for _, rv := range ret.Results {
				v := resolveOnPath(pt, rv)
				if s, ok := constString(v); ok {
					d = d.add(delimOf(s))
				} else if c, ok := v.(*ssa.Call); ok && calleeName(c) == "fmt.Sprintf" {
					if fs, ok := constString(c.Call.Args[0]); ok {
						d = d.add(delimOf(fs))
					}
				}
			}
			if !d.balanced() {
				bad = "header+footer unbalanced on path " + pt.String() + ": " + d.String()
			}
		}
		r.Check("R05d", "goose."+name, f.Pos(), bad == "", bad)
	}
}

// ---------------------------------------------------------------------------

// guardedNoQuote: is there a fact that v contains no double quote?
func guardedNoQuote(rs relSet, v ssa.Value) bool {
	k := sk(v)
	return rs["strings.ContainsRune("+k+",34) == false"] || rs["false == strings.ContainsRune("+k+",34)"] ||
		rs["strings.Contains("+k+",\"\\\"\") == false"] || rs["false == strings.Contains("+k+",\"\\\"\")"]
}

var sourceTextDepth int

func isSourceText(v ssa.Value) (string, bool) {
	for _, o := range origins(v) {
		if c, ok := o.(*ssa.Call); ok {
			n := calleeName(c)
			switch {
			case n == "go/constant.StringVal":
				return "value of a Go string literal", true
			case strings.HasSuffix(n, ".printGo"):
				return "printed Go source", true
			case n == "(*go/ast.CommentGroup).Text":
				return "text of a Go comment", true
			}
			// a repository helper that hands such text on (its returned value is source text): the call
			// stands for that text, and the facts its body establishes before returning hold after the call
			if cal := calleeOf(&c.Call); cal != nil && cal.Pkg != nil && InRepo(cal.Pkg.Pkg.Path()) && len(cal.Blocks) > 0 && len(cal.Blocks) <= 12 && sourceTextDepth < 2 {
				sourceTextDepth++
				what, found := "", false
				for _, b := range cal.Blocks {
					if ret, ok := b.Instrs[len(b.Instrs)-1].(*ssa.Return); ok && len(ret.Results) == 1 {
						if w, ok := isSourceText(ret.Results[0]); ok {
							what, found = w, true
						}
					}
				}
				sourceTextDepth--
				if found {
					return what + " (through " + cal.Name() + ")", true
				}
			}
		}
		if ld, ok := o.(*ssa.UnOp); ok {
			if ow, fld, okf := fieldOf(ld); okf && ow.Obj().Name() == "BasicLit" && fld == "Value" {
				return "raw text of a Go literal", true
			}
		}
	}
	return "", false
}

func c05Sinks(p *Prog, r *Report) {
	nStr, nCom := 0, 0
	for _, f := range p.FuncsIn(Mod) {
		rm := p.Rels(f)
		p.instrs(f, func(b *ssa.BasicBlock, i int, in ssa.Instruction) {
			var val ssa.Value
			kind := ""
			switch x := in.(type) {
			case *ssa.Store:
				if fa, ok := x.Addr.(*ssa.FieldAddr); ok {
					o, fld, okf := fieldOf(fa)
					if okf && o.Obj().Pkg() != nil && o.Obj().Pkg().Path() == coqPkg {
						tn := o.Obj().Name()
						if tn == "StringLiteral" && fld == "Value" {
							val, kind = x.Val, "string:StringLiteral.Value"
						}
						if tn == "LoggingStmt" && fld == "GoCall" {
							val, kind = x.Val, "comment:LoggingStmt.GoCall"
						}
					}
				}
			case *ssa.ChangeType:
				if isCoqNamed(x.Type(), "GallinaString") {
					if _, ok := isSourceText(x.X); ok {
						val, kind = x.X, "string:GallinaString"
					} else if _, isPhi := x.X.(*ssa.Phi); isPhi {
						val, kind = x.X, "string:GallinaString"
					}
				}
			case *ssa.Call:
				if calleeName(x) == coqPkg+".NewComment" {
					val, kind = x.Call.Args[0], "comment:NewComment"
				}
			}
			if val == nil {
				return
			}
			src, isSrc := isSourceText(val)
			if !isSrc {
				if ph, ok := val.(*ssa.Phi); ok {
					for _, e := range ph.Edges {
						if s, ok2 := isSourceText(e); ok2 {
							src, isSrc = s, true
						}
					}
				}
			}
			if !isSrc && strings.HasPrefix(kind, "string:") {
				return
			}
			r.Sites++
			key := fmt.Sprintf("%s %s ← %s", FuncName(f), kind, sk(val))
			if strings.HasPrefix(kind, "string:") {
				nStr++
				rs := p.RelsAt(rm, in)
				ok := guardedNoQuote(rs, val)
				if !ok {
					if ph, isPhi := val.(*ssa.Phi); isPhi {
						// every source edge must be guarded at its definition
						ok = true
						for ei, e := range ph.Edges {
							if _, s := isSourceText(e); !s {
								continue
							}
							pred := ph.Block().Preds[ei]
							if p.blockDiverges(pred) {
								continue // the predecessor ends in a no-return reporter call: the edge is never taken
							}
							if !guardedNoQuote(p.RelsOnEdge(rm, pred, ph.Block()), e) {
								ok = false
							}
						}
					}
				}
				r.Check("R05c", key, instrPos(in), ok,
					fmt.Sprintf("%s reaches a Coq string without the fact that this very value contains no '\"': the Coq string literal would end early and the rest of the text becomes code", src))
			} else {
				nCom++
				r.OK("R05c", key, instrPos(in), "comment text ("+src+") is emitted through buffer.AddComment (sanitiser checked below)")
			}
		})
	}
	// comments attached to declarations: addSourceDoc appends CommentGroup.Text() to the Comment field
	// the sanitiser
	ac := p.Func(coqPkg, "*buffer.AddComment")
	if ac == nil {
		r.Anchor("R05c", "coq.buffer.AddComment")
		return
	}
	r.Func(FuncName(ac))
	// On every abstract path of AddComment (helpers spliced in) the text handed to the block printer
	// is ReplaceAll(ReplaceAll(<the parameter>, …), …): two chained passes that remove both delimiters.
	var blockFn *ssa.Function
	for _, g := range p.FuncsIn(coqPkg) {
		if FuncName(g) == "coq.*buffer.Block" || strings.HasSuffix(fullName(g), ".buffer).Block") {
			blockFn = g
		}
	}
	ips, okp := p.ipathsKeeping(ac, map[*ssa.Function]bool{blockFn: true})
	okSan, okFlow, nBlock := okp && blockFn != nil, okp && blockFn != nil, 0
	why := ""
	param := ac.Params[len(ac.Params)-1].Name()
	for _, ip := range ips {
		for _, e := range ip.Events {
			if blockFn == nil || e.Callee != fullName(blockFn) || len(e.Args) < 4 {
				continue
			}
			nBlock++
			txt := strings.TrimSuffix(strings.TrimPrefix(e.Args[3], "["), "]")
			n2, a2, ok2 := parseCallKey(txt)
			var n1 string
			var a1 []string
			ok1 := false
			if ok2 && len(a2) == 3 {
				n1, a1, ok1 = parseCallKey(a2[0])
			}
			if !ok2 || !ok1 || n2 != "strings.ReplaceAll" || n1 != "strings.ReplaceAll" || len(a1) != 3 {
				okSan = false
				why = fmt.Sprintf("the emitted text is %s", txt)
				if !strings.Contains(txt, "strings.ReplaceAll(") {
					okFlow = false
				}
				continue
			}
			if a1[0] != param {
				okFlow = false
			}
			unq := func(s string) string { return strings.Trim(s, `"`) }
			set := map[string]string{unq(a1[1]): unq(a1[2]), unq(a2[1]): unq(a2[2])}
			good := set["(*"] != "" && set["*)"] != "" && !strings.Contains(set["(*"], "(*") && !strings.Contains(set["*)"], "*)") &&
				!strings.Contains(set["(*"], "*)") && !strings.Contains(set["*)"], "(*")
			if !good {
				okSan = false
			}
			why = fmt.Sprintf("passes %s→%s then %s→%s", a1[1], a1[2], a2[1], a2[2])
		}
	}
	if nBlock == 0 {
		okSan, okFlow = false, false
		why = "no path of AddComment reaches the block printer"
	}
	r.Check("R05c", "AddComment neutralises comment delimiters by two successive passes", ac.Pos(), okSan,
		why+": a single simultaneous pass does not re-read rewritten text, so the overlapping sequence `(*)` keeps a `*)` and closes the Coq comment early")
	r.Check("R05c", "AddComment emits only the sanitised text", ac.Pos(), okFlow, "the text placed between `(*` and `*)` must be the output of the last sanitising pass")
	hasQuoteSan := false
	p.instrs(ac, func(b *ssa.BasicBlock, i int, in ssa.Instruction) {
		if c, ok := in.(*ssa.Call); ok {
			for _, a := range c.Call.Args {
				if s, ok := constString(a); ok && s == "\"" {
					hasQuoteSan = true
				}
			}
		}
	})
	r.Check("R05c", "AddComment neutralises double quotes", ac.Pos(), hasQuoteSan,
		"Coq lexes string literals inside comments: a Go comment, file comment or logging call with an odd number of '\"' opens a string that swallows the closing `*)` and the following definitions (probe quote)")
	if nStr == 0 {
		r.Unknown("R05c", "string sinks", token.NoPos, "no Go-derived text reaches a Coq string sink: the rule no longer sees the translator's string literals")
	}
	r.Note("%d string sinks, %d comment sinks", nStr, nCom)
}

// ---------------------------------------------------------------------------

func c05Flags(p *Prog, r *Report) {
	flags := map[string]bool{"TypeCheck": true, "AddSourceFileComments": true, "SkipInterfaces": true}
	n := 0
	for _, f := range p.FuncsIn(Mod) {
		p.instrs(f, func(b *ssa.BasicBlock, i int, in ssa.Instruction) {
			v, ok := in.(ssa.Value)
			if !ok {
				return
			}
			o, fld, okf := fieldOf(v)
			if !okf || o.Obj().Name() != "TranslationConfig" || !flags[fld] {
				return
			}
			if _, isAddr := v.(*ssa.FieldAddr); isAddr {
				return
			}
			n++
			r.Sites++
			key := fmt.Sprintf("%s reads %s", FuncName(f), fld)
			bad := []string{}
			for _, rf := range refs(v) {
				switch x := rf.(type) {
				case *ssa.If:
					// region controlled by the flag: blocks dominated by either successor but not by both's join
					for _, succ := range x.Block().Succs {
						for _, bb := range f.Blocks {
							if !succ.Dominates(bb) || len(succ.Preds) > 1 {
								continue
							}
							for _, in2 := range bb.Instrs {
								if c, ok := in2.(*ssa.Call); ok {
									if cal := calleeOf(&c.Call); cal != nil && cal.Pkg != nil && cal.Pkg.Pkg.Path() == Mod && producesBody(cal) {
										bad = append(bad, "body translator "+cal.Name()+" runs under the flag")
									}
								}
							}
						}
					}
				case *ssa.Store:
					if _, f2, ok := fieldOf(x.Addr); !ok || f2 != "AddTypes" {
						bad = append(bad, "stored into "+sk(x.Addr))
					}
				case *ssa.UnOp:
					if x.Op != token.NOT {
						bad = append(bad, "used by "+x.String())
					} else {
						for _, r2 := range refs(x) {
							if _, isIf := r2.(*ssa.If); !isIf {
								bad = append(bad, "negation used by "+r2.String())
							}
						}
					}
				case *ssa.DebugRef:
				default:
					bad = append(bad, "used by "+rf.String())
				}
			}
			r.Check("R05e", key, instrPos(in), len(bad) == 0, "the flag can influence a definition body: "+strings.Join(bad, "; "))
		})
	}
	if n == 0 {
		r.Unknown("R05e", "flag reads", token.NoPos, "no read of a TranslationConfig flag found")
	}
	// printer side: AddTypes only adds text after the body
	for _, fn := range []string{"FuncDecl.CoqDecl", "ConstDecl.CoqDecl"} {
		f := p.Func(coqPkg, fn)
		if f == nil {
			r.Anchor("R05e", "coq."+fn)
			continue
		}
		var flagIf *ssa.If
		var body ssa.Instruction
		p.instrs(f, func(b *ssa.BasicBlock, i int, in ssa.Instruction) {
			if ifc, ok := in.(*ssa.If); ok {
				if _, fld, okf := fieldOf(ifc.Cond); okf && fld == "AddTypes" {
					flagIf = ifc
				}
			}
			if c, ok := in.(*ssa.Call); ok && c.Call.IsInvoke() && c.Call.Method.Name() == "Coq" {
				if _, fld, okf := fieldOf(c.Call.Value); okf && (fld == "Body" || fld == "Val") {
					body = in
				}
			}
		})
		// closures (func() { … }()) hold the body emission in FuncDecl.CoqDecl
		for _, a := range f.AnonFuncs {
			p.instrs(a, func(b *ssa.BasicBlock, i int, in ssa.Instruction) {
				if c, ok := in.(*ssa.Call); ok && c.Call.IsInvoke() && c.Call.Method.Name() == "Coq" {
					body = in
				}
			})
		}
		ok := flagIf != nil && body != nil
		why := "no AddTypes test or no body emission found"
		if ok && body.Parent() == f {
			if !dominatesInstr(body, flagIf) {
				ok, why = false, "the body is emitted under or after the AddTypes test"
			}
		}
		r.Check("R05e", "coq."+fn+" adds lemmas after the body only", f.Pos(), ok, why)
	}
}

// producesBody: functions of the translator whose result is (part of) a definition body.
func producesBody(f *ssa.Function) bool {
	if f.Signature.Results().Len() == 0 {
		return false
	}
	ts := types.TypeString(f.Signature.Results().At(0).Type(), nil)
	for _, t := range []string{"coq.Expr", "coq.BlockExpr", "coq.Binding", "coq.FuncDecl", "coq.CallExpr", "coq.ConstDecl", "coq.Type", "coq.FuncLit"} {
		if strings.HasSuffix(ts, t) {
			return true
		}
	}
	return false
}

// ---------------------------------------------------------------------------

func c05Vernacular(p *Prog, r *Report) {
	cp := p.All[coqPkg]
	if cp == nil {
		r.Anchor("R05f", "package coq")
		return
	}
	declI, _ := cp.Types.Scope().Lookup("Decl").Type().Underlying().(*types.Interface)
	exprI, _ := cp.Types.Scope().Lookup("Expr").Type().Underlying().(*types.Interface)
	if declI == nil || exprI == nil {
		r.Anchor("R05f", "coq.Decl / coq.Expr")
		return
	}
	var bad []string
	n := 0
	for _, f := range p.FuncsIn(Mod) {
		p.instrs(f, func(b *ssa.BasicBlock, i int, in ssa.Instruction) {
			mi, ok := in.(*ssa.MakeInterface)
			if !ok {
				return
			}
			it, ok := mi.Type().Underlying().(*types.Interface)
			if !ok || !types.Identical(it, exprI) {
				return
			}
			n++
			if types.Implements(mi.X.Type(), declI) {
				bad = append(bad, fmt.Sprintf("%s converts %s to a term/type at %s", FuncName(f), types.TypeString(mi.X.Type(), qualNone), p.Pos(instrPos(in))))
			}
		})
	}
	r.Check("R05f", "no declaration value is used as a term or type", token.NoPos, len(bad) == 0,
		"a value whose text is a vernacular declaration is placed in expression/type position (its `Definition … .` lands in the middle of a term): "+strings.Join(bad, "; "))
	r.Note("%d conversions to coq.Expr/coq.Type in the translator inspected", n)
	// printer methods that are both Coq and CoqDecl emitters
	var both []string
	for _, name := range cp.Types.Scope().Names() {
		tn, ok := cp.Types.Scope().Lookup(name).(*types.TypeName)
		if !ok || types.IsInterface(tn.Type()) {
			continue
		}
		if types.Implements(tn.Type(), declI) && types.Implements(tn.Type(), exprI) {
			both = append(both, name)
		}
	}
	r.OK("R05f", "types that are both declaration and term emitters enumerated", token.NoPos, fmt.Sprintf("%v: none of them is converted to coq.Expr by the translator (above)", both))
}

func knownBufferAdd(n string) bool {
	return n == "(*"+coqPkg+".buffer).Add" || n == "(*"+coqPkg+".buffer).AddLine" || n == "(*"+coqPkg+".buffer).Block" || n == "(*"+coqPkg+".buffer).AddComment" || n == "("+coqPkg+".Binding).AddTo"
}
