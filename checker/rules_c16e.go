package main

import (
	"fmt"
	"go/token"
	"strings"

	"golang.org/x/tools/go/ssa"
)

// c16LeftoverWaiter (R16e): "promptly after a signal" has a structural necessary condition. If the timed wait is
// built from a goroutine that blocks in cond.Wait() and a select between its completion and a timer, then the
// function must not return while that goroutine is still parked: a waiter left behind is an extra waiter on the
// condition variable, and sync.Cond.Signal wakes one waiter — the leftover one instead of a live caller, whose wait
// then lasts until its own timeout. The rule follows machine.WaitTimeout into the function that implements it
// (the dependency's source is loaded like any other package) and requires that every return is reached only after
// the background waiter's completion was received.
func c16LeftoverWaiter(p *Prog, r *Report) {
	r.Rule("R16e", "no waiter left behind: in the function that implements WaitTimeout (followed through the forwarding call into the primitive module), if a goroutine is started that blocks in (*sync.Cond).Wait, every return of the function is reached only through the select arm (or receive) that observes that goroutine's completion; a return through the timer arm leaves an extra waiter that consumes a later Signal", 1)
	start := p.Func(machinePkg, "WaitTimeout")
	if start == nil {
		r.Anchor("R16e", "machine.WaitTimeout")
		return
	}
	// follow single forwarding calls (depth 3) to the function that starts a goroutine
	impl := start
	for depth := 0; depth < 3; depth++ {
		hasGo := false
		var next *ssa.Function
		p.instrs(impl, func(b *ssa.BasicBlock, i int, in ssa.Instruction) {
			switch x := in.(type) {
			case *ssa.Go:
				hasGo = true
			case *ssa.Call:
				if g := x.Call.StaticCallee(); g != nil && len(g.Blocks) > 0 && strings.Contains(g.Name(), "WaitTimeout") {
					next = g
				}
			}
		})
		if hasGo || next == nil {
			break
		}
		impl = next
	}
	r.Func(FuncName(impl))
	// the goroutine that waits on the condition variable, and the channel it signals completion on
	var waiter *ssa.Function
	var spawn *ssa.Go
	// the goroutine may be started by a helper of the implementation (waitInBackground(cond) returning the channel)
	scope := []*ssa.Function{impl}
	p.instrs(impl, func(b *ssa.BasicBlock, i int, in ssa.Instruction) {
		if c, ok := in.(*ssa.Call); ok {
			if g := c.Call.StaticCallee(); g != nil && g.Pkg == impl.Pkg && len(g.Blocks) > 0 {
				scope = append(scope, g)
			}
		}
	})
	for _, fn := range scope {
		p.instrs(fn, func(b *ssa.BasicBlock, i int, in ssa.Instruction) {
			g, ok := in.(*ssa.Go)
			if !ok {
				return
			}
			var cl *ssa.Function
			switch v := g.Call.Value.(type) {
			case *ssa.MakeClosure:
				cl, _ = v.Fn.(*ssa.Function)
			case *ssa.Function:
				cl = v
			}
			if cl == nil {
				return
			}
			p.instrs(cl, func(b2 *ssa.BasicBlock, i2 int, in2 ssa.Instruction) {
				if c, ok := in2.(*ssa.Call); ok && calleeName(c) == "(*sync.Cond).Wait" {
					waiter, spawn = cl, g
				}
			})
		})
	}
	if waiter == nil {
		r.OK("R16e", FuncName(impl)+" starts no background waiter", impl.Pos(), "no goroutine of the implementation blocks in (*sync.Cond).Wait")
		return
	}
	// returns reached through a select arm other than the receive of the waiter's completion
	var sel *ssa.Select
	p.instrs(impl, func(b *ssa.BasicBlock, i int, in ssa.Instruction) {
		if s, ok := in.(*ssa.Select); ok {
			sel = s
		}
	})
	if sel == nil {
		r.Unknown("R16e", FuncName(impl)+" joins its background waiter", instrPos(spawn), "a goroutine blocks in cond.Wait but the function has no select: whether it is joined before every return is not decided")
		return
	}
	// the completion channel: one the waiter closes or sends on (a captured variable); the other arms are timers
	doneIdx := -1
	for i, st := range sel.States {
		if st.Dir != 2 { // types.RecvOnly
			continue
		}
		k := sk(st.Chan)
		closes := false
		p.instrs(waiter, func(b2 *ssa.BasicBlock, i2 int, in2 ssa.Instruction) {
			if c, ok := in2.(*ssa.Call); ok {
				if bi, ok := c.Call.Value.(*ssa.Builtin); ok && bi.Name() == "close" && len(c.Call.Args) == 1 {
					closes = true
				}
			}
			if _, ok := in2.(*ssa.Send); ok {
				closes = true
			}
		})
		if closes && !strings.Contains(k, "time.After") && !strings.Contains(k, ".C") {
			doneIdx = i
		}
	}
	rm := p.Rels(impl)
	idxKey := shortKey(sk(sel) + "#0")
	bad := ""
	nRet := 0
	for _, b := range impl.Blocks {
		ret, ok := b.Instrs[len(b.Instrs)-1].(*ssa.Return)
		if !ok {
			continue
		}
		nRet++
		rs := p.RelsAt(rm, ret)
		through := -1
		for i := range sel.States {
			if rs[eqRel(fmt.Sprint(i), idxKey)] {
				through = i
			}
		}
		if through != doneIdx || doneIdx < 0 {
			what := "an arm that does not observe the waiter's completion"
			if through >= 0 && through < len(sel.States) {
				what = "the arm receiving from " + sk(sel.States[through].Chan)
			}
			bad = fmt.Sprintf("%s returns through %s while the goroutine it started (%s) is still blocked in cond.Wait()", impl.Name(), what, FuncName(waiter))
		}
	}
	key := "the timed wait leaves its background waiter behind on the timeout arm"
	if bad != "" {
		r.Fail("R16e", key, posOr(instrPos(spawn), impl.Pos()), bad+": a later Signal wakes that leftover waiter instead of a live caller", "")
	} else {
		r.OK("R16e", FuncName(impl)+" joins its background waiter on every return", impl.Pos(), fmt.Sprintf("%d returns, all through the completion arm", nRet))
	}
}

func posOr(a, b token.Pos) token.Pos {
	if a != token.NoPos {
		return a
	}
	return b
}
