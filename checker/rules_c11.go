package main

import (
	"fmt"
	"go/constant"
	"go/types"
	"sort"
	"strings"

	"golang.org/x/tools/go/ssa"
)

// stripConvs textually removes integer conversion wrappers from an exprKey:
// "uint64(len(buf))" -> "len(buf)", "int64((a * 4096))" -> "(a * 4096)".
func stripConvs(s string) string {
	for {
		changed := false
		for _, pre := range []string{"uint64(", "int64(", "int(", "uint(", "uint32(", "int32(", "uintptr("} {
			for {
				i := strings.Index(s, pre)
				if i < 0 || (i > 0 && isIdentByte(s[i-1])) {
					break
				}
				// find matching paren
				d, j := 0, i+len(pre)-1
				for ; j < len(s); j++ {
					if s[j] == '(' {
						d++
					} else if s[j] == ')' {
						d--
						if d == 0 {
							break
						}
					}
				}
				if j >= len(s) {
					break
				}
				s = s[:i] + s[i+len(pre):j] + s[j+1:]
				changed = true
			}
		}
		if !changed {
			return s
		}
	}
}

func isIdentByte(c byte) bool {
	return c == '_' || c == '.' || (c >= 'a' && c <= 'z') || (c >= 'A' && c <= 'Z') || (c >= '0' && c <= '9')
}

// eqHolds reports whether rels contains an equality between x and any of ys, modulo integer conversions.
func eqHolds(rs relSet, x string, ys ...string) bool {
	x = stripConvs(x)
	for k := range rs {
		i := topLevelIndex(k, " == ")
		if i < 0 {
			continue
		}
		a, b := stripConvs(k[:i]), stripConvs(k[i+4:])
		for _, y := range ys {
			y = stripConvs(y)
			if (a == x && b == y) || (a == y && b == x) {
				return true
			}
		}
	}
	return false
}

// syscallDiscipline (A5) checks every unix.* call of f on every path:
// the error result is tested and a failure never reaches a normal return
// (unless the error itself is returned); a byte-count result is compared with
// the expected length before any normal return.
type countSpec struct {
	expectedEv func(e ievent, name string) []string
	geOK       bool
	// expected(call) returns the keys the count must be proven equal to (nil: the call has no count obligation)
	expected func(c *ssa.Call, name string) []string
	// loopOK: the count may instead drive a write-all loop (checked by the caller's own rule)
	loopOK bool
}

func isErrorType(t types.Type) bool {
	n, ok := t.(*types.Named)
	return ok && n.Obj().Pkg() == nil && n.Obj().Name() == "error"
}

func unixConst(p *Prog, name string) (int64, bool) {
	pk := p.All["golang.org/x/sys/unix"]
	if pk == nil {
		return 0, false
	}
	c, ok := pk.Types.Scope().Lookup(name).(*types.Const)
	if !ok {
		return 0, false
	}
	return constant.Int64Val(c.Val())
}

// ipathDiscipline (A5 on abstract paths): on every normally returning path of f (helpers spliced in),
// every system call's error is known nil or is returned, and every byte count with an expectation is proven.
func (p *Prog) ipathDiscipline(r *Report, rule, fname string, f *ssa.Function, cs countSpec, deferOK func(name string, ip ipath) bool) []ipath {
	ips, ok := p.ipaths(f)
	if !ok {
		r.Unknown(rule, fname+" paths", f.Pos(), "too many paths to enumerate")
		return nil
	}
	type verdict struct {
		bad string
		pos ssa.Instruction
		n   int
	}
	errV := map[string]*verdict{}
	cntV := map[string]*verdict{}
	defV := map[string]*verdict{}
	get := func(m map[string]*verdict, k string, in ssa.Instruction) *verdict {
		if m[k] == nil {
			m[k] = &verdict{pos: in}
		}
		m[k].n++
		return m[k]
	}
	for _, ip := range ips {
		for _, e := range ip.Events {
			if !strings.HasPrefix(e.Callee, "golang.org/x/sys/unix.") {
				continue
			}
			name := strings.TrimPrefix(e.Callee, "golang.org/x/sys/unix.")
			if e.Deferred {
				v := get(defV, name, e.In)
				if deferOK == nil || !deferOK(name, ip) {
					v.bad = "the result of a deferred system call is discarded; only accepted for a close that follows an fsync on every path"
				}
				continue
			}
			var sig *types.Signature
			if ci, ok := e.In.(ssa.CallInstruction); ok {
				sig = ci.Common().Signature()
			}
			if sig == nil {
				continue
			}
			res := sig.Results()
			errKey, cntKey := "", ""
			for i := 0; i < res.Len(); i++ {
				k := e.Key
				if res.Len() > 1 {
					k = shortKey(e.Key + "#" + itoa(i))
				}
				if isErrorType(res.At(i).Type()) {
					errKey = k
				} else if b, ok := res.At(i).Type().Underlying().(*types.Basic); ok && b.Kind() == types.Int && i == 0 {
					cntKey = k
				}
			}
			if ip.Exit != "return" {
				continue // the failure (or another refusal) surfaces as a panic
			}
			if errKey != "" {
				v := get(errV, name, e.In)
				okE := ip.Rels[eqRel(errKey, "nil")] || ip.Rels[eqRel(errKey, "nil:error")]
				for _, rk := range ip.Ret {
					if rk == errKey || strings.Contains(rk, errKey) {
						okE = true // the error (or a verdict computed from it) is returned
					}
				}
				if !okE && v.bad == "" {
					v.bad = "a normal return is reachable without the error having been tested nil or returned: " + ip.Trace
				}
			}
			if want := cs.expectedKeys(e, name); want != nil {
				v := get(cntV, name, e.In)
				if !eqHolds(ip.Rels, cntKey, want...) && v.bad == "" {
					if !cs.geOK || !geHolds(ip.Rels, cntKey, want...) {
						v.bad = fmt.Sprintf("a normal return is reachable without the byte count having been proven equal to %v: %s (facts %v)", want, ip.Trace, relList(ip.Rels))
					}
				}
			}
		}
	}
	for _, name := range sortedKeys(errV) {
		v := errV[name]
		r.Sites++
		r.Check(rule, fmt.Sprintf("%s unix.%s error", fname, name), instrPos(v.pos), v.bad == "", v.bad)
	}
	for _, name := range sortedKeys(cntV) {
		v := cntV[name]
		r.Check(rule, fmt.Sprintf("%s unix.%s count", fname, name), instrPos(v.pos), v.bad == "", v.bad)
	}
	for _, name := range sortedKeys(defV) {
		v := defV[name]
		r.Check(rule, fmt.Sprintf("%s defer unix.%s result discarded", fname, name), instrPos(v.pos), v.bad == "", v.bad)
	}
	return ips
}

func (cs countSpec) expectedKeys(e ievent, name string) []string {
	if cs.expectedEv == nil {
		return nil
	}
	return cs.expectedEv(e, name)
}

// geHolds: some `want <= count` relation holds (for APIs that never report more than requested).
func geHolds(rs relSet, x string, ys ...string) bool {
	x = stripConvs(x)
	for k := range rs {
		i := topLevelIndex(k, " <= ")
		if i < 0 {
			continue
		}
		a, b := stripConvs(k[:i]), stripConvs(k[i+4:])
		for _, y := range ys {
			if a == stripConvs(y) && b == x {
				return true
			}
		}
	}
	return false
}

func checkC11(p *Prog, r *Report) {
	r.Rule("R11a", "result discipline: on every normally returning path through every system call of the file disk (helpers spliced in), a failure never reaches the return — the error result is known nil on the path or is returned, and the byte count of pread/pwrite is proven equal to the block size / buffer length (abstract interprocedural paths with branch facts)", 9)
	r.Rule("R11b", "Barrier: every path that returns normally passes through fsync of the disk's own descriptor; Close closes that descriptor", 2)
	r.Rule("R11c", "open path: every successful return of the constructor (i) opened with O_CREAT|O_RDWR and without O_TRUNC, (ii) on a regular file either resized it to numBlocks*BlockSize bytes or proved its size equal to numBlocks*BlockSize in bytes (unit discipline), (iii) stores the opened descriptor and the requested size", 3)
	r.Assume = append(r.Assume, "open/fstat/ftruncate/pread/pwrite/fsync behave as documented (ftruncate extends with zeros, preserves the prefix)", "durability on real hardware and crash recovery are not decided")
	dc := newDiskCtx(p, r, "R11a")
	if dc == nil {
		return
	}
	bs := fmt.Sprint(dc.blockSize)
	cs := countSpec{expectedEv: func(e ievent, name string) []string {
		if (name == "Pread" || name == "Pwrite") && len(e.Args) == 3 {
			return []string{bs, "len(" + e.Args[1] + ")"}
		}
		return nil
	}}
	nFile := 0
	for _, im := range dc.impls {
		_, region := dc.computeRoles(im)
		uses := false
		for _, f := range region {
			p.instrs(f, func(b *ssa.BasicBlock, i int, in ssa.Instruction) {
				if _, _, ok := unixCall(in); ok {
					uses = true
				}
			})
		}
		if !uses {
			continue
		}
		nFile++
		fdField := ""
		paths := map[string][]ipath{}
		for _, mn := range sortedKeys(im.Methods) {
			f := im.Methods[mn]
			r.Func(FuncName(f))
			paths[mn] = p.ipathDiscipline(r, "R11a", im.Name+"."+mn, f, cs, nil)
		}
		for _, ip := range paths["ReadTo"] {
			for _, e := range ip.eventsOf("golang.org/x/sys/unix.Pread") {
				if i := strings.LastIndex(e.Args[0], "."); i >= 0 {
					fdField = e.Args[0][i:]
				}
			}
		}
		if fdField == "" {
			r.Unknown("R11b", im.Name+" descriptor", im.Named.Obj().Pos(), "cannot identify the descriptor field (first argument of pread in ReadTo)")
			continue
		}
		for _, spec := range []struct{ method, sys string }{{"Barrier", "Fsync"}, {"Close", "Close"}} {
			f := im.Methods[spec.method]
			if f == nil {
				r.Anchor("R11b", im.Name+"."+spec.method)
				continue
			}
			bad := ""
			for _, ip := range paths[spec.method] {
				if ip.Exit != "return" {
					continue
				}
				found := false
				for _, e := range ip.eventsOf("golang.org/x/sys/unix." + spec.sys) {
					if !e.Deferred && len(e.Args) > 0 && strings.HasSuffix(e.Args[0], fdField) {
						found = true
					}
				}
				if !found {
					bad = "a normal return is reachable without unix." + spec.sys + "(…" + fdField + "): " + ip.Trace
				}
			}
			r.Check("R11b", fmt.Sprintf("%s.%s passes through %s", im.Name, spec.method, spec.sys), f.Pos(), bad == "" && len(paths[spec.method]) > 0, bad)
		}
	}
	if nFile == 0 {
		r.Unknown("R11a", "file-backed implementation", 0, "no implementation of disk.Disk calls into golang.org/x/sys/unix")
	}
	for _, f := range sortedFuncs(dc.ctors) {
		opens := false
		for _, g := range p.region([]*ssa.Function{f}) {
			p.instrs(g, func(b *ssa.BasicBlock, i int, in ssa.Instruction) {
				if _, name, ok := unixCall(in); ok && (name == "Open" || name == "Openat") {
					opens = true
				}
			})
		}
		if !opens {
			continue
		}
		r.Func(FuncName(f))
		ips := p.ipathDiscipline(r, "R11a", f.Name(), f, cs, nil)
		dc.ruleOpenPath2(r, f, ips)
	}
}

func sortedFuncs(m map[*ssa.Function]bool) []*ssa.Function {
	var out []*ssa.Function
	for f := range m {
		out = append(out, f)
	}
	sort.Slice(out, func(i, j int) bool { return out[i].String() < out[j].String() })
	return out
}

func (dc *diskCtx) ruleOpenPath2(r *Report, f *ssa.Function, ips []ipath) {
	p := dc.p
	bs := fmt.Sprint(dc.blockSize)
	var nb *ssa.Parameter
	for _, pa := range f.Params {
		if b, ok := pa.Type().Underlying().(*types.Basic); ok && b.Kind() == types.Uint64 {
			nb = pa
		}
	}
	if nb == nil {
		r.Unknown("R11c", f.Name()+" size parameter", f.Pos(), "no uint64 size parameter")
		return
	}
	want1, want2 := "("+nb.Name()+" * "+bs+")", "("+bs+" * "+nb.Name()+")"
	errIdx := -1
	for i := 0; i < f.Signature.Results().Len(); i++ {
		if isErrorType(f.Signature.Results().At(i).Type()) {
			errIdx = i
		}
	}
	oc, _ := unixConst(p, "O_CREAT")
	orw, _ := unixConst(p, "O_RDWR")
	otr, _ := unixConst(p, "O_TRUNC")
	acc, _ := unixConst(p, "O_ACCMODE")
	reg, _ := unixConst(p, "S_IFREG")
	nSucc := 0
	badFlags, badSize, badFields := "", "", ""
	for _, ip := range ips {
		if ip.Exit != "return" || errIdx < 0 || errIdx >= len(ip.Ret) || ip.Ret[errIdx] != "nil" {
			continue
		}
		nSucc++
		opens := ip.eventsOf("golang.org/x/sys/unix.Open")
		if len(opens) != 1 {
			badFlags = fmt.Sprintf("%d open calls on a successful path", len(opens))
			continue
		}
		op := opens[0]
		var flags int64 = -1
		if ci, ok := op.In.(ssa.CallInstruction); ok {
			if fl, okc := foldInt(ci.Common().Args[1]); okc {
				flags = fl
			}
		}
		if flags < 0 || flags&oc == 0 || flags&acc != orw || flags&otr != 0 {
			badFlags = fmt.Sprintf("flags=%#x: need O_CREAT and O_RDWR, and must not contain O_TRUNC (would erase the image on reopen)", flags)
		}
		fdKey := shortKey(op.Key + "#0")
		trunc := false
		for _, e := range ip.eventsOf("golang.org/x/sys/unix.Ftruncate") {
			lk := stripConvs(e.Args[1])
			if e.Args[0] == fdKey && (lk == want1 || lk == want2) {
				trunc = true
			} else {
				badSize = fmt.Sprintf("ftruncate(%s, %s): must resize the opened descriptor to %s bytes", e.Args[0], e.Args[1], want1)
			}
		}
		sizeEq, notRegular := false, false
		for k := range ip.Rels {
			if i := topLevelIndex(k, " == "); i >= 0 {
				a, b := stripConvs(k[:i]), stripConvs(k[i+4:])
				for _, pr := range [][2]string{{a, b}, {b, a}} {
					if strings.HasSuffix(pr[0], ".Size") && (pr[1] == want1 || pr[1] == want2) {
						sizeEq = true
					}
					if strings.Contains(pr[0], ".Mode & ") && pr[1] == "0" {
						notRegular = true
					}
				}
			}
			if i := topLevelIndex(k, " != "); i >= 0 {
				a, b := stripConvs(k[:i]), stripConvs(k[i+4:])
				for _, pr := range [][2]string{{a, b}, {b, a}} {
					if strings.Contains(pr[0], ".Mode & ") && pr[1] == fmt.Sprint(reg) {
						notRegular = true
					}
				}
			}
		}
		if !(trunc || sizeEq || notRegular) && badSize == "" {
			badSize = fmt.Sprintf("successful return on path %s without resizing, for a regular file whose size was not proven equal to %s bytes; facts: %v", ip.Trace, want1, relList(ip.Rels))
		}
		// (iii) the returned disk: descriptor and size fields
		if ip.RetIn != nil {
			okFd, okSz := false, false
			for _, rv := range ip.RetIn.Results {
				if dc.implOf(rv.Type()) == nil {
					continue
				}
				for _, v := range flowOperands(rv) {
					a, ok := v.(*ssa.Alloc)
					if !ok {
						continue
					}
					for _, rf := range refs(a) {
						fa, ok := rf.(*ssa.FieldAddr)
						if !ok {
							continue
						}
						for _, r2 := range refs(fa) {
							st, ok := r2.(*ssa.Store)
							if !ok {
								continue
							}
							if sk(st.Val) == fdKey || replaceAllKeys(sk(st.Val), nil) == fdKey {
								okFd = true
							}
							if st.Val == ssa.Value(nb) {
								okSz = true
							}
						}
					}
				}
			}
			if !okFd || !okSz {
				badFields = fmt.Sprintf("the returned disk does not carry the opened descriptor (%v) and the requested number of blocks (%v)", okFd, okSz)
			}
		}
	}
	r.Check("R11c", f.Name()+" open flags", f.Pos(), badFlags == "" && nSucc > 0, badFlags)
	r.Check("R11c", f.Name()+" size established", f.Pos(), badSize == "" && nSucc > 0, badSize)
	r.Check("R11c", f.Name()+" result fields", f.Pos(), badFields == "" && nSucc > 0, badFields)
}
