package main

import (
	"fmt"
	"go/constant"
	"go/types"
	"strings"

	"golang.org/x/tools/go/ssa"
)

// stripConvs textually removes integer conversion wrappers from an exprKey:
// "uint64(len(buf))" -> "len(buf)", "int64((a * 4096))" -> "(a * 4096)".
func stripConvs(s string) string {
	for {
		changed := false
		for _, pre := range []string{"uint64(", "int64(", "int(", "uint(", "uint32(", "int32(", "uintptr("} {
			for {
				i := strings.Index(s, pre)
				if i < 0 || (i > 0 && isIdentByte(s[i-1])) {
					break
				}
				// find matching paren
				d, j := 0, i+len(pre)-1
				for ; j < len(s); j++ {
					if s[j] == '(' {
						d++
					} else if s[j] == ')' {
						d--
						if d == 0 {
							break
						}
					}
				}
				if j >= len(s) {
					break
				}
				s = s[:i] + s[i+len(pre):j] + s[j+1:]
				changed = true
			}
		}
		if !changed {
			return s
		}
	}
}

func isIdentByte(c byte) bool {
	return c == '_' || c == '.' || (c >= 'a' && c <= 'z') || (c >= 'A' && c <= 'Z') || (c >= '0' && c <= '9')
}

// eqHolds reports whether rels contains an equality between x and any of ys, modulo integer conversions.
func eqHolds(rs relSet, x string, ys ...string) bool {
	x = stripConvs(x)
	for k := range rs {
		i := topLevelIndex(k, " == ")
		if i < 0 {
			continue
		}
		a, b := stripConvs(k[:i]), stripConvs(k[i+4:])
		for _, y := range ys {
			y = stripConvs(y)
			if (a == x && b == y) || (a == y && b == x) {
				return true
			}
		}
	}
	return false
}

// syscallDiscipline (A5) checks every unix.* call of f on every path:
// the error result is tested and a failure never reaches a normal return
// (unless the error itself is returned); a byte-count result is compared with
// the expected length before any normal return.
type countSpec struct {
	// expected(call) returns the keys the count must be proven equal to (nil: the call has no count obligation)
	expected func(c *ssa.Call, name string) []string
	// loopOK: the count may instead drive a write-all loop (checked by the caller's own rule)
	loopOK bool
}

func (p *Prog) syscallDiscipline(r *Report, rule string, fname string, f *ssa.Function, cs countSpec, deferOK func(name string) bool) {
	paths, ok := p.enumPaths(f, 1, 20000)
	if !ok {
		r.Unknown(rule, fname+" paths", f.Pos(), "too many paths to enumerate")
		return
	}
	type site struct {
		call *ssa.Call
		name string
	}
	var sites []site
	p.instrs(f, func(b *ssa.BasicBlock, i int, in ssa.Instruction) {
		if c, name, ok := unixCall(in); ok {
			sites = append(sites, site{c, name})
		}
		if d, ok := in.(*ssa.Defer); ok {
			if cal := calleeOf(&d.Call); cal != nil && cal.Pkg != nil && cal.Pkg.Pkg.Path() == "golang.org/x/sys/unix" {
				r.Sites++
				okD := deferOK != nil && deferOK(cal.Name())
				r.Check(rule, fmt.Sprintf("%s defer unix.%s result discarded", fname, cal.Name()), instrPos(in), okD,
					"the result of a deferred system call is discarded; only accepted for a close that follows an fsync on every path")
			}
		}
	})
	for _, s := range sites {
		r.Sites++
		c := s.call
		// locate error and count results
		var errV, cntV ssa.Value
		res := c.Call.Signature().Results()
		if res.Len() == 1 {
			if isErrorType(res.At(0).Type()) {
				errV = c
			}
		} else {
			for _, rf := range refs(c) {
				if ex, ok := rf.(*ssa.Extract); ok {
					t := res.At(ex.Index).Type()
					if isErrorType(t) {
						errV = ex
					} else if b, ok := t.Underlying().(*types.Basic); ok && b.Kind() == types.Int && ex.Index == 0 {
						cntV = ex
					}
				}
			}
		}
		hasErr := false
		for i := 0; i < res.Len(); i++ {
			if isErrorType(res.At(i).Type()) {
				hasErr = true
			}
		}
		key := fmt.Sprintf("%s unix.%s", fname, s.name)
		if hasErr {
			bad := ""
			if errV == nil {
				bad = "the error result is discarded (bound to _ or never extracted)"
			} else {
				ek := sk(errV)
				for _, pt := range paths {
					if !pathHas(pt, c) {
						continue
					}
					ret, isRet := pt.endsInReturn()
					if !isRet {
						continue // ends in panic: the failure (or another refusal) surfaces
					}
					rs := pt.rels()
					if rs[eqRel(ek, "nil")] || rs[eqRel(ek, "nil:error")] {
						continue
					}
					returned := false
					for _, rv := range ret.Results {
						for _, o := range origins(rv) {
							if o == errV {
								returned = true
							}
						}
					}
					// `return err == nil` style: success flag derived from the error
					for _, rv := range ret.Results {
						if b, ok := rv.(*ssa.BinOp); ok && (b.X == errV || b.Y == errV) {
							returned = true
						}
					}
					if returned {
						continue
					}
					bad = "a normal return is reachable without the error having been tested nil or returned: path " + pt.String()
					break
				}
			}
			r.Check(rule, key+" error", instrPos(c), bad == "", bad)
		}
		if want := cs.expected(c, s.name); want != nil {
			bad := ""
			if cntV == nil {
				bad = "the byte count is discarded (bound to _): a short transfer is reported as success"
			} else {
				ck := sk(cntV)
				for _, pt := range paths {
					if !pathHas(pt, c) {
						continue
					}
					if _, isRet := pt.endsInReturn(); !isRet {
						continue
					}
					if eqHolds(pt.rels(), ck, want...) {
						continue
					}
					bad = fmt.Sprintf("a normal return is reachable without the count having been proven equal to %v: path %s (facts %v)", want, pt.String(), relList(pt.rels()))
					break
				}
			}
			r.Check(rule, key+" count", instrPos(c), bad == "", bad)
		}
	}
}

func pathHas(pt cfgPath, in ssa.Instruction) bool {
	for _, b := range pt.Blocks {
		if b == in.Block() {
			return true
		}
	}
	return false
}

func isErrorType(t types.Type) bool {
	n, ok := t.(*types.Named)
	return ok && n.Obj().Pkg() == nil && n.Obj().Name() == "error"
}

func unixConst(p *Prog, name string) (int64, bool) {
	pk := p.All["golang.org/x/sys/unix"]
	if pk == nil {
		return 0, false
	}
	c, ok := pk.Types.Scope().Lookup(name).(*types.Const)
	if !ok {
		return 0, false
	}
	return constant.Int64Val(c.Val())
}

func checkC11(p *Prog, r *Report) {
	r.Rule("R11a", "result discipline: on every path through every system call of the file disk, a failure never reaches a normal return — the error result is tested (== nil holds on the path) or returned, and the byte count of pread/pwrite is proven equal to the block size / buffer length before any normal return (path enumeration, branch facts)", 9)
	r.Rule("R11b", "Barrier: every path that returns normally passes through fsync of the disk's own descriptor; Close closes that descriptor", 2)
	r.Rule("R11c", "open path: every successful return of the constructor (i) opened with O_CREAT|O_RDWR and without O_TRUNC, (ii) on a regular file either resized it to numBlocks*BlockSize bytes or proved its size equal to numBlocks*BlockSize in bytes (unit discipline), (iii) stores the opened descriptor and the requested size", 4)
	r.Assume = append(r.Assume, "open/fstat/ftruncate/pread/pwrite/fsync behave as documented (ftruncate extends with zeros, preserves the prefix)", "durability on real hardware and crash recovery are not decided")
	dc := newDiskCtx(p, r, "R11a")
	if dc == nil {
		return
	}
	bs := fmt.Sprint(dc.blockSize)
	cs := countSpec{expected: func(c *ssa.Call, name string) []string {
		if name == "Pread" || name == "Pwrite" {
			return []string{bs, "len(" + sk(c.Call.Args[1]) + ")"}
		}
		return nil
	}}
	nFile := 0
	for _, im := range dc.impls {
		uses := false
		for _, mn := range sortedKeys(im.Methods) {
			f := im.Methods[mn]
			p.instrs(f, func(b *ssa.BasicBlock, i int, in ssa.Instruction) {
				if _, _, ok := unixCall(in); ok {
					uses = true
				}
			})
		}
		if !uses {
			continue
		}
		nFile++
		fdKey := ""
		for _, mn := range sortedKeys(im.Methods) {
			f := im.Methods[mn]
			r.Func(FuncName(f))
			p.syscallDiscipline(r, "R11a", im.Name+"."+mn, f, cs, nil)
		}
		// descriptor field: the int field passed as fd to pread
		if f := im.Methods["ReadTo"]; f != nil {
			p.instrs(f, func(b *ssa.BasicBlock, i int, in ssa.Instruction) {
				if c, name, ok := unixCall(in); ok && name == "Pread" {
					fdKey = sk(c.Call.Args[0])
				}
			})
		}
		if fdKey == "" {
			r.Unknown("R11b", im.Name+" descriptor", im.Named.Obj().Pos(), "cannot identify the descriptor field (first argument of pread in ReadTo)")
			continue
		}
		for _, spec := range []struct{ method, sys string }{{"Barrier", "Fsync"}, {"Close", "Close"}} {
			f := im.Methods[spec.method]
			if f == nil {
				r.Anchor("R11b", im.Name+"."+spec.method)
				continue
			}
			paths, _ := p.enumPaths(f, 1, 5000)
			bad := ""
			for _, pt := range paths {
				if _, isRet := pt.endsInReturn(); !isRet {
					continue
				}
				found := false
				for _, b := range pt.Blocks {
					for _, in := range b.Instrs {
						if c, name, ok := unixCall(in); ok && name == spec.sys && sk(c.Call.Args[0]) == fdKey {
							found = true
						}
					}
				}
				if !found {
					bad = "a normal return is reachable without unix." + spec.sys + "(" + fdKey + "): path " + pt.String()
					break
				}
			}
			r.Check("R11b", fmt.Sprintf("%s.%s passes through %s", im.Name, spec.method, spec.sys), f.Pos(), bad == "", bad)
		}
	}
	if nFile == 0 {
		r.Unknown("R11a", "file-backed implementation", 0, "no implementation of disk.Disk calls into golang.org/x/sys/unix")
	}
	// constructors that open a file
	for f := range dc.ctors {
		opens := false
		p.instrs(f, func(b *ssa.BasicBlock, i int, in ssa.Instruction) {
			if _, name, ok := unixCall(in); ok && (name == "Open" || name == "Openat") {
				opens = true
			}
		})
		if !opens {
			continue
		}
		r.Func(FuncName(f))
		p.syscallDiscipline(r, "R11a", f.Name(), f, cs, nil)
		dc.ruleOpenPath(r, f)
	}
}

func (dc *diskCtx) ruleOpenPath(r *Report, f *ssa.Function) {
	p := dc.p
	bs := fmt.Sprint(dc.blockSize)
	var nb *ssa.Parameter
	for _, pa := range f.Params {
		if b, ok := pa.Type().Underlying().(*types.Basic); ok && b.Kind() == types.Uint64 {
			nb = pa
		}
	}
	if nb == nil {
		r.Unknown("R11c", f.Name()+" size parameter", f.Pos(), "no uint64 size parameter")
		return
	}
	want1, want2 := "("+nb.Name()+" * "+bs+")", "("+bs+" * "+nb.Name()+")"
	var open *ssa.Call
	p.instrs(f, func(b *ssa.BasicBlock, i int, in ssa.Instruction) {
		if c, name, ok := unixCall(in); ok && name == "Open" {
			open = c
		}
	})
	if open == nil {
		r.Unknown("R11c", f.Name()+" open", f.Pos(), "no unix.Open call")
		return
	}
	// (i) flags
	flags, okc := constInt(open.Call.Args[1])
	oc, _ := unixConst(p, "O_CREAT")
	orw, _ := unixConst(p, "O_RDWR")
	otr, _ := unixConst(p, "O_TRUNC")
	acc, _ := unixConst(p, "O_ACCMODE")
	r.Check("R11c", f.Name()+" open flags", instrPos(open), okc && flags&oc != 0 && flags&acc == orw && flags&otr == 0,
		fmt.Sprintf("flags=%#x: need O_CREAT and O_RDWR, and must not contain O_TRUNC (would erase the image on reopen)", flags))
	fdKey := sk(open) + "#0"
	// (ii) per successful path
	paths, ok := p.enumPaths(f, 1, 20000)
	if !ok {
		r.Unknown("R11c", f.Name()+" paths", f.Pos(), "too many paths")
		return
	}
	nSucc := 0
	bad := ""
	for _, pt := range paths {
		ret, isRet := pt.endsInReturn()
		if !isRet {
			continue
		}
		succ := false
		for _, rv := range ret.Results {
			if isErrorType(rv.Type()) {
				if c, ok := rv.(*ssa.Const); ok && c.Value == nil {
					succ = true
				}
			}
		}
		if !succ {
			continue
		}
		nSucc++
		rs := pt.rels()
		trunc := false
		for _, b := range pt.Blocks {
			for _, in := range b.Instrs {
				if c, name, ok := unixCall(in); ok && name == "Ftruncate" {
					lk := stripConvs(sk(c.Call.Args[1]))
					if sk(c.Call.Args[0]) == fdKey && (lk == want1 || lk == want2) {
						trunc = true
					} else {
						bad = fmt.Sprintf("ftruncate(%s, %s): must resize the opened descriptor to %s bytes", sk(c.Call.Args[0]), sk(c.Call.Args[1]), want1)
					}
				}
			}
		}
		sizeEq := false
		notRegular := false
		for k := range rs {
			if i := topLevelIndex(k, " == "); i >= 0 {
				a, b := stripConvs(k[:i]), stripConvs(k[i+4:])
				for _, pr := range [][2]string{{a, b}, {b, a}} {
					if strings.HasSuffix(pr[0], ".Size") && (pr[1] == want1 || pr[1] == want2) {
						sizeEq = true
					}
					if strings.Contains(pr[0], ".Mode & ") && pr[1] == "0" {
						notRegular = true
					}
				}
			}
			if i := topLevelIndex(k, " != "); i >= 0 {
				a, b := stripConvs(k[:i]), stripConvs(k[i+4:])
				reg, _ := unixConst(p, "S_IFREG")
				for _, pr := range [][2]string{{a, b}, {b, a}} {
					if strings.Contains(pr[0], ".Mode & ") && pr[1] == fmt.Sprint(reg) {
						notRegular = true
					}
				}
			}
		}
		if !(trunc || sizeEq || notRegular) && bad == "" {
			bad = fmt.Sprintf("successful return on path %s without resizing, for a regular file whose size was not proven equal to %s bytes; facts: %v", pt.String(), want1, relList(rs))
		}
	}
	r.Check("R11c", f.Name()+" size established", f.Pos(), bad == "" && nSucc > 0, bad)
	// (iii) fields of the returned disk
	nStore := 0
	p.instrs(f, func(b *ssa.BasicBlock, i int, in ssa.Instruction) {
		st, ok := in.(*ssa.Store)
		if !ok {
			return
		}
		fa, ok := st.Addr.(*ssa.FieldAddr)
		if !ok || dc.implOf(fa.X.Type()) == nil {
			return
		}
		_, fld, _ := fieldOf(fa)
		nStore++
		bt, isBasic := st.Val.Type().Underlying().(*types.Basic)
		if !isBasic {
			return
		}
		switch bt.Kind() {
		case types.Int:
			r.Check("R11c", f.Name()+" stores descriptor in "+fld, instrPos(in), sk(st.Val) == fdKey, "descriptor field is set to "+sk(st.Val)+", must be the opened descriptor")
		case types.Uint64:
			r.Check("R11c", f.Name()+" stores size in "+fld, instrPos(in), st.Val == ssa.Value(nb), "size field is set to "+sk(st.Val)+", must be the requested number of blocks")
		}
	})
	if nStore == 0 {
		r.Unknown("R11c", f.Name()+" result fields", f.Pos(), "constructor does not build its result from a composite literal")
	}
}
