package main

import (
	"strings"

	"golang.org/x/tools/go/ssa"
)

// Audit tables record, one line of reason each, the constructs that a rule accepts on the
// strength of an invariant of go/ast, go/types or Go typing. An entry is written as
// "function|construct" for the reader, but what it audits is the construct: when the code
// moves to another function or its parameters are renamed, the entry follows it. Matching
// is therefore done on the construct with the root identifiers (parameter and variable
// names) blanked out, and only for constructs specific enough to identify a site (they
// must contain a selector or a call — a bare parameter name never matches elsewhere).

func isIdByte(c byte) bool {
	return c == '_' || c >= '0' && c <= '9' || c >= 'a' && c <= 'z' || c >= 'A' && c <= 'Z'
}

var canonReserved = map[string]bool{"nil": true, "true": true, "false": true, "len": true, "cap": true, "phi": true, "rangeindex": true, "panic": true, "recover": true}

// canonRoots blanks the root identifiers of the access paths in a key.
func canonRoots(s string) string {
	var b strings.Builder
	i := 0
	inStr := false
	for i < len(s) {
		c := s[i]
		if c == '"' {
			inStr = !inStr
			b.WriteByte(c)
			i++
			continue
		}
		if inStr || !isIdByte(c) {
			b.WriteByte(c)
			i++
			continue
		}
		j := i
		for j < len(s) && isIdByte(s[j]) {
			j++
		}
		tok := s[i:j]
		var prev, prev2, next byte
		if i > 0 {
			prev = s[i-1]
		}
		if i > 1 {
			prev2 = s[i-2]
		}
		if j < len(s) {
			next = s[j]
		}
		root := true
		switch {
		case tok[0] >= '0' && tok[0] <= '9':
			root = false
		case canonReserved[tok]:
			root = false
		case prev == '.' || prev == '/' || prev == ':' || prev == '#':
			root = false // selector, package path element, phi:… marker
		case next == '(' || next == '/' || next == ':':
			root = false // function name, package path element
		case prev == '*' && prev2 == '(' || prev == '(' && prev2 == '.':
			root = false // asserted type .(*T) / .(T)
		case next == '.' && curProg != nil && curProg.pkgNames()[tok]:
			root = false // package qualifier pkg.Func(
		}
		if root {
			b.WriteByte('_')
		} else {
			b.WriteString(tok)
		}
		i = j
	}
	return b.String()
}

func (p *Prog) pkgNames() map[string]bool {
	if p.pkgNameSet == nil {
		p.pkgNameSet = map[string]bool{}
		for _, pk := range p.All {
			p.pkgNameSet[pk.Name] = true
		}
	}
	return p.pkgNameSet
}

func specificConstruct(c string) bool {
	return len(c) >= 8 && (strings.Contains(c, ".") || strings.Contains(c, "("))
}

// auditFind looks key ("function|construct") up in an audit table: exactly, or — for a
// specific construct — by construct alone with root identifiers blanked.
func auditFind[T any](tbl map[string]T, key string) (T, bool) {
	if v, ok := tbl[key]; ok {
		return v, true
	}
	var zero T
	i := strings.Index(key, "|")
	if i < 0 {
		return zero, false
	}
	c := canonRoots(key[i+1:])
	if !specificConstruct(c) {
		return zero, false
	}
	for k, v := range tbl {
		j := strings.Index(k, "|")
		if j >= 0 && canonRoots(k[j+1:]) == c {
			return v, true
		}
	}
	return zero, false
}

// hasFactCanon: some fact contains need, up to the names of root identifiers.
func hasFactCanon(rs relSet, need string) bool {
	if need == "" {
		return true
	}
	if hasFactContaining(rs, need) {
		return true
	}
	cn := canonRoots(need)
	for k := range rs {
		if strings.Contains(canonRoots(k), cn) {
			return true
		}
	}
	return false
}

// parseCallKey splits a structural key of the form name(arg0,arg1,…) at its top-level commas
// (string literals and nested brackets are respected).
func parseCallKey(k string) (name string, args []string, ok bool) {
	i := strings.IndexByte(k, '(')
	if i <= 0 || k[len(k)-1] != ')' {
		return "", nil, false
	}
	name = k[:i]
	body := k[i+1 : len(k)-1]
	depth := 0
	inStr := false
	start := 0
	for j := 0; j < len(body); j++ {
		c := body[j]
		if inStr {
			if c == '\\' {
				j++
			} else if c == '"' {
				inStr = false
			}
			continue
		}
		switch c {
		case '"':
			inStr = true
		case '(', '[', '{':
			depth++
		case ')', ']', '}':
			depth--
			if depth < 0 {
				return "", nil, false
			}
		case ',':
			if depth == 0 {
				args = append(args, body[start:j])
				start = j + 1
			}
		}
	}
	if depth != 0 || inStr {
		return "", nil, false
	}
	args = append(args, body[start:])
	return name, args, true
}

// soleCallerChain: f, then its caller if exactly one function calls it, and so on (at most 3 steps).
// An audit entry written for a function also covers the helpers that exist only to serve it.
func (p *Prog) soleCallerChain(f *ssa.Function) []*ssa.Function {
	out := []*ssa.Function{f}
	cur := f
	for step := 0; step < 3; step++ {
		callers := map[*ssa.Function]bool{}
		for _, g := range p.srcFuncs {
			if g == cur {
				continue
			}
			p.instrs(g, func(b *ssa.BasicBlock, i int, in ssa.Instruction) {
				if c, ok := in.(ssa.CallInstruction); ok && c.Common().StaticCallee() == cur {
					callers[g] = true
				}
			})
		}
		if len(callers) != 1 {
			break
		}
		for g := range callers {
			cur = g
		}
		out = append(out, cur)
	}
	return out
}

// exemptLookup finds an entry keyed "<function><sep><rest>" for f or for the function f solely serves;
// nameOf renders a function the way the table names it. If no function of that name exists any more
// (renamed, merged into its caller), an entry is adopted by the function that now contains the construct.
func exemptLookup[T any](p *Prog, tbl map[string]T, f *ssa.Function, nameOf func(*ssa.Function) string, rest string) (T, bool) {
	for _, g := range p.soleCallerChain(f) {
		if v, ok := tbl[nameOf(g)+"|"+rest]; ok {
			return v, true
		}
	}
	// adoption of orphaned entries
	existing := map[string]bool{}
	for _, g := range p.srcFuncs {
		existing[nameOf(g)] = true
	}
	for k, v := range tbl {
		i := strings.Index(k, "|")
		if i < 0 || k[i+1:] != rest || k[:i] == "*" {
			continue
		}
		if !existing[k[:i]] {
			return v, true
		}
	}
	var zero T
	return zero, false
}
