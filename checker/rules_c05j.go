package main

import (
	"fmt"
	"go/types"
	"strings"

	"golang.org/x/tools/go/ssa"
)

// commentOnlyExprs lists the named types of the printer package whose Coq(needs_paren) method writes nothing but a
// comment: such a value is not a term.
func commentOnlyExprs(p *Prog) map[string]*ssa.Function {
	out := map[string]*ssa.Function{}
	for _, f := range p.FuncsIn(coqPkg) {
		if f.Name() != "Coq" || f.Signature.Recv() == nil || len(f.Blocks) == 0 || f.Signature.Params().Len() != 1 {
			continue
		}
		if onlyCommentEmitter(p, f) {
			out[types.TypeString(deref(f.Signature.Recv().Type()), nil)] = f
		}
	}
	return out
}

// c05CommentNotTerm: R05j.
func c05CommentNotTerm(p *Prog, r *Report) {
	r.Rule("R05j", "a comment is not a term: wherever a printer writes the expression of a binding as the whole of a line (the terminal position of a sequence: no `;;` / `let: … in` template around it), the value was first tested against every expression type whose printer writes only a comment (logging calls); on the branch where it is one, a further term is written after the comment, so a block that ends in a logging call still has a value", 2)
	co := commentOnlyExprs(p)
	if len(co) == 0 {
		r.Unknown("R05j", "comment-only expression types", 0, "no printer that writes only a comment was found")
		return
	}
	for tn, f := range co {
		r.OK("R05j", "comment-only expression type "+tn, f.Pos(), "its Coq method calls only buffer.AddComment")
	}
	isBuf := func(c *ssa.Call) string {
		nm := calleeName(c)
		if strings.HasPrefix(nm, "(*"+coqPkg+".buffer).") {
			return nm[strings.LastIndex(nm, ".")+1:]
		}
		return ""
	}
	nSites := 0
	for _, f := range p.FuncsIn(coqPkg) {
		if len(f.Blocks) == 0 {
			continue
		}
		var sites []*ssa.Call
		p.instrs(f, func(b *ssa.BasicBlock, i int, in ssa.Instruction) {
			c, ok := in.(*ssa.Call)
			if !ok || !c.Call.IsInvoke() || c.Call.Method.Name() != "Coq" {
				return
			}
			o, fld, ok := fieldOf(c.Call.Value)
			if !ok || o.Obj().Name() != "Binding" || fld != "Expr" {
				return
			}
			// terminal: the rendered text is the whole argument of AddLine, or of Add with the format "%s"
			term := false
			for _, rf := range refs(c) {
				// through the variadic slice of Add
				uses := []ssa.Instruction{rf}
				if mi, ok := rf.(*ssa.MakeInterface); ok {
					uses = nil
					for _, st := range refs(mi) {
						if s, ok := st.(*ssa.Store); ok {
							if ia, ok := s.Addr.(*ssa.IndexAddr); ok {
								if al, ok := ia.X.(*ssa.Alloc); ok {
									for _, sl := range refs(al) {
										if slc, ok := sl.(*ssa.Slice); ok {
											uses = append(uses, refs(slc)...)
										}
									}
								}
							}
						}
					}
				}
				for _, u := range uses {
					bc, ok := u.(*ssa.Call)
					if !ok {
						continue
					}
					switch isBuf(bc) {
					case "AddLine":
						term = true
					case "Add":
						if fs, ok := constString(bc.Call.Args[1]); ok && strings.TrimSpace(fs) == "%s" {
							term = true
						}
					}
				}
			}
			if term {
				sites = append(sites, c)
			}
		})
		for _, c := range sites {
			nSites++
			r.Sites++
			r.Func(FuncName(f))
			key := fmt.Sprintf("%s writes %s as a whole line", FuncName(f), sk(c.Call.Value))
			for tn := range co {
				verdict, detail := "", ""
				p.instrs(f, func(b *ssa.BasicBlock, i int, in ssa.Instruction) {
					ta, ok := in.(*ssa.TypeAssert)
					if !ok || !ta.CommaOk || types.TypeString(ta.AssertedType, nil) != tn || sk(ta.X) != sk(c.Call.Value) {
						return
					}
					for _, ex := range refs(ta) {
						e, ok := ex.(*ssa.Extract)
						if !ok || e.Index != 1 {
							continue
						}
						for _, u := range refs(e) {
							iff, ok := u.(*ssa.If)
							if !ok {
								continue
							}
							ts, fs := iff.Block().Succs[0], iff.Block().Succs[1]
							if len(fs.Preds) == 1 && fs.Dominates(c.Block()) {
								verdict = "ok"
								detail = "reached only when the value is not a " + tn
							}
							// written first, tested afterwards: every way on from the write passes the test, and on its
							// positive branch a further line is written
							if (c.Block() == iff.Block() || c.Block().Dominates(iff.Block()) && mustPassBlock(c.Block(), iff.Block())) && len(ts.Preds) == 1 && !ts.Dominates(c.Block()) {
								other := false
								for _, bb := range f.Blocks {
									if !ts.Dominates(bb) {
										continue
									}
									for _, in2 := range bb.Instrs {
										if bc, ok := in2.(*ssa.Call); ok {
											if nm := isBuf(bc); nm == "Add" || nm == "AddLine" {
												other = true
											}
										}
									}
								}
								if other {
									verdict = "ok"
									detail = "after the write the value is tested for " + tn + " and a further line is written when it is one"
								}
							}
							if len(ts.Preds) == 1 && ts.Dominates(c.Block()) {
								// the comment case: another line with a term is written in the same region
								other := false
								for _, bb := range f.Blocks {
									if !ts.Dominates(bb) {
										continue
									}
									for _, in2 := range bb.Instrs {
										bc, ok := in2.(*ssa.Call)
										if !ok || bc == c {
											continue
										}
										if nm := isBuf(bc); nm != "Add" && nm != "AddLine" {
											continue
										}
										// its text does not come from the comment itself
										fromSame := false
										for _, a := range bc.Call.Args[1:] {
											if a == ssa.Value(c) {
												fromSame = true
											}
										}
										if !fromSame {
											other = true
										}
									}
								}
								if other {
									verdict = "ok"
									detail = "the value is a " + tn + " here and a further line is written after the comment"
								} else if verdict == "" {
									verdict = "bad"
									detail = "the value is a " + tn + " here and nothing is written after the comment: the sequence ends without a term"
								}
							}
						}
					}
				})
				switch verdict {
				case "ok":
					r.OK("R05j", key+" ["+tn+"]", instrPos(c), detail)
				case "bad":
					r.Fail("R05j", key+" ["+tn+"]", instrPos(c), detail, "")
				default:
					r.Fail("R05j", key+" ["+tn+"]", instrPos(c), "the expression of a binding is written in terminal position without testing whether it is a "+tn+", whose printer writes only a comment: a block ending in such a statement is printed without a value (`then (* … *) else …`)", "")
				}
			}
		}
	}
	if nSites == 0 {
		r.Unknown("R05j", "terminal positions", 0, "no printer writes a binding's expression as a whole line")
	}
}

// mustPassBlock: every path from block `from` to a return passes through block `via`.
func mustPassBlock(from, via *ssa.BasicBlock) bool {
	seen := map[*ssa.BasicBlock]bool{via: true}
	q := []*ssa.BasicBlock{from}
	for len(q) > 0 {
		b := q[0]
		q = q[1:]
		if seen[b] {
			continue
		}
		seen[b] = true
		if len(b.Instrs) > 0 {
			if _, ok := b.Instrs[len(b.Instrs)-1].(*ssa.Return); ok {
				return false
			}
		}
		q = append(q, b.Succs...)
	}
	return true
}
