package main

import (
	"fmt"
	"go/token"
	"go/types"
	"sort"
	"strings"

	"golang.org/x/tools/go/ssa"
)

// c04OrderingUnit: R04g. The emission order is computed over *units* (one tracker per unit, one position per unit);
// a unit that defines several names gives them one shared position, so a definition of the unit that mentions a
// later definition of the same unit is emitted before it.
func c04OrderingUnit(p *Prog, r *Report) {
	r.Rule("R04g", "the ordering unit is one definition: a handler that registers several defined names for one declaration (a loop over the specs of a grouped const/var declaration) is only ever handed declarations that were split into one declaration per spec — the slice of units that the per-unit tracker loop ranges over comes from a splitter which stores a one-element spec list into a copy of the declaration for every token kind such a handler serves — and no loop of the ordering function still ranges over the unsplit declarations (positions identify the same unit in both passes)", 3)
	tr := p.trackerRoles()
	if tr.addName == nil {
		r.Unknown("R04g", "name registration", token.NoPos, "the tracker's registering method was not found")
		return
	}
	// (a) handlers that register names in a loop
	multi := map[int64]bool{}
	var handlers []string
	for _, f := range p.FuncsIn(Mod) {
		var site *ssa.Call
		p.instrs(f, func(b *ssa.BasicBlock, i int, in ssa.Instruction) {
			if c, ok := in.(*ssa.Call); ok && p.isAddName(c) && inLoop(c.Block()) {
				site = c
			}
		})
		if site == nil {
			continue
		}
		var specs ssa.Value
		p.instrs(f, func(b *ssa.BasicBlock, i int, in ssa.Instruction) {
			if v, ok := in.(*ssa.UnOp); ok {
				if o, fld, ok := fieldOf(v); ok && o.Obj().Name() == "GenDecl" && fld == "Specs" {
					specs = v
				}
			}
		})
		toks := map[int64]bool{}
		tokOK := false
		if specs == nil {
			// the specs are handed in as a parameter: every caller passes the specs of a declaration whose token it knows
			nCall, good := 0, true
			for _, g := range p.FuncsIn(Mod) {
				p.instrs(g, func(b *ssa.BasicBlock, i int, in ssa.Instruction) {
					c, ok := in.(*ssa.Call)
					if !ok || calleeOf(&c.Call) != f {
						return
					}
					nCall++
					found := false
					for _, a := range c.Call.Args {
						if o, fld, ok := fieldOf(a); ok && o.Obj().Name() == "GenDecl" && fld == "Specs" {
							if tk, ok := p.specsToks(g, a, c, 0); ok {
								found = true
								for t := range tk {
									toks[t] = true
								}
							}
						}
					}
					if !found {
						good = false
					}
				})
			}
			tokOK = nCall > 0 && good && len(toks) > 0
		}
		if specs == nil && !tokOK {
			r.Unknown("R04g", FuncName(f)+" registers names in a loop", instrPos(site), "the loop is not over the specs of a declaration: which units carry several names is not decided")
			continue
		}
		if specs != nil {
			toks, tokOK = p.specsToks(f, specs, site, 0)
		}
		if !tokOK || len(toks) == 0 {
			r.Unknown("R04g", FuncName(f)+" registers names in a loop", instrPos(site), "the token kind of the declarations it serves could not be determined")
			continue
		}
		r.Func(FuncName(f))
		var ts []string
		for t := range toks {
			multi[t] = true
			ts = append(ts, token.Token(t).String())
		}
		sort.Strings(ts)
		handlers = append(handlers, FuncName(f)+"("+strings.Join(ts, ",")+")")
		r.OK("R04g", FuncName(f)+" registers one name per spec of a "+strings.Join(ts, "/")+" declaration", instrPos(site), "a grouped declaration of this kind must be split before it is ordered")
	}
	sort.Strings(handlers)
	if len(multi) == 0 {
		r.OK("R04g", "no handler registers several names for one unit", token.NoPos, "")
		return
	}
	// (b) the per-unit tracker loop
	trackerT := deref(tr.addName.Signature.Recv().Type())
	var D *ssa.Function
	var reset *ssa.Store
	for _, f := range p.FuncsIn(Mod) {
		p.instrs(f, func(b *ssa.BasicBlock, i int, in ssa.Instruction) {
			st, ok := in.(*ssa.Store)
			if !ok {
				return
			}
			if al, ok := st.Val.(*ssa.Alloc); ok && types.Identical(deref(al.Type()), trackerT) && inLoop(b) {
				if _, isField := st.Addr.(*ssa.FieldAddr); isField {
					D, reset = f, st
				}
			}
		})
	}
	if D == nil {
		r.Unknown("R04g", "per-unit tracker loop", token.NoPos, "no loop that installs a fresh tracker per unit was found")
		return
	}
	r.Func(FuncName(D))
	// the unit handed to the translator in that loop: a call argument of interface type ast.Decl drawn from a slice
	var units ssa.Value
	p.instrs(D, func(b *ssa.BasicBlock, i int, in ssa.Instruction) {
		c, ok := in.(*ssa.Call)
		if !ok || !reset.Block().Dominates(b) && b != reset.Block() {
			return
		}
		for _, a := range c.Call.Args {
			if types.TypeString(a.Type(), nil) != "go/ast.Decl" {
				continue
			}
			if ld, ok := a.(*ssa.UnOp); ok {
				if ia, ok := ld.X.(*ssa.IndexAddr); ok && units == nil {
					units = ia.X
				}
			}
		}
	})
	if units == nil {
		r.Unknown("R04g", "units of the tracker loop", instrPos(reset), "the declaration handed to the translator is not an element of a slice")
		return
	}
	// the units are handed in as a parameter: follow it to the (single) caller, which then is the ordering function
	for hop := 0; hop < 3; hop++ {
		pa, ok := units.(*ssa.Parameter)
		if !ok {
			break
		}
		idx := -1
		for i, q := range D.Params {
			if q == pa {
				idx = i
			}
		}
		var site *ssa.Call
		n := 0
		for _, g := range p.FuncsIn(Mod) {
			p.instrs(g, func(b *ssa.BasicBlock, i int, in ssa.Instruction) {
				if c, ok := in.(*ssa.Call); ok && calleeOf(&c.Call) == D && idx >= 0 && idx < len(c.Call.Args) {
					site = c
					n++
				}
			})
		}
		if n != 1 {
			break
		}
		units = site.Call.Args[idx]
		D = site.Parent()
		r.Func(FuncName(D))
	}
	rawDecls := func(v ssa.Value) bool {
		o, fld, ok := fieldOf(v)
		return ok && o.Obj().Name() == "File" && o.Obj().Pkg().Path() == "go/ast" && fld == "Decls"
	}
	who := strings.Join(handlers, ", ")
	if rawDecls(units) {
		r.Fail("R04g", "grouped declarations are ordered as one unit", instrPos(reset),
			"the tracker loop ranges over the file's declarations as written, and "+who+" define one name per spec: all definitions of a `const ( … )` / `var ( … )` group share one position in the order and are emitted in source order, so `const ( B = A + 1; A = 1 )` puts B before the A it mentions", "")
		return
	}
	// the slice comes from a splitter: directly, or through a per-file table
	var splitter *ssa.Function
	resolve := func(v ssa.Value) {
		if c, ok := v.(*ssa.Call); ok {
			if g := calleeOf(&c.Call); g != nil && g.Pkg != nil && g.Pkg.Pkg.Path() == Mod {
				splitter = g
			}
		}
	}
	resolve(units)
	if splitter == nil {
		if ld, ok := units.(*ssa.UnOp); ok {
			if ia, ok := ld.X.(*ssa.IndexAddr); ok {
				p.instrs(D, func(b *ssa.BasicBlock, i int, in ssa.Instruction) {
					if st, ok := in.(*ssa.Store); ok {
						if ia2, ok := st.Addr.(*ssa.IndexAddr); ok && sk(ia2.X) == sk(ia.X) {
							resolve(st.Val)
						}
					}
				})
			}
		}
	}
	if splitter == nil {
		r.Unknown("R04g", "units of the tracker loop", instrPos(reset), "the units ("+sk(units)+") are neither the file's declarations nor the result of a function of the translator")
		return
	}
	r.Func(FuncName(splitter))
	// the splitter: stores a one-element spec list into a copy of the declaration; compares Tok with every multi token
	oneSpec := false
	cmp := map[int64]bool{}
	p.instrs(splitter, func(b *ssa.BasicBlock, i int, in ssa.Instruction) {
		switch x := in.(type) {
		case *ssa.Store:
			if o, fld, ok := fieldOf(x.Addr); ok && o.Obj().Name() == "GenDecl" && fld == "Specs" {
				if fa, ok := x.Addr.(*ssa.FieldAddr); ok {
					if _, fresh := fa.X.(*ssa.Alloc); !fresh {
						return
					}
				}
				if sl, ok := x.Val.(*ssa.Slice); ok && sl.Low == nil && sl.High == nil {
					if al, ok := sl.X.(*ssa.Alloc); ok {
						if at, ok := deref(al.Type()).Underlying().(*types.Array); ok && at.Len() == 1 {
							oneSpec = true
						}
					}
				}
			}
		case *ssa.BinOp:
			if x.Op != token.EQL && x.Op != token.NEQ {
				return
			}
			for _, pr := range [][2]ssa.Value{{x.X, x.Y}, {x.Y, x.X}} {
				if k, ok := constInt(pr[1]); ok && types.TypeString(pr[0].Type(), nil) == "go/token.Token" {
					cmp[k] = true
				}
			}
		}
	})
	r.Check("R04g", "the splitter gives every unit a one-element spec list", splitter.Pos(), oneSpec,
		FuncName(splitter)+" does not store a one-element spec list into a copy of the grouped declaration: "+who+" still see several specs per unit")
	var missing []string
	for t := range multi {
		if len(cmp) > 0 && !cmp[t] {
			missing = append(missing, token.Token(t).String())
		}
	}
	sort.Strings(missing)
	r.Check("R04g", "the splitter covers every kind of declaration whose handler registers several names", splitter.Pos(), len(missing) == 0,
		fmt.Sprintf("%s decides by the declaration's token and never compares it with %v: grouped declarations of that kind stay one unit (%s)", FuncName(splitter), missing, who))
	// (c) no loop of the ordering function still ranges over the unsplit declarations
	raw := token.NoPos
	for _, g := range append([]*ssa.Function{D}, D.AnonFuncs...) {
		p.instrs(g, func(b *ssa.BasicBlock, i int, in ssa.Instruction) {
			c, ok := in.(*ssa.Call)
			if !ok {
				return
			}
			if bi, ok := c.Call.Value.(*ssa.Builtin); ok && bi.Name() == "len" && len(c.Call.Args) == 1 && rawDecls(c.Call.Args[0]) {
				raw = instrPos(c)
			}
		})
	}
	r.Check("R04g", "both passes of the ordering function range over the split units", raw, raw == token.NoPos,
		"a loop of "+FuncName(D)+" ranges over the file's declarations as written while the tracker loop ranges over split units: the (file, index) identifiers of the two passes no longer name the same unit")
}
