package main

func checkC02(p *Prog, r *Report) {
	r.Rule("R02a", "field consumption: for every go/ast node value the translator inspects (origin: type-switch/assertion result, node-typed field load, slice element; merged per access path), every meaning-carrying field of its type is read — by a guard or a translation, in the function or in the callees the value flows to — or is covered by an audited exemption (type information taken from go/types, binder sites)", 40)
	r.Assume = append(r.Assume, "that the emitted behaviour includes Go's for accepted constructs is C01's semantic core and is not decided here")
	r.Rule("R02b", "slice-arity consumption: where a constant index is taken from a slice of syntax nodes, the indices used cover the slice: a length fact bounds it, it is also iterated completely, Go typing fixes the arity (predeclared function / conversion resolved by object), or an audited table entry explains the drop", 15)
	r.Rule("R02c", "token default rejection: in every handler that dispatches on a token field (assignment operator, binary/unary operator, inc/dec, branch, declaration kind, literal kind, range token) a normal return is reachable only through a positive match (equality or table hit) or when the excluded values leave a single (or an audited equivalent set of) token(s)", 8)
	r.Rule("R02d", "resolved recognition: every place where meaning is chosen by comparing an identifier's or a package's spelling with a literal is either resolved through types.Info (Parent() == Universe for predeclared names; import path for packages) or is reported; predeclared functions and types go through isBuiltin", 3)
	r.Rule("R02e", "control-effect availability: return is translated only under usage == Returned and break/continue only under usage == Loop, elsewhere they are rejected; an if-branch inherits the usage with trailing statements only when it must end in a control effect and there is no else; the must-end analysis is true only for return/branch or an if whose both branches end so (nil branch: false); unfinalised blocks are completed for every usage", 8)
	checkR02a(p, r)
	checkR02b(p, r)
	checkR02c(p, r)
	checkR02d(p, r)
	checkR02e(p, r)
	r.Rule("R02f", "multi-result agreement: every construction of a coq.Binding with several names takes its expression from the mode-aware translation func(ast.Expr, bool) coq.Expr with the flag len(<names' source>) == 2 (define and assign forms agree), unless the facts bound the number of names by one", 2)
	checkR02f(p, r)
	r.Rule("R02g", "rejection before placeholder: a translator function (result type from the GooseLang syntax package) returns a placeholder — nil, the empty string, the zero value of a struct with fields — only where a diverging rejection call precedes the return (the return is unreachable), where a dominating fact says the input was absent (a parameter itself is nil or empty), or where an audited reason applies; a guard whose rejection call is missing silently drops the construct; no branch of the translator has an empty body and no else", 20)
	checkR02g(p, r)
	checkEmptyGuards(p, r)
	checkR02h(p, r)
	checkR02i(p, r)
}
