package main

import (
	"go/types"
	"strings"

	"golang.org/x/tools/go/ssa"
)

// depTrackerRoles finds the two recording methods of the per-declaration tracker by what they do: a method of the
// translator with one string parameter that appends it to a slice field of its receiver. The one whose field's
// elements become keys of a map (the name → declaration table) registers a *defined* name; the other records a
// *mentioned* name (a dependency). Falls back to the identifiers addName / addDep.
type trackerRoles struct {
	addName, addDep *ssa.Function
}

var trackerMemo *trackerRoles
var trackerProg *Prog

func (p *Prog) trackerRoles() *trackerRoles {
	if trackerMemo != nil && trackerProg == p {
		return trackerMemo
	}
	tr := &trackerRoles{}
	trackerMemo, trackerProg = tr, p
	type cand struct {
		fn    *ssa.Function
		field string
	}
	var cands []cand
	for _, f := range p.FuncsIn(Mod) {
		if f.Signature.Recv() == nil || f.Signature.Params().Len() != 1 || f.Signature.Results().Len() != 0 || len(f.Blocks) != 1 {
			continue
		}
		if b, ok := f.Signature.Params().At(0).Type().Underlying().(*types.Basic); !ok || b.Info()&types.IsString == 0 {
			continue
		}
		fld := ""
		p.instrs(f, func(b *ssa.BasicBlock, i int, in ssa.Instruction) {
			st, ok := in.(*ssa.Store)
			if !ok {
				return
			}
			fa, ok := st.Addr.(*ssa.FieldAddr)
			if !ok || fa.X != ssa.Value(f.Params[0]) {
				return
			}
			if c, ok := st.Val.(*ssa.Call); ok {
				if bi, ok := c.Call.Value.(*ssa.Builtin); ok && bi.Name() == "append" {
					_, fld, _ = fieldOf(fa)
				}
			}
		})
		if fld != "" {
			cands = append(cands, cand{f, fld})
		}
	}
	if len(cands) == 2 {
		// which field's elements are used as map keys?
		keyField := ""
		for _, f := range p.FuncsIn(Mod) {
			p.instrs(f, func(b *ssa.BasicBlock, i int, in ssa.Instruction) {
				mu, ok := in.(*ssa.MapUpdate)
				if !ok {
					return
				}
				for _, o := range origins(mu.Key) {
					k := sk(o)
					for _, c := range cands {
						if strings.Contains(k, "."+c.field+"[") {
							keyField = c.field
						}
					}
				}
			})
		}
		for _, c := range cands {
			if c.field == keyField {
				tr.addName = c.fn
			} else if keyField != "" {
				tr.addDep = c.fn
			}
		}
	}
	for _, f := range p.FuncsIn(Mod) {
		if tr.addName == nil && f.Name() == "addName" {
			tr.addName = f
		}
		if tr.addDep == nil && f.Name() == "addDep" {
			tr.addDep = f
		}
	}
	return tr
}

func (p *Prog) isAddName(c *ssa.Call) bool {
	f := calleeOf(&c.Call)
	return f != nil && f == p.trackerRoles().addName
}

func (p *Prog) isAddDep(c *ssa.Call) bool {
	f := calleeOf(&c.Call)
	return f != nil && f == p.trackerRoles().addDep
}

// methodNamer: coq.MethodName itself, or a helper of the translator that returns coq.MethodName applied to its own
// parameters (possibly recording the dependency on the way: methodRef(T, m)).
func (p *Prog) methodNamer(g *ssa.Function) bool {
	if g == nil {
		return false
	}
	if fullName(g) == coqPkg+".MethodName" {
		return true
	}
	if g.Pkg == nil || g.Pkg.Pkg.Path() != Mod || len(g.Blocks) == 0 || len(g.Blocks) > 3 || g.Signature.Results().Len() != 1 {
		return false
	}
	ok := false
	p.instrs(g, func(b *ssa.BasicBlock, i int, in ssa.Instruction) {
		ret, isRet := in.(*ssa.Return)
		if !isRet || len(ret.Results) != 1 {
			return
		}
		if c, isC := ret.Results[0].(*ssa.Call); isC && calleeName(c) == coqPkg+".MethodName" && len(c.Call.Args) == 2 {
			_, a := c.Call.Args[0].(*ssa.Parameter)
			_, b := c.Call.Args[1].(*ssa.Parameter)
			ok = a && b
		}
	})
	return ok
}

func (p *Prog) isMethodNameCall(c *ssa.Call) bool { return p.methodNamer(calleeOf(&c.Call)) }
