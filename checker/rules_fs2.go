package main

import (
	"strconv"
	"os"
	"fmt"
	"go/token"
	"go/types"
	"regexp"
	"sort"
	"strings"

	"golang.org/x/tools/go/ssa"
)

// Region/abstract-path versions of the filesystem rules.

// propagateRoles spreads parameter roles from seeds to helper parameters that always receive a parameter of that role.
func (p *Prog) propagateRoles(roles map[*ssa.Parameter]string, region []*ssa.Function) {
	for changed := true; changed; {
		changed = false
		for _, g := range region {
			for j, pa := range g.Params {
				if roles[pa] != "" {
					continue
				}
				role, n, okAll := "", 0, true
				for _, caller := range region {
					p.instrs(caller, func(b *ssa.BasicBlock, i int, in ssa.Instruction) {
						c, ok := in.(ssa.CallInstruction)
						if !ok || calleeOf(c.Common()) != g || j >= len(c.Common().Args) {
							return
						}
						n++
						a := stripConv(c.Common().Args[j])
						if ld, ok := a.(*ssa.UnOp); ok {
							if al, ok := ld.X.(*ssa.Alloc); ok {
								for _, rf := range refs(al) {
									if st, ok := rf.(*ssa.Store); ok && st.Addr == ssa.Value(al) {
										a = st.Val
									}
								}
							}
						}
						ap, isParam := a.(*ssa.Parameter)
						if !isParam || roles[ap] == "" {
							okAll = false
							return
						}
						if role == "" {
							role = roles[ap]
						} else if role != roles[ap] {
							okAll = false
						}
					})
				}
				if n > 0 && okAll && role != "" {
					roles[pa] = role
					changed = true
				}
			}
		}
	}
}

// originsUp: origins of v, where a parameter of a non-root function is replaced by the origins of
// the corresponding arguments at all of its call sites inside the region (bounded), and call results
// are followed into callees (originsDeep).
func (p *Prog) originsUp(v ssa.Value, region []*ssa.Function, roots map[*ssa.Function]bool) []ssa.Value {
	var out []ssa.Value
	seen := map[ssa.Value]bool{}
	var walk func(v ssa.Value, depth int)
	walk = func(v ssa.Value, depth int) {
		for _, o := range p.originsDeep(v) {
			if seen[o] {
				continue
			}
			seen[o] = true
			pa, isParam := o.(*ssa.Parameter)
			if !isParam || roots[pa.Parent()] || depth > 4 {
				out = append(out, o)
				continue
			}
			g := pa.Parent()
			idx := -1
			for j, q := range g.Params {
				if q == pa {
					idx = j
				}
			}
			n := 0
			for _, caller := range region {
				p.instrs(caller, func(b *ssa.BasicBlock, i int, in ssa.Instruction) {
					c, ok := in.(ssa.CallInstruction)
					if !ok || calleeOf(c.Common()) != g || idx < 0 || idx >= len(c.Common().Args) {
						return
					}
					n++
					walk(c.Common().Args[idx], depth+1)
				})
			}
			if n == 0 {
				out = append(out, o)
			}
		}
	}
	walk(v, 0)
	return out
}

// forwarder: f's only effect on every path is one call `want` (with receiver key recvKey when it is an
// interface invocation) with the parameters forwarded in order, whose result it returns.
func (p *Prog) checkForwarderGeneric(r *Report, rule string, f *ssa.Function, want string, recvKey string) {
	dc := &diskCtx{p: p}
	dc.checkForwarder2(r, rule, f, want, recvKey)
}

var freshKeyRe = regexp.MustCompile(`^\(len\(([A-Za-z_][A-Za-z_0-9]*)\.([A-Za-z_][A-Za-z_0-9]*)\) \+ ([1-9])\)$`)

// isFreshInodeKey: the key of a value that is len(<recv>.<contents map>)+c, c >= 1 (directly or through helpers).
func isFreshInodeKey(k, cf string) bool {
	m := freshKeyRe.FindStringSubmatch(k)
	return m != nil && m[2] == cf
}

func (fc *fsCtx) regionOf(im *fsImpl) ([]*ssa.Function, map[*ssa.Function]bool) {
	var roots []*ssa.Function
	rootSet := map[*ssa.Function]bool{}
	for _, mn := range sortedKeys(im.Methods) {
		roots = append(roots, im.Methods[mn])
		rootSet[im.Methods[mn]] = true
	}
	return fc.p.region(roots), rootSet
}

func (fc *fsCtx) helperScope(im *fsImpl) map[*ssa.Function]bool {
	region, roots := fc.regionOf(im)
	out := map[*ssa.Function]bool{}
	for _, f := range region {
		if !roots[f] {
			out[f] = true
		}
	}
	for h := range im.Helpers {
		out[h] = true
	}
	return out
}

// ---------------------------------------------------------------------------
// C14 (allocator part)

func (fc *fsCtx) ruleAllocator2(r *Report, im *fsImpl) {
	p := fc.p
	cf := fc.contentField(im)
	if cf == "" {
		r.Unknown("R14b", im.Name+" contents map", im.Named.Obj().Pos(), "no map field with []byte values")
		return
	}
	region, roots := fc.regionOf(im)
	nDel := 0
	for _, f := range p.FuncsIn(fsPkg) {
		p.instrs(f, func(b *ssa.BasicBlock, i int, in ssa.Instruction) {
			if c, ok := in.(*ssa.Call); ok {
				if bi, ok := c.Call.Value.(*ssa.Builtin); ok && (bi.Name() == "delete" || bi.Name() == "clear") {
					if fld, ok := fc.mapFieldOf(im, c.Call.Args[0]); ok && fld == cf {
						nDel++
						r.Fail("R14b", fmt.Sprintf("%s.%s %s(%s)", im.Name, f.Name(), bi.Name(), cf), instrPos(in),
							"an entry of the contents map is removed: len(map) shrinks, so the allocator hands out a number that is still in use (and a deleted file is no longer readable through open descriptors)", "")
					}
				}
			}
			if st, ok := in.(*ssa.Store); ok {
				if o, fld, ok := fieldOf(st.Addr); ok && types.Identical(o, im.Named) && fld == cf {
					_, fresh := st.Addr.(*ssa.FieldAddr).X.(*ssa.Alloc)
					r.Check("R14b", fmt.Sprintf("%s.%s reassigns %s", im.Name, f.Name(), cf), instrPos(in), fc.ctors[f] && fresh,
						"the contents map is replaced outside the constructor")
				}
			}
		})
	}
	if nDel == 0 {
		r.OK("R14b", im.Name+"."+cf+" insert-only", im.Named.Obj().Pos(), "no delete/clear of the contents map in the package")
	}
	// every insertion: fresh key (len(map)+c, seen through helpers) or a validated existing descriptor
	nIns, nFresh := 0, 0
	for _, f := range region {
		p.instrs(f, func(b *ssa.BasicBlock, i int, in ssa.Instruction) {
			mu, ok := in.(*ssa.MapUpdate)
			if !ok {
				return
			}
			fld, ok := fc.mapFieldOf(im, mu.Map)
			if !ok || fld != cf {
				return
			}
			nIns++
			r.Sites++
			fresh, existing := false, false
			var ks []string
			for _, o := range p.originsUp(mu.Key, region, roots) {
				k := sk(o)
				ks = append(ks, k)
				if isFreshInodeKey(k, cf) {
					fresh = true
					continue
				}
				if c, ok := o.(*ssa.Call); ok {
					if cal := calleeOf(&c.Call); cal != nil && fc.helperScope(im)[cal] {
						existing = true // a descriptor validated by a helper (update of an existing file)
						continue
					}
				}
				if pa, ok := o.(*ssa.Parameter); ok && roots[pa.Parent()] && types.Identical(pa.Type(), fc.fileT) {
					existing = true
				}
			}
			if fresh {
				nFresh++
			}
			r.Check("R14b", fmt.Sprintf("%s.%s insert into %s", im.Name, f.Name(), cf), instrPos(in), fresh || existing,
				fmt.Sprintf("key originates from %v: a new entry must be keyed by len(%s)+c (c>=1, fresh while the map is insert-only), an update by a validated descriptor", ks, cf))
		})
	}
	r.Check("R14b", im.Name+" allocates fresh inodes", im.Named.Obj().Pos(), nFresh >= 1, fmt.Sprintf("%d insertions, %d with a fresh key", nIns, nFresh))
	// the allocator is fresh only while every number it hands out is entered into the counted map: a function
	// that obtains a fresh number and returns normally has inserted it (in the same critical section) on every
	// path to that return — otherwise the next allocation returns the same number for another file
	for _, f := range region {
		var fresh []ssa.Value
		p.instrs(f, func(b *ssa.BasicBlock, i int, in ssa.Instruction) {
			if v, ok := in.(ssa.Value); ok {
				if c, isCall := in.(*ssa.Call); isCall && isFreshInodeKey(sk(v), cf) && len(refs(v)) > 0 {
					// a helper that allocates and inserts is judged in its own body; only the bare
					// allocator (no map update of its own) leaves the insertion to its caller
					bare := true
					if cal := calleeOf(&c.Call); cal != nil {
						p.instrs(cal, func(b2 *ssa.BasicBlock, i2 int, in2 ssa.Instruction) {
							if _, isMU := in2.(*ssa.MapUpdate); isMU {
								bare = false
							}
						})
					}
					if bare {
						fresh = append(fresh, v)
					}
				}
				if bo, isBin := in.(*ssa.BinOp); isBin && isFreshInodeKey(sk(bo), cf) && len(refs(v)) > 0 && !fc.helperScope(im)[f] {
					fresh = append(fresh, v)
				}
			}
		})
		for _, v := range fresh {
			if fc.helperScope(im)[f] && len(f.Blocks) <= 2 {
				continue // the allocator helper itself
			}
			var ins []*ssa.MapUpdate
			p.instrs(f, func(b *ssa.BasicBlock, i int, in ssa.Instruction) {
				if mu, ok := in.(*ssa.MapUpdate); ok {
					if fld, ok := fc.mapFieldOf(im, mu.Map); ok && fld == cf && sk(mu.Key) == sk(v) {
						ins = append(ins, mu)
					}
				}
			})
			okIns := len(ins) > 0
			vin := v.(ssa.Instruction)
			// the places where the number is used for anything but the insertion itself
			var uses []ssa.Instruction
			for _, rf := range refs(v) {
				isIns := false
				for _, mu := range ins {
					if rf == ssa.Instruction(mu) {
						isIns = true
					}
				}
				if _, dbg := rf.(*ssa.DebugRef); !isIns && !dbg {
					uses = append(uses, rf)
				}
			}
			for _, b := range f.Blocks {
				ret, isRet := b.Instrs[len(b.Instrs)-1].(*ssa.Return)
				if !isRet || !(vin.Block() == b || vin.Block().Dominates(b)) {
					continue
				}
				// a return that no use of the number can precede hands out nothing (the name existed)
				used := false
				for _, u := range uses {
					if u == ssa.Instruction(ret) || reachesInstr(u, ret) {
						used = true
					}
				}
				if !used {
					continue
				}
				dom := false
				for _, mu := range ins {
					if dominatesInstr(mu, ret) {
						dom = true
					}
				}
				if !dom {
					okIns = false
				}
			}
			r.Check("R14b", fmt.Sprintf("%s.%s enters the number it allocates into %s", im.Name, f.Name(), cf), instrPos(vin), okIns,
				fmt.Sprintf("%s obtains a fresh number %s and can return without an insertion %s[that number] = …: the allocator counts the entries of %s, so the next file gets the same number", f.Name(), sk(v), cf, cf))
		}
	}
}

// ---------------------------------------------------------------------------
// C12

func (fc *fsCtx) ruleDescriptorProvenance(r *Report, mem *fsImpl) {
	p := fc.p
	cf := fc.contentField(mem)
	for _, im := range fc.impls {
		for _, mn := range []string{"Create", "Open"} {
			f := im.Methods[mn]
			if f == nil {
				r.Anchor("R12a", im.Name+"."+mn)
				continue
			}
			r.Func(FuncName(f))
			var kinds []string
			ok := true
			n := 0
			p.instrs(f, func(b *ssa.BasicBlock, i int, in ssa.Instruction) {
				ret, isRet := in.(*ssa.Return)
				if !isRet {
					return
				}
				for _, rv := range ret.Results {
					if !types.Identical(rv.Type(), fc.fileT) {
						continue
					}
					for _, o := range p.originsDeep(rv) {
						n++
						k := sk(o)
						switch x := o.(type) {
						case *ssa.Const:
							kinds = append(kinds, "const "+constKey(x))
							continue
						case *ssa.Extract:
							if c, isCall := x.Tuple.(*ssa.Call); isCall {
								if cal := calleeOf(&c.Call); cal != nil && cal.Pkg != nil && cal.Pkg.Pkg.Path() == "golang.org/x/sys/unix" && (cal.Name() == "Openat" || cal.Name() == "Open") {
									kinds = append(kinds, "kernel "+cal.Name())
									continue
								}
							}
							if lk, isLk := x.Tuple.(*ssa.Lookup); isLk {
								ok = false
								kinds = append(kinds, "lookup in "+sk(lk.X))
								continue
							}
						case *ssa.Lookup:
							ok = false
							kinds = append(kinds, "lookup in "+sk(x.X))
							continue
						}
						if isFreshInodeKey(k, cf) {
							kinds = append(kinds, "allocator")
							continue
						}
						ok = false
						kinds = append(kinds, k)
					}
				}
			})
			sort.Strings(kinds)
			kinds = uniq(kinds)
			r.Check("R12a", fmt.Sprintf("%s.%s descriptor origin", im.Name, mn), f.Pos(), ok && n > 0,
				fmt.Sprintf("returned descriptor originates from %v; a lookup in directory state is the inode number shared by every open of that file (opening for read changes the mode of the creator's descriptor; closing one closes the other)", kinds))
		}
	}
}

func (fc *fsCtx) ruleNoAliasing(r *Report, mem *fsImpl) {
	p := fc.p
	for _, im := range fc.impls {
		region, roots := fc.regionOf(im)
		for _, mn := range sortedKeys(im.Methods) {
			f := im.Methods[mn]
			for _, pa := range f.Params {
				if !byteSliceType(pa.Type()) {
					continue
				}
				bad := []string{}
				for _, u := range p.aliasUsesDeep(pa) {
					switch {
					case u.Kind == "len#0", u.Kind == "cap#0", u.Kind == "copy#1", u.Kind == "append#1", u.Kind == "load", u.Kind == "index", u.Kind == "slice-bound":
					case strings.HasPrefix(u.Kind, "call:golang.org/x/sys/unix.Write#1"), strings.HasPrefix(u.Kind, "call:golang.org/x/sys/unix.Pwrite#1"):
					default:
						bad = append(bad, u.Kind+" at "+p.Pos(instrPos(u.In)))
					}
				}
				r.Check("R12b", fmt.Sprintf("%s.%s param %s", im.Name, mn, pa.Name()), pa.Pos(), len(bad) == 0,
					"caller's slice may become (part of) stored file contents or escape (followed through helper calls): "+strings.Join(bad, "; "))
			}
			if f.Signature.Results().Len() == 1 && byteSliceType(f.Signature.Results().At(0).Type()) {
				p.instrs(f, func(b *ssa.BasicBlock, i int, in ssa.Instruction) {
					ret, ok := in.(*ssa.Return)
					if !ok {
						return
					}
					okFresh := true
					var what []string
					for _, o := range p.originsDeep(ret.Results[0]) {
						switch x := o.(type) {
						case *ssa.MakeSlice:
							what = append(what, "make")
						case *ssa.Const:
							what = append(what, "nil")
						case *ssa.Alloc:
							if !x.Heap {
								okFresh = false
							}
							what = append(what, "alloc")
						default:
							okFresh = false
							what = append(what, sk(o))
						}
					}
					r.Check("R12b", fmt.Sprintf("%s.%s result fresh", im.Name, mn), instrPos(in), okFresh,
						fmt.Sprintf("returned bytes originate from %v: must be allocated by the method (or its helper), not a view of stored contents", uniqSorted(what)))
				})
			}
		}
		if im != mem {
			continue
		}
		cf := fc.contentField(mem)
		for _, f := range region {
			p.instrs(f, func(b *ssa.BasicBlock, i int, in ssa.Instruction) {
				mu, ok := in.(*ssa.MapUpdate)
				if !ok {
					return
				}
				if fld, ok := fc.mapFieldOf(mem, mu.Map); !ok || fld != cf {
					return
				}
				okv := true
				var what []string
				for _, o := range p.originsUp(mu.Value, region, roots) {
					switch x := o.(type) {
					case *ssa.MakeSlice:
						what = append(what, "make")
					case *ssa.Const:
						what = append(what, "nil")
					case *ssa.Call:
						if bi, ok := x.Call.Value.(*ssa.Builtin); ok && bi.Name() == "append" {
							bok := true
							for _, bo := range p.originsUp(x.Call.Args[0], region, roots) {
								if pa, isParam := bo.(*ssa.Parameter); isParam && roots[pa.Parent()] {
									bok = false
								}
							}
							if !bok {
								okv = false
							}
							what = append(what, "append(stored, …)")
						} else {
							okv = false
							what = append(what, sk(x))
						}
					default:
						okv = false
						what = append(what, sk(o))
					}
				}
				r.Check("R12b", fmt.Sprintf("%s.%s stored contents", mem.Name, f.Name()), instrPos(in), okv,
					fmt.Sprintf("stored contents originate from %v: must be a fresh make, nil, or append onto stored contents", uniqSorted(what)))
			})
		}
	}
}

func (fc *fsCtx) ruleCreateGuard(r *Report, mem *fsImpl) {
	p := fc.p
	f := mem.Methods["Create"]
	if f == nil {
		r.Anchor("R12c", mem.Name+".Create")
		return
	}
	df := fc.direntField(mem)
	// all map updates reachable from Create (in Create or helpers called from it), with facts incl. callers'
	reg := p.region([]*ssa.Function{f})
	nUpd := 0
	for _, g := range reg {
		if g != f && !fc.helperScope(mem)[g] {
			continue
		}
		rm := p.Rels(g)
		p.instrs(g, func(b *ssa.BasicBlock, i int, in ssa.Instruction) {
			mu, ok := in.(*ssa.MapUpdate)
			if !ok {
				return
			}
			if _, isMem := fc.mapFieldOf(mem, mu.Map); !isMem {
				return
			}
			// helpers shared with other methods (an allocator used by AtomicCreate too) are judged at Create's call site
			rs := p.RelsAt(rm, in)
			if g != f {
				// the helper's own dominating facts hold on every way into the update; Create's call-site facts are added
				p.instrs(f, func(b2 *ssa.BasicBlock, i2 int, in2 ssa.Instruction) {
					if c, ok := in2.(*ssa.Call); ok && calleeOf(&c.Call) == g {
						for k := range p.RelsAt(p.Rels(f), c) {
							rs[k] = true
						}
					}
				})
			}
			nUpd++
			guarded := false
			for k := range rs {
				if strings.HasSuffix(k, "#1 == false") && strings.Contains(k, "."+df+"[") {
					guarded = true
				}
			}
			fld, _ := fc.mapFieldOf(mem, mu.Map)
			r.Check("R12c", fmt.Sprintf("%s.Create update of %s (in %s) guarded", mem.Name, fld, g.Name()), instrPos(in), guarded,
				fmt.Sprintf("map update is reachable when the name already exists (no fact `%s[…]#1 == false`); facts: %v", df, relList(rs)))
		})
	}
	if nUpd == 0 {
		r.Unknown("R12c", mem.Name+".Create updates", f.Pos(), "Create performs no map update")
	}
	// the existence test looks up (dir, fname)
	found := false
	for _, g := range reg {
		p.instrs(g, func(b *ssa.BasicBlock, i int, in ssa.Instruction) {
			if lk, ok := in.(*ssa.Lookup); ok && lk.CommaOk {
				if fld, ok := fc.mapFieldOf(mem, lk.X); ok && fld == df {
					found = true
				}
			}
		})
	}
	r.Check("R12c", mem.Name+".Create existence test", f.Pos(), found, "no comma-ok lookup in the directory map reachable from Create")
}

func (fc *fsCtx) ruleReadAt2(r *Report, mem, dir *fsImpl) {
	p := fc.p
	for _, im := range []*fsImpl{mem, dir} {
		root := im.Methods["ReadAt"]
		if root == nil || len(root.Params) != 4 {
			r.Anchor("R12e", im.Name+".ReadAt")
			continue
		}
		roles := map[*ssa.Parameter]string{root.Params[2]: "offset", root.Params[3]: "length"}
		region := p.region([]*ssa.Function{root})
		p.propagateRoles(roles, region)
		nRet := 0
		for _, f := range region {
			if f.Signature.Results().Len() != 1 || !byteSliceType(f.Signature.Results().At(0).Type()) {
				continue
			}
			r.Func(FuncName(f))
			rm := p.Rels(f)
			roleOf := func(v ssa.Value) string {
				if pa, ok := stripConv(v).(*ssa.Parameter); ok {
					return roles[pa]
				}
				return ""
			}
			p.instrs(f, func(b *ssa.BasicBlock, i int, in ssa.Instruction) {
				ret, ok := in.(*ssa.Return)
				if !ok {
					return
				}
				var slices []*ssa.Slice
				var walk func(v ssa.Value, seen map[ssa.Value]bool)
				walk = func(v ssa.Value, seen map[ssa.Value]bool) {
					if seen[v] {
						return
					}
					seen[v] = true
					switch x := v.(type) {
					case *ssa.Slice:
						slices = append(slices, x)
					case *ssa.UnOp:
						if a, ok := x.X.(*ssa.Alloc); ok {
							for _, rf := range refs(a) {
								if st, ok := rf.(*ssa.Store); ok && st.Addr == ssa.Value(a) {
									walk(st.Val, seen)
								}
							}
						}
					case *ssa.Phi:
						for _, e := range x.Edges {
							walk(e, seen)
						}
					}
				}
				walk(ret.Results[0], map[ssa.Value]bool{})
				for _, sl := range slices {
					nRet++
					ms, isMake := sl.X.(*ssa.MakeSlice)
					okBuf := isMake && roleOf(ms.Len) == "length"
					r.Check("R12e", im.Name+".ReadAt buffer is make(length)", instrPos(sl), okBuf, "result buffer is "+sk(sl.X)+", must be make([]byte, length) for the length parameter")
					okN := false
					if sl.Low == nil && sl.High != nil {
						switch h := sl.High.(type) {
						case *ssa.Call:
							if bi, ok := h.Call.Value.(*ssa.Builtin); ok && bi.Name() == "copy" && h.Call.Args[0] == sl.X {
								okN = true
								if s2, ok := h.Call.Args[1].(*ssa.Slice); ok {
									okSrc := s2.Low != nil && roleOf(s2.Low) == "offset" && s2.High == nil
									r.Check("R12e", im.Name+".ReadAt source is contents[offset:]", instrPos(h), okSrc, "copy source is "+sk(h.Call.Args[1]))
									rs := p.RelsAt(rm, s2)
									for k := range p.entryRels(f) {
										rs[k] = true
									}
									want := sk(s2.Low) + " < uint64(len(" + sk(s2.X) + "))"
									r.Check("R12e", im.Name+".ReadAt offset in range", instrPos(s2), rs[want], fmt.Sprintf("need fact `%s`; facts: %v", want, relList(rs)))
								} else {
									r.Fail("R12e", im.Name+".ReadAt source is contents[offset:]", instrPos(h), "copy source is "+sk(h.Call.Args[1]), "")
								}
							}
						case *ssa.Extract:
							if c, ok := h.Tuple.(*ssa.Call); ok {
								if cal := calleeOf(&c.Call); cal != nil && fullName(cal) == "golang.org/x/sys/unix.Pread" && h.Index == 0 && c.Call.Args[1] == sl.X {
									okN = true
									r.Check("R12e", im.Name+".ReadAt pread offset", instrPos(c), roleOf(c.Call.Args[2]) == "offset", "pread offset is "+sk(c.Call.Args[2])+", must be the offset parameter")
								}
							}
						}
					}
					r.Check("R12e", im.Name+".ReadAt result is buf[:n]", instrPos(sl), okN, "result is "+sk(sl)+": must be buf[:n] with n the number of bytes copied/read into buf")
				}
			})
		}
		if nRet == 0 {
			r.Unknown("R12e", im.Name+".ReadAt result", root.Pos(), "no sliced result recognised in ReadAt or its helpers")
		}
	}
}

func (fc *fsCtx) ruleLinkDelete2(r *Report, mem *fsImpl) {
	p := fc.p
	df := fc.direntField(mem)
	if f := mem.Methods["Link"]; f != nil {
		reg := p.region([]*ssa.Function{f})
		roots := map[*ssa.Function]bool{f: true}
		n := 0
		for _, g := range reg {
			p.instrs(g, func(b *ssa.BasicBlock, i int, in ssa.Instruction) {
				mu, ok := in.(*ssa.MapUpdate)
				if !ok {
					return
				}
				fld, isMem := fc.mapFieldOf(mem, mu.Map)
				if !isMem {
					return
				}
				n++
				if fld != df {
					r.Fail("R12e", mem.Name+".Link updates "+fld, instrPos(in), "Link must only add a directory entry", "")
					return
				}
				okv := false
				for _, o := range p.originsUp(mu.Value, reg, roots) {
					if ex, ok := o.(*ssa.Extract); ok {
						if lk, ok := ex.Tuple.(*ssa.Lookup); ok {
							if f2, ok := fc.mapFieldOf(mem, lk.X); ok && f2 == df {
								okv = true
							}
						}
					}
				}
				r.Check("R12e", mem.Name+".Link shares the inode", instrPos(in), okv, "the new entry must map the new name to the inode number found under the old name (a lookup in the directory map)")
			})
		}
		if n == 0 {
			r.Fail("R12e", mem.Name+".Link shares the inode", f.Pos(), "Link adds no directory entry", "")
		}
	}
	if f := mem.Methods["Delete"]; f != nil {
		n := 0
		for _, g := range p.region([]*ssa.Function{f}) {
			p.instrs(g, func(b *ssa.BasicBlock, i int, in ssa.Instruction) {
				switch x := in.(type) {
				case *ssa.MapUpdate:
					if _, isMem := fc.mapFieldOf(mem, x.Map); isMem {
						r.Fail("R12e", mem.Name+".Delete map update", instrPos(in), "Delete must not insert", "")
					}
				case *ssa.Call:
					if bi, ok := x.Call.Value.(*ssa.Builtin); ok && bi.Name() == "delete" {
						n++
						fld, _ := fc.mapFieldOf(mem, x.Call.Args[0])
						r.Check("R12e", mem.Name+".Delete removes the directory entry only", instrPos(in), fld == df,
							"delete on "+fld+": must remove exactly the directory entry; contents stay readable through open descriptors and other links")
					}
				}
			})
		}
		if n == 0 {
			r.Fail("R12e", mem.Name+".Delete removes the directory entry only", f.Pos(), "no delete of a directory entry", "")
		}
	}
}

// ---------------------------------------------------------------------------
// C13 on abstract paths

func (fc *fsCtx) ruleAtomicCreateDir2(r *Report, dir *fsImpl, full bool) {
	p := fc.p
	f := dir.Methods["AtomicCreate"]
	if f == nil || len(f.Params) != 4 {
		r.Anchor("R13a", dir.Name+".AtomicCreate")
		return
	}
	r.Func(FuncName(f))
	dirP, nameP, dataP := f.Params[1], f.Params[2], f.Params[3]
	name := dir.Name + ".AtomicCreate"
	var ips []ipath
	if full {
		ips = p.ipathDiscipline(r, "R13a", name, f, countSpec{}, func(n string, ip ipath) bool {
			if n != "Close" {
				return false
			}
			// accepted only when an fsync of the same descriptor precedes every normal return
			if ip.Exit != "return" {
				return true
			}
			return len(ip.eventsOf("golang.org/x/sys/unix.Fsync")) > 0
		})
	} else {
		ips, _ = p.ipaths(f)
	}
	if len(ips) == 0 {
		r.Unknown("R13a", name+" paths", f.Pos(), "no paths")
		return
	}
	oc, _ := unixConst(p, "O_CREAT")
	ot, _ := unixConst(p, "O_TRUNC")
	ox, _ := unixConst(p, "O_EXCL")
	acc, _ := unixConst(p, "O_ACCMODE")
	ow, _ := unixConst(p, "O_WRONLY")
	orw, _ := unixConst(p, "O_RDWR")
	var badOrder, badEmpty, badSrc, badRoot, badDst, badUniq string
	nRet := 0
	var openPos, renamePos ssa.Instruction
	for _, ip := range ips {
		if ip.Exit != "return" {
			continue
		}
		nRet++
		var seq []ievent
		for _, e := range ip.Events {
			if e.Deferred || !strings.HasPrefix(e.Callee, "golang.org/x/sys/unix.") {
				continue
			}
			seq = append(seq, e)
		}
		var names []string
		for _, e := range seq {
			names = append(names, strings.TrimPrefix(e.Callee, "golang.org/x/sys/unix."))
		}
		// Openat (Ftruncate)? Write* Fsync Renameat
		i := 0
		var open, fsync, rename *ievent
		if i < len(seq) && names[i] == "Openat" {
			open = &seq[i]
			i++
		}
		truncZero := false
		if i < len(seq) && names[i] == "Ftruncate" {
			if len(seq[i].Args) == 2 && seq[i].Args[1] == "0" {
				truncZero = true
			}
			i++
		}
		nW := 0
		for i < len(seq) && names[i] == "Write" {
			nW++
			i++
		}
		if i < len(seq) && names[i] == "Fsync" {
			fsync = &seq[i]
			i++
		}
		if i < len(seq) && names[i] == "Renameat" {
			rename = &seq[i]
			i++
		}
		if open == nil || fsync == nil || rename == nil || i != len(seq) {
			badOrder = fmt.Sprintf("system calls on a returning path are %v; the protocol is openat, write…, fsync, renameat in this order with nothing else (%s)", names, ip.Trace)
			continue
		}
		openPos, renamePos = open.In, rename.In
		fdKey := shortKey(open.Key + "#0")
		for _, e := range seq {
			n := strings.TrimPrefix(e.Callee, "golang.org/x/sys/unix.")
			if (n == "Write" || n == "Fsync" || n == "Ftruncate") && (len(e.Args) == 0 || e.Args[0] != fdKey) {
				badOrder = fmt.Sprintf("%s operates on %s, not on the staging descriptor %s", n, e.Args[0], fdKey)
			}
		}
		// staging file starts empty
		var flags int64 = -1
		if ci, ok := open.In.(ssa.CallInstruction); ok {
			if fl, okc := foldInt(ci.Common().Args[2]); okc {
				flags = fl
			}
		}
		if flags < 0 && len(open.Args) >= 3 {
			// the open sits in a wrapper: the flags are a constant at the wrapper's call, which the abstract
			// path has substituted into the event
			if fl, err := strconv.ParseInt(open.Args[2], 0, 64); err == nil {
				flags = fl
			}
		}
		empty := flags >= 0 && flags&oc != 0 && (flags&ot != 0 || flags&ox != 0 || truncZero) && (flags&acc == ow || flags&acc == orw)
		if !empty {
			badEmpty = fmt.Sprintf("open flags=%#x: without O_TRUNC/O_EXCL (or ftruncate(fd,0) before the first write) bytes left in the staging file by an earlier interrupted call survive past the new data", flags)
		}
		if !full {
			continue
		}
		stage := open.Args[1]
		if rename.Args[1] != stage {
			badSrc = "renameat source " + rename.Args[1] + " differs from the opened path " + stage
		}
		if !(open.Args[0] == rename.Args[0] && rename.Args[0] == rename.Args[2]) {
			badRoot = "open and both sides of the rename must be relative to the same root descriptor"
		}
		wantDst := "path.Join([" + dirP.Name() + "," + nameP.Name() + "])"
		wantDst2 := "path/filepath.Join([" + dirP.Name() + "," + nameP.Name() + "])"
		if rename.Args[3] != wantDst && rename.Args[3] != wantDst2 {
			badDst = "destination is " + rename.Args[3] + ", must be " + wantDst
		}
		uniq := flags >= 0 && flags&ox != 0
		for _, src := range []string{"sync/atomic.Add", ".Add(", "math/rand.", "crypto/rand.", "time.Now("} {
			if strings.Contains(stage, src) {
				uniq = true
			}
		}
		// a counter makes names unique only if all calls share it: its address must not lie in a local
		// copy (a field of a value receiver is incremented on the copy and is 1 on every call)
		for _, e := range ip.Events {
			if !strings.HasPrefix(e.Callee, "sync/atomic.Add") && !(strings.HasPrefix(e.Callee, "(*sync/atomic.") && strings.HasSuffix(e.Callee, ").Add")) {
				continue
			}
			if e.Key == "" || !strings.Contains(stage, e.Key) {
				continue
			}
			// … and only if each call moves it: the increment is a non-zero constant
			if ci, ok := e.In.(ssa.CallInstruction); ok {
				args := ci.Common().Args
				if d, isC := constInt(args[len(args)-1]); len(args) > 0 && (!isC || d == 0) {
					uniq = false
					badUniq = fmt.Sprintf("the counter in the staging path is advanced by %s: it does not change from call to call, so concurrent calls for one name share the temporary file", sk(args[len(args)-1]))
				}
			}
			if ci, ok := e.In.(ssa.CallInstruction); ok && len(ci.Common().Args) > 0 && !sharedAddr(ci.Common().Args[0]) {
				uniq = false
				badUniq = fmt.Sprintf("the counter %s that makes the staging path unique lives in a local copy (value receiver or local variable): every call increments its own copy, so concurrent calls for one name share the temporary file", e.Args[0])
			}
		}
		if !uniq && badUniq == "" {
			badUniq = fmt.Sprintf("the staging path %s has no per-call fresh component and is opened without O_EXCL: concurrent calls that agree on it (the same name) write through one shared temporary file", stage)
		}
	}
	pos := func(in ssa.Instruction) token.Pos {
		if in == nil {
			return f.Pos()
		}
		return instrPos(in)
	}
	if full {
		r.Check("R13a", name+" protocol order", f.Pos(), badOrder == "" && nRet > 0, badOrder)
	} else if badOrder != "" {
		return
	}
	r.Check("R13c", name+" staging starts empty", pos(openPos), badEmpty == "" && nRet > 0, badEmpty)
	if !full {
		return
	}
	r.Check("R13d", name+" rename source is the staging path", pos(renamePos), badSrc == "", badSrc)
	r.Check("R13d", name+" one root descriptor", pos(renamePos), badRoot == "", badRoot)
	r.Check("R13d", name+" destination", pos(renamePos), badDst == "", badDst)
	r.Check("R13f", name+" staging path unique per call", pos(openPos), badUniq == "", badUniq)
	// R13b write-all: the loop (or single checked write) lives wherever the write call is
	fc.ruleWriteAll(r, f, dataP)
}

func (fc *fsCtx) ruleWriteAll(r *Report, root *ssa.Function, dataP *ssa.Parameter) {
	p := fc.p
	region := p.region([]*ssa.Function{root})
	roles := map[*ssa.Parameter]string{dataP: "data"}
	p.propagateRoles(roles, region)
	okAll, why := false, "no write call found"
	var at ssa.Instruction
	for _, g := range region {
		rm := p.Rels(g)
		p.instrs(g, func(b *ssa.BasicBlock, i int, in ssa.Instruction) {
			w, name, ok := unixCall(in)
			if !ok || name != "Write" {
				return
			}
			at = in
			buf := w.Call.Args[1]
			var cnt ssa.Value
			for _, rf := range refs(w) {
				if ex, ok := rf.(*ssa.Extract); ok && ex.Index == 0 {
					cnt = ex
				}
			}
			if cnt == nil {
				why = "the write count is discarded"
				return
			}
			isData := func(v ssa.Value) bool {
				pa, ok := v.(*ssa.Parameter)
				return ok && roles[pa] == "data"
			}
			// points after the loop where "nothing remains" must hold: the fsync in this function, or every normal return
			var after []ssa.Instruction
			p.instrs(g, func(b2 *ssa.BasicBlock, i2 int, in2 ssa.Instruction) {
				if _, n2, ok := unixCall(in2); ok && n2 == "Fsync" {
					after = append(after, in2)
				}
			})
			if len(after) == 0 {
				p.instrs(g, func(b2 *ssa.BasicBlock, i2 int, in2 ssa.Instruction) {
					if ret, ok := in2.(*ssa.Return); ok && reachesInstr(w, ret) {
						after = append(after, in2)
					}
				})
			}
			if ph, ok := buf.(*ssa.Phi); ok && len(ph.Edges) == 2 {
				init, adv := false, false
				for _, e := range ph.Edges {
					if isData(e) {
						init = true
					}
					if sl, ok := e.(*ssa.Slice); ok && sl.X == ssa.Value(ph) && sl.Low == cnt && sl.High == nil {
						adv = true
					}
				}
				k := "len(" + sk(ph) + ")"
				exit := len(after) > 0
				for _, a := range after {
					rs := p.RelsAt(rm, a)
					if !(rs[k+" <= 0"] || rs[eqRel(k, "0")]) {
						exit = false
					}
				}
				if init && adv && exit {
					okAll = true
				} else {
					why = fmt.Sprintf("write loop: starts at data=%v, advances by the count=%v, leaves only when nothing remains=%v", init, adv, exit)
				}
				return
			}
			// offset idiom: data[off:] with off a loop variable that starts at 0, advances by the count, and the
			// loop is left only when off has reached len(data)
			if sl, ok := buf.(*ssa.Slice); ok && isData(sl.X) && sl.High == nil {
				if ph, ok := sl.Low.(*ssa.Phi); ok && len(ph.Edges) == 2 {
					init, adv := false, false
					for _, e := range ph.Edges {
						if z, isC := constInt(e); isC && z == 0 {
							init = true
						}
						if bo, ok := e.(*ssa.BinOp); ok && bo.Op == token.ADD && (bo.X == ssa.Value(ph) && bo.Y == cnt || bo.Y == ssa.Value(ph) && bo.X == cnt) {
							adv = true
						}
					}
					// where the write is not reached any more (after the loop): off >= len(data)
					exitPts := after
					if len(exitPts) == 0 {
						p.instrs(g, func(b2 *ssa.BasicBlock, i2 int, in2 ssa.Instruction) {
							if ret, ok := in2.(*ssa.Return); ok {
								exitPts = append(exitPts, ret)
							}
						})
					}
					ko, kl := sk(ph), "len("+sk(sl.X)+")"
					exit := len(exitPts) > 0
					for _, a := range exitPts {
						rs := p.RelsAt(rm, a)
						if !(rs[kl+" <= "+ko] || rs[ko+" >= "+kl] || rs[eqRel(ko, kl)]) {
							exit = false
						}
					}
					if init && adv && exit {
						okAll = true
					} else {
						why = fmt.Sprintf("write loop over an offset: starts at 0=%v, advances by the count=%v, leaves only when the offset has reached len(data)=%v", init, adv, exit)
					}
					return
				}
			}
			if isData(buf) {
				good := len(after) > 0
				for _, a := range after {
					if !eqHolds(p.RelsAt(rm, a), sk(cnt), "len("+sk(buf)+")") {
						good = false
					}
				}
				if good {
					okAll = true
				} else {
					why = "a single write whose count is not proven equal to len(data) before the flush"
				}
				return
			}
			why = "write buffer is " + sk(buf) + ": neither the data nor a remaining-slice loop variable"
		})
	}
	pos := root.Pos()
	if at != nil {
		pos = instrPos(at)
	}
	r.Check("R13b", fc.dirImpl().Name+".AtomicCreate writes all of data", pos, okAll, why)
}

func (fc *fsCtx) ruleAtomicCreateMem2(r *Report, mem *fsImpl) {
	p := fc.p
	f := mem.Methods["AtomicCreate"]
	if f == nil {
		r.Anchor("R13e", mem.Name+".AtomicCreate")
		return
	}
	r.Func(FuncName(f))
	cf, df := fc.contentField(mem), fc.direntField(mem)
	dataP := f.Params[len(f.Params)-1]
	region := p.region([]*ssa.Function{f})
	roots := map[*ssa.Function]bool{f: true}
	nC, nD := 0, 0
	for _, g := range region {
		if g != f && !fc.helperScope(mem)[g] {
			continue
		}
		p.instrs(g, func(b *ssa.BasicBlock, i int, in ssa.Instruction) {
			mu, ok := in.(*ssa.MapUpdate)
			if !ok {
				return
			}
			fld, isMem := fc.mapFieldOf(mem, mu.Map)
			if !isMem {
				return
			}
			switch fld {
			case cf:
				nC++
				fresh := false
				var ks []string
				for _, o := range p.originsUp(mu.Key, region, roots) {
					ks = append(ks, sk(o))
					if isFreshInodeKey(sk(o), cf) {
						fresh = true
					} else {
						fresh = false
						break
					}
				}
				r.Check("R13e", mem.Name+".AtomicCreate fresh inode", instrPos(in), fresh,
					fmt.Sprintf("contents are stored under key %v: must be a new inode (len(%s)+c), otherwise readers holding the old file see it change (torn) and hard links change with it", ks, cf))
				okCopy := true
				n := 0
				for _, o := range p.originsUp(mu.Value, region, roots) {
					n++
					ms, isMake := o.(*ssa.MakeSlice)
					if !isMake {
						okCopy = false
						continue
					}
					// make(len(data)) filled by copy(p, data)
					lk := sk(ms.Len)
					lenOK := false
					for _, lo := range p.originsUp(ms.Len, region, roots) {
						if c, ok := lo.(*ssa.Call); ok {
							if bi, ok := c.Call.Value.(*ssa.Builtin); ok && bi.Name() == "len" {
								for _, ao := range p.originsUp(c.Call.Args[0], region, roots) {
									if ao == ssa.Value(dataP) {
										lenOK = true
									}
								}
							}
						}
					}
					_ = lk
					filled := false
					for _, u := range p.aliasUsesDeep(ms) {
						if u.Kind == "copy#0" {
							if c, ok := u.In.(*ssa.Call); ok {
								for _, so := range p.originsUp(c.Call.Args[1], region, roots) {
									if so == ssa.Value(dataP) {
										filled = true
									}
								}
							}
						}
					}
					if !lenOK || !filled {
						okCopy = false
					}
				}
				r.Check("R13e", mem.Name+".AtomicCreate installs a complete private copy", instrPos(in), okCopy && n > 0,
					"the stored value must be make([]byte, len(data)) filled by copy(p, data) (directly or through a helper)")
			case df:
				nD++
				// value must be the fresh inode
				fresh := false
				for _, o := range p.originsUp(mu.Value, region, roots) {
					if isFreshInodeKey(sk(o), cf) {
						fresh = true
					}
				}
				kd := false
				for _, o := range p.originsUp(mu.Key, region, roots) {
					d := paramDeps(o)
					if d[f.Params[1].Name()] && d[f.Params[2].Name()] {
						kd = true
					}
					if pa, ok := o.(*ssa.Parameter); ok && roots[pa.Parent()] {
						kd = true
					}
				}
				if !kd {
					d := paramDeps(mu.Key)
					kd = d[f.Params[1].Name()] && d[f.Params[2].Name()]
				}
				if !kd && g != f {
					// the update sits in a helper: its key depends on the helper's parameters; what AtomicCreate
					// passes for them decides
					p.instrs(f, func(b2 *ssa.BasicBlock, i2 int, in2 ssa.Instruction) {
						c, ok := in2.(*ssa.Call)
						if !ok || calleeOf(&c.Call) != g {
							return
						}
						up := map[string]bool{}
						for _, o := range p.originsUp(mu.Key, region, roots) {
							for hp := range paramDeps(o) {
								for pi, pa := range g.Params {
									if pa.Name() == hp && pi < len(c.Call.Args) {
										for n := range paramDeps(c.Call.Args[pi]) {
											up[n] = true
										}
									}
								}
							}
						}
						if up[f.Params[1].Name()] && up[f.Params[2].Name()] {
							kd = true
						}
					})
				}
				if os.Getenv("VERIF_DEBUG") == "R13e" {
					var ks, vs []string
					for _, o := range p.originsUp(mu.Key, region, roots) {
						ks = append(ks, sk(o)+fmt.Sprint(paramDeps(o)))
					}
					for _, o := range p.originsUp(mu.Value, region, roots) {
						vs = append(vs, sk(o))
					}
					fmt.Println("R13e dbg fresh", fresh, "kd", kd, "keys", ks, "vals", vs, "params", f.Params[1].Name(), f.Params[2].Name())
				}
				r.Check("R13e", mem.Name+".AtomicCreate points (dir,fname) at the new inode", instrPos(in), fresh && kd,
					"the directory entry for (dir, fname) must be set to the freshly allocated inode")
			}
		})
	}
	r.Check("R13e", mem.Name+".AtomicCreate one contents and one directory update", f.Pos(), nC == 1 && nD == 1,
		fmt.Sprintf("found %d contents updates and %d directory updates reachable from AtomicCreate", nC, nD))
}

// sharedAddr: the address is a package-level variable or is reached through a pointer that the function
// received (parameter, captured variable, global) — not a location inside a local (per-call) variable.
func sharedAddr(v ssa.Value) bool {
	for depth := 0; depth < 10; depth++ {
		switch x := v.(type) {
		case *ssa.Global:
			return true
		case *ssa.FieldAddr:
			v = x.X
		case *ssa.IndexAddr:
			v = x.X
		case *ssa.Parameter, *ssa.FreeVar:
			_, isPtr := x.Type().Underlying().(*types.Pointer)
			return isPtr
		case *ssa.UnOp: // a loaded pointer: shared as far as this function can tell
			return x.Op == token.MUL
		case *ssa.Alloc:
			return false
		default:
			return false
		}
	}
	return false
}

// ruleCreateResult (R12c): Create reports failure exactly when the name exists. Every place that fixes the boolean
// result of Create (a return of a constant, or a store of a constant into the named result) is judged by the
// facts that dominate it: under "the name exists" (a hit in the directory map; EEXIST from the exclusive open)
// the constant is false, under "it does not" (a miss; a nil error) it is true.
func (fc *fsCtx) ruleCreateResult(r *Report, im *fsImpl, df string) {
	p := fc.p
	f := im.Methods["Create"]
	if f == nil {
		return
	}
	n := 0
	var rm map[*ssa.BasicBlock]relSet
	judge := func(in ssa.Instruction, v ssa.Value) {
		c, ok := v.(*ssa.Const)
		if !ok || c.Value == nil {
			return
		}
		b, isB := c.Type().Underlying().(*types.Basic)
		if !isB || b.Kind() != types.Bool {
			return
		}
		val := c.Value.String() == "true"
		exists, absent := false, false
		for k := range p.RelsAt(rm, in) {
			switch {
			case df != "" && strings.Contains(k, "."+df+"[") && strings.HasSuffix(k, "#1 == true"),
				strings.HasPrefix(k, "17 == ") && strings.Contains(k, "Openat("):
				exists = true
			case df != "" && strings.Contains(k, "."+df+"[") && (strings.HasSuffix(k, "#1 == false") || strings.HasPrefix(k, "false == ")),
				strings.Contains(k, "Openat(") && strings.HasSuffix(k, "#1 == nil"):
				absent = true
			}
		}
		if !exists && !absent {
			return
		}
		n++
		r.Check("R12c", fmt.Sprintf("%s.Create reports %v when the name %s", im.Name, !exists, map[bool]string{true: "exists", false: "does not exist"}[exists]), instrPos(in),
			val == !exists, fmt.Sprintf("Create's success result is %v although the name %s", val, map[bool]string{true: "already exists: the caller is told it created the file", false: "did not exist: the caller is told the creation failed"}[exists]))
	}
	// Create itself and the helpers it delegates to (a *Locked body, a shared lookup-and-create)
	for _, g := range p.region([]*ssa.Function{f}) {
		if g != f && !fc.helperScope(im)[g] {
			continue
		}
		if g.Signature.Results().Len() != 2 {
			continue
		}
		g := g
		rm = p.Rels(g)
		p.instrs(g, func(b *ssa.BasicBlock, i int, in ssa.Instruction) {
			switch x := in.(type) {
			case *ssa.Return:
				if len(x.Results) == 2 {
					judge(in, x.Results[1])
				}
			case *ssa.Store:
				if al, ok := x.Addr.(*ssa.Alloc); ok && al.Comment == g.Signature.Results().At(1).Name() && al.Comment != "" {
					judge(in, x.Val)
				}
			}
		})
	}
	if n < 2 {
		r.Unknown("R12c", im.Name+".Create result", f.Pos(), fmt.Sprintf("%d places fix Create's boolean result under a fact about the name's existence (both outcomes expected)", n))
	}
}

// rootParamDeps: the parameters of the root method f that the value v (in function g, which is f or a helper f
// calls directly) depends on. Helper parameters are mapped to what f passes for them.
func (p *Prog) rootParamDeps(v ssa.Value, g, f *ssa.Function) map[string]bool {
	d := paramDeps(v)
	if g == f {
		return d
	}
	out := map[string]bool{}
	p.instrs(f, func(b *ssa.BasicBlock, i int, in ssa.Instruction) {
		c, ok := in.(*ssa.Call)
		if !ok || calleeOf(&c.Call) != g {
			return
		}
		for hp := range d {
			for pi, pa := range g.Params {
				if pa.Name() == hp && pi < len(c.Call.Args) {
					for n := range paramDeps(c.Call.Args[pi]) {
						out[n] = true
					}
				}
			}
		}
	})
	return out
}

// ruleLinkRoles (R12e): Link(oldDir, oldName, newDir, newName) — the parameter order is fixed by the exported
// Filesys interface. In memory the inode is looked up under (oldDir, oldName) and entered under (newDir, newName);
// in the directory implementation linkat's source path is built from the old pair and its target from the new pair.
func (fc *fsCtx) ruleLinkRoles(r *Report, mem, dir *fsImpl) {
	p := fc.p
	sameSet := func(d map[string]bool, want ...string) bool {
		if len(d) != len(want) {
			return false
		}
		for _, w := range want {
			if !d[w] {
				return false
			}
		}
		return true
	}
	if f := mem.Methods["Link"]; f != nil && len(f.Params) == 5 {
		df := fc.direntField(mem)
		oD, oN, nD, nN := f.Params[1].Name(), f.Params[2].Name(), f.Params[3].Name(), f.Params[4].Name()
		okL, okU, nL, nU := true, true, 0, 0
		for _, g := range p.region([]*ssa.Function{f}) {
			if g != f && !fc.helperScope(mem)[g] {
				continue
			}
			p.instrs(g, func(b *ssa.BasicBlock, i int, in ssa.Instruction) {
				switch x := in.(type) {
				case *ssa.Lookup:
					if fld, ok := fc.mapFieldOf(mem, x.X); ok && fld == df && x.CommaOk {
						if g != f {
							// a lookup helper: each call of it from Link is one lookup, with that call's operands
							p.instrs(f, func(b2 *ssa.BasicBlock, i2 int, in2 ssa.Instruction) {
								c, ok := in2.(*ssa.Call)
								if !ok || calleeOf(&c.Call) != g {
									return
								}
								d := map[string]bool{}
								for hp := range paramDeps(x.Index) {
									for pi, pa := range g.Params {
										if pa.Name() == hp && pi < len(c.Call.Args) {
											for n := range paramDeps(c.Call.Args[pi]) {
												d[n] = true
											}
										}
									}
								}
								delete(d, f.Params[0].Name())
								usesVal := false
								if g.Signature.Results().Len() == 2 {
									// a pure lookup helper: what the caller does with the value decides
									for _, rf := range refs(c) {
										if ex, ok := rf.(*ssa.Extract); ok && ex.Index == 0 && len(refs(ex)) > 0 {
											usesVal = true
										}
									}
								} else {
									// the helper is Link's body: the lookup's own value decides
									for _, rf := range refs(x) {
										if ex, ok := rf.(*ssa.Extract); ok && ex.Index == 0 && len(refs(ex)) > 0 {
											usesVal = true
										}
									}
								}
								if usesVal {
									nL++
									if !sameSet(d, oD, oN) {
										okL = false
									}
								} else if !sameSet(d, nD, nN) {
									okU = false
								}
							})
							return
						}
						d := p.rootParamDeps(x.Index, g, f)
						delete(d, f.Params[0].Name())
						if len(d) == 0 {
							return // a helper called with other operands too; judged by the update below
						}
						// the lookup whose value is used finds the inode of the old name; a pure existence test
						// (only the ok result is used) asks whether the new name is taken
						usesVal := false
						for _, rf := range refs(x) {
							if ex, ok := rf.(*ssa.Extract); ok && ex.Index == 0 && len(refs(ex)) > 0 {
								usesVal = true
							}
						}
						if usesVal {
							nL++
							if !sameSet(d, oD, oN) {
								okL = false
							}
						} else if !sameSet(d, nD, nN) {
							okU = false
						}
					}
				case *ssa.MapUpdate:
					if fld, ok := fc.mapFieldOf(mem, x.Map); ok && fld == df {
						d := p.rootParamDeps(x.Key, g, f)
						delete(d, f.Params[0].Name())
						nU++
						if !sameSet(d, nD, nN) {
							okU = false
						}
					}
				}
			})
		}
		r.Check("R12e", mem.Name+".Link looks the inode up under (oldDir, oldName)", f.Pos(), nL > 0 && okL, "the directory lookup of Link is not keyed by exactly its first pair of parameters")
		r.Check("R12e", mem.Name+".Link enters the name under (newDir, newName)", f.Pos(), nU > 0 && okU, "the directory entry Link adds is not keyed by exactly its second pair of parameters")
	}
	if f := dir.Methods["Link"]; f != nil && len(f.Params) == 5 {
		oD, oN, nD, nN := f.Params[1].Name(), f.Params[2].Name(), f.Params[3].Name(), f.Params[4].Name()
		ok, n := true, 0
		for _, g := range p.region([]*ssa.Function{f}) {
			if g != f && !fc.helperScope(dir)[g] {
				continue
			}
			p.instrs(g, func(b *ssa.BasicBlock, i int, in ssa.Instruction) {
				c, name, isU := unixCall(in)
				if !isU || name != "Linkat" || len(c.Call.Args) < 4 {
					return
				}
				n++
				if !sameSet(p.rootParamDeps(c.Call.Args[1], g, f), oD, oN) || !sameSet(p.rootParamDeps(c.Call.Args[3], g, f), nD, nN) {
					ok = false
				}
			})
		}
		r.Check("R12e", dir.Name+".Link links (oldDir, oldName) to (newDir, newName)", f.Pos(), n > 0 && ok, "linkat's source path must be built from the first pair of parameters and its target from the second")
	}
}
