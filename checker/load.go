package main

import (
	"fmt"
	"go/token"
	"go/types"
	"os"
	"sort"
	"strings"

	"golang.org/x/tools/go/packages"
	"golang.org/x/tools/go/ssa"
	"golang.org/x/tools/go/ssa/ssautil"
)

// Mod is the module path of the repository under analysis.
const Mod = "github.com/goose-lang/goose"

// Config is one build configuration the repository is analysed under.
type Config struct {
	Name   string
	GOOS   string
	GOARCH string
	Tags   string
}

var defaultConfig = Config{Name: "linux/amd64 -tags goose", GOOS: "linux", GOARCH: "amd64", Tags: "goose"}

// Prog is the loaded, type-checked and SSA-built repository.
type Prog struct {
	Dir    string
	Cfg    Config
	Fset   *token.FileSet
	Pkgs   []*packages.Package // repository packages only (no deps), sorted by path
	All    map[string]*packages.Package
	SSA    *ssa.Program
	SSAPkg map[string]*ssa.Package

	noReturn    map[*ssa.Function]bool
	entryCache  map[*ssa.Function]relSet
	ipathCache  map[*ssa.Function][]ipath
	keepOpaque  map[*ssa.Function]bool
	havoc       bool
	pureMemo    map[*ssa.Function]int
	strTables   map[interface{}]*strTable
	exitCache   map[*ssa.Function]relSet
	srcFuncs    []*ssa.Function // all functions (incl. anonymous) with source in repo packages
	recognisers map[*ssa.Function]bool
	pkgNameSet  map[string]bool
	condBusy    map[*ssa.Function]bool
}

// Load loads dir (the repository root) under cfg. Any load or type error is fatal:
// a static check that silently analyses half a program passes vacuously.
func Load(dir string, cfg Config, patterns ...string) (*Prog, error) {
	if len(patterns) == 0 {
		patterns = []string{"./..."}
	}
	env := []string{}
	for _, kv := range os.Environ() {
		if strings.HasPrefix(kv, "GOWORK=") || strings.HasPrefix(kv, "GOFLAGS=") ||
			strings.HasPrefix(kv, "GOOS=") || strings.HasPrefix(kv, "GOARCH=") ||
			strings.HasPrefix(kv, "GOPROXY=") || strings.HasPrefix(kv, "GOSUMDB=") ||
			strings.HasPrefix(kv, "GOTOOLCHAIN=") {
			continue
		}
		env = append(env, kv)
	}
	env = append(env, "GOWORK=off", "GOFLAGS=-mod=mod", "GOPROXY=off", "GOSUMDB=off",
		"GOTOOLCHAIN=local", "GOOS="+cfg.GOOS, "GOARCH="+cfg.GOARCH, "CGO_ENABLED=0")
	pc := &packages.Config{
		Mode:  packages.LoadAllSyntax,
		Dir:   dir,
		Env:   env,
		Fset:  token.NewFileSet(),
		Tests: false,
	}
	if cfg.Tags != "" {
		pc.BuildFlags = []string{"-tags", cfg.Tags}
	}
	pkgs, err := packages.Load(pc, patterns...)
	if err != nil {
		return nil, fmt.Errorf("packages.Load: %v", err)
	}
	if len(pkgs) == 0 {
		return nil, fmt.Errorf("no packages matched in %s", dir)
	}
	var errs []string
	packages.Visit(pkgs, nil, func(p *packages.Package) {
		for _, e := range p.Errors {
			errs = append(errs, fmt.Sprintf("%s: %v", p.PkgPath, e))
		}
	})
	if len(errs) > 0 {
		sort.Strings(errs)
		if len(errs) > 8 {
			errs = errs[:8]
		}
		return nil, fmt.Errorf("load/type errors:\n  %s", strings.Join(errs, "\n  "))
	}
	p := &Prog{Dir: dir, Cfg: cfg, Fset: pc.Fset, All: map[string]*packages.Package{}, SSAPkg: map[string]*ssa.Package{}}
	packages.Visit(pkgs, nil, func(pk *packages.Package) { p.All[pk.PkgPath] = pk })
	for _, pk := range pkgs {
		p.Pkgs = append(p.Pkgs, pk)
	}
	sort.Slice(p.Pkgs, func(i, j int) bool { return p.Pkgs[i].PkgPath < p.Pkgs[j].PkgPath })
	prog, spkgs := ssautil.AllPackages(pkgs, ssa.InstantiateGenerics)
	prog.Build()
	p.SSA = prog
	for i, sp := range spkgs {
		if sp != nil {
			p.SSAPkg[pkgs[i].PkgPath] = sp
		}
	}
	for _, sp := range prog.AllPackages() {
		if _, ok := p.SSAPkg[sp.Pkg.Path()]; !ok {
			p.SSAPkg[sp.Pkg.Path()] = sp
		}
	}
	p.collectSrcFuncs()
	p.computeNoReturn()
	curProg = p
	keyMemo = map[ssa.Value]string{}
	// render the key of every value once, in a fixed order: a key is memoised at its first rendering, and whether a
	// helper call is seen through depends on the nesting depth of that rendering — without this the verdict for a
	// deeply nested expression depended on which property had rendered it first
	for _, f := range p.srcFuncs {
		for _, b := range f.Blocks {
			for _, in := range b.Instrs {
				if v, ok := in.(ssa.Value); ok {
					exprKey(v)
				}
			}
		}
	}
	return p, nil
}

// InRepo reports whether pkg path belongs to the repository (and is not an example input).
func InRepo(path string) bool {
	return path == Mod || strings.HasPrefix(path, Mod+"/")
}

func (p *Prog) collectSrcFuncs() {
	seen := map[*ssa.Function]bool{}
	var add func(f *ssa.Function)
	add = func(f *ssa.Function) {
		if f == nil || seen[f] {
			return
		}
		seen[f] = true
		p.srcFuncs = append(p.srcFuncs, f)
		for _, a := range f.AnonFuncs {
			add(a)
		}
	}
	for _, pk := range p.Pkgs {
		sp := p.SSAPkg[pk.PkgPath]
		if sp == nil {
			continue
		}
		var names []string
		for n := range sp.Members {
			names = append(names, n)
		}
		sort.Strings(names)
		for _, n := range names {
			switch m := sp.Members[n].(type) {
			case *ssa.Function:
				add(m)
			case *ssa.Type:
				for _, T := range []types.Type{m.Type(), types.NewPointer(m.Type())} {
					ms := p.SSA.MethodSets.MethodSet(T)
					for i := 0; i < ms.Len(); i++ {
						f := p.SSA.MethodValue(ms.At(i))
						if f != nil && f.Synthetic == "" && f.Pkg == sp {
							add(f)
						}
					}
				}
			}
		}
	}
	sort.SliceStable(p.srcFuncs, func(i, j int) bool { return p.srcFuncs[i].String() < p.srcFuncs[j].String() })
}

// FuncsIn returns the source functions (including closures) of one package.
func (p *Prog) FuncsIn(pkgPath string) []*ssa.Function {
	var out []*ssa.Function
	for _, f := range p.srcFuncs {
		if f.Pkg != nil && f.Pkg.Pkg.Path() == pkgPath {
			out = append(out, f)
		}
	}
	return out
}

// Func finds a package-level function "name" or a method "T.name" / "*T.name" in pkgPath.
func (p *Prog) Func(pkgPath, name string) *ssa.Function {
	sp := p.SSAPkg[pkgPath]
	if sp == nil {
		return nil
	}
	if i := strings.Index(name, "."); i >= 0 {
		tn, mn := name[:i], name[i+1:]
		ptr := strings.HasPrefix(tn, "*")
		tn = strings.TrimPrefix(tn, "*")
		t, ok := sp.Members[tn].(*ssa.Type)
		if !ok {
			return nil
		}
		var T types.Type = t.Type()
		if ptr {
			T = types.NewPointer(T)
		}
		sel := p.SSA.MethodSets.MethodSet(T).Lookup(sp.Pkg, mn)
		if sel == nil {
			if !ptr {
				sel = p.SSA.MethodSets.MethodSet(types.NewPointer(T)).Lookup(sp.Pkg, mn)
			}
			if sel == nil {
				return nil
			}
		}
		f := p.SSA.MethodValue(sel)
		// unwrap synthetic pointer-receiver wrappers to the declared method
		if f != nil && f.Synthetic != "" {
			if fn, ok := sel.Obj().(*types.Func); ok {
				if d := p.SSA.FuncValue(fn); d != nil {
					return d
				}
			}
		}
		return f
	}
	f, _ := sp.Members[name].(*ssa.Function)
	return f
}

// Pos renders a position relative to the repository root.
func (p *Prog) Pos(pos token.Pos) string {
	if !pos.IsValid() {
		return "-"
	}
	q := p.Fset.Position(pos)
	f := strings.TrimPrefix(q.Filename, p.Dir+"/")
	return fmt.Sprintf("%s:%d", f, q.Line)
}

// FuncName is a short stable name: "pkgname.Recv.Method" / "pkgname.func" / "...$1" for closures.
func FuncName(f *ssa.Function) string {
	if f == nil {
		return "<nil>"
	}
	s := f.String()
	s = strings.ReplaceAll(s, Mod+"/internal/", "")
	s = strings.ReplaceAll(s, Mod+"/machine/", "")
	s = strings.ReplaceAll(s, Mod+"/cmd/", "cmd/")
	s = strings.ReplaceAll(s, Mod+"/", "")
	s = strings.ReplaceAll(s, Mod, "goose")
	s = strings.ReplaceAll(s, "github.com/goose-lang/", "")
	s = strings.NewReplacer("(", "", ")", "").Replace(s)
	return s
}

// controlsDir is the directory of the checker module (for positive-control packages).
func controlsDir() string {
	if d := os.Getenv("GOOSECHECK_SRC"); d != "" {
		return d + "/controls"
	}
	return "/verif/checker/controls"
}
