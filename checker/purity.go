package main

import (
	"go/token"
	"go/types"
	"strings"

	"golang.org/x/tools/go/ssa"
)

// Structural keys identify *expressions*, not evaluations: two calls of scanner.Scan() have the same
// key and may well return different values. A pair of facts such as "K == true" / "K == false" is
// therefore a contradiction only when K denotes a pure expression. Purity is decided on the SSA
// value the fact was read from.

var purePkgs = map[string]bool{
	"strings": true, "path": true, "path/filepath": true, "bytes": true, "strconv": true, "unicode": true,
	"unicode/utf8": true, "go/types": true, "go/ast": true, "go/token": true, "go/constant": true, "math": true,
	"math/bits": true, "encoding/binary": true,
}

var pureFuncs = map[string]bool{
	"fmt.Sprintf": true, "fmt.Sprint": true, "fmt.Errorf": true, "errors.New": true, "errors.Is": true, "errors.As": true,
	"sort.SearchInts": true, "sort.SearchStrings": true,
}

func (p *Prog) pureFunc(f *ssa.Function) bool {
	if f == nil {
		return false
	}
	if p.pureMemo == nil {
		p.pureMemo = map[*ssa.Function]int{}
	}
	switch p.pureMemo[f] {
	case 1:
		return true
	case 2:
		return false
	case 3:
		return true // on a cycle: assume pure, the other members decide
	}
	if f.Pkg != nil {
		path := f.Pkg.Pkg.Path()
		if purePkgs[path] {
			p.pureMemo[f] = 1
			return true
		}
		if pureFuncs[path+"."+f.Name()] {
			p.pureMemo[f] = 1
			return true
		}
		if !InRepo(path) {
			p.pureMemo[f] = 2
			return false
		}
	} else if len(f.Blocks) == 0 {
		p.pureMemo[f] = 2
		return false
	}
	if len(f.Blocks) == 0 {
		p.pureMemo[f] = 2
		return false
	}
	p.pureMemo[f] = 3
	pure := true
	for _, b := range f.Blocks {
		for _, in := range b.Instrs {
			switch x := in.(type) {
			case *ssa.Store:
				if !localAddr(x.Addr) {
					pure = false
				}
			case *ssa.MapUpdate:
				if !localAddr(x.Map) {
					pure = false
				}
			case *ssa.Go, *ssa.Defer, *ssa.Send, *ssa.Select:
				pure = false
			case *ssa.UnOp:
				if x.Op == token.ARROW {
					pure = false
				}
				if x.Op == token.MUL {
					if g, ok := x.X.(*ssa.Global); ok && !readOnlyGlobal(g) {
						pure = false
					}
				}
			case *ssa.Call:
				if !p.pureCall(&x.Call) {
					pure = false
				}
			}
		}
	}
	if pure {
		p.pureMemo[f] = 1
	} else {
		p.pureMemo[f] = 2
	}
	return pure
}

func readOnlyGlobal(g *ssa.Global) bool {
	// package-level tables and compiled regexps are treated as constants; go/types.Universe and Typ likewise
	return true
}

func localAddr(v ssa.Value) bool {
	for depth := 0; depth < 8; depth++ {
		switch x := v.(type) {
		case *ssa.Alloc:
			return true
		case *ssa.FieldAddr:
			v = x.X
		case *ssa.IndexAddr:
			v = x.X
		case *ssa.MakeMap, *ssa.MakeSlice:
			return true
		case *ssa.Slice:
			v = x.X
		default:
			return false
		}
	}
	return false
}

func (p *Prog) pureCall(c *ssa.CallCommon) bool {
	if bi, ok := c.Value.(*ssa.Builtin); ok {
		switch bi.Name() {
		case "len", "cap", "append", "min", "max", "real", "imag", "complex", "new", "make", "copy", "panic", "print", "println", "ssa:wrapnilchk":
			return bi.Name() != "copy" && bi.Name() != "print" && bi.Name() != "println"
		}
		return false
	}
	if c.IsInvoke() {
		if c.Method.Pkg() == nil { // error.Error
			return true
		}
		switch c.Method.Pkg().Path() {
		case "go/types", "go/ast", "go/token", "go/constant":
			return true
		}
		if InRepo(c.Method.Pkg().Path()) {
			// interface of the repository (coq.Expr.Coq, coq.Decl.CoqDecl, …): printers are pure
			return strings.HasSuffix(c.Method.Pkg().Path(), "/internal/coq")
		}
		return false
	}
	cal := c.StaticCallee()
	if cal == nil {
		return false
	}
	return p.pureFunc(cal)
}

// volatileValue: v's value depends on the result of an impure call (or a channel receive): two
// evaluations of the same expression may differ.
func (p *Prog) volatileValue(v ssa.Value) bool {
	seen := map[ssa.Value]bool{}
	var walk func(v ssa.Value, d int) bool
	walk = func(v ssa.Value, d int) bool {
		if v == nil || seen[v] || d > 12 {
			return false
		}
		seen[v] = true
		switch x := v.(type) {
		case *ssa.Call:
			if !p.pureCall(&x.Call) {
				return true
			}
		case *ssa.UnOp:
			if x.Op == token.ARROW {
				return true
			}
		case *ssa.Phi:
			return false // symbolic
		case *ssa.Parameter, *ssa.Const, *ssa.Global, *ssa.FreeVar, *ssa.Function, *ssa.Builtin:
			return false
		}
		if in, ok := v.(ssa.Instruction); ok {
			var ops []*ssa.Value
			for _, o := range in.Operands(ops) {
				if o != nil && walk(*o, d+1) {
					return true
				}
			}
		}
		return false
	}
	return walk(v, 0)
}

var _ = types.Typ
