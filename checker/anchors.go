package main

import (
	"go/types"
	"strings"

	"golang.org/x/tools/go/ssa"
)

// sigShape: receiver type, parameter types and result types of a function, without names.
func sigShape(f *ssa.Function) string {
	sig := f.Signature
	var b strings.Builder
	if r := sig.Recv(); r != nil {
		b.WriteString(types.TypeString(r.Type(), nil))
	}
	b.WriteString("|")
	for i := 0; i < sig.Params().Len(); i++ {
		if i > 0 {
			b.WriteString(",")
		}
		b.WriteString(types.TypeString(sig.Params().At(i).Type(), nil))
	}
	if sig.Variadic() {
		b.WriteString("...")
	}
	b.WriteString("|")
	for i := 0; i < sig.Results().Len(); i++ {
		if i > 0 {
			b.WriteString(",")
		}
		b.WriteString(types.TypeString(sig.Results().At(i).Type(), nil))
	}
	return b.String()
}
