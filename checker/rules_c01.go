package main

import (
	"fmt"
	"go/constant"
	"go/token"
	"go/types"
	"sort"
	"strings"

	"golang.org/x/tools/go/ssa"
)

// binOpNames: value -> name of the coq.BinOp constants.
func binOpNames(p *Prog) map[int64]string {
	out := map[int64]string{}
	cp := p.All[coqPkg]
	if cp == nil {
		return out
	}
	for _, n := range cp.Types.Scope().Names() {
		if c, ok := cp.Types.Scope().Lookup(n).(*types.Const); ok {
			if nt, ok := c.Type().(*types.Named); ok && nt.Obj().Name() == "BinOp" {
				if v, ok := constant.Int64Val(c.Val()); ok {
					out[v] = n
				}
			}
		}
	}
	return out
}

// reference: Go binary operator -> GooseLang notation (Perennial goose_lang notation)
var refBinOp = map[token.Token]string{
	token.ADD: "+", token.SUB: "-", token.MUL: "*", token.QUO: "`quot`", token.REM: "`rem`",
	token.AND: "`and`", token.OR: "`or`", token.XOR: "`xor`", token.SHL: "≪", token.SHR: "≫",
	token.LAND: "&&", token.LOR: "||",
	token.LSS: "<", token.GTR: ">", token.LEQ: "≤", token.GEQ: "≥", token.EQL: "=", token.NEQ: "≠",
}

var refAssignOp = map[token.Token]token.Token{
	token.ADD_ASSIGN: token.ADD, token.SUB_ASSIGN: token.SUB, token.MUL_ASSIGN: token.MUL, token.QUO_ASSIGN: token.QUO,
	token.REM_ASSIGN: token.REM, token.AND_ASSIGN: token.AND, token.OR_ASSIGN: token.OR, token.XOR_ASSIGN: token.XOR,
	token.SHL_ASSIGN: token.SHL, token.SHR_ASSIGN: token.SHR,
}

func checkC01(p *Prog, r *Report) {
	r.Rule("R01a", "operator tables: the Go-operator → BinOp table composed with the printer's BinOp → notation table equals the reference Go-operator → GooseLang-notation table; `+` selects string append exactly for string operands; every BinOp constant has a notation; each op-assign entry agrees with the plain operator's entry; ++/-- add/subtract the literal 1; unary ! and ^ negate", 30)
	r.Rule("R01b", "width tables: integer kinds map to their widths (uint/int/uint64 ↦ 64, uint32 ↦ 32, uint8 ↦ 8); the spelling recognised in the conversion dispatch carries the width passed on; the conversion emits to_u<width> for the width it compared; literal constructors and type names follow the width", 12)
	r.Rule("R01c", "pass-through audit: a handler that returns the translation of a child unchanged claims the construct is the identity on it; every such return is listed with its reason (parentheses, string(x) of a string) or is a finding (type assertions, conversions between integer types)", 3)
	r.Rule("R01d", "let-scope discipline of the printer (decided under C05 as R05a/R05b): bindings of a for-init or of a nested non-tail block must not extend over the rest of the enclosing block", 2)
	r.Assume = append(r.Assume, "GooseLang's semantics are defined in Perennial, not in this repository: equality of Go and GooseLang results is not decided", "reference notation table transcribed from Perennial's goose_lang notation")
	c01Operators(p, r)
	c01Widths(p, r)
	c01PassThrough(p, r)
	checkR01h(p, r)
	// clauses of C01 decided by the analyses of other properties
	r.Rule("R01e", "early returns and loop control (decided by the C02 analysis R02e): return/break/continue are translated only where their control effect is available and the must-end-in-control-effect analysis is sound", 8)
	r.Rule("R01f", "machine encoding and formatting primitives used by translated programs (decided by the C15/C16 analyses): little-endian Put/Get delegation, canonical decimal UInt64ToString", 5)
	r.Rule("R01g", "any declaration order (decided by the C04 analysis R04c): the emission closure visits every recorded dependency before appending the dependant", 5)
	share := func(prop string, run func(*Prog, *Report), from []string, to string) {
		sr := NewReport(prop, p)
		run(p, sr)
		for _, o := range sr.Obls {
			for _, f := range from {
				if o.Rule == f {
					o.Rule = to
					r.Obls = append(r.Obls, o)
					r.ruleIdx[to].Instances++
				}
			}
		}
	}
	share("C02", func(p *Prog, sr *Report) { checkR02e(p, sr) }, []string{"R02e"}, "R01e")
	share("C15", checkC15, []string{"R15"}, "R01f")
	share("C16", checkC16, []string{"R16a"}, "R01f")
	share("C04", func(p *Prog, sr *Report) { c04Order(p, sr) }, []string{"R04c"}, "R01g")
	// R01d shared with C05
	s5 := NewReport("C05", p)
	s5.Rule("R05a", "", 0)
	s5.Rule("R05b", "", 0)
	c05Paren(p, s5)
	for _, o := range s5.Obls {
		if o.Key == "coq.ForLoopExpr.Coq" || o.Rule == "R05b" {
			o.Rule = "R01d"
			r.Obls = append(r.Obls, o)
			r.ruleIdx["R01d"].Instances++
		}
	}
}

func c01Operators(p *Prog, r *Report) {
	be := p.Func(Mod, "Ctx.binExpr")
	pr := p.Func(coqPkg, "BinaryExpr.Coq")
	as := p.Func(Mod, "Ctx.assignStmt")
	if be == nil || pr == nil || as == nil {
		r.Anchor("R01a", "goose.Ctx.binExpr / coq.BinaryExpr.Coq / goose.Ctx.assignStmt")
		return
	}
	r.Func(FuncName(be))
	r.Func(FuncName(pr))
	names := binOpNames(p)
	tabs := p.constTables([]*ssa.Function{be}, "token.Token", "coq.BinOp")
	nots := p.constTables([]*ssa.Function{pr}, "coq.BinOp", "string")
	if len(tabs) != 1 || len(nots) != 1 {
		r.Unknown("R01a", "operator tables", be.Pos(), fmt.Sprintf("expected one token→BinOp table (map literal, package-level map or switch function) reachable from binExpr (found %d) and one BinOp→string table reachable from BinaryExpr.Coq (found %d)", len(tabs), len(nots)))
		return
	}
	tok2op, op2s := tabs[0].Rows, nots[0].Rows
	r.Note("operator tables: %s; %s", tabs[0].Where, nots[0].Where)
	show := map[string]string{}
	for k, v := range tok2op {
		var opn int64
		fmt.Sscan(v, &opn)
		show[token.Token(k).String()] = names[opn] + " ↦ " + op2s[opn]
	}
	r.Table("binary operators (Go token ↦ BinOp ↦ notation)", show)
	// every BinOp constant has a notation
	for v, n := range names {
		_, ok := op2s[v]
		r.Check("R01a", "BinOp "+n+" has a notation", pr.Pos(), ok, "the printer panics with 'unknown binop' for this operator")
	}
	// composition equals the reference (ADD handled separately)
	var toks []token.Token
	for t := range refBinOp {
		toks = append(toks, t)
	}
	sort.Slice(toks, func(i, j int) bool { return toks[i] < toks[j] })
	for _, t := range toks {
		if t == token.ADD {
			continue
		}
		v, ok := tok2op[int64(t)]
		got := "(unsupported)"
		if ok {
			var opn int64
			fmt.Sscan(v, &opn)
			got = op2s[opn]
		}
		r.Check("R01a", fmt.Sprintf("Go %s ↦ %s", t, refBinOp[t]), be.Pos(), ok && got == refBinOp[t],
			fmt.Sprintf("Go operator %s is printed as %s; GooseLang's notation for it is %s", t, got, refBinOp[t]))
	}
	for k := range tok2op {
		if _, ok := refBinOp[token.Token(k)]; !ok {
			r.Fail("R01a", "unexpected operator "+token.Token(k).String(), be.Pos(), "operator is translated but has no reference notation", "")
		}
	}
	// ADD: string → append else plus
	rm := p.Rels(be)
	var plusV, appV int64 = -1, -1
	for v, n := range names {
		if n == "OpPlus" {
			plusV = v
		}
		if n == "OpAppend" {
			appV = v
		}
	}
	okAdd, whyAdd := false, "no ADD special case found"
	p.instrs(be, func(b *ssa.BasicBlock, i int, in ssa.Instruction) {
		ph, ok := in.(*ssa.Phi)
		if !ok || !strings.HasSuffix(types.TypeString(ph.Type(), nil), "coq.BinOp") {
			return
		}
		// edges that are constants OpAppend / OpPlus with the isString fact on their predecessor edge
		gotApp, gotPlus := false, false
		for ei, e := range ph.Edges {
			c, ok := constInt(e)
			if !ok {
				continue
			}
			rs := p.RelsOnEdge(rm, ph.Block().Preds[ei], ph.Block())
			isStr, notStr := false, false
			for k := range rs {
				if strings.HasPrefix(k, "goose.isString(") && strings.HasSuffix(k, "== true") && strings.Contains(k, "e.X") {
					isStr = true
				}
				if (strings.HasPrefix(k, "goose.isString(") && strings.HasSuffix(k, "== false") || strings.HasPrefix(k, "false == goose.isString(")) && strings.Contains(k, "e.X") {
					notStr = true
				}
			}
			addFact := rs["12 == e.Op"] || rs[eqRel("e.Op", fmt.Sprint(int(token.ADD)))]
			if c == appV && isStr && addFact {
				gotApp = true
			}
			if c == plusV && notStr && addFact {
				gotPlus = true
			}
		}
		if gotApp && gotPlus {
			okAdd = true
		} else if gotApp || gotPlus {
			whyAdd = fmt.Sprintf("string case=%v numeric case=%v", gotApp, gotPlus)
		}
	})
	r.Check("R01a", "Go + ↦ string append for strings, + otherwise", be.Pos(), okAdd && op2s[plusV] == "+" && op2s[appV] == "+", whyAdd)
	// op-assign table
	atabs := p.constTables([]*ssa.Function{as}, "token.Token", "coq.BinOp")
	if len(atabs) != 1 {
		r.Unknown("R01a", "op-assign table", as.Pos(), fmt.Sprintf("expected one token→BinOp table reachable from assignStmt, found %d", len(atabs)))
	} else {
		showA := map[string]string{}
		for k, v := range atabs[0].Rows {
			var opn int64
			fmt.Sscan(v, &opn)
			showA[token.Token(k).String()] = names[opn]
			plain, known := refAssignOp[token.Token(k)]
			want := ""
			if known {
				if plain == token.ADD {
					want = fmt.Sprint(plusV)
				} else {
					want = tok2op[int64(plain)]
				}
			}
			r.Check("R01a", fmt.Sprintf("%s agrees with %s", token.Token(k), plain), as.Pos(), known && v == want,
				fmt.Sprintf("%s is translated with %s but the plain operator %s with %s", token.Token(k), names[opn], plain, nameOfOp(names, want)))
		}
		r.Table("op-assign operators", showA)
	}
	// inc/dec
	if id := p.Func(Mod, "Ctx.incDecStmt"); id != nil {
		r.Func(FuncName(id))
		rmI := p.Rels(id)
		okInc := false
		p.instrs(id, func(b *ssa.BasicBlock, i int, in ssa.Instruction) {
			ph, ok := in.(*ssa.Phi)
			if !ok || !strings.HasSuffix(types.TypeString(ph.Type(), nil), "coq.BinOp") {
				return
			}
			inc, dec := false, false
			for ei, e := range ph.Edges {
				c, ok := constInt(e)
				if !ok {
					continue
				}
				rs := p.RelsOnEdge(rmI, ph.Block().Preds[ei], ph.Block())
				decFact := rs[eqRel(fmt.Sprint(int(token.DEC)), "stmt.Tok")]
				if c == minusOf(names) && decFact {
					dec = true
				}
				if c == plusV && !decFact {
					inc = true
				}
			}
			okInc = inc && dec
		})
		one := false
		p.instrs(id, func(b *ssa.BasicBlock, i int, in ssa.Instruction) {
			if st, ok := in.(*ssa.Store); ok {
				if o, fld, okf := fieldOf(st.Addr); okf && o.Obj().Name() == "IntLiteral" && fld == "Value" {
					if c, ok := constInt(st.Val); ok && c == 1 {
						one = true
					}
				}
			}
		})
		r.Check("R01a", "++ adds 1 and -- subtracts 1", id.Pos(), okInc && one, fmt.Sprintf("operator selection ok=%v, literal one=%v", okInc, one))
	} else {
		r.Anchor("R01a", "goose.Ctx.incDecStmt")
	}
	// unary
	if ue := p.Func(Mod, "Ctx.unaryExpr"); ue != nil {
		r.Func(FuncName(ue))
		rows, ok := caseTableInt(p, ue, "e.Op")
		if !ok {
			r.Unknown("R01a", "unary operators", ue.Pos(), "too many paths")
		} else {
			for _, tk := range []token.Token{token.NOT, token.XOR} {
				good, n := true, 0
				for _, row := range rows {
					if row.Case != int64(tk) {
						continue
					}
					n++
					if !strings.HasSuffix(types.TypeString(unwrapIface(row.Val).Type(), nil), "coq.NotExpr") {
						good = false
					}
				}
				r.Check("R01a", fmt.Sprintf("unary %s negates", tk), ue.Pos(), good && n > 0, "the operand is returned without (or with another) negation")
			}
		}
	}
}

func nameOfOp(names map[int64]string, v string) string {
	var n int64
	if _, err := fmt.Sscan(v, &n); err != nil {
		return "(none)"
	}
	return names[n]
}

func minusOf(names map[int64]string) int64 {
	for v, n := range names {
		if n == "OpMinus" {
			return v
		}
	}
	return -1
}

func unwrapIface(v ssa.Value) ssa.Value {
	for {
		switch x := v.(type) {
		case *ssa.MakeInterface:
			v = x.X
		case *ssa.UnOp:
			// load of a local composite literal
			if a, ok := x.X.(*ssa.Alloc); ok {
				return a
			}
			return v
		default:
			return v
		}
	}
}

type intCaseRow struct {
	Case int64
	Val  ssa.Value
	Ret  *ssa.Return
}

// caseTableInt: per returning path, the integer constant that `discr` was required to equal, and the returned value.
func caseTableInt(p *Prog, f *ssa.Function, discr string) ([]intCaseRow, bool) {
	paths, ok := p.enumPaths(f, 0, 20000)
	if !ok {
		return nil, false
	}
	var rows []intCaseRow
	for _, pt := range paths {
		ret, isRet := pt.endsInReturn()
		if !isRet || len(ret.Results) == 0 {
			continue
		}
		cs := map[int64]bool{}
		for k := range pt.rels() {
			if i := topLevelIndex(k, " == "); i >= 0 {
				a, b := k[:i], k[i+4:]
				var n int64
				if b == discr {
					if _, err := fmt.Sscan(a, &n); err == nil {
						cs[n] = true
					}
				}
				if a == discr {
					if _, err := fmt.Sscan(b, &n); err == nil {
						cs[n] = true
					}
				}
			}
		}
		if len(cs) != 1 {
			continue
		}
		for c := range cs {
			rows = append(rows, intCaseRow{c, resolveOnPath(pt, ret.Results[0]), ret})
		}
	}
	return rows, true
}

func c01Widths(p *Prog, r *Report) {
	// getIntegerType: kind -> width
	git := p.Func(Mod, "getIntegerType")
	if git == nil {
		r.Anchor("R01b", "goose.getIntegerType")
	} else {
		r.Func(FuncName(git))
		want := map[types.BasicKind]int64{types.Uint: 64, types.Int: 64, types.Uint64: 64, types.Uint32: 32, types.Uint8: 8}
		got := map[int64]int64{}
		untyped := false
		paths, _ := p.enumPaths(git, 0, 5000)
		for _, pt := range paths {
			ret, isRet := pt.endsInReturn()
			if !isRet {
				continue
			}
			okC, isC := ret.Results[1].(*ssa.Const)
			if !isC || okC.Value.String() != "true" {
				continue
			}
			var kind int64 = -1
			for k := range pt.rels() {
				if i := topLevelIndex(k, " == "); i >= 0 && strings.Contains(k, ".Kind()") {
					var n int64
					if _, err := fmt.Sscan(k[:i], &n); err == nil {
						kind = n
					}
				}
			}
			// width field of the returned struct
			v := resolveOnPath(pt, ret.Results[0])
			w, isU := widthOf(v)
			if kind >= 0 {
				if isU {
					if types.BasicKind(kind) == types.UntypedInt {
						untyped = true
					}
				} else {
					got[kind] = w
				}
			}
		}
		show := map[string]int64{}
		for k, w := range got {
			show[types.Typ[types.BasicKind(k)].Name()] = w
		}
		r.Table("integer kinds ↦ width", show)
		for k, w := range want {
			r.Check("R01b", fmt.Sprintf("kind %s ↦ %d bits", types.Typ[k].Name(), w), git.Pos(), got[int64(k)] == w, fmt.Sprintf("maps to %d", got[int64(k)]))
		}
		for k := range got {
			if _, ok := want[types.BasicKind(k)]; !ok {
				r.Fail("R01b", "unexpected integer kind "+types.Typ[types.BasicKind(k)].Name(), git.Pos(), "a signed or other-width kind is treated as one of the supported unsigned widths", "")
			}
		}
		r.Check("R01b", "untyped integer constants are marked untyped", git.Pos(), untyped, "")
	}
	// conversion dispatch in callExpr: isBuiltin(s.Fun,"uintN") -> integerConversion(..., N)
	ce := p.Func(Mod, "Ctx.callExpr")
	ic := p.Func(Mod, "Ctx.integerConversion")
	if ce != nil && ic != nil {
		n := 0
		// wherever the conversion translation is called from (the call dispatcher or a helper of it)
		for _, cf := range p.FuncsIn(Mod) {
			if cf == ic {
				continue
			}
			rm := p.Rels(cf)
			entry := p.entryRels(cf)
			p.instrs(cf, func(b *ssa.BasicBlock, i int, in ssa.Instruction) {
				c, ok := in.(*ssa.Call)
				if !ok || calleeOf(&c.Call) != ic || len(c.Call.Args) < 4 {
					return
				}
				n++
				w, _ := constInt(c.Call.Args[3])
				rs := p.RelsAt(rm, c)
				for k := range entry {
					rs[k] = true
				}
				spelled := false
				for _, nm := range p.resolvedBuiltinNames(rs) {
					if nm == fmt.Sprintf("uint%d", w) {
						spelled = true
					}
				}
				r.Check("R01b", fmt.Sprintf("conversion spelled uint%d converts to %d bits", w, w), instrPos(in), spelled,
					fmt.Sprintf("integerConversion(…, %d) is reached without the fact that the callee is the predeclared uint%d", w, w))
			})
		}
		if n < 3 {
			r.Fail("R01b", "conversion dispatch", ce.Pos(), fmt.Sprintf("%d integerConversion call sites (uint64, uint32, uint8 expected)", n), "")
		}
		// integerConversion: to_u%d formatted with the width parameter that is compared with the source width
		okFmt, okCmp := false, false
		wp := ic.Params[len(ic.Params)-1]
		p.instrs(ic, func(b *ssa.BasicBlock, i int, in ssa.Instruction) {
			if c, ok := in.(*ssa.Call); ok && calleeName(c) == "fmt.Sprintf" {
				fs, _ := constString(c.Call.Args[0])
				if fs == "to_u%d" && sk(c.Call.Args[1]) == "["+wp.Name()+"]" {
					okFmt = true
				}
			}
			if bo, ok := in.(*ssa.BinOp); ok && bo.Op == token.EQL && (bo.X == ssa.Value(wp) || bo.Y == ssa.Value(wp)) {
				okCmp = true
			}
		})
		r.Check("R01b", "integerConversion emits to_u<width> for the width it compared", ic.Pos(), okFmt && okCmp, fmt.Sprintf("format uses width parameter=%v, same-width test uses it=%v", okFmt, okCmp))
	} else {
		r.Anchor("R01b", "goose.Ctx.callExpr / integerConversion")
	}
	// basicLiteral: width predicate -> literal constructor
	if bl := p.Func(Mod, "Ctx.basicLiteral"); bl != nil {
		r.Func(FuncName(bl))
		paths, _ := p.enumPaths(bl, 0, 5000)
		seen := map[string]string{}
		for _, pt := range paths {
			ret, isRet := pt.endsInReturn()
			if !isRet {
				continue
			}
			v := unwrapIface(resolveOnPath(pt, ret.Results[0]))
			ty := types.TypeString(deref(v.Type()), qualNone)
			pred := ""
			for _, pn := range []string{"isUint64", "isUint32", "isUint8"} {
				for k := range pt.rels() {
					if strings.Contains(k, "."+pn+"(") && (strings.HasSuffix(k, "== true")) {
						pred = pn
					}
				}
			}
			if pred != "" && strings.HasSuffix(ty, "Literal") {
				seen[pred] = ty
			}
		}
		want := map[string]string{"isUint64": "IntLiteral", "isUint32": "Int32Literal", "isUint8": "ByteLiteral"}
		for pn, w := range want {
			r.Check("R01b", pn+" literals use "+w, bl.Pos(), seen[pn] == w, "uses "+seen[pn])
		}
	} else {
		r.Anchor("R01b", "goose.Ctx.basicLiteral")
	}
	// type names
	if ct := p.Func(Mod, "Ctx.coqTypeOfType"); ct != nil {
		rows, ok := caseTable(p, ct)
		if ok {
			want := map[string]string{"uint64": "uint64T", "uint32": "uint32T", "byte": "byteT", "bool": "boolT", "string": "stringT"}
			seen := map[string]string{}
			for _, row := range rows {
				for _, c := range row.Cases {
					name := strings.SplitN(c, " @ ", 2)[0]
					v := resolveOnPath(row.Path, row.Ret.Results[0])
					if mi, ok := v.(*ssa.MakeInterface); ok {
						if k, ok := mi.X.(*ssa.Const); ok {
							if s, ok := constString(k); ok {
								seen[name] = s
							}
						}
					}
				}
				// the names kept in a constant package-level table looked up by the type's name
				v := resolveOnPath(row.Path, row.Ret.Results[0])
				if mi, ok := v.(*ssa.MakeInterface); ok {
					if ex, ok := mi.X.(*ssa.Extract); ok && ex.Index == 0 {
						if lk, ok := ex.Tuple.(*ssa.Lookup); ok && strings.HasSuffix(sk(lk.Index), ".Name()") {
							if g := globalOfLoad(lk.X); g != nil {
								if tab, ok := p.stringMapRows(g); ok {
									for k, val := range tab {
										seen[k] = val
									}
								}
							}
						}
					}
				}
			}
			for n, w := range want {
				r.Check("R01b", "type "+n+" ↦ "+w, ct.Pos(), seen[n] == w, "maps to "+seen[n])
			}
		}
	}
}

// widthOf reads the width / isUntyped fields stored into a returned intTypeInfo literal.
func widthOf(v ssa.Value) (int64, bool) {
	ld, ok := v.(*ssa.UnOp)
	if !ok {
		return 0, false
	}
	a, ok := ld.X.(*ssa.Alloc)
	if !ok {
		return 0, false
	}
	var w int64
	unt := false
	for _, rf := range refs(a) {
		if fa, ok := rf.(*ssa.FieldAddr); ok {
			_, fld, _ := fieldOf(fa)
			for _, r2 := range refs(fa) {
				if st, ok := r2.(*ssa.Store); ok {
					if fld == "width" {
						w, _ = constInt(st.Val)
					}
					if fld == "isUntyped" {
						if c, ok := st.Val.(*ssa.Const); ok && c.Value.String() == "true" {
							unt = true
						}
					}
				}
			}
		}
	}
	return w, unt
}

func c01PassThrough(p *Prog, r *Report) {
	es := p.Func(Mod, "Ctx.exprSpecial")
	if es == nil {
		r.Anchor("R01c", "goose.Ctx.exprSpecial")
		return
	}
	r.Func(FuncName(es))
	exprF := p.Func(Mod, "Ctx.expr")
	allowed := map[string]string{"ParenExpr": "parentheses have no meaning of their own"}
	rm := p.Rels(es)
	p.instrs(es, func(b *ssa.BasicBlock, i int, in ssa.Instruction) {
		ret, ok := in.(*ssa.Return)
		if !ok {
			return
		}
		c, ok := ret.Results[0].(*ssa.Call)
		if !ok || (calleeOf(&c.Call) != exprF && calleeOf(&c.Call) != es) {
			return
		}
		// argument is a field of the matched node
		arg := c.Call.Args[1]
		o, fld, okf := fieldOf(arg)
		if !okf || o.Obj().Pkg() == nil || o.Obj().Pkg().Path() != "go/ast" {
			return
		}
		node := o.Obj().Name()
		key := fmt.Sprintf("exprSpecial *ast.%s is translated as its %s", node, fld)
		rs := p.RelsAt(rm, ret)
		if why, ok := allowed[node]; ok {
			r.OK("R01c", key, instrPos(in), "identity by construction: "+why)
			return
		}
		// tolerated when a dominating rejection handles the meaning-changing forms? no: list as finding
		_ = rs
		r.Fail("R01c", key, instrPos(in), "the construct is translated as if it were its operand: a type assertion x.(T) is dropped (its dynamic check and, for interface→concrete conversions, its unwrapping are lost)", "")
	})
	me := p.Func(Mod, "Ctx.methodExpr")
	if me == nil {
		r.Anchor("R01c", "goose.Ctx.methodExpr")
		return
	}
	r.Func(FuncName(me))
	rmM := p.Rels(me)
	p.instrs(me, func(b *ssa.BasicBlock, i int, in ssa.Instruction) {
		ret, ok := in.(*ssa.Return)
		if !ok {
			return
		}
		c, ok := ret.Results[0].(*ssa.Call)
		if !ok || calleeOf(&c.Call) != exprF {
			return
		}
		rs := p.RelsAt(rmM, ret)
		if !hasFactContaining(rs, ".IsType()") {
			return
		}
		// which conversion?
		if hasFactContaining(rs, `,"string") == true`) && hasFactContaining(rs, "goose.isString(") {
			r.OK("R01c", "methodExpr string(x) of a string is translated as x", instrPos(in), "identity on strings")
			return
		}
		r.Fail("R01c", "methodExpr conversion T(x) is translated as x", instrPos(in),
			"every conversion not recognised earlier is the identity: for integer types of different width (byte(x), a named uint32 type applied to a uint64) Go truncates/extends but the translation does not (goose issue #14; pinned by the gold file as failing_testU32NewtypeLen)", "")
	})
}
