package main

import (
	"fmt"
	"go/token"
	"go/types"
	"sort"
	"strings"

	"golang.org/x/tools/go/ssa"
)

// Abstract interprocedural paths: the entry→exit paths of a function with the
// calls to repository helpers spliced in (callee facts, events and returned keys
// renamed into the caller's terms). Rules about orderings and result discipline
// are stated on these, so extracting code into a helper (or inlining one) does
// not change the verdict.

type ievent struct {
	Callee   string   // full callee name ("golang.org/x/sys/unix.Pwrite", "copy", …)
	Args     []string // keys of the arguments, in the root function's terms
	Key      string   // key of the call value (tuple results: Key#0, Key#1)
	In       ssa.Instruction
	Deferred bool
	Impure   bool          // the callee may return different values for the same arguments
	Fn       *ssa.Function // function the instruction belongs to
}

type ipath struct {
	Rels   relSet
	Vol    relSet // relations over impure expressions: equal keys need not denote equal values
	Events []ievent
	Exit   string   // "return", "panic"
	Ret    []string // keys of the returned values for Exit == "return"
	RetIn  *ssa.Return
	Trace  string
	Root   []*ssa.BasicBlock // the blocks of the root function on this path (loop bodies at most twice)
}

// keySubst applies a parameter→argument substitution and call-result bindings to a key.
func keySubst(k string, sub map[string]string) string {
	if len(sub) == 0 {
		return k
	}
	return substIdents(k, sub)
}

// replaceAllKeys replaces whole-key occurrences (token-delimited) of old by new in s.
func replaceAllKeys(s string, binds [][2]string) string {
	for _, b := range binds {
		if b[0] == "" || b[0] == b[1] {
			continue
		}
		s = replaceToken(s, b[0], b[1])
	}
	return s
}

const ipathLimit = 3000

// ipaths returns the abstract paths of f. depth bounds helper inlining.
func (p *Prog) ipaths(f *ssa.Function) ([]ipath, bool) {
	return p.ipathsD(f, 0, map[*ssa.Function]bool{})
}

// ipathsHavoc is ipathsKeeping where the phis of loop headers entered from outside the loop stay
// symbolic ("phi:<variable>"): a path that runs a loop body once stands for an arbitrary iteration,
// so a statement true of all such paths is an inductive step.
func (p *Prog) ipathsHavoc(f *ssa.Function, keep map[*ssa.Function]bool) ([]ipath, bool) {
	p.havoc = true
	defer func() { p.havoc = false }()
	return p.ipathsKeeping(f, keep)
}

// ipathsKeeping is ipaths with the given callees kept as opaque events (not inlined).
func (p *Prog) ipathsKeeping(f *ssa.Function, keep map[*ssa.Function]bool) ([]ipath, bool) {
	saved := p.ipathCache
	p.ipathCache = nil
	p.keepOpaque = keep
	defer func() { p.ipathCache = saved; p.keepOpaque = nil }()
	return p.ipathsD(f, 0, map[*ssa.Function]bool{})
}

func (p *Prog) inlinable(callee *ssa.Function, depth int, stack map[*ssa.Function]bool) bool {
	if p.keepOpaque[callee] {
		return false
	}
	if callee == nil || callee.Pkg == nil || !InRepo(callee.Pkg.Pkg.Path()) || len(callee.Blocks) == 0 {
		return false
	}
	if depth >= 3 || stack[callee] || len(callee.Blocks) > 40 {
		return false
	}
	return true
}

func (p *Prog) ipathsD(f *ssa.Function, depth int, stack map[*ssa.Function]bool) ([]ipath, bool) {
	if p.ipathCache == nil {
		p.ipathCache = map[*ssa.Function][]ipath{}
	}
	if c, ok := p.ipathCache[f]; ok {
		return c, true
	}
	stack[f] = true
	defer delete(stack, f)
	cps, ok := p.enumPaths(f, 1, ipathLimit)
	if !ok {
		return nil, false
	}
	var out []ipath
	for _, cp := range cps {
		// partial paths being extended
		cur := []ipath{{Rels: relSet{}, Vol: relSet{}, Trace: FuncName(f) + ":" + cp.String(), Root: cp.Blocks}}
		var binds [][2]string // call-result key -> returned key, applied to facts at the end
		alive := true
		// facts of this path in f's terms
		factRels := []string{}
		factVol := relSet{}
		var vfacts []valFact
		contradictory := false
		for _, fc := range cp.Facts {
			cond := resolveOnPathAt(cp, fc.Cond, fc.At, p.havoc)
			// phis nested in the condition are the values they have at this position of the path
			at := fc.At
			relKeyFn = func(v ssa.Value) string { return skOnPath(cp, v, at, p.havoc) }
			s, ok := relOf(fact{Cond: cond, Val: fc.Val})
			relKeyFn = nil
			if ok {
				factRels = append(factRels, s)
				if p.volatileValue(cond) {
					factVol[s] = true
				}
			}
			// value-level contradiction: the same values compared with opposite outcomes, each evaluated once
			if vf, ok := valFactOf(cond, fc.Val); ok && evaluatedOnce(cp, vf.x) && evaluatedOnce(cp, vf.y) {
				for _, o := range vfacts {
					if (sameVal(o.x, vf.x) && sameVal(o.y, vf.y) || sameVal(o.x, vf.y) && sameVal(o.y, vf.x)) && o.eq != vf.eq {
						contradictory = true
					}
				}
				vfacts = append(vfacts, vf)
			}
		}
		if contradictory {
			continue
		}
		for bi, b := range cp.Blocks {
			kf := func(v ssa.Value) string { return skOnPath(cp, v, bi, p.havoc) }
			if !alive {
				break
			}
			for _, in := range b.Instrs {
				if !alive {
					break
				}
				switch x := in.(type) {
				case *ssa.Defer:
					ev := mkEventK(&x.Call, nil, in, f, kf)
					ev.Deferred = true
					for i := range cur {
						if cur[i].Exit == "" {
							cur[i].Events = append(cur[i].Events, ev)
						}
					}
				case *ssa.Call:
					callee := calleeOf(&x.Call)
					if p.inlinable(callee, depth, stack) && len(callee.Params) == len(x.Call.Args) {
						sub, okc := p.ipathsD(callee, depth+1, stack)
						if okc && len(sub) > 0 && len(sub)*len(cur) <= ipathLimit {
							psub := map[string]string{}
							fsub := map[string]string{} // function-valued parameters bound to a named function
							type closureArg struct {
								fn *ssa.Function
								fv map[string]string // free variable -> key of the captured value, in this function's terms
							}
							csub := map[string]closureArg{} // function-valued parameters bound to a function literal
							for i, pa := range callee.Params {
								psub[pa.Name()] = kf(x.Call.Args[i])
								if fn, ok := x.Call.Args[i].(*ssa.Function); ok {
									fsub[pa.Name()] = fullName(fn)
								}
								if mc, ok := x.Call.Args[i].(*ssa.MakeClosure); ok {
									if fn, ok := mc.Fn.(*ssa.Function); ok && len(fn.Blocks) > 0 && len(fn.Blocks) <= 40 && !stack[fn] {
										ca := closureArg{fn, map[string]string{}}
										for j, fvv := range fn.FreeVars {
											if j < len(mc.Bindings) {
												ca.fv[fvv.Name()] = kf(mc.Bindings[j])
											}
										}
										csub[pa.Name()] = ca
									}
								}
							}
							var next []ipath
							ck := kf(x)
							for _, c0 := range cur {
								if c0.Exit != "" {
									next = append(next, c0) // already ended (a spliced helper panicked)
									continue
								}
								for _, sp := range sub {
									n := ipath{Rels: c0.Rels.clone(), Vol: c0.Vol.clone(), Events: append([]ievent{}, c0.Events...), Trace: c0.Trace, Root: c0.Root}
									for k := range sp.Rels {
										if strings.HasPrefix(k, "\x00keep:") {
											n.Rels["\x00keep:"+renormRel(keySubst(strings.TrimPrefix(k, "\x00keep:"), psub))] = true
											continue
										}
										nk := renormRel(keySubst(k, psub))
										n.Rels[nk] = true
										if sp.Vol[k] {
											n.Vol[nk] = true
										}
									}
									// a call through a parameter that is bound to a function literal here: the literal's
									// paths are spliced in at the call (one variant of this path per path of the literal)
									variants := []ipath{n}
									for _, e := range sp.Events {
										ne := e
										if strings.HasPrefix(e.Callee, "dynamic:") {
											pn := strings.TrimPrefix(e.Callee, "dynamic:")
											if fn, ok := fsub[pn]; ok {
												ne.Callee = fn // a call through a function-valued parameter, resolved at this call site
											}
											if ca, ok := csub[pn]; ok && depth < 3 {
												if fps, okf := p.ipathsD(ca.fn, depth+2, stack); okf && len(fps) > 0 && len(fps) <= 8 && len(fps)*len(variants)*len(cur) <= ipathLimit {
													lsub := map[string]string{}
													for k, v := range ca.fv {
														lsub[k] = v
													}
													for pi, pa := range ca.fn.Params {
														if pi < len(e.Args) {
															lsub[pa.Name()] = keySubst(e.Args[pi], psub)
														}
													}
													var nv []ipath
													for _, v := range variants {
														for _, fp := range fps {
															w := ipath{Rels: v.Rels.clone(), Vol: v.Vol.clone(), Events: append([]ievent{}, v.Events...), Trace: v.Trace + " ⟶ " + fp.Trace, Root: v.Root, Exit: v.Exit}
															if w.Exit != "" {
																nv = append(nv, w)
																continue
															}
															for k := range fp.Rels {
																if strings.HasPrefix(k, "\x00") {
																	continue
																}
																w.Rels[renormRel(keySubst(k, lsub))] = true
															}
															for _, fe := range fp.Events {
																if fe.Callee == "\x00bind" {
																	continue
																}
																ce := fe
																ce.Key = keySubst(fe.Key, lsub)
																ce.Args = nil
																for _, a := range fe.Args {
																	ce.Args = append(ce.Args, keySubst(a, lsub))
																}
																w.Events = append(w.Events, ce)
															}
															if fp.Exit == "panic" {
																w.Exit = "panic"
															}
															nv = append(nv, w)
														}
													}
													variants = nv
													continue
												}
											}
										}
										ne.Key = keySubst(e.Key, psub)
										ne.Args = nil
										for _, a := range e.Args {
											ne.Args = append(ne.Args, keySubst(a, psub))
										}
										for vi := range variants {
											if variants[vi].Exit == "" {
												variants[vi].Events = append(variants[vi].Events, ne)
											}
										}
									}
									for _, n := range variants {
										if n.Exit == "panic" {
											next = append(next, n)
											continue
										}
										if sp.Exit == "panic" {
											n.Exit = "panic"
											n.Trace += " ⟶ " + sp.Trace
											next = append(next, n)
											continue
										}
										// bind the call's result(s) to what the callee returned on this path
										bs := [][2]string{}
										if len(sp.Ret) == 1 {
											bs = append(bs, [2]string{ck, keySubst(sp.Ret[0], psub)})
											if isLiteralKey(sp.Ret[0]) {
												// keep the summary-level fact about the call itself (isLockRef(t) == false)
												n.Rels["\x00keep:"+eqRel(ck, sp.Ret[0])] = true
											}
										} else {
											for i, rk := range sp.Ret {
												bs = append(bs, [2]string{shortKey(ck + "#" + itoa(i)), keySubst(rk, psub)})
												if isLiteralKey(rk) {
													n.Rels["\x00keep:"+eqRel(shortKey(ck+"#"+itoa(i)), rk)] = true
												}
											}
										}
										n.Trace += " ⟶ " + sp.Trace
										// remember bindings on the path (applied lazily below through a per-path list)
										n.Rels["\x00bind"] = true
										nb := append([][2]string{}, bs...)
										n.Events = append(n.Events, ievent{Callee: "\x00bind", Args: flatten(nb)})
										next = append(next, n)
									}
								}
							}
							cur = next
							continue
						}
					}
					ev := mkEventK(&x.Call, x, in, f, kf)
					for i := range cur {
						if cur[i].Exit == "" {
							cur[i].Events = append(cur[i].Events, ev)
						}
					}
					if callee != nil && p.NoReturn(callee) {
						for i := range cur {
							if cur[i].Exit == "" {
								cur[i].Exit = "panic"
							}
						}
						alive = false
					}
				case *ssa.Panic:
					for i := range cur {
						if cur[i].Exit == "" {
							cur[i].Exit = "panic"
						}
					}
					alive = false
				case *ssa.Return:
					for i := range cur {
						if cur[i].Exit == "" {
							cur[i].Exit = "return"
							cur[i].RetIn = x
							for _, rv := range x.Results {
								cur[i].Ret = append(cur[i].Ret, skOnPath(cp, resolveOnPathAt(cp, rv, len(cp.Blocks)-1, p.havoc), len(cp.Blocks)-1, p.havoc))
							}
						}
					}
				}
			}
		}
		_ = binds
		for _, c := range cur {
			if c.Exit == "" {
				if cp.Diverges {
					c.Exit = "panic"
				} else {
					continue
				}
			}
			// collect bindings recorded as pseudo-events, then rewrite facts, events and returns
			var bs [][2]string
			var evs []ievent
			for _, e := range c.Events {
				if e.Callee == "\x00bind" {
					for i := 0; i+1 < len(e.Args); i += 2 {
						bs = append(bs, [2]string{e.Args[i], e.Args[i+1]})
					}
					continue
				}
				evs = append(evs, e)
			}
			delete(c.Rels, "\x00bind")
			rels, vol := relSet{}, relSet{}
			for k := range c.Rels {
				if strings.HasPrefix(k, "\x00keep:") {
					rels[strings.TrimPrefix(k, "\x00keep:")] = true
					continue
				}
				nk := renormRel(replaceAllKeys(k, bs))
				rels[nk] = true
				if nk != k {
					rels[k] = true // the fact about the helper call itself stays available (isLockRef(t) == false)
				}
				if c.Vol[k] {
					vol[nk] = true
				}
			}
			for _, k := range factRels {
				nk := renormRel(replaceAllKeys(k, bs))
				rels[nk] = true
				if nk != k {
					rels[k] = true
				}
				if factVol[k] {
					vol[nk] = true
				}
			}
			for i := range evs {
				evs[i].Key = replaceAllKeys(evs[i].Key, bs)
				for j := range evs[i].Args {
					evs[i].Args[j] = replaceAllKeys(evs[i].Args[j], bs)
				}
			}
			for i := range c.Ret {
				c.Ret[i] = replaceAllKeys(c.Ret[i], bs)
			}
			c.Rels, c.Vol, c.Events = rels, vol, evs
			// expressions evaluated more than once on this path with possibly different results
			cnt := map[string]int{}
			for _, e := range evs {
				if e.Impure && e.Key != "" && !e.Deferred {
					cnt[e.Key]++
				}
			}
			var amb []string
			for k, n := range cnt {
				if n > 1 {
					amb = append(amb, k)
				}
			}
			if infeasible(c.Rels, amb) {
				continue
			}
			// a counter that starts at a non-negative constant and is only ever incremented is never negative:
			// "(phi:n + c) <= 0" cannot hold (overflow aside — the counters in question count packages)
			if p.havoc && counterContradiction(f, c.Rels) {
				continue
			}
			out = append(out, c)
			if len(out) > ipathLimit {
				return nil, false
			}
		}
	}
	p.ipathCache[f] = out
	return out, true
}

func flatten(bs [][2]string) []string {
	var out []string
	for _, b := range bs {
		out = append(out, b[0], b[1])
	}
	return out
}

func mkEvent(cc *ssa.CallCommon, v ssa.Value, in ssa.Instruction, f *ssa.Function) ievent {
	return mkEventK(cc, v, in, f, sk)
}

// mkEventK renders the keys with sk: on an enumerated path, the position-aware key function.
func mkEventK(cc *ssa.CallCommon, v ssa.Value, in ssa.Instruction, f *ssa.Function, sk func(ssa.Value) string) ievent {
	ev := ievent{In: in, Fn: f, Impure: curProg == nil || !curProg.pureCall(cc)}
	if cal := cc.StaticCallee(); cal != nil {
		ev.Callee = fullName(cal)
	} else if b, ok := cc.Value.(*ssa.Builtin); ok {
		ev.Callee = b.Name()
	} else if cc.IsInvoke() {
		ev.Callee = "invoke:" + types.TypeString(cc.Value.Type(), qualNone) + "." + cc.Method.Name()
		ev.Args = append(ev.Args, sk(cc.Value))
	} else {
		ev.Callee = "dynamic:" + sk(cc.Value)
	}
	for _, a := range cc.Args {
		ev.Args = append(ev.Args, sk(a))
	}
	if v != nil {
		ev.Key = sk(v)
	}
	return ev
}

// infeasible: the relations contain a contradiction that is visible syntactically.
func infeasible(rs relSet, amb []string) bool {
	ambiguous := func(k string) bool {
		for _, a := range amb {
			if strings.Contains(k, a) {
				return true
			}
		}
		return false
	}
	for k := range rs {
		if i := topLevelIndex(k, " == "); i >= 0 {
			a, b := k[:i], k[i+4:]
			if a != b && isLiteralKey(a) && isLiteralKey(b) {
				return true
			}
			// constructors that never return nil
			if a == "nil" && neverNilKey(b) || b == "nil" && neverNilKey(a) {
				return true
			}
		}
		if ambiguous(k) {
			continue // the same expression was evaluated twice on this path: its two values may differ
		}
		// X == true together with X == false (in either orientation)
		for _, tv := range [][2]string{{"true", "false"}, {"false", "true"}} {
			x := ""
			if strings.HasSuffix(k, " == "+tv[0]) {
				x = strings.TrimSuffix(k, " == "+tv[0])
			} else if strings.HasPrefix(k, tv[0]+" == ") {
				x = strings.TrimPrefix(k, tv[0]+" == ")
			}
			if x != "" && x != "true" && x != "false" && (rs[x+" == "+tv[1]] || rs[tv[1]+" == "+x]) {
				return true
			}
		}
		if i := topLevelIndex(k, " != "); i >= 0 {
			a, b := k[:i], k[i+4:]
			if a == b {
				return true
			}
			if rs[eqRel(a, b)] {
				return true
			}
		}
		if i := topLevelIndex(k, " < "); i >= 0 {
			a, b := k[:i], k[i+3:]
			if a == b {
				return true
			}
		}
	}
	return false
}

func isLiteralKey(k string) bool {
	if k == "nil" || k == "true" || k == "false" {
		return true
	}
	if len(k) >= 2 && k[0] == '"' && k[len(k)-1] == '"' {
		return true
	}
	var n int64
	if _, err := fmt.Sscan(k, &n); err == nil && fmt.Sprint(n) == k {
		return true
	}
	return false
}

// eventsOf returns the (non-deferred) events of a path whose callee has the given full name.
func (ip ipath) eventsOf(names ...string) []ievent {
	var out []ievent
	for _, e := range ip.Events {
		for _, n := range names {
			if e.Callee == n {
				out = append(out, e)
			}
		}
	}
	return out
}

// region: the functions of the same package reachable from roots through static calls and closures.
func (p *Prog) region(roots []*ssa.Function) []*ssa.Function {
	seen := map[*ssa.Function]bool{}
	var out []*ssa.Function
	var walk func(f *ssa.Function)
	walk = func(f *ssa.Function) {
		if f == nil || seen[f] || len(f.Blocks) == 0 {
			return
		}
		seen[f] = true
		out = append(out, f)
		for _, a := range f.AnonFuncs {
			walk(a)
		}
		for _, b := range f.Blocks {
			for _, in := range b.Instrs {
				if c, ok := in.(ssa.CallInstruction); ok {
					if g := c.Common().StaticCallee(); g != nil && g.Pkg != nil && f.Pkg != nil && g.Pkg == f.Pkg {
						walk(g)
					}
				}
			}
		}
	}
	for _, r := range roots {
		walk(r)
	}
	sort.SliceStable(out, func(i, j int) bool { return out[i].String() < out[j].String() })
	return out
}

var _ = strings.Join

// neverNilKey: the key of a value that is never nil (error constructors of the standard library).
func neverNilKey(k string) bool {
	i := strings.IndexByte(k, '(')
	if i < 0 {
		return false
	}
	n := k[:i]
	return n == "errors.New" || strings.HasSuffix(n, "/errors.New") || n == "fmt.Errorf" || strings.HasSuffix(n, "/errors.Errorf")
}

// valFact: a branch fact as a comparison of two SSA values (y == nil: the truth value of x).
type valFact struct {
	x, y ssa.Value
	eq   bool
}

func valFactOf(cond ssa.Value, val bool) (valFact, bool) {
	for {
		u, ok := cond.(*ssa.UnOp)
		if !ok || u.Op != token.NOT {
			break
		}
		cond, val = u.X, !val
	}
	if bo, ok := cond.(*ssa.BinOp); ok {
		switch bo.Op {
		case token.EQL:
			return valFact{bo.X, bo.Y, val}, true
		case token.NEQ:
			return valFact{bo.X, bo.Y, !val}, true
		}
		return valFact{}, false
	}
	if _, isConst := cond.(*ssa.Const); isConst {
		return valFact{}, false
	}
	return valFact{cond, nil, val}, true
}

// evaluatedOnce: the value is not an instruction, or its block occurs once on the path.
func evaluatedOnce(cp cfgPath, v ssa.Value) bool {
	if v == nil {
		return true
	}
	if c, ok := v.(*ssa.Const); ok {
		_ = c
		return true
	}
	in, ok := v.(ssa.Instruction)
	if !ok {
		return true
	}
	n := 0
	for _, b := range cp.Blocks {
		if b == in.Block() {
			n++
		}
	}
	return n == 1
}

func sameVal(a, b ssa.Value) bool {
	if a == b {
		return true
	}
	ca, ok1 := a.(*ssa.Const)
	cb, ok2 := b.(*ssa.Const)
	return ok1 && ok2 && constKey(ca) == constKey(cb)
}

// nonNegCounters: names of the loop-header phis of f that hold an integer starting at a constant >= 0 whose
// every loop-carried value is the phi itself or the phi plus a positive constant.
func nonNegCounters(f *ssa.Function) map[string]bool {
	out := map[string]bool{}
	for _, b := range f.Blocks {
		if !isLoopHeader(b) {
			continue
		}
		for _, in := range b.Instrs {
			ph, ok := in.(*ssa.Phi)
			if !ok {
				break
			}
			bt, isB := ph.Type().Underlying().(*types.Basic)
			if !isB || bt.Info()&types.IsInteger == 0 || ph.Comment == "rangeindex" {
				continue
			}
			good := true
			var chk func(v ssa.Value, depth int) bool
			chk = func(v ssa.Value, depth int) bool {
				if depth > 6 {
					return false
				}
				if v == ssa.Value(ph) {
					return true
				}
				switch x := v.(type) {
				case *ssa.BinOp:
					if x.Op == token.ADD {
						if c, ok := constInt(x.Y); ok && c > 0 {
							return chk(x.X, depth+1)
						}
						if c, ok := constInt(x.X); ok && c > 0 {
							return chk(x.Y, depth+1)
						}
					}
				case *ssa.Phi:
					for _, e := range x.Edges {
						if !chk(e, depth+1) {
							return false
						}
					}
					return true
				}
				return false
			}
			for i, e := range ph.Edges {
				if !b.Dominates(b.Preds[i]) { // entry edge
					if c, ok := constInt(e); !ok || c < 0 {
						good = false
					}
					continue
				}
				if !chk(e, 0) {
					good = false
				}
			}
			if good && ph.Comment != "" {
				out[ph.Comment] = true
			}
		}
	}
	return out
}

func counterContradiction(f *ssa.Function, rs relSet) bool {
	cs := nonNegCounters(f)
	if len(cs) == 0 {
		return false
	}
	for k := range rs {
		for n := range cs {
			pre := "(phi:" + n + " + "
			if strings.HasPrefix(k, pre) && (strings.HasSuffix(k, ") <= 0") || strings.HasSuffix(k, ") < 1") || strings.HasSuffix(k, ") == 0")) {
				return true
			}
			if strings.HasPrefix(k, "0 == "+pre) {
				return true
			}
			if k == "phi:"+n+" < 0" {
				return true
			}
		}
	}
	return false
}

// skOnPath: the key of v with the phi nodes nested in it replaced by what they resolve to at position
// `at` of the path (a loop-carried variable tested after the loop is its last value, not its first).
func skOnPath(pt cfgPath, v ssa.Value, at int, havoc bool) string {
	key := sk(v)
	if !strings.Contains(key, "phi:") {
		return key
	}
	seen := map[ssa.Value]bool{}
	var phis []*ssa.Phi
	var walk func(v ssa.Value, d int)
	walk = func(v ssa.Value, d int) {
		if v == nil || seen[v] || d > 8 {
			return
		}
		seen[v] = true
		if ph, ok := v.(*ssa.Phi); ok {
			phis = append(phis, ph)
			return
		}
		if _, isCall := v.(*ssa.Call); isCall && d > 0 {
			// arguments are part of the key
		}
		if in, ok := v.(ssa.Instruction); ok {
			var ops []*ssa.Value
			for _, o := range in.Operands(ops) {
				if o != nil {
					walk(*o, d+1)
				}
			}
		}
	}
	walk(v, 0)
	// single pass with placeholders so that replacements are not re-replaced
	type rep struct{ ph, tok, with string }
	var reps []rep
	for i, ph := range phis {
		if ph.Comment == "" || ph.Comment == "rangeindex" {
			continue
		}
		rv := resolveOnPathAt(pt, ph, at, havoc)
		if rv == ssa.Value(ph) {
			continue
		}
		reps = append(reps, rep{"phi:" + ph.Comment, "\x01" + itoa(i) + "\x01", sk(rv)})
	}
	for _, r := range reps {
		key = replaceToken(key, r.ph, r.tok)
	}
	for _, r := range reps {
		key = strings.ReplaceAll(key, r.tok, r.with)
	}
	return key
}
