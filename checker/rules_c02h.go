package main

import (
	"fmt"
	"go/types"
	"sort"

	"golang.org/x/tools/go/ssa"
)

// fieldAssignment classifies, for a local value of a GooseLang syntax struct type built by the translator, each
// interface-typed field (a sub-term: coq.Expr, coq.Type, coq.Binder …) as assigned on all, some or no paths from
// the allocation to the places where the whole value is read.
type fieldClass struct {
	fn    *ssa.Function
	al    *ssa.Alloc
	typ   string
	field string
	class string // "all", "some", "none"
}

func coqStructFields(p *Prog) []fieldClass {
	var out []fieldClass
	for _, f := range p.FuncsIn(Mod) {
		for _, b := range f.Blocks {
			for _, in := range b.Instrs {
				al, ok := in.(*ssa.Alloc)
				if !ok {
					continue
				}
				nt, ok := al.Type().(*types.Pointer).Elem().(*types.Named)
				if !ok || nt.Obj().Pkg() == nil || nt.Obj().Pkg().Path() != coqPkg {
					continue
				}
				st, ok := nt.Underlying().(*types.Struct)
				if !ok {
					continue
				}
				// whole-value uses and per-field stores
				var uses []ssa.Instruction
				stores := map[int][]ssa.Instruction{}
				escapes := false
				for _, rf := range refs(al) {
					switch rf := rf.(type) {
					case *ssa.UnOp:
						uses = append(uses, rf)
					case *ssa.FieldAddr:
						for _, r2 := range refs(rf) {
							switch r2 := r2.(type) {
							case *ssa.Store:
								if r2.Addr == ssa.Value(rf) {
									stores[rf.Field] = append(stores[rf.Field], r2)
								}
							case *ssa.UnOp:
							default:
								// the field's address is passed on (filled by a helper): treated as a store there
								stores[rf.Field] = append(stores[rf.Field], r2)
							}
						}
					case *ssa.Store:
						if rf.Addr == ssa.Value(al) {
							escapes = true // whole-value assignment
						}
					case *ssa.DebugRef:
					default:
						escapes = true
						uses = append(uses, rf)
					}
				}
				if escapes && len(uses) == 0 {
					continue
				}
				for i := 0; i < st.NumFields(); i++ {
					if _, isIface := st.Field(i).Type().Underlying().(*types.Interface); !isIface {
						continue
					}
					ss := stores[i]
					cls := "none"
					if len(ss) > 0 {
						cls = "all"
						avoid := map[*ssa.BasicBlock]bool{}
						inAllocBlock := false
						for _, s := range ss {
							if s.Block() == al.Block() {
								inAllocBlock = true
							}
							avoid[s.Block()] = true
						}
						if !inAllocBlock {
							for _, u := range uses {
								if avoid[u.Block()] {
									// store and use in one block: order decides
									okOrder := false
									for _, x := range u.Block().Instrs {
										if x == u {
											break
										}
										for _, s := range ss {
											if x == s {
												okOrder = true
											}
										}
									}
									if okOrder {
										continue
									}
								}
								if pathAvoiding(al.Block(), u.Block(), avoid, nil, p) {
									cls = "some"
								}
							}
						}
					}
					if escapes {
						continue
					}
					out = append(out, fieldClass{f, al, nt.Obj().Name(), st.Field(i).Name(), cls})
				}
			}
		}
	}
	sort.Slice(out, func(i, j int) bool {
		if out[i].al.Pos() != out[j].al.Pos() {
			return out[i].al.Pos() < out[j].al.Pos()
		}
		return out[i].field < out[j].field
	})
	return out
}

func checkR02h(p *Prog, r *Report) {
	r.Rule("R02h", "complete syntax nodes: wherever the translator builds a value of a GooseLang syntax struct type, every interface-typed field of it (a sub-term: expression, type, binder) is assigned on every path from the allocation to the places where the whole value is read; a field left nil is a sub-term silently dropped from the output, or a nil dereference in the printer", 40)
	seen := map[string]int{}
	for _, c := range coqStructFields(p) {
		key := fmt.Sprintf("%s builds %s.%s", FuncName(c.fn), c.typ, c.field)
		seen[key]++
		if seen[key] > 1 {
			key = fmt.Sprintf("%s (#%d)", key, seen[key])
		}
		r.Sites++
		switch c.class {
		case "all":
			r.OK("R02h", key, c.al.Pos(), "assigned on every path")
		case "some":
			r.Fail("R02h", key, c.al.Pos(), fmt.Sprintf("%s.%s is assigned on some paths from the allocation to a read of the whole value but not on all: on the others the sub-term is nil", c.typ, c.field), "")
		default:
			r.Fail("R02h", key, c.al.Pos(), fmt.Sprintf("%s.%s is never assigned before the value is used: the sub-term is nil (every other node the translator builds sets all its sub-terms)", c.typ, c.field), "")
		}
	}
}
