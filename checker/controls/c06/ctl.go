// Package c06 is a positive control: code that the C06 rules must flag on every run.
package c06

import (
	"strings"
	"time"
)

// EmitInMapOrder joins map keys in iteration order: output differs between runs.
func EmitInMapOrder(m map[string]int) string {
	var parts []string
	for k := range m {
		parts = append(parts, k)
	}
	return strings.Join(parts, ",")
}

// Stamp depends on the clock.
func Stamp() int64 {
	return time.Now().Unix()
}
