package main

import (
	"fmt"
	"go/token"
	"go/types"
	"sort"
	"strings"

	"golang.org/x/tools/go/ssa"
)

// A2: AST-node field consumption.

// astStruct returns the go/ast struct behind a pointer type *ast.T.
func astStruct(t types.Type) (*types.Named, *types.Struct, bool) {
	pt, ok := t.(*types.Pointer)
	if !ok {
		return nil, nil, false
	}
	n, ok := pt.Elem().(*types.Named)
	if !ok || n.Obj().Pkg() == nil || n.Obj().Pkg().Path() != "go/ast" {
		return nil, nil, false
	}
	st, ok := n.Underlying().(*types.Struct)
	if !ok {
		return nil, nil, false
	}
	return n, st, true
}

// semanticFields: fields of an ast struct that carry meaning.
func semanticFields(n *types.Named, st *types.Struct) []string {
	var out []string
	for i := 0; i < st.NumFields(); i++ {
		f := st.Field(i)
		ts := types.TypeString(f.Type(), nil)
		name := n.Obj().Name() + "." + f.Name()
		switch {
		case ts == "go/token.Pos":
			if name == "CallExpr.Ellipsis" || name == "TypeSpec.Assign" {
				out = append(out, f.Name())
			}
		case ts == "*go/ast.CommentGroup", ts == "*go/ast.Object", ts == "*go/ast.Scope":
		case f.Name() == "Incomplete":
		default:
			out = append(out, f.Name())
		}
	}
	return out
}

// fieldUse is what is known about how a node value is used.
type nodeUse struct {
	reads    map[string]map[string]bool // ast type name -> fields read
	typeInfo bool
	rejects  bool
	escapes  bool
}

func newNodeUse() *nodeUse { return &nodeUse{reads: map[string]map[string]bool{}} }

func (u *nodeUse) addRead(t, f string) bool {
	if u.reads[t] == nil {
		u.reads[t] = map[string]bool{}
	}
	if u.reads[t][f] {
		return false
	}
	u.reads[t][f] = true
	return true
}

func (u *nodeUse) merge(o *nodeUse) bool {
	ch := false
	for t, fs := range o.reads {
		for f := range fs {
			if u.addRead(t, f) {
				ch = true
			}
		}
	}
	if o.typeInfo && !u.typeInfo {
		u.typeInfo, ch = true, true
	}
	if o.rejects && !u.rejects {
		u.rejects, ch = true, true
	}
	if o.escapes && !u.escapes {
		u.escapes, ch = true, true
	}
	return ch
}

type consumption struct {
	p       *Prog
	summary map[*ssa.Function][]*nodeUse // per parameter
}

// usesOf computes the use record of a node value v inside f (interprocedural through summaries).
func (c *consumption) usesOf(f *ssa.Function, roots []ssa.Value) *nodeUse {
	u := newNodeUse()
	seen := map[ssa.Value]bool{}
	work := append([]ssa.Value{}, roots...)
	for _, r := range roots {
		seen[r] = true
	}
	push := func(v ssa.Value) {
		if !seen[v] {
			seen[v] = true
			work = append(work, v)
		}
	}
	for len(work) > 0 {
		v := work[0]
		work = work[1:]
		for _, rf := range refs(v) {
			switch x := rf.(type) {
			case *ssa.FieldAddr:
				if x.X == v {
					if n, st, ok := astStruct(v.Type()); ok {
						u.addRead(n.Obj().Name(), st.Field(x.Field).Name())
					}
				}
			case *ssa.Phi, *ssa.MakeInterface, *ssa.ChangeInterface, *ssa.ChangeType:
				push(x.(ssa.Value))
			case *ssa.TypeAssert:
				if x.CommaOk {
					for _, r2 := range refs(x) {
						if ex, ok := r2.(*ssa.Extract); ok && ex.Index == 0 {
							push(ex)
						}
					}
				} else {
					push(x)
				}
			case *ssa.Store:
				if x.Val == v {
					// spilled into a local: follow the loads; anything else is an escape
					if a, ok := x.Addr.(*ssa.Alloc); ok && !a.Heap {
						for _, r2 := range refs(a) {
							if ld, ok := r2.(*ssa.UnOp); ok && ld.Op == token.MUL {
								push(ld)
							}
						}
					} else if a, ok := x.Addr.(*ssa.Alloc); ok && a.Heap {
						for _, r2 := range refs(a) {
							if ld, ok := r2.(*ssa.UnOp); ok && ld.Op == token.MUL {
								push(ld)
							}
						}
						u.escapes = true
					} else {
						// stored into a slice/array element (varargs, []ast.Stmt{s}) or a struct: follow loosely
						if ia, ok := x.Addr.(*ssa.IndexAddr); ok {
							if al, ok := ia.X.(*ssa.Alloc); ok {
								for _, r2 := range refs(al) {
									if sl, ok := r2.(*ssa.Slice); ok {
										push(sl)
									}
								}
								continue
							}
						}
						u.escapes = true
					}
				}
			case *ssa.Return:
				u.escapes = true
			case *ssa.MakeClosure:
				u.escapes = true
			case *ssa.BinOp, *ssa.If, *ssa.DebugRef, *ssa.UnOp:
			case ssa.CallInstruction:
				cc := x.Common()
				if cc.IsInvoke() && cc.Value == v {
					// n.Pos() / n.End(): positions only
					continue
				}
				cal := cc.StaticCallee()
				for i, a := range cc.Args {
					if a != v {
						continue
					}
					if cal == nil {
						u.escapes = true
						continue
					}
					name := fullName(cal)
					switch {
					case c.p.NoReturn(cal):
						u.rejects = true
					case name == "(*go/types.Info).TypeOf" || name == "(*go/types.Info).ObjectOf":
						u.typeInfo = true
					case cal.Pkg != nil && cal.Pkg.Pkg.Path() == Mod:
						// helper that only resolves through types.Info
						if cal.Name() == "typeOf" || cal.Name() == "getType" {
							u.typeInfo = true
							continue
						}
						if ps := c.summary[cal]; i < len(ps) && ps[i] != nil {
							u.merge(ps[i])
						}
					case strings.HasPrefix(name, "go/printer.") || strings.HasPrefix(name, "fmt."):
						// printing for messages/comments: not a translation
					default:
						// library call with a node argument
					}
				}
			case *ssa.Lookup:
				// info.Types[e], info.Uses[id] …
				if x.Index == v {
					u.typeInfo = true
				}
			case *ssa.Slice:
				if x.X == v {
					push(x)
				}
			case *ssa.IndexAddr:
			case *ssa.Extract:
			}
		}
	}
	return u
}

func (c *consumption) compute(funcs []*ssa.Function) {
	c.summary = map[*ssa.Function][]*nodeUse{}
	for _, f := range funcs {
		c.summary[f] = make([]*nodeUse, len(f.Params))
		for i := range f.Params {
			c.summary[f][i] = newNodeUse()
		}
	}
	for changed, iter := true, 0; changed && iter < 30; iter++ {
		changed = false
		for _, f := range funcs {
			for i, pa := range f.Params {
				switch pa.Type().Underlying().(type) {
				case *types.Pointer, *types.Interface, *types.Slice:
				default:
					continue
				}
				u := c.usesOf(f, []ssa.Value{pa})
				// elements of a slice parameter ([]ast.Expr): loads through IndexAddr
				if _, ok := pa.Type().Underlying().(*types.Slice); ok {
					var elems []ssa.Value
					for _, rf := range refs(pa) {
						if ia, ok := rf.(*ssa.IndexAddr); ok {
							for _, r2 := range refs(ia) {
								if ld, ok := r2.(*ssa.UnOp); ok {
									elems = append(elems, ld)
								}
							}
						}
					}
					if len(elems) > 0 {
						u.merge(c.usesOf(f, elems))
					}
				}
				if c.summary[f][i].merge(u) {
					changed = true
				}
			}
		}
	}
}

// peek functions inspect nodes without producing their translation.
func isPeekFunc(f *ssa.Function) bool {
	if f.Signature.Results().Len() == 1 {
		if b, ok := f.Signature.Results().At(0).Type().Underlying().(*types.Basic); ok && (b.Kind() == types.Bool || b.Kind() == types.String) {
			return true
		}
	}
	switch f.Name() {
	case "stmtInterface", "exprInterface", "callExprInterface":
		return true
	}
	return false
}

// r02aExempt: (origin function | T.Field) -> reason. A field listed here needs no read at that origin.
var r02aExempt = map[string]string{
	"*|File.Name":                      "the package clause is not translated (the package name comes from go/packages)",
	"*|File.Imports":                   "duplicates the import declarations, which are translated as declarations",
	"*|File.Comments":                  "comments other than doc comments carry no meaning",
	"*|File.Unresolved":                "parser bookkeeping",
	"*|File.GoVersion":                 "build metadata",
	"*|Field.Tag":                      "struct tags are only visible through reflection, which is outside the subset",
	"coqType|FuncType.TypeParams":      "only function declarations can declare type parameters; a func type expression cannot",
	"funcLit|FuncType.TypeParams":      "function literals cannot declare type parameters",
	"funcLit|FuncType.Results":         "lambdas are untyped in GooseLang; results come from the body's return expressions",
	"goStmt|CallExpr.Ellipsis":         "meaningless once the argument list is guarded empty (R03c)",
	"spawnExpr|FuncLit.Type":           "the parameter list is forced empty by the argument guard of goStmt and results of a go statement's function are discarded",
	"methodExpr|IndexExpr.Index":       "explicit type arguments are taken from types.Info.Instances of the instantiated identifier",
	"methodExpr|IndexListExpr.Indices": "explicit type arguments are taken from types.Info.Instances of the instantiated identifier",
	"stmtInBlock|BranchStmt.Label":     "a label needs an *ast.LabeledStmt, and no case of the translator accepts one (verified below)",
	"typeParamList|Field.Type":         "type-parameter constraints have no dynamic meaning",
	"unaryExpr|CompositeLit.Type":      "&T{…}: the struct type is taken from types.Info of the same literal (getStructInfo(typeOf(e.X)))",
	"varDeclStmt|ValueSpec.Type":       "the declared type is taken from types.Info of the declared identifier (typeOf(lhs))",
}

// exemptions that hold wherever the node reached types.Info
var r02aTypeInfoFields = map[string]string{
	"BasicLit.Value":        "the constant is taken from types.Info.Types[e].Value",
	"BasicLit.Kind":         "",
	"CompositeLit.Type":     "the literal's type is taken from types.Info",
	"ValueSpec.Type":        "the declared type is taken from types.Info (typeOf of the declared identifier or value)",
	"IndexExpr.Index":       "type arguments are taken from types.Info.Instances",
	"IndexListExpr.Indices": "type arguments are taken from types.Info.Instances",
}

func checkR02a(p *Prog, r *Report) {
	funcs := p.FuncsIn(Mod)
	c := &consumption{p: p}
	c.compute(funcs)
	type group struct {
		f     *ssa.Function
		key   string
		T     *types.Named
		st    *types.Struct
		vals  []ssa.Value
		pos   token.Pos
		descr string
	}
	groups := map[string]*group{}
	var order []string
	for _, f := range funcs {
		if isPeekFunc(f) || f.Parent() != nil {
			continue
		}
		p.instrs(f, func(b *ssa.BasicBlock, i int, in ssa.Instruction) {
			v, ok := in.(ssa.Value)
			if !ok {
				return
			}
			n, st, ok := astStruct(v.Type())
			if !ok || n.Obj().Name() == "Ident" || n.Obj().Name() == "CommentGroup" || n.Obj().Name() == "Object" {
				return
			}
			origin := false
			switch x := in.(type) {
			case *ssa.Extract:
				if ta, ok := x.Tuple.(*ssa.TypeAssert); ok && x.Index == 0 && ta.CommaOk {
					origin = true
				}
			case *ssa.TypeAssert:
				origin = !x.CommaOk
			case *ssa.UnOp:
				if x.Op == token.MUL {
					switch x.X.(type) {
					case *ssa.FieldAddr, *ssa.IndexAddr:
						origin = true
					}
				}
			}
			if !origin {
				return
			}
			k := FuncName(f) + " " + sk(v)
			g := groups[k]
			if g == nil {
				g = &group{f: f, key: k, T: n, st: st, pos: instrPos(in)}
				groups[k] = g
				order = append(order, k)
			}
			g.vals = append(g.vals, v)
		})
	}
	sort.Strings(order)
	nNodes := 0
	for _, k := range order {
		g := groups[k]
		u := c.usesOf(g.f, g.vals)
		tn := g.T.Obj().Name()
		reads := u.reads[tn]
		if len(reads) == 0 || u.escapes {
			continue // only passed on to the dispatcher / stored: the dispatcher's own case is the origin that carries the obligation
		}
		nNodes++
		var missing []string
		for _, fld := range semanticFields(g.T, g.st) {
			if reads[fld] {
				continue
			}
			full := tn + "." + fld
			if _, ok := r02aTypeInfoFields[full]; ok && u.typeInfo {
				continue
			}
			if _, ok := exemptLookup(c.p, r02aExempt, g.f, func(f *ssa.Function) string { return f.Name() }, full); ok {
				continue
			}
			if _, ok := r02aExempt["*|"+full]; ok {
				continue
			}
			if full == "File.Decls" && fileDeclsReadElsewhere(c.p, g.f) {
				// a pass that only emits (file comment, then the already translated units in order) next to a pass
				// that translates: the declarations are read there; that both passes cover every unit is R04c/R04g
				continue
			}
			missing = append(missing, fld)
		}
		var rd []string
		for f := range reads {
			rd = append(rd, f)
		}
		sort.Strings(rd)
		if len(missing) == 0 {
			r.OK("R02a", g.key+" : *ast."+tn, g.pos, "reads "+strings.Join(rd, ","))
		} else {
			for _, m := range missing {
				r.Fail("R02a", fmt.Sprintf("%s : *ast.%s.%s", g.key, tn, m), g.pos,
					fmt.Sprintf("the node is inspected (fields %v) but its field %s is never read, by a guard or by a translation: two programs that differ only there are translated identically, so one of them is neither rejected nor faithful", rd, m), "")
			}
		}
	}
	r.Note("R02a: %d inspected node values (after merging loads of the same access path)", nNodes)
	// the BranchStmt.Label exemption relies on labeled statements being rejected
	labeled := false
	for _, f := range funcs {
		p.instrs(f, func(b *ssa.BasicBlock, i int, in ssa.Instruction) {
			if ta, ok := in.(*ssa.TypeAssert); ok {
				if n, _, ok := astStruct(ta.AssertedType); ok && n.Obj().Name() == "LabeledStmt" {
					labeled = true
				}
			}
		})
	}
	r.Check("R02a", "no case of the translator accepts *ast.LabeledStmt", token.NoPos, !labeled, "labeled statements are accepted somewhere, so BranchStmt.Label carries meaning and must be read")
}

// fileDeclsReadElsewhere: some other function of the translator reads ast.File.Decls.
func fileDeclsReadElsewhere(p *Prog, not *ssa.Function) bool {
	found := false
	for _, f := range p.FuncsIn(Mod) {
		if f == not {
			continue
		}
		p.instrs(f, func(b *ssa.BasicBlock, i int, in ssa.Instruction) {
			if fa, ok := in.(*ssa.FieldAddr); ok {
				if o, fld, ok := fieldOf(fa); ok && o.Obj().Name() == "File" && o.Obj().Pkg() != nil && o.Obj().Pkg().Path() == "go/ast" && fld == "Decls" {
					found = true
				}
			}
		})
	}
	return found
}
