package main

import (
	"fmt"
	"sort"
	"strings"
)

// checkR02i: every type recogniser of the translator (func(types.Type, …) bool whose answer selects a library
// model) is exact in the comparisons it makes: on every path on which it answers true, each thing it compares with
// a string literal anywhere (a package name, a type name, an import path) is known EQUAL to one of the literals —
// none is skipped (a disjunction that lets the path through early), none is negated, and no path runs on the nil
// value of a failed type assertion. Whether comparing spellings is the right test is R02d's business (known
// findings); this rule decides that the test which is written is the conjunction it looks like.
func checkR02i(p *Prog, r *Report) {
	r.Rule("R02i", "exact recognisers: on every path on which a type recogniser (func(types.Type, …) bool) answers true, every part of a named type's identity (object name, package name or path) that it compares with string literals is known equal to one of them (no comparison skipped or negated), and the path does not read them from the nil value of a failed type assertion", 4)
	for _, f := range p.FuncsIn(Mod) {
		if !isTypeRecogniser(f) || len(f.Blocks) == 0 {
			continue
		}
		ips, ok := p.ipaths(f)
		if !ok {
			continue
		}
		// subjects: left-hand sides compared with a quoted literal on any path (either polarity), incl. returned comparisons
		relsOf := func(ip ipath) []string {
			rs := relList(ip.Rels)
			if len(ip.Ret) == 1 && ip.Ret[0] != "true" && ip.Ret[0] != "false" {
				if rel, ok := relFromKey(ip.Ret[0], true); ok {
					rs = append(rs, rel)
				}
			}
			return rs
		}
		subjOf := func(rel string) (subj string, positive, ok bool) {
			for _, op := range []string{" == ", " != "} {
				if i := topLevelIndex(rel, op); i > 0 {
					a, b := rel[:i], rel[i+len(op):]
					if strings.HasPrefix(a, `"`) && !strings.HasPrefix(b, `"`) {
						return b, op == " == ", true
					}
					if strings.HasPrefix(b, `"`) && !strings.HasPrefix(a, `"`) {
						return a, op == " == ", true
					}
				}
			}
			return "", false, false
		}
		subjects := map[string]bool{}
		for _, ip := range ips {
			if ip.Exit != "return" {
				continue
			}
			for _, rel := range relsOf(ip) {
				// the identity of a named type: its object's name, its package's name or path
				if s, _, ok := subjOf(rel); ok && strings.Contains(s, ".Obj()") {
					subjects[s] = true
				}
			}
		}
		if len(subjects) == 0 {
			continue // decides by structure only (isByteSlice, …)
		}
		r.Func(FuncName(f))
		bad, npos := "", 0
		for _, ip := range ips {
			if ip.Exit != "return" || len(ip.Ret) != 1 || ip.Ret[0] == "false" {
				continue
			}
			npos++
			eq := map[string]bool{}
			for _, rel := range relsOf(ip) {
				if s, positive, ok := subjOf(rel); ok {
					if positive {
						eq[s] = true
					}
				}
				// a failed assertion whose (nil) value the compared subjects are read from
				if strings.Contains(rel, ".(*") && (strings.HasSuffix(rel, "#1 == false") || strings.HasPrefix(rel, "false == ")) {
					base := strings.TrimSuffix(strings.TrimPrefix(strings.TrimSuffix(rel, " == false"), "false == "), "#1")
					for s := range subjects {
						if strings.HasPrefix(s, base+"#0") {
							bad = "it can answer true under a failed type assertion (" + rel + ") whose nil value it then reads"
						}
					}
				}
			}
			// the value returned on this path is itself a comparison: it must be the equality
			if ip.Ret[0] != "true" {
				if rel, ok := relFromKey(ip.Ret[0], true); ok {
					if s, positive, ok := subjOf(rel); ok && !positive && subjects[s] {
						bad = fmt.Sprintf("the recogniser returns the negation of its comparison of %s: it accepts everything but the type it names", s)
					}
				}
			}
			var miss []string
			for s := range subjects {
				if !eq[s] {
					miss = append(miss, s)
				}
			}
			sort.Strings(miss)
			if len(miss) > 0 && bad == "" {
				bad = fmt.Sprintf("it can answer true on a path on which %v is not known equal to any of the literals it is compared with elsewhere (a comparison is skipped): %s", miss, ip.Trace)
			}
		}
		if npos == 0 {
			bad = "it never answers true"
		}
		r.Check("R02i", FuncName(f)+" is the conjunction of its comparisons", f.Pos(), bad == "", bad)
	}
}
