package main

import (
	"fmt"
	"golang.org/x/tools/go/ssa"
	"os"
)

func init() {
	if os.Getenv("DBG_IPATH") == "" {
		return
	}
	register("DBG", func(p *Prog, r *Report) {
		f := p.Func(os.Getenv("DBG_PKG"), os.Getenv("DBG_IPATH"))
		ips, ok := p.ipaths(f)
		fmt.Println("ok", ok, len(ips))
		for _, ip := range ips {
			fmt.Println("PATH", ip.Exit, ip.Trace)
			fmt.Println("  ret", ip.Ret)
			for _, e := range ip.Events {
				fmt.Println("  ev", e.Callee, e.Args, "key=", e.Key, e.Deferred)
			}
			fmt.Println("  rels", relList(ip.Rels))
		}
	})
}

func init() {
	if os.Getenv("DBG_PATHS") == "" {
		return
	}
	register("DBGP", func(p *Prog, r *Report) {
		f := p.Func(os.Getenv("DBG_PKG"), os.Getenv("DBG_PATHS"))
		for _, u := range []int{0, 1} {
			ps, ok := p.enumPaths(f, u, 200000)
			fmt.Println("unroll", u, "ok", ok, len(ps), "blocks", len(f.Blocks))
		}
	})
}

func init() {
	if os.Getenv("DBG_HAVOC") == "" {
		return
	}
	register("DBGH", func(p *Prog, r *Report) {
		f := p.Func(os.Getenv("DBG_PKG"), os.Getenv("DBG_HAVOC"))
		keep := map[*ssa.Function]bool{}
		for _, g := range p.srcFuncs {
			if g.Name() == "writeFileIfChanged" || g.Name() == "TranslatePackages" {
				keep[g] = true
			}
		}
		ips, ok := p.ipathsHavoc(f, keep)
		fmt.Println("ok", ok, len(ips))
		for _, ip := range ips {
			if ip.Exit != "return" {
				continue
			}
			fmt.Println("PATH", ip.Exit, ip.Trace[:80])
			fmt.Println("  rels", relList(ip.Rels))
		}
	})
}
