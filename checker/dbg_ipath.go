package main

import (
	"fmt"
	"go/types"
	"golang.org/x/tools/go/ssa"
	"os"
)

func init() {
	if os.Getenv("DBG_IPATH") == "" {
		return
	}
	register("DBG", func(p *Prog, r *Report) {
		f := p.Func(os.Getenv("DBG_PKG"), os.Getenv("DBG_IPATH"))
		ips, ok := p.ipaths(f)
		fmt.Println("ok", ok, len(ips))
		for _, ip := range ips {
			fmt.Println("PATH", ip.Exit, ip.Trace)
			fmt.Println("  ret", ip.Ret)
			for _, e := range ip.Events {
				fmt.Println("  ev", e.Callee, e.Args, "key=", e.Key, e.Deferred)
			}
			fmt.Println("  rels", relList(ip.Rels))
		}
	})
}

func init() {
	if os.Getenv("DBG_PATHS") == "" {
		return
	}
	register("DBGP", func(p *Prog, r *Report) {
		f := p.Func(os.Getenv("DBG_PKG"), os.Getenv("DBG_PATHS"))
		for _, u := range []int{0, 1} {
			ps, ok := p.enumPaths(f, u, 200000)
			fmt.Println("unroll", u, "ok", ok, len(ps), "blocks", len(f.Blocks))
		}
	})
}

func init() {
	if os.Getenv("DBG_HAVOC") == "" {
		return
	}
	register("DBGH", func(p *Prog, r *Report) {
		f := p.Func(os.Getenv("DBG_PKG"), os.Getenv("DBG_HAVOC"))
		keep := map[*ssa.Function]bool{}
		for _, g := range p.srcFuncs {
			if g.Name() == "writeFileIfChanged" || g.Name() == "TranslatePackages" {
				keep[g] = true
			}
		}
		ips, ok := p.ipathsHavoc(f, keep)
		fmt.Println("ok", ok, len(ips))
		for _, ip := range ips {
			if ip.Exit != "return" {
				continue
			}
			fmt.Println("PATH", ip.Exit, ip.Trace[:80])
			fmt.Println("  rels", relList(ip.Rels))
		}
	})
}

func init() {
	if os.Getenv("DBG_OK") == "" {
		return
	}
	register("DBGOK", func(p *Prog, r *Report) {
		for _, f := range p.FuncsIn(Mod) {
			rm := p.Rels(f)
			p.instrs(f, func(b *ssa.BasicBlock, i int, in ssa.Instruction) {
				ex, ok := in.(*ssa.Extract)
				if !ok || ex.Index != 0 {
					return
				}
				c, ok := ex.Tuple.(*ssa.Call)
				if !ok {
					return
				}
				g := calleeOf(&c.Call)
				if g == nil || g.Pkg == nil || !InRepo(g.Pkg.Pkg.Path()) || g.Signature.Results().Len() != 2 {
					return
				}
				if types.TypeString(g.Signature.Results().At(1).Type(), nil) != "bool" {
					return
				}
				if _, isStruct := ex.Type().Underlying().(*types.Struct); !isStruct {
					return
				}
				var reads []ssa.Instruction
				for _, u := range refs(ex) {
					switch x := u.(type) {
					case *ssa.Field:
						reads = append(reads, x)
					case *ssa.Store:
						if a, ok := x.Addr.(*ssa.Alloc); ok {
							for _, u2 := range refs(a) {
								if fa, ok := u2.(*ssa.FieldAddr); ok {
									for _, u3 := range refs(fa) {
										if ld, ok := u3.(*ssa.UnOp); ok {
											reads = append(reads, ld)
										}
									}
								}
							}
						}
					}
				}
				for _, u := range reads {
					rs := p.RelsAt(rm, u)
					k := sk(c) + "#1 == true"
					if !rs[k] && !rs["true == "+sk(c)+"#1"] {
						fmt.Println("UNGUARDED", FuncName(f), p.Pos(instrPos(u)), g.Name(), sk(u.(ssa.Value)))
					}
				}
			})
		}
	})
}
