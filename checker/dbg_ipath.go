package main

import (
	"fmt"
	"os"
)

func init() {
	if os.Getenv("DBG_IPATH") == "" {
		return
	}
	register("DBG", func(p *Prog, r *Report) {
		f := p.Func(os.Getenv("DBG_PKG"), os.Getenv("DBG_IPATH"))
		ips, ok := p.ipaths(f)
		fmt.Println("ok", ok, len(ips))
		for _, ip := range ips {
			fmt.Println("PATH", ip.Exit, ip.Trace)
			fmt.Println("  ret", ip.Ret)
			for _, e := range ip.Events {
				fmt.Println("  ev", e.Callee, e.Args, "key=", e.Key, e.Deferred)
			}
			fmt.Println("  rels", relList(ip.Rels))
		}
	})
}
