package main

import (
	"fmt"
	"go/types"
	"golang.org/x/tools/go/ssa"
	"os"
	"strings"
)

func init() {
	if os.Getenv("DBG_IPATH") == "" {
		return
	}
	register("DBG", func(p *Prog, r *Report) {
		f := p.Func(os.Getenv("DBG_PKG"), os.Getenv("DBG_IPATH"))
		ips, ok := p.ipaths(f)
		fmt.Println("ok", ok, len(ips))
		for _, ip := range ips {
			fmt.Println("PATH", ip.Exit, ip.Trace)
			fmt.Println("  ret", ip.Ret)
			for _, e := range ip.Events {
				fmt.Println("  ev", e.Callee, e.Args, "key=", e.Key, e.Deferred)
			}
			fmt.Println("  rels", relList(ip.Rels))
		}
	})
}

func init() {
	if os.Getenv("DBG_PATHS") == "" {
		return
	}
	register("DBGP", func(p *Prog, r *Report) {
		f := p.Func(os.Getenv("DBG_PKG"), os.Getenv("DBG_PATHS"))
		for _, u := range []int{0, 1} {
			ps, ok := p.enumPaths(f, u, 200000)
			fmt.Println("unroll", u, "ok", ok, len(ps), "blocks", len(f.Blocks))
		}
	})
}

func init() {
	if os.Getenv("DBG_HAVOC") == "" {
		return
	}
	register("DBGH", func(p *Prog, r *Report) {
		f := p.Func(os.Getenv("DBG_PKG"), os.Getenv("DBG_HAVOC"))
		keep := map[*ssa.Function]bool{}
		for _, g := range p.srcFuncs {
			if g.Name() == "writeFileIfChanged" || g.Name() == "TranslatePackages" {
				keep[g] = true
			}
		}
		ips, ok := p.ipathsHavoc(f, keep)
		fmt.Println("ok", ok, len(ips))
		for _, ip := range ips {
			if ip.Exit != "return" {
				continue
			}
			fmt.Println("PATH", ip.Exit, ip.Trace[:80])
			fmt.Println("  rels", relList(ip.Rels))
		}
	})
}

func init() {
	if os.Getenv("DBG_OK") == "" {
		return
	}
	register("DBGOK", func(p *Prog, r *Report) {
		for _, f := range p.FuncsIn(Mod) {
			rm := p.Rels(f)
			p.instrs(f, func(b *ssa.BasicBlock, i int, in ssa.Instruction) {
				ex, ok := in.(*ssa.Extract)
				if !ok || ex.Index != 0 {
					return
				}
				c, ok := ex.Tuple.(*ssa.Call)
				if !ok {
					return
				}
				g := calleeOf(&c.Call)
				if g == nil || g.Pkg == nil || !InRepo(g.Pkg.Pkg.Path()) || g.Signature.Results().Len() != 2 {
					return
				}
				if types.TypeString(g.Signature.Results().At(1).Type(), nil) != "bool" {
					return
				}
				if _, isStruct := ex.Type().Underlying().(*types.Struct); !isStruct {
					return
				}
				var reads []ssa.Instruction
				for _, u := range refs(ex) {
					switch x := u.(type) {
					case *ssa.Field:
						reads = append(reads, x)
					case *ssa.Store:
						if a, ok := x.Addr.(*ssa.Alloc); ok {
							for _, u2 := range refs(a) {
								if fa, ok := u2.(*ssa.FieldAddr); ok {
									for _, u3 := range refs(fa) {
										if ld, ok := u3.(*ssa.UnOp); ok {
											reads = append(reads, ld)
										}
									}
								}
							}
						}
					}
				}
				for _, u := range reads {
					rs := p.RelsAt(rm, u)
					k := sk(c) + "#1 == true"
					if !rs[k] && !rs["true == "+sk(c)+"#1"] {
						fmt.Println("UNGUARDED", FuncName(f), p.Pos(instrPos(u)), g.Name(), sk(u.(ssa.Value)))
					}
				}
			})
		}
	})
}

func init() {
	if os.Getenv("DBG_SIGS") == "" {
		return
	}
	register("DBGSIG", func(p *Prog, r *Report) {
		for _, pk := range []string{Mod, coqPkg, cmdGoosePkg, testGenPkg} {
			for _, f := range p.FuncsIn(pk) {
				if f.Parent() != nil {
					continue
				}
				fmt.Printf("SIG\t%s\t%s\t%s\n", pk, FuncName(f), sigShape(f))
			}
		}
	})
}

func init() {
	if os.Getenv("DBG_IDX") == "" {
		return
	}
	register("DBGIDX", func(p *Prog, r *Report) {
		for _, pk := range []string{Mod, coqPkg} {
			for _, f := range p.FuncsIn(pk) {
				rm := p.Rels(f)
				entry := p.entryRels(f)
				p.instrs(f, func(b *ssa.BasicBlock, i int, in ssa.Instruction) {
					switch x := in.(type) {
					case *ssa.IndexAddr:
						if _, isSlice := x.X.Type().Underlying().(*types.Slice); !isSlice {
							return
						}
						if _, ok := constInt(x.Index); ok {
							return
						}
						rs := p.RelsAt(rm, in)
						for k := range entry {
							rs[k] = true
						}
						want := sk(x.Index) + " < len(" + sk(x.X) + ")"
						if !rs[want] {
							fmt.Println("VARIDX", FuncName(f), p.Pos(instrPos(in)), want)
						}
					case *ssa.Slice:
						if x.Low == nil && x.High == nil {
							return
						}
						fmt.Println("SLICE", FuncName(f), p.Pos(instrPos(in)), sk(x))
					case *ssa.Lookup:
						if _, isStr := x.X.Type().Underlying().(*types.Basic); isStr {
							fmt.Println("STRIDX", FuncName(f), p.Pos(instrPos(in)), sk(x))
						}
					}
				})
			}
		}
	})
}

func init() {
	if os.Getenv("DBG_ENTRY") == "" {
		return
	}
	register("DBGE", func(p *Prog, r *Report) {
		f := p.Func(os.Getenv("DBG_PKG"), os.Getenv("DBG_ENTRY"))
		fmt.Println("ENTRY", relList(p.entryRels(f)))
	})
}

func init() {
	if os.Getenv("DBG_BLK") == "" {
		return
	}
	register("DBGB", func(p *Prog, r *Report) {
		for _, f := range p.FuncsIn(Mod) {
			p.instrs(f, func(b *ssa.BasicBlock, i int, in ssa.Instruction) {
				mi, ok := in.(*ssa.MakeInterface)
				if !ok || !strings.HasSuffix(types.TypeString(mi.X.Type(), nil), "coq.BlockExpr") {
					return
				}
				fmt.Println("BLK", FuncName(f), p.Pos(instrPos(in)), sk(mi.X))
			})
		}
	})
}
