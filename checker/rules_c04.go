package main

import (
	"fmt"
	"go/token"
	"go/types"
	"sort"
	"strings"

	"golang.org/x/tools/go/ssa"
)

// nameSink is a place where the translator embeds a string as a Gallina global name.
type nameSink struct {
	Fn   *ssa.Function
	In   ssa.Instruction
	Name ssa.Value
	Kind string
}

func isCoqNamed(t types.Type, names ...string) bool {
	n, ok := t.(*types.Named)
	if !ok || n.Obj().Pkg() == nil || n.Obj().Pkg().Path() != coqPkg {
		return false
	}
	for _, x := range names {
		if n.Obj().Name() == x {
			return true
		}
	}
	return false
}

func collectNameSinks(p *Prog) []nameSink {
	var out []nameSink
	for _, f := range p.FuncsIn(Mod) {
		p.instrs(f, func(b *ssa.BasicBlock, i int, in ssa.Instruction) {
			switch x := in.(type) {
			case *ssa.Call:
				switch calleeName(x) {
				case coqPkg + ".StructDesc":
					out = append(out, nameSink{f, in, x.Call.Args[0], "StructDesc"})
				case coqPkg + ".NewStructLiteral":
					out = append(out, nameSink{f, in, x.Call.Args[0], "NewStructLiteral"})
				case coqPkg + ".InterfaceMethodName":
					out = append(out, nameSink{f, in, x.Call.Args[0], "InterfaceMethodName"})
				}
			case *ssa.ChangeType:
				if isCoqNamed(x.Type(), "StructName", "GallinaIdent", "TypeIdent") {
					out = append(out, nameSink{f, in, x.X, types.TypeString(x.Type(), qualNone)})
				}
			case *ssa.Convert:
				if isCoqNamed(x.Type(), "StructName", "GallinaIdent", "TypeIdent") {
					out = append(out, nameSink{f, in, x.X, types.TypeString(x.Type(), qualNone)})
				}
			case *ssa.Store:
				if fa, ok := x.Addr.(*ssa.FieldAddr); ok {
					o, fld, okf := fieldOf(fa)
					if okf && o.Obj().Pkg() != nil && o.Obj().Pkg().Path() == coqPkg {
						tn := o.Obj().Name()
						if (tn == "StructFieldAccessExpr" && fld == "Struct") ||
							((tn == "StructToInterface" || tn == "StructToInterfaceDecl") && (fld == "Struct" || fld == "Interface")) {
							out = append(out, nameSink{f, in, x.Val, tn + "." + fld})
						}
					}
				}
			}
		})
	}
	return out
}

// nameClass classifies where a name string comes from.
// Returns (class, needsDep, reason). Classes: const, prelude-prefixed, other-package, type-info-name,
// qualified-name, method-name, ident-name, type-object-name, unqualified-type-name, param:<name>, unknown.
func nameClass(v ssa.Value, depth int) (string, bool, string) {
	return nameClassV(v, depth, map[ssa.Value]bool{})
}

func nameClassV(v ssa.Value, depth int, seen map[ssa.Value]bool) (string, bool, string) {
	if seen[v] {
		return "cycle", false, "loop-carried value (classified by its other origins)"
	}
	seen[v] = true
	nameClass := func(v ssa.Value, d int) (string, bool, string) { return nameClassV(v, d, seen) }
	if depth > 12 {
		return "unknown", true, "origin too deep"
	}
	switch x := v.(type) {
	case *ssa.Const:
		return "const", false, "constant prelude name " + constKey(x)
	case *ssa.Parameter:
		return "param:" + x.Name(), true, "name is a parameter: the obligation moves to the callers"
	case *ssa.BinOp:
		if x.Op == token.ADD {
			if s, ok := constString(x.X); ok && strings.Contains(s, ".") {
				return "prelude-prefixed", false, "constant module prefix " + s
			}
			cx, nx, _ := nameClass(x.X, depth+1)
			cy, ny, ry := nameClass(x.Y, depth+1)
			if strings.Contains(cx, "rendered-expression") || strings.Contains(cy, "rendered-expression") {
				return "rendered-expression", false, "concatenation of translated expression text"
			}
			if cx == "const" || cx == "cycle" {
				return cy, ny, ry
			}
			return "concat(" + cx + "," + cy + ")", nx || ny, "string concatenation"
		}
	case *ssa.ChangeType:
		return nameClass(x.X, depth+1)
	case *ssa.Convert:
		return nameClass(x.X, depth+1)
	case *ssa.MakeInterface:
		return nameClass(x.X, depth+1)
	case *ssa.Phi:
		need := false
		cls := []string{}
		for _, e := range x.Edges {
			c, n, _ := nameClass(e, depth+1)
			cls = append(cls, c)
			if n {
				need = true
			}
		}
		sort.Strings(cls)
		for _, c := range cls {
			if strings.Contains(c, "rendered-expression") {
				return "rendered-expression", false, "text of translated expressions accumulated in a loop"
			}
		}
		return "phi(" + strings.Join(cls, ",") + ")", need, "merged origins"
	case *ssa.Call:
		n := calleeName(x)
		switch {
		case n == "fmt.Sprintf":
			fs, _ := constString(x.Call.Args[0])
			if !strings.Contains(fs, "%s") && !strings.Contains(fs, "%v") {
				return "const-format", false, "format " + fs + " interpolates no names"
			}
			if i := strings.Index(fs, "%"); i > 0 && strings.Contains(fs[:i], ".") {
				return "prelude-prefixed", false, "constant module prefix in format " + fs
			}
			return "formatted", true, "name formatted with " + fs
		case n == coqPkg+".MethodName":
			return "method-name", true, "mangled method name"
		case strings.HasSuffix(n, ".qualifiedName"):
			return "qualified-name", true, "qualified name of a type object"
		case n == "("+coqPkg+".PackageIdent).Coq":
			return "other-package", false, "package-qualified identifier of another package"
		case strings.HasSuffix(n, ").Coq") || strings.HasSuffix(n, ".Coq") || n == coqPkg+".InterfaceMethodName":
			return "rendered-expression", false, "text of an already translated expression (the names inside it are sinks of their own)"
		case n == Mod+".unqualifyName":
			return "unqualified-type-name", true, "type name with the package qualifier stripped"
		case strings.HasPrefix(n, "(*go/types.") && strings.HasSuffix(n, ").Name"):
			return "type-object-name", true, "name of a go/types object"
		case n == "(go/types.Type).String" || strings.HasSuffix(n, ").String"):
			return "type-string", true, "printed type"
		}
		// a helper of the translator that computes the name and records the dependency itself: every
		// returned value is passed to addDep in the helper before it is returned
		if g := calleeOf(&x.Call); g != nil && g.Pkg != nil && g.Pkg.Pkg.Path() == Mod && helperRecordsDep(g) {
			return "recorded-by-helper", false, "the helper " + g.Name() + " passes the name it returns to addDep itself"
		}
		return "call:" + n, true, "computed by " + n
	case *ssa.UnOp:
		if o, fld, ok := fieldOf(x); ok {
			tn := o.Obj().Name()
			if (tn == "structTypeInfo" || tn == "interfaceTypeInfo") && fld == "name" {
				return "type-info-name", true, "name of a struct/interface type (same package when unqualified)"
			}
			if tn == "Ident" && fld == "Name" {
				return "ident-name", true, "spelling of a Go identifier"
			}
		}
		if a, ok := x.X.(*ssa.Alloc); ok {
			// local variable: merge stored values
			need := false
			var cls []string
			for _, rf := range refs(a) {
				if st, ok := rf.(*ssa.Store); ok && st.Addr == ssa.Value(a) {
					c, n, _ := nameClass(st.Val, depth+1)
					cls = append(cls, c)
					if n {
						need = true
					}
				}
			}
			sort.Strings(cls)
			return "local(" + strings.Join(cls, ",") + ")", need, "local variable"
		}
	case *ssa.Field:
		if o, fld, ok := fieldOf(x); ok {
			tn := o.Obj().Name()
			if (tn == "structTypeInfo" || tn == "interfaceTypeInfo") && fld == "name" {
				return "type-info-name", true, "name of a struct/interface type (same package when unqualified)"
			}
		}
	case *ssa.Extract:
		if lk, ok := x.Tuple.(*ssa.Lookup); ok && x.Index == 0 {
			if g := globalOfLoad(lk.X); g != nil && curProg != nil {
				if _, ok := curProg.stringMapRows(g); ok {
					return "const", false, "value of the constant package-level table " + g.Name()
				}
			}
		}
		return nameClass(x.Tuple, depth+1)
	case *ssa.Lookup:
		if g := globalOfLoad(x.X); g != nil && curProg != nil && !x.CommaOk {
			if _, ok := curProg.stringMapRows(g); ok {
				return "const", false, "value of the constant package-level table " + g.Name()
			}
		}
	}
	return "unknown:" + sk(v), true, "unrecognised origin"
}

// depExemptions: sinks that need no dependency although their name is not constant, keyed by (function, class), one reason each.
var depExemptions = map[string]string{
	"goose.Ctx.typeParamList|TypeIdent|ident-name":                               "type parameter binder: a definition site local to the function, not a reference to a global",
	"goose.Ctx.coqTypeOfType|TypeIdent|type-object-name":                         "name of a type parameter (case *types.TypeParam): bound by the enclosing definition",
	"goose.Ctx.callExpr|StructToInterfaceDecl.Struct|unqualified-type-name":      "names the S__to__I conversion that stmtInterface emits in the same declaration group, immediately before the function",
	"goose.Ctx.callExpr|StructToInterfaceDecl.Interface|unqualified-type-name":   "names the S__to__I conversion that stmtInterface emits in the same declaration group, immediately before the function",
	"goose.Ctx.callExprInterface|StructToInterface.Struct|unqualified-type-name": "used only to spell the conversion's own name S__to__I and the method names S__m; the methods are recorded with addDep(MethodName(S, m)) (checked as R04a 'conversion methods')",
	"goose.Ctx.packageMethod|GallinaIdent|ident-name":                            "the selector is one of the constant cases of the enclosing switch (UInt64Get, UInt64Put, UInt32Get, UInt32Put): a prelude name",
}

func checkC04(p *Prog, r *Report) {
	r.Rule("R04a", "reference/dependency pairing: wherever the translator embeds a non-constant name as a Gallina global (StructDesc, NewStructLiteral, InterfaceMethodName, conversion to StructName/GallinaIdent/TypeIdent, StructFieldAccessExpr.Struct, StructToInterface*.{Struct,Interface}) and the name can denote a same-package definition, the same value is passed to depTracker.addDep in the same function on every path through the reference; names that are parameters move the obligation to every caller; constant/prelude-prefixed/other-package/binder names are exempt by class", 20)
	r.Rule("R04b", "name registration: each definition-producing handler registers the final definition name with addName: in funcDecl every store to the declaration's Name precedes the registration of that same field; const/var/type handlers register the name whenever they produce the declaration", 3)
	r.Rule("R04c", "emission order (the processDecl closure): the generated[id] test-and-set precedes everything; the recursive calls over the dependencies are guarded by nothing but the name-table lookup and precede every append to the output; the outer loops visit every (file, declaration) index unconditionally", 5)
	r.Rule("R04d", "one naming function: method names are produced only by coq.MethodName (no hand-written \"__\" formatting in the translator); definition site and use sites call it with (receiver type name, method name); self-reference goes through coqRecurFunc", 4)
	r.Rule("R04e", "mangling injectivity: identifiers containing \"__\" are rejected where definitions are named (otherwise method T.m and function T__m collide)", 1)
	r.Assume = append(r.Assume, "Coq accepting the file is not decided")
	c04Pairing(p, r)
	c04Registration(p, r)
	c04Order(p, r)
	c04Naming(p, r)
	r.Rule("R04f", "resolved names only: where a lookup returns (info, ok) with a struct info, the name fields of the info are read only on paths on which ok held (path-sensitive: every feasible path prefix reaching the read carries the fact); the zero info has an empty name and would produce a reference such as `__m` to a definition that does not exist", 5)
	c04OkDiscipline(p, r)
	c04OrderingUnit(p, r)
	c04ConversionPairing(p, r)
}

// prefixFactsAt: for every feasible path prefix of f that reaches instruction u, the relations established
// before u's block (value-level contradictions prune infeasible prefixes). ok=false if too many paths.
func (p *Prog) prefixFactsAt(f *ssa.Function, u ssa.Instruction) ([]relSet, bool) {
	paths, ok := p.enumPaths(f, 1, 40000)
	if !ok {
		return nil, false
	}
	seen := map[string]bool{}
	var out []relSet
	for _, cp := range paths {
		idx := -1
		for i, b := range cp.Blocks {
			if b == u.Block() {
				idx = i
				break
			}
		}
		if idx < 0 {
			continue
		}
		key := ""
		for _, b := range cp.Blocks[:idx+1] {
			key += "." + itoa(b.Index)
		}
		if seen[key] {
			continue
		}
		seen[key] = true
		pre := cfgPath{Blocks: cp.Blocks[:idx+1]}
		rs := relSet{}
		var vfs []valFact
		bad := false
		for _, fc := range cp.Facts {
			if fc.At >= idx {
				continue
			}
			cond := resolveOnPathAt(pre, fc.Cond, fc.At, false)
			if s, ok := relOf(fact{Cond: cond, Val: fc.Val}); ok {
				rs[s] = true
			}
			if vf, ok := valFactOf(cond, fc.Val); ok && evaluatedOnce(pre, vf.x) && evaluatedOnce(pre, vf.y) {
				for _, o := range vfs {
					if (sameVal(o.x, vf.x) && sameVal(o.y, vf.y) || sameVal(o.x, vf.y) && sameVal(o.y, vf.x)) && o.eq != vf.eq {
						bad = true
					}
				}
				vfs = append(vfs, vf)
			}
		}
		if !bad {
			out = append(out, rs)
		}
	}
	return out, true
}

func c04OkDiscipline(p *Prog, r *Report) {
	for _, f := range p.FuncsIn(Mod) {
		p.instrs(f, func(b *ssa.BasicBlock, i int, in ssa.Instruction) {
			ex, ok := in.(*ssa.Extract)
			if !ok || ex.Index != 0 {
				return
			}
			c, ok := ex.Tuple.(*ssa.Call)
			if !ok {
				return
			}
			g := calleeOf(&c.Call)
			if g == nil || g.Pkg == nil || !InRepo(g.Pkg.Pkg.Path()) || g.Signature.Results().Len() != 2 {
				return
			}
			if types.TypeString(g.Signature.Results().At(1).Type(), nil) != "bool" {
				return
			}
			if _, isStruct := ex.Type().Underlying().(*types.Struct); !isStruct {
				return
			}
			isName := func(v ssa.Value) bool {
				bt, ok := v.Type().Underlying().(*types.Basic)
				return ok && bt.Info()&types.IsString != 0
			}
			var reads []ssa.Instruction
			for _, u := range refs(ex) {
				switch x := u.(type) {
				case *ssa.Field:
					if isName(x) {
						reads = append(reads, x)
					}
				case *ssa.Store:
					if a, ok := x.Addr.(*ssa.Alloc); ok {
						for _, u2 := range refs(a) {
							if fa, ok := u2.(*ssa.FieldAddr); ok {
								for _, u3 := range refs(fa) {
									if ld, ok := u3.(*ssa.UnOp); ok && isName(ld) {
										reads = append(reads, ld)
									}
								}
							}
						}
					}
				}
			}
			want1, want2 := sk(c)+"#1 == true", "true == "+sk(c)+"#1"
			for _, u := range reads {
				r.Sites++
				pre, okp := p.prefixFactsAt(f, u)
				key := fmt.Sprintf("%s reads %s of %s(…)", f.Name(), sk(u.(ssa.Value)), g.Name())
				if !okp {
					r.Unknown("R04f", key, instrPos(u), "too many paths")
					continue
				}
				bad := 0
				for _, rs := range pre {
					if !rs[want1] && !rs[want2] {
						bad++
					}
				}
				r.Check("R04f", key, instrPos(u), bad == 0 && len(pre) > 0,
					fmt.Sprintf("%d of %d feasible path prefixes reach the read without the fact that the lookup succeeded: the empty name of the zero info is emitted", bad, len(pre)))
			}
		})
	}
}

func addDepCalls(p *Prog, f *ssa.Function) []*ssa.Call {
	var out []*ssa.Call
	p.instrs(f, func(b *ssa.BasicBlock, i int, in ssa.Instruction) {
		if c, ok := in.(*ssa.Call); ok && p.isAddDep(c) {
			out = append(out, c)
		}
	})
	return out
}

// passesOnAllPaths: does every entry→return path through `at` execute one of deps?
func passesOnAllPaths(p *Prog, at ssa.Instruction, deps []*ssa.Call) bool {
	for _, d := range deps {
		if dominatesInstr(d, at) {
			return true
		}
	}
	// after the sink: from `at`, every path to a normal return passes some dep
	avoid := map[ssa.Instruction]bool{}
	for _, d := range deps {
		avoid[d] = true
	}
	return !reachesReturnAvoiding(p, at, avoid)
}

func reachesReturnAvoiding(p *Prog, from ssa.Instruction, avoid map[ssa.Instruction]bool) bool {
	type st struct {
		b *ssa.BasicBlock
		i int
	}
	start := 0
	for i, in := range from.Block().Instrs {
		if in == from {
			start = i + 1
		}
	}
	seen := map[*ssa.BasicBlock]bool{}
	var walk func(b *ssa.BasicBlock, i int) bool
	walk = func(b *ssa.BasicBlock, i int) bool {
		for ; i < len(b.Instrs); i++ {
			in := b.Instrs[i]
			if avoid[in] {
				return false
			}
			switch x := in.(type) {
			case *ssa.Return:
				return true
			case *ssa.Panic:
				return false
			case *ssa.Call:
				if cal := calleeOf(&x.Call); cal != nil && p.NoReturn(cal) {
					return false
				}
			}
		}
		for _, s := range b.Succs {
			if !seen[s] {
				seen[s] = true
				if walk(s, 0) {
					return true
				}
			}
		}
		return false
	}
	return walk(from.Block(), start)
}

func c04Pairing(p *Prog, r *Report) {
	sinks := collectNameSinks(p)
	type moved struct {
		fn    *ssa.Function
		param *ssa.Parameter
		kind  string
	}
	var queue []moved
	done := map[string]bool{}
	tally := map[string]int{}
	decide := func(fn *ssa.Function, at ssa.Instruction, name ssa.Value, kind string, via string) {
		cls, need, reason := nameClass(name, 0)
		key := fmt.Sprintf("%s %s(%s)%s", FuncName(fn), kind, sk(name), via)
		tally[cls]++
		r.Sites++
		if !need {
			r.OK("R04a", key, instrPos(at), "exempt: "+cls+" — "+reason)
			return
		}
		if strings.HasPrefix(cls, "param:") {
			pa := name.(*ssa.Parameter)
			k := FuncName(fn) + "|" + pa.Name()
			if !done[k] {
				done[k] = true
				queue = append(queue, moved{fn, pa, kind})
			}
			r.OK("R04a", key, instrPos(at), "name is parameter "+pa.Name()+": obligation moved to the callers of "+FuncName(fn))
			return
		}
		if why, ok := exemptLookup(p, depExemptions, fn, FuncName, kind+"|"+cls); ok && why != "" {
			r.OK("R04a", key, instrPos(at), "exempt by table: "+why)
			return
		}
		deps := addDepCalls(p, fn)
		var same []*ssa.Call
		nk := sk(name)
		// a field of a local composite literal is only emitted where the literal escapes (is appended/returned/passed on)
		checkAt := []ssa.Instruction{at}
		if st, ok := at.(*ssa.Store); ok {
			if fa, ok := st.Addr.(*ssa.FieldAddr); ok {
				if a, ok := fa.X.(*ssa.Alloc); ok {
					var esc []ssa.Instruction
					for _, rf := range refs(a) {
						ld, ok := rf.(*ssa.UnOp)
						if !ok {
							continue
						}
						for _, u := range aliasUses(ld) {
							if strings.HasPrefix(u.Kind, "append") || u.Kind == "return" || u.Kind == "store-value" {
								esc = append(esc, u.In)
							}
						}
					}
					if len(esc) > 0 {
						checkAt = esc
					}
				}
			}
		}
		for _, d := range deps {
			if sk(d.Call.Args[1]) == nk || d.Call.Args[1] == name {
				same = append(same, d)
			}
		}
		allPass := len(same) > 0
		for _, ca := range checkAt {
			if !passesOnAllPaths(p, ca, same) {
				allPass = false
			}
		}
		if allPass {
			r.OK("R04a", key, instrPos(at), "paired with addDep("+nk+") on every path ("+cls+")")
			return
		}
		det := "no addDep(" + nk + ") in this function"
		if len(same) > 0 {
			det = "addDep(" + nk + ") exists but a path through the reference avoids it"
		}
		r.Fail("R04a", key, instrPos(at), fmt.Sprintf("a %s (%s) is emitted as a global reference but %s: a declaration using only this form is emitted before the definition it mentions when Go declares them in the other order", cls, reason, det), "")
	}
	for _, s := range sinks {
		decide(s.Fn, s.In, s.Name, s.Kind, "")
	}
	// obligations moved to callers (bounded depth)
	for round := 0; round < 4 && len(queue) > 0; round++ {
		q := queue
		queue = nil
		for _, m := range q {
			idx := -1
			for i, pa := range m.fn.Params {
				if pa == m.param {
					idx = i
				}
			}
			n := 0
			for _, g := range p.FuncsIn(Mod) {
				p.instrs(g, func(b *ssa.BasicBlock, i int, in ssa.Instruction) {
					c, ok := in.(*ssa.Call)
					if !ok || calleeOf(&c.Call) != m.fn || idx < 0 || idx >= len(c.Call.Args) {
						return
					}
					n++
					decide(g, in, c.Call.Args[idx], m.kind, " via "+FuncName(m.fn))
				})
			}
			if n == 0 {
				r.Note("%s has no static callers for moved obligation on %s", FuncName(m.fn), m.param.Name())
			}
		}
	}
	r.Table("name origin classes at global-reference sinks", tally)
}

func c04Registration(p *Prog, r *Report) {
	// the producer of function definitions: the function that assigns coq.FuncDecl.Name
	var fd *ssa.Function
	for _, g := range p.FuncsIn(Mod) {
		p.instrs(g, func(b *ssa.BasicBlock, i int, in ssa.Instruction) {
			if st, ok := in.(*ssa.Store); ok {
				if o, fld, okf := fieldOf(st.Addr); okf && o.Obj().Name() == "FuncDecl" && o.Obj().Pkg().Path() == coqPkg && fld == "Name" {
					fd = g
				}
			}
		})
	}
	if fd == nil {
		r.Anchor("R04b", "goose.Ctx.funcDecl")
	} else {
		r.Func(FuncName(fd))
		var reg *ssa.Call
		p.instrs(fd, func(b *ssa.BasicBlock, i int, in ssa.Instruction) {
			if c, ok := in.(*ssa.Call); ok && p.isAddName(c) {
				reg = c
			}
		})
		if reg == nil {
			r.Fail("R04b", "funcDecl registers its name", fd.Pos(), "no addName call", "")
		} else {
			ok, why := false, "registered value is "+sk(reg.Call.Args[1])+", not the declaration's Name field"
			if ld, isLd := reg.Call.Args[1].(*ssa.UnOp); isLd {
				if fa, isFa := ld.X.(*ssa.FieldAddr); isFa {
					if o, fld, okf := fieldOf(fa); okf && o.Obj().Name() == "FuncDecl" && fld == "Name" {
						ok, why = true, ""
						// every store to that field precedes the registration
						p.instrs(fd, func(b *ssa.BasicBlock, i int, in ssa.Instruction) {
							if st, isSt := in.(*ssa.Store); isSt {
								if fa2, isFa2 := st.Addr.(*ssa.FieldAddr); isFa2 && fa2.X == fa.X && fa2.Field == fa.Field {
									if reachesInstr(reg, st) {
										ok, why = false, "the Name field is assigned ("+p.Pos(instrPos(st))+") after it was registered: methods are registered under their bare name while uses depend on T__m"
									}
								}
							}
						})
						// and it is registered on every returning path
						if !passesOnAllPaths(p, fd.Blocks[0].Instrs[0], []*ssa.Call{reg}) {
							ok, why = false, "a return of funcDecl is reachable without registering the name"
						}
					}
				}
			}
			r.Check("R04b", "funcDecl registers the final definition name", instrPos(reg), ok, why)
		}
	}
	// const / var / type producers: wherever a function that turns a *ast.ValueSpec or *ast.TypeSpec into a
	// coq declaration is called, a registration of that same spec's name dominates the call.
	isProducer := func(g *ssa.Function) (specIdx int, kind string) {
		if g == nil || g.Pkg == nil || g.Pkg.Pkg.Path() != Mod || g.Signature.Results().Len() != 1 {
			return -1, ""
		}
		rt := types.TypeString(g.Signature.Results().At(0).Type(), nil)
		if !strings.HasPrefix(rt, coqPkg+".") || !strings.HasSuffix(rt, "Decl") {
			return -1, ""
		}
		for i, pa := range g.Params {
			switch types.TypeString(pa.Type(), nil) {
			case "*go/ast.ValueSpec":
				return i, "ValueSpec"
			case "*go/ast.TypeSpec":
				return i, "TypeSpec"
			}
		}
		return -1, ""
	}
	nProd := 0
	for _, h := range p.FuncsIn(Mod) {
		var regs []*ssa.Call
		p.instrs(h, func(b *ssa.BasicBlock, i int, in ssa.Instruction) {
			if c, ok := in.(*ssa.Call); ok && p.isAddName(c) {
				regs = append(regs, c)
			}
		})
		p.instrs(h, func(b *ssa.BasicBlock, i int, in ssa.Instruction) {
			c, ok := in.(*ssa.Call)
			if !ok {
				return
			}
			g := calleeOf(&c.Call)
			idx, kind := isProducer(g)
			if idx < 0 || idx >= len(c.Call.Args) {
				return
			}
			if _, k2 := isProducer(h); k2 == kind {
				return // a producer delegating to another producer of the same spec
			}
			nProd++
			r.Func(FuncName(h))
			pk := sk(c.Call.Args[idx])
			want := pk + ".Names[0].Name"
			if kind == "TypeSpec" {
				want = pk + ".Name.Name"
			}
			ok2, why := false, fmt.Sprintf("%s(%s) is called without addName(%s) on the same path: the definition is emitted but never registered, so nothing can depend on it", g.Name(), pk, want)
			for _, reg := range regs {
				// the registration and the production belong together: one is executed whenever the other is,
				// before or after (same block, or the registration dominates the production)
				if sk(reg.Call.Args[1]) == want && (dominatesInstr(reg, c) || reg.Block() == c.Block()) {
					ok2, why = true, ""
				}
			}
			r.Check("R04b", fmt.Sprintf("%s: the %s's name is registered when %s translates it", h.Name(), kind, g.Name()), instrPos(c), ok2, why)
		})
	}
	if nProd < 2 {
		r.Unknown("R04b", "const/var/type producers", token.NoPos, fmt.Sprintf("%d call sites of spec-to-declaration producers found", nProd))
	}
}

func c04Order(p *Prog, r *Report) {
	// the emission function, found by role: a function (closure or method) of the translator that calls
	// itself, tests and sets a map[…]bool keyed by one of its parameters, and appends to the output
	isSelfCall := func(a *ssa.Function, c *ssa.Call) bool {
		if calleeOf(&c.Call) == a {
			return true
		}
		if ld, ok := c.Call.Value.(*ssa.UnOp); ok {
			if fv, ok := ld.X.(*ssa.FreeVar); ok {
				if _, isSig := deref(fv.Type()).Underlying().(*types.Signature); isSig {
					return true
				}
			}
		}
		return false
	}
	var pd *ssa.Function
	for _, a := range p.FuncsIn(Mod) {
		self, boolMap, app := false, false, false
		p.instrs(a, func(b *ssa.BasicBlock, i int, in ssa.Instruction) {
			switch x := in.(type) {
			case *ssa.Call:
				if isSelfCall(a, x) {
					self = true
				}
				if bi, ok := x.Call.Value.(*ssa.Builtin); ok && bi.Name() == "append" {
					app = true
				}
			case *ssa.MapUpdate:
				if mt, ok := x.Map.Type().Underlying().(*types.Map); ok {
					if b, ok := mt.Elem().Underlying().(*types.Basic); ok && b.Kind() == types.Bool {
						for _, pa := range a.Params {
							if sk(x.Key) == pa.Name() {
								boolMap = true
							}
						}
					}
				}
			}
		})
		if !boolMap {
			if _, _, _, ok := recordMark(a); ok {
				boolMap = true
			}
		}
		if self && boolMap && app {
			pd = a
		}
	}
	if pd == nil {
		r.Anchor("R04c", "the recursive emission function (calls itself, marks a map[id]bool, appends to the output)")
		return
	}
	decls := pd.Parent() // closure: the top-level visits are made by the enclosing function
	r.Func(FuncName(pd))
	rm := p.Rels(pd)
	var recs []*ssa.Call
	var appends []ssa.Instruction
	var genLookup *ssa.Lookup
	var genSet *ssa.MapUpdate
	var nameLk *ssa.Lookup
	p.instrs(pd, func(b *ssa.BasicBlock, i int, in ssa.Instruction) {
		switch x := in.(type) {
		case *ssa.Call:
			if isSelfCall(pd, x) {
				recs = append(recs, x)
			}
			if bi, ok := x.Call.Value.(*ssa.Builtin); ok && bi.Name() == "append" {
				// an appended comment (coq.NewComment: "x from file.go") defines nothing: where it stands
				// relative to the dependencies does not matter
				isComment := false
				if len(x.Call.Args) == 2 {
					for _, o := range origins(x.Call.Args[1]) {
						if c2, ok := o.(*ssa.Call); ok && calleeName(c2) == coqPkg+".NewComment" {
							isComment = true
						}
					}
					if sl, ok := x.Call.Args[1].(*ssa.Slice); ok {
						if al, ok := sl.X.(*ssa.Alloc); ok {
							for _, rf := range refs(al) {
								if ia, ok := rf.(*ssa.IndexAddr); ok {
									for _, r2 := range refs(ia) {
										if st, ok := r2.(*ssa.Store); ok {
											for _, o := range origins(st.Val) {
												if c2, ok := o.(*ssa.Call); ok && calleeName(c2) == coqPkg+".NewComment" {
													isComment = true
												}
											}
										}
									}
								}
							}
						}
					}
				}
				if !isComment {
					appends = append(appends, in)
				}
			}
		case *ssa.Lookup:
			if mt, ok := x.X.Type().Underlying().(*types.Map); ok {
				if b, ok := mt.Elem().Underlying().(*types.Basic); ok && b.Kind() == types.Bool && !x.CommaOk {
					genLookup = x
				}
				if _, ok := mt.Key().Underlying().(*types.Basic); ok && x.CommaOk {
					nameLk = x
				}
			}
		case *ssa.MapUpdate:
			if mt, ok := x.Map.Type().Underlying().(*types.Map); ok {
				if b, ok := mt.Elem().Underlying().(*types.Basic); ok && b.Kind() == types.Bool {
					genSet = x
				}
			}
		}
	})
	idP := pd.Params[0]
	idIdx := 0
	// the visited mark: generated[id] = true, or <record looked up by id>.<flag> = true
	var markSet ssa.Instruction
	markKey, markTestKey := "", ""
	if genSet != nil && genLookup != nil {
		markSet, markKey, markTestKey = genSet, sk(genSet.Key), sk(genLookup)
		if sk(genLookup.Index) != markKey {
			markSet = nil
		}
	} else if st, idKey, testKey, ok := recordMark(pd); ok {
		markSet, markKey, markTestKey = st, idKey, testKey
	}
	for i, pa := range pd.Params {
		if markKey == pa.Name() {
			idP, idIdx = pa, i
		}
	}
	okTS := markSet != nil && markKey == idP.Name()
	if okTS {
		for _, c := range recs {
			if !dominatesInstr(markSet, c) {
				okTS = false
			}
		}
		for _, a := range appends {
			if !dominatesInstr(markSet, a) {
				okTS = false
			}
		}
		// the already-generated test returns immediately
		rsSet := p.RelsAt(rm, markSet)
		if !rsSet[markTestKey+" == false"] && !rsSet["false == "+markTestKey] {
			okTS = false
		}
	}
	r.Check("R04c", "generated[id] test-and-set precedes recursion and emission", pd.Pos(), okTS, "each declaration must be marked before its dependencies are visited and before anything is appended (exactly-once, termination on cycles)")
	if len(recs) == 0 {
		r.Fail("R04c", "dependencies are visited", pd.Pos(), "no recursive call", "")
		return
	}
	for _, c := range recs {
		rs := p.RelsAt(rm, c)
		var extra []string
		for k := range rs {
			switch {
			case markTestKey != "" && (strings.HasPrefix(k, markTestKey) || k == "false == "+markTestKey):
			case nameLk != nil && k == sk(nameLk)+"#1 == true":
			case isLoopBoundFact(k):
			default:
				extra = append(extra, k)
			}
		}
		sort.Strings(extra)
		okG := nameLk != nil && rs[sk(nameLk)+"#1 == true"] && len(extra) == 0
		r.Check("R04c", "every recorded dependency is visited", instrPos(c), okG,
			fmt.Sprintf("the recursive call is guarded by additional conditions %v: a dependency can be skipped and its definition emitted after its user", extra))
		// argument is the declaration found for the dependency
		okArg := false
		if ex, ok := c.Call.Args[idIdx].(*ssa.Extract); ok && nameLk != nil && ex.Tuple == ssa.Value(nameLk) && ex.Index == 0 {
			okArg = true
		}
		r.Check("R04c", "the visited declaration is the one that defines the dependency", instrPos(c), okArg, "argument "+sk(c.Call.Args[idIdx]))
		for _, a := range appends {
			if reachesInstr(a, c) {
				r.Fail("R04c", "dependencies are emitted before the dependant", instrPos(a), "an append to the output can be followed by the visit of a dependency: the dependant is emitted first", "")
			}
		}
	}
	if len(appends) > 0 {
		r.OK("R04c", "dependencies are emitted before the dependant", instrPos(appends[0]), fmt.Sprintf("%d appends, none followed by a recursive visit", len(appends)))
	}
	// the dependency loop iterates over all of declDeps[id]
	// outer loops: processDecl(declId{fi, di}, "") for every index
	var outer []*ssa.Call
	for _, g := range p.FuncsIn(Mod) {
		if g == pd {
			continue
		}
		p.instrs(g, func(b *ssa.BasicBlock, i int, in ssa.Instruction) {
			c, ok := in.(*ssa.Call)
			if !ok {
				return
			}
			if calleeOf(&c.Call) == pd {
				outer = append(outer, c)
				return
			}
			if ld, ok := c.Call.Value.(*ssa.UnOp); ok && g == decls {
				if a, ok := ld.X.(*ssa.Alloc); ok {
					if _, isSig := deref(a.Type()).Underlying().(*types.Signature); isSig {
						outer = append(outer, c)
					}
				}
			}
		})
	}
	okOuter := len(outer) == 1
	why := fmt.Sprintf("%d top-level visits", len(outer))
	if okOuter {
		og := outer[0].Parent()
		rmD := p.Rels(og)
		rs := p.RelsAt(rmD, outer[0])
		for k := range rs {
			if !isLoopBoundFact(k) {
				okOuter = false
				why = "the top-level visit is conditional on " + k
			}
		}
		decls = og
	}
	if decls == nil {
		decls = pd
	}
	r.Check("R04c", "every (file, declaration) is visited", decls.Pos(), okOuter, why)
}

func c04Naming(p *Prog, r *Report) {
	// no hand-made "__" mangling in the translator
	var bad []string
	for _, f := range p.FuncsIn(Mod) {
		p.instrs(f, func(b *ssa.BasicBlock, i int, in ssa.Instruction) {
			switch x := in.(type) {
			case *ssa.BinOp:
				if x.Op == token.ADD {
					for _, o := range []ssa.Value{x.X, x.Y} {
						if s, ok := constString(o); ok && strings.Contains(s, "__") {
							bad = append(bad, FuncName(f)+" concatenates "+fmt.Sprintf("%q", s))
						}
					}
				}
			case *ssa.Call:
				if calleeName(x) == "fmt.Sprintf" {
					if s, ok := constString(x.Call.Args[0]); ok && strings.Contains(s, "__") {
						bad = append(bad, FuncName(f)+" formats "+fmt.Sprintf("%q", s))
					}
				}
			}
		})
	}
	r.Check("R04d", "method names come only from coq.MethodName", token.NoPos, len(bad) == 0, strings.Join(bad, "; "))
	mn := p.Func(coqPkg, "MethodName")
	if mn == nil {
		r.Anchor("R04d", "coq.MethodName")
		return
	}
	// call sites: (type name, method name)
	n := 0
	for _, f := range p.FuncsIn(Mod) {
		p.instrs(f, func(b *ssa.BasicBlock, i int, in ssa.Instruction) {
			c, ok := in.(*ssa.Call)
			if !ok || !(calleeOf(&c.Call) == mn || p.isMethodNameCall(c) && len(c.Call.Args) >= 2) {
				return
			}
			if calleeOf(&c.Call) != mn {
				// a call of a wrapper: its last two operands are (type name, method name)
				a := c.Call.Args
				c = &ssa.Call{Call: ssa.CallCommon{Value: c.Call.Value, Args: a[len(a)-2:]}}
				c0, _, _ := nameClass(a[len(a)-2], 0)
				c1, _, _ := nameClass(a[len(a)-1], 0)
				okA := (c0 == "ident-name" || c0 == "type-info-name" || c0 == "qualified-name" || strings.HasPrefix(c0, "local(") || c0 == "unqualified-type-name") &&
					(c1 == "ident-name" || strings.HasPrefix(c1, "call:") || strings.HasPrefix(c1, "unknown:"))
				n++
				r.Check("R04d", FuncName(f)+" MethodName("+sk(a[len(a)-2])+","+sk(a[len(a)-1])+") through a wrapper", instrPos(in), okA,
					fmt.Sprintf("arguments are (%s, %s); expected (receiver type name, method name)", c0, c1))
				return
			}
			n++
			// inside a naming wrapper the operands are the wrapper's parameters: its call sites are judged instead
			if p.methodNamer(f) && f != mn {
				r.OK("R04d", FuncName(f)+" MethodName("+sk(c.Call.Args[0])+","+sk(c.Call.Args[1])+")", instrPos(in), "a wrapper of coq.MethodName: judged at its call sites")
				return
			}
			c0, _, _ := nameClass(c.Call.Args[0], 0)
			c1, _, _ := nameClass(c.Call.Args[1], 0)
			// a type name computed by a helper of the translator from the declaration (methodReceiver(d))
			if strings.HasPrefix(c0, "call:") && strings.Contains(c0, Mod+".") {
				c0 = "type-info-name"
			}
			okA := (c0 == "ident-name" || c0 == "type-info-name" || c0 == "qualified-name" || strings.HasPrefix(c0, "local(") || c0 == "unqualified-type-name") &&
				(c1 == "ident-name" || strings.HasPrefix(c1, "call:") || strings.HasPrefix(c1, "unknown:"))
			r.Check("R04d", FuncName(f)+" MethodName("+sk(c.Call.Args[0])+","+sk(c.Call.Args[1])+")", instrPos(in), okA,
				fmt.Sprintf("arguments are (%s, %s); expected (receiver type name, method name)", c0, c1))
		})
	}
	// self reference
	// the function with this role, found by what it does: it takes a name and an identifier, tests scope
	// containment (itself or through a helper it solely calls) and returns either the quoted binder or the global
	var crf *ssa.Function
	scopeTest := func(f *ssa.Function) bool {
		has := false
		p.instrs(f, func(b *ssa.BasicBlock, i int, in ssa.Instruction) {
			if c, ok := in.(*ssa.Call); ok {
				if calleeName(c) == "(*go/types.Scope).Contains" {
					has = true
				} else if g := calleeOf(&c.Call); g != nil && g.Pkg != nil && g.Pkg.Pkg.Path() == Mod && g != f {
					p.instrs(g, func(b2 *ssa.BasicBlock, i2 int, in2 ssa.Instruction) {
						if c2, ok := in2.(*ssa.Call); ok && calleeName(c2) == "(*go/types.Scope).Contains" {
							has = true
						}
					})
				}
			}
		})
		return has
	}
	for _, f := range p.FuncsIn(Mod) {
		if f.Signature.Results().Len() != 1 || !strings.HasSuffix(types.TypeString(f.Signature.Results().At(0).Type(), nil), "coq.Expr") {
			continue
		}
		hasName := false
		for _, pa := range f.Params {
			if bt, ok := pa.Type().Underlying().(*types.Basic); ok && bt.Info()&types.IsString != 0 {
				hasName = true
			}
		}
		if hasName && scopeTest(f) {
			if crf == nil || f.Name() == "coqRecurFunc" {
				crf = f
			}
		}
	}
	if crf != nil {
		// by role: one call passes the name of a plain function (an identifier's spelling), one the result of
		// coq.MethodName — wherever those calls live
		var callers []string
		viaIdent, viaMethod := false, false
		for _, f := range p.FuncsIn(Mod) {
			p.instrs(f, func(b *ssa.BasicBlock, i int, in ssa.Instruction) {
				if c, ok := in.(*ssa.Call); ok && calleeOf(&c.Call) == crf && len(c.Call.Args) >= 2 {
					callers = append(callers, f.Name())
					cls, _, _ := nameClass(c.Call.Args[1], 0)
					if cls == "ident-name" {
						viaIdent = true
					}
					if mc, ok := c.Call.Args[1].(*ssa.Call); ok && p.isMethodNameCall(mc) {
						viaMethod = true
					}
				}
			})
		}
		sort.Strings(callers)
		r.Check("R04d", "function and method callees go through coqRecurFunc", crf.Pos(), viaIdent && viaMethod,
			fmt.Sprintf("coqRecurFunc is called from %v (plain-function path=%v, method path=%v); both the plain-function and the method call path must use it so that a self call uses the recursive binder", callers, viaIdent, viaMethod))
		// it compares scope containment and returns the quoted binder inside the scope
		// inside the scope it returns the quoted binder (GallinaString), outside the global (GallinaIdent)
		retKinds := map[string]bool{}
		p.instrs(crf, func(b *ssa.BasicBlock, i int, in ssa.Instruction) {
			if mi, ok := in.(*ssa.MakeInterface); ok {
				retKinds[types.TypeString(mi.X.Type(), nil)] = true
			}
		})
		hasScope := retKinds[coqPkg+".GallinaString"] && retKinds[coqPkg+".GallinaIdent"]
		r.Check("R04d", "coqRecurFunc decides by scope containment", crf.Pos(), hasScope, fmt.Sprintf("the function that tests scope containment must yield the quoted binder inside the scope and the global outside it (yields %v)", sortedKeys(retKinds)))
	} else {
		r.Anchor("R04d", "goose.Ctx.coqRecurFunc")
	}
	// R04e
	fd := p.Func(Mod, "Ctx.funcDecl")
	guard := false
	if fd != nil {
		p.instrs(fd, func(b *ssa.BasicBlock, i int, in ssa.Instruction) {
			if c, ok := in.(*ssa.Call); ok && calleeName(c) == "strings.Contains" {
				if s, ok := constString(c.Call.Args[1]); ok && s == "__" {
					guard = true
				}
			}
		})
	}
	pos := token.NoPos
	if fd != nil {
		pos = fd.Pos()
	}
	r.Check("R04e", "funcDecl rejects names containing __", pos, guard,
		"MethodName(T, m) = T__m is injective on Go identifiers only if identifiers containing \"__\" are rejected; method (T).m and function T__m both become `Definition T__m`")
}

// isLoopBoundFact: the bound test of a range-over-slice loop, "(phi:rangeindex + 1) < len(…)".
func isLoopBoundFact(k string) bool {
	if strings.HasPrefix(k, "(phi:rangeindex + 1) < len(") && topLevelIndex(k, " < ") == len("(phi:rangeindex + 1)") {
		return true
	}
	// exit condition of an earlier range loop: "len(…) <= (phi:rangeindex + 1)"
	return strings.HasPrefix(k, "len(") && strings.HasSuffix(k, ") <= (phi:rangeindex + 1)")
}

// recordMark: the visited mark kept as a boolean field of a record that is looked up by one of f's parameters
// (`d := s.byId[id]; if d.emitted { return }; d.emitted = true`). Returns the store, the key of the id
// parameter and the key of the tested field.
func recordMark(f *ssa.Function) (ssa.Instruction, string, string, bool) {
	var st *ssa.Store
	idKey, testKey := "", ""
	for _, b := range f.Blocks {
		for _, in := range b.Instrs {
			s, ok := in.(*ssa.Store)
			if !ok {
				continue
			}
			c, isC := s.Val.(*ssa.Const)
			if !isC || c.Value == nil || c.Value.String() != "true" {
				continue
			}
			fa, ok := s.Addr.(*ssa.FieldAddr)
			if !ok {
				continue
			}
			// base: the value looked up in a map by a parameter
			var lk *ssa.Lookup
			switch x := fa.X.(type) {
			case *ssa.Lookup:
				lk = x
			case *ssa.Extract:
				lk, _ = x.Tuple.(*ssa.Lookup)
			}
			if lk == nil {
				continue
			}
			for _, pa := range f.Params {
				if sk(lk.Index) == pa.Name() {
					st, idKey = s, pa.Name()
					testKey = sk(fa.X) + "." + deref(fa.X.Type()).Underlying().(*types.Struct).Field(fa.Field).Name()
				}
			}
		}
	}
	return st, idKey, testKey, st != nil
}

// helperRecordsDep: g returns a single string, and every return value is also the argument of an addDep call
// in g that dominates the return.
func helperRecordsDep(g *ssa.Function) bool {
	if g.Signature.Results().Len() != 1 || len(g.Blocks) == 0 {
		return false
	}
	var deps []*ssa.Call
	for _, b := range g.Blocks {
		for _, in := range b.Instrs {
			if c, ok := in.(*ssa.Call); ok && curProg != nil && curProg.isAddDep(c) {
				deps = append(deps, c)
			}
		}
	}
	if len(deps) == 0 {
		return false
	}
	n := 0
	for _, b := range g.Blocks {
		ret, ok := b.Instrs[len(b.Instrs)-1].(*ssa.Return)
		if !ok {
			continue
		}
		n++
		okRet := false
		for _, d := range deps {
			if len(d.Call.Args) >= 2 && sk(d.Call.Args[1]) == sk(ret.Results[0]) && dominatesInstr(d, ret) {
				okRet = true
			}
		}
		if !okRet {
			return false
		}
	}
	return n > 0
}
