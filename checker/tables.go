package main

import (
	"fmt"
	"go/token"
	"go/types"
	"strconv"
	"strings"

	"golang.org/x/tools/go/ssa"
)

// Constant tables K → V, wherever and in whatever shape the code keeps them:
//   - a map literal built in the function (MakeMap + constant MapUpdates),
//   - a package-level map variable initialised with a literal and read in the function,
//   - a function called directly by it, `func(k K) V` / `func(k K) (V, bool)` written as a switch: every
//     path that returns a value (ok != false) requires k to equal exactly one constant.
// Rules about operator and notation tables are stated on the extracted table, so turning a map
// literal into a switch function (or back) does not change the verdict.

type constTable struct {
	Rows  map[int64]string // key constant → value constant (strings unquoted, integers in decimal)
	Where string
	Fn    *ssa.Function // table function, if the table is a switch function
	Pos   token.Pos
}

func typeEnds(t types.Type, suffix string) bool {
	return strings.HasSuffix(types.TypeString(t, nil), suffix)
}

func mapRows(mk *ssa.MakeMap) map[int64]string {
	m := map[int64]string{}
	for _, rf := range refs(mk) {
		mu, ok := rf.(*ssa.MapUpdate)
		if !ok {
			continue
		}
		k, ok1 := constInt(mu.Key)
		if !ok1 {
			continue
		}
		if s, ok := constString(mu.Value); ok {
			m[k] = s
		} else if v, ok := constInt(mu.Value); ok {
			m[k] = fmt.Sprint(v)
		}
	}
	return m
}

func (p *Prog) constTables(roots []*ssa.Function, keyT, elemT string) []constTable {
	var out []constTable
	seenMk := map[*ssa.MakeMap]bool{}
	addMk := func(mk *ssa.MakeMap, where string) {
		if seenMk[mk] {
			return
		}
		seenMk[mk] = true
		mt, ok := mk.Type().Underlying().(*types.Map)
		if !ok || !typeEnds(mt.Key(), keyT) || !typeEnds(mt.Elem(), elemT) {
			return
		}
		out = append(out, constTable{Rows: mapRows(mk), Where: where, Pos: mk.Pos()})
	}
	seenFn := map[*ssa.Function]bool{}
	for _, f := range roots {
		p.instrs(f, func(b *ssa.BasicBlock, i int, in ssa.Instruction) {
			switch x := in.(type) {
			case *ssa.Call:
				// a table function called directly with the discriminant
				if g := calleeOf(&x.Call); g != nil && g.Pkg != nil && InRepo(g.Pkg.Pkg.Path()) && !seenFn[g] {
					seenFn[g] = true
					if t, ok := p.switchTable(g, keyT, elemT); ok {
						out = append(out, t)
					} else if t, ok := p.indexedTableFunc(g, keyT, elemT); ok {
						out = append(out, t)
					}
				}
			case *ssa.MakeMap:
				addMk(x, "map literal in "+FuncName(f))
			case *ssa.UnOp:
				g, ok := x.X.(*ssa.Global)
				if !ok || x.Op != token.MUL || g.Pkg == nil {
					return
				}
				if _, isMap := deref(g.Type()).Underlying().(*types.Map); !isMap {
					return
				}
				if ini := g.Pkg.Func("init"); ini != nil {
					p.instrs(ini, func(b *ssa.BasicBlock, i int, in2 ssa.Instruction) {
						if st, ok := in2.(*ssa.Store); ok && st.Addr == ssa.Value(g) {
							if mk, ok := st.Val.(*ssa.MakeMap); ok {
								addMk(mk, "package-level map "+g.Name())
							}
						}
					})
				}
			}
		})
	}
	return out
}

// switchTable: f as a table function.
func (p *Prog) switchTable(f *ssa.Function, keyT, elemT string) (constTable, bool) {
	sig := f.Signature
	// one formal in all: a function of the key, or a method of the key type without parameters
	if len(f.Params) != 1 || sig.Results().Len() < 1 || sig.Results().Len() > 2 {
		return constTable{}, false
	}
	if !typeEnds(f.Params[0].Type(), keyT) || !typeEnds(sig.Results().At(0).Type(), elemT) {
		return constTable{}, false
	}
	if sig.Results().Len() == 2 {
		if b, ok := sig.Results().At(1).Type().Underlying().(*types.Basic); !ok || b.Kind() != types.Bool {
			return constTable{}, false
		}
	}
	param := f.Params[len(f.Params)-1]
	ips, ok := p.ipaths(f)
	if !ok || len(ips) == 0 {
		return constTable{}, false
	}
	rows := map[int64]string{}
	n := 0
	for _, ip := range ips {
		if ip.Exit != "return" || len(ip.Ret) == 0 {
			continue
		}
		if len(ip.Ret) == 2 && ip.Ret[1] == "false" {
			continue
		}
		cs := map[int64]bool{}
		for k := range ip.Rels {
			if i := topLevelIndex(k, " == "); i >= 0 {
				a, b := k[:i], k[i+4:]
				var c int64
				if b == param.Name() {
					if _, err := fmt.Sscan(a, &c); err == nil && fmt.Sprint(c) == a {
						cs[c] = true
					}
				}
				if a == param.Name() {
					if _, err := fmt.Sscan(b, &c); err == nil && fmt.Sprint(c) == b {
						cs[c] = true
					}
				}
			}
		}
		if len(cs) != 1 {
			if len(ip.Ret) == 2 {
				return constTable{}, false // a hit that is not tied to one key constant: not a table
			}
			continue // single-result function: the default path (panic / zero value) carries no row
		}
		v := ip.Ret[0]
		if !isLiteralKey(v) {
			return constTable{}, false
		}
		v = strings.Trim(v, `"`)
		for c := range cs {
			if old, dup := rows[c]; dup && old != v {
				return constTable{}, false
			}
			rows[c] = v
			n++
		}
	}
	if n < 2 {
		return constTable{}, false
	}
	return constTable{Rows: rows, Where: "switch function " + FuncName(f), Fn: f, Pos: f.Pos()}, true
}

// globalIndexedRows: the constant elements of a package-level array or slice variable initialised with
// an (indexed) composite literal and never assigned elsewhere: index → value.
func (p *Prog) globalIndexedRows(g *ssa.Global) (map[int64]string, bool) {
	ini := g.Pkg.Func("init")
	if ini == nil {
		return nil, false
	}
	rows := map[int64]string{}
	ok := true
	store := func(base ssa.Value) {
		for _, rf := range refs(base) {
			ia, isIA := rf.(*ssa.IndexAddr)
			if !isIA {
				continue
			}
			k, okk := constInt(ia.Index)
			for _, r2 := range refs(ia) {
				if st, isSt := r2.(*ssa.Store); isSt {
					if !okk {
						ok = false
						continue
					}
					if s, isS := constString(st.Val); isS {
						rows[k] = s
					} else if v, isI := constInt(st.Val); isI {
						rows[k] = fmt.Sprint(v)
					} else {
						ok = false
					}
				}
			}
		}
	}
	p.instrs(ini, func(b *ssa.BasicBlock, i int, in ssa.Instruction) {
		switch x := in.(type) {
		case *ssa.IndexAddr:
			if x.X == ssa.Value(g) { // array global: &g[i] = c
				k, okk := constInt(x.Index)
				for _, r2 := range refs(x) {
					if st, isSt := r2.(*ssa.Store); isSt {
						if s, isS := constString(st.Val); isS && okk {
							rows[k] = s
						} else if v, isI := constInt(st.Val); isI && okk {
							rows[k] = fmt.Sprint(v)
						} else {
							ok = false
						}
					}
				}
			}
		case *ssa.Store:
			if x.Addr == ssa.Value(g) { // slice global = alloc[:] with element stores
				if sl, isSl := x.Val.(*ssa.Slice); isSl {
					store(sl.X)
				} else {
					ok = false
				}
			}
		}
	})
	// nobody else writes the table
	for _, fn := range p.srcFuncs {
		if fn == ini {
			continue
		}
		p.instrs(fn, func(b *ssa.BasicBlock, i int, in ssa.Instruction) {
			if st, isSt := in.(*ssa.Store); isSt {
				if st.Addr == ssa.Value(g) {
					ok = false
				}
				if ia, isIA := st.Addr.(*ssa.IndexAddr); isIA {
					if ia.X == ssa.Value(g) {
						ok = false
					}
					if ld, isLd := ia.X.(*ssa.UnOp); isLd && ld.X == ssa.Value(g) {
						ok = false
					}
				}
			}
		})
	}
	return rows, ok && len(rows) > 0
}

// indexedTableFunc: f(k K) V / (V, bool) returns table[k] for a constant package-level array or slice;
// rows with an empty string are absent entries when the function reports them through its bool result.
func (p *Prog) indexedTableFunc(f *ssa.Function, keyT, elemT string) (constTable, bool) {
	sig := f.Signature
	np := sig.Params().Len()
	if sig.Recv() != nil {
		np++
	}
	if np != 1 || len(f.Params) != 1 || sig.Results().Len() < 1 || sig.Results().Len() > 2 || len(f.Blocks) == 0 {
		return constTable{}, false
	}
	if !typeEnds(f.Params[0].Type(), keyT) || !typeEnds(sig.Results().At(0).Type(), elemT) {
		return constTable{}, false
	}
	var table *ssa.Global
	var load *ssa.UnOp
	p.instrs(f, func(b *ssa.BasicBlock, i int, in ssa.Instruction) {
		ld, ok := in.(*ssa.UnOp)
		if !ok || ld.Op != token.MUL {
			return
		}
		ia, ok := ld.X.(*ssa.IndexAddr)
		if !ok || stripConv(ia.Index) != ssa.Value(f.Params[0]) {
			return
		}
		switch x := ia.X.(type) {
		case *ssa.Global:
			table, load = x, ld
		case *ssa.UnOp:
			if g, ok := x.X.(*ssa.Global); ok {
				table, load = g, ld
			}
		}
	})
	if table == nil {
		return constTable{}, false
	}
	// every value returned as result 0 is that load (or the zero value on the not-found paths)
	okRet := true
	for _, b := range f.Blocks {
		ret, ok := b.Instrs[len(b.Instrs)-1].(*ssa.Return)
		if !ok {
			continue
		}
		for _, o := range origins(ret.Results[0]) {
			if o == ssa.Value(load) {
				continue
			}
			if c, isC := o.(*ssa.Const); isC && (c.Value == nil || c.Value.ExactString() == `""` || c.Value.ExactString() == "0") {
				continue
			}
			okRet = false
		}
	}
	rows, ok := p.globalIndexedRows(table)
	if !ok || !okRet {
		return constTable{}, false
	}
	if sig.Results().Len() == 2 {
		for k, v := range rows {
			if v == "" {
				delete(rows, k)
			}
		}
	}
	return constTable{Rows: rows, Where: "package-level table " + table.Name() + " read through " + FuncName(f), Fn: f, Pos: f.Pos()}, true
}

// ---------------------------------------------------------------------------
// String-keyed constant tables and the tests made against them.

type strTable struct {
	Name   string
	Rows   map[string]string // key → value ("true" for sets)
	Pos    token.Pos
	Global *ssa.Global   // a package-level map initialised with a literal
	Fn     *ssa.Function // or a function of one string parameter written as a switch
}

// tableTest: one use of a string table: a lookup `v, ok := T[k]` / `T[k]` or a call `f(k)`.
type tableTest struct {
	Table  *strTable
	Key    ssa.Value
	In     ssa.Instruction
	OkKey  string // key whose "== true" / "== false" fact states membership
	ValKey string // key of the looked-up value ("" for pure membership tests)
}

func (p *Prog) strTableOfGlobal(g *ssa.Global) *strTable {
	if p.strTables == nil {
		p.strTables = map[interface{}]*strTable{}
	}
	if t, ok := p.strTables[g]; ok {
		return t
	}
	var t *strTable
	if mt, ok := deref(g.Type()).Underlying().(*types.Map); ok {
		if kb, ok := mt.Key().Underlying().(*types.Basic); ok && kb.Info()&types.IsString != 0 {
			if rows, ok := globalMapLiteral(p, g); ok {
				t = &strTable{Name: g.Name(), Rows: rows, Pos: g.Pos(), Global: g}
			}
		}
	}
	p.strTables[g] = t
	return t
}

// strTableOfFunc: f(k string) (string, bool) | bool | string whose every returning path that reports a hit
// requires k to equal exactly one string constant and returns a constant.
func (p *Prog) strTableOfFunc(f *ssa.Function) *strTable {
	if p.strTables == nil {
		p.strTables = map[interface{}]*strTable{}
	}
	if t, ok := p.strTables[f]; ok {
		return t
	}
	p.strTables[f] = nil
	sig := f.Signature
	if sig.Recv() != nil || sig.Params().Len() != 1 || len(f.Blocks) == 0 || sig.Results().Len() < 1 || sig.Results().Len() > 2 {
		return nil
	}
	if kb, ok := sig.Params().At(0).Type().Underlying().(*types.Basic); !ok || kb.Info()&types.IsString == 0 {
		return nil
	}
	param := f.Params[0].Name()
	ips, ok := p.ipaths(f)
	if !ok || len(ips) == 0 {
		return nil
	}
	rows := map[string]string{}
	nres := sig.Results().Len()
	boolOnly := nres == 1 && types.TypeString(sig.Results().At(0).Type(), nil) == "bool"
	for _, ip := range ips {
		if ip.Exit != "return" || len(ip.Ret) != nres {
			return nil
		}
		hit := true
		if nres == 2 {
			switch ip.Ret[1] {
			case "false":
				hit = false
			case "true":
			default:
				return nil
			}
		} else if boolOnly {
			switch ip.Ret[0] {
			case "false":
				hit = false
			case "true":
			default:
				return nil
			}
		}
		var eq []string
		for k := range ip.Rels {
			if i := topLevelIndex(k, " == "); i >= 0 {
				a, b := k[:i], k[i+4:]
				if b == param && len(a) >= 2 && a[0] == '"' {
					eq = append(eq, a)
				}
				if a == param && len(b) >= 2 && b[0] == '"' {
					eq = append(eq, b)
				}
			}
		}
		if !hit {
			if len(eq) > 0 && (nres == 2 || boolOnly) {
				// a listed key that is answered "not present": fine, it is simply not a row
			}
			continue
		}
		if len(eq) != 1 {
			if nres == 1 && !boolOnly {
				continue // default result of a plain string function
			}
			return nil
		}
		key, err := strconv.Unquote(eq[0])
		if err != nil {
			return nil
		}
		val := "true"
		if !boolOnly {
			if !isLiteralKey(ip.Ret[0]) {
				return nil
			}
			val = strings.Trim(ip.Ret[0], `"`)
		}
		if old, dup := rows[key]; dup && old != val {
			return nil
		}
		rows[key] = val
	}
	if len(rows) < 2 {
		return nil
	}
	t := &strTable{Name: f.Name(), Rows: rows, Pos: f.Pos(), Fn: f}
	p.strTables[f] = t
	return t
}

// tableTests: the tests of string tables made in f.
func (p *Prog) tableTests(f *ssa.Function) []tableTest {
	var out []tableTest
	p.instrs(f, func(b *ssa.BasicBlock, i int, in ssa.Instruction) {
		switch x := in.(type) {
		case *ssa.Lookup:
			if g := globalOfLoad(x.X); g != nil {
				if t := p.strTableOfGlobal(g); t != nil {
					tt := tableTest{Table: t, Key: x.Index, In: x}
					if x.CommaOk {
						tt.OkKey, tt.ValKey = shortKey(sk(x)+"#1"), shortKey(sk(x)+"#0")
					} else {
						tt.OkKey, tt.ValKey = sk(x), sk(x)
					}
					out = append(out, tt)
				}
			}
		case *ssa.Call:
			g := calleeOf(&x.Call)
			if g == nil || g.Pkg == nil || !InRepo(g.Pkg.Pkg.Path()) || len(x.Call.Args) != 1 {
				return
			}
			if t := p.strTableOfFunc(g); t != nil {
				tt := tableTest{Table: t, Key: x.Call.Args[0], In: x}
				switch g.Signature.Results().Len() {
				case 2:
					tt.OkKey, tt.ValKey = shortKey(sk(x)+"#1"), shortKey(sk(x)+"#0")
				default:
					tt.OkKey, tt.ValKey = sk(x), sk(x)
				}
				out = append(out, tt)
			} else if len(g.Blocks) <= 3 && len(g.Params) == 1 && x.Call.Args[0] != nil && tableTestDepth < 1 {
				// a helper that wraps one lookup in a constant table and returns its results: ffiOf(pkg) =
				// ffiMapping[pkg.PkgPath]
				tableTestDepth++
				inner := p.tableTests(g)
				tableTestDepth--
				if len(inner) == 1 && g.Signature.Results().Len() <= 2 {
					if lk, ok := inner[0].In.(*ssa.Lookup); ok {
						tt := tableTest{Table: inner[0].Table, Key: lk.Index, In: x}
						if g.Signature.Results().Len() == 2 && lk.CommaOk {
							tt.OkKey, tt.ValKey = shortKey(sk(x)+"#1"), shortKey(sk(x)+"#0")
							// the keys under which facts and uses render the results (the helper may be inlined
							// into the key)
							for _, rf := range refs(x) {
								if ex, ok := rf.(*ssa.Extract); ok {
									if ex.Index == 1 {
										tt.OkKey = sk(ex)
									} else {
										tt.ValKey = sk(ex)
									}
								}
							}
							out = append(out, tt)
						}
					}
				}
			}
		}
	})
	return out
}

var tableTestDepth int

// holds: the fact that the test answered val is among rs.
func (tt tableTest) holds(rs relSet, val bool) bool {
	v := "false"
	if val {
		v = "true"
	}
	return rs[tt.OkKey+" == "+v] || rs[v+" == "+tt.OkKey]
}
