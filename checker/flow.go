package main

import (
	"go/token"

	"golang.org/x/tools/go/ssa"
)

// A use is a terminal use of a value reached from a root through
// alias-preserving derivations (re-slicing, conversion, phi, interface boxing,
// element/field addressing).
type use struct {
	In   ssa.Instruction
	V    ssa.Value // the derived value that is used
	Kind string    // call:<callee>#<argidx> | builtin:<name>#<idx> | store-value | store-addr | return | load | mapupdate | closure | send | other:<T>
}

// aliasUses computes the terminal uses of root. Derivations followed: Slice,
// ChangeType, Convert between slice/pointer types, Phi, MakeInterface,
// ChangeInterface, IndexAddr, FieldAddr, TypeAssert. Everything else is terminal.
func aliasUses(root ssa.Value) []use {
	var out []use
	seen := map[ssa.Value]bool{root: true}
	work := []ssa.Value{root}
	for len(work) > 0 {
		v := work[0]
		work = work[1:]
		for _, r := range refs(v) {
			follow := func(nv ssa.Value) {
				if !seen[nv] {
					seen[nv] = true
					work = append(work, nv)
				}
			}
			switch in := r.(type) {
			case *ssa.Slice:
				if in.X == v {
					follow(in)
				} else {
					out = append(out, use{in, v, "slice-bound"})
				}
			case *ssa.ChangeType:
				follow(in)
			case *ssa.Convert:
				follow(in)
			case *ssa.Phi:
				follow(in)
			case *ssa.MakeInterface:
				follow(in)
			case *ssa.ChangeInterface:
				follow(in)
			case *ssa.TypeAssert:
				follow(in)
			case *ssa.IndexAddr:
				if in.X == v {
					follow(in)
				} else {
					out = append(out, use{in, v, "index"})
				}
			case *ssa.FieldAddr:
				follow(in)
			case *ssa.Extract:
				follow(in)
			case *ssa.Store:
				if in.Val == v {
					out = append(out, use{in, v, "store-value"})
				} else {
					out = append(out, use{in, v, "store-addr"})
				}
			case *ssa.Return:
				out = append(out, use{in, v, "return"})
			case *ssa.UnOp:
				if in.Op == token.MUL {
					out = append(out, use{in, v, "load"})
				} else {
					out = append(out, use{in, v, "other:unop"})
				}
			case *ssa.MapUpdate:
				out = append(out, use{in, v, "mapupdate"})
			case *ssa.MakeClosure:
				out = append(out, use{in, v, "closure"})
			case *ssa.Send:
				out = append(out, use{in, v, "send"})
			case *ssa.DebugRef:
			case ssa.CallInstruction:
				c := in.Common()
				name := calleeName(in)
				if c.IsInvoke() && c.Value == v {
					out = append(out, use{in, v, "call:" + name + "#recv"})
				}
				for i, a := range c.Args {
					if a == v {
						k := "call:" + name
						if b, ok := c.Value.(*ssa.Builtin); ok {
							k = b.Name()
						}
						out = append(out, use{in, v, k + "#" + itoa(i)})
					}
				}
				if !c.IsInvoke() && c.Value == v {
					out = append(out, use{in, v, "callee"})
				}
			default:
				out = append(out, use{r, v, "other:" + instrKind(r)})
			}
		}
	}
	return out
}

func itoa(i int) string {
	if i == 0 {
		return "0"
	}
	neg := i < 0
	if neg {
		i = -i
	}
	var b []byte
	for i > 0 {
		b = append([]byte{byte('0' + i%10)}, b...)
		i /= 10
	}
	if neg {
		b = append([]byte{'-'}, b...)
	}
	return string(b)
}

func instrKind(in ssa.Instruction) string {
	switch in.(type) {
	case *ssa.BinOp:
		return "binop"
	case *ssa.Lookup:
		return "lookup"
	case *ssa.Range:
		return "range"
	case *ssa.Next:
		return "next"
	case *ssa.If:
		return "if"
	case *ssa.Index:
		return "index"
	case *ssa.Field:
		return "field"
	case *ssa.Panic:
		return "panic"
	case *ssa.Defer:
		return "defer"
	case *ssa.Go:
		return "go"
	case *ssa.MakeSlice:
		return "makeslice"
	case *ssa.MakeMap:
		return "makemap"
	}
	return "instr"
}

// origins walks backwards from v through the same alias-preserving derivations
// and returns the set of origin values (parameters, allocations, calls, loads…).
func origins(v ssa.Value) []ssa.Value {
	var out []ssa.Value
	seen := map[ssa.Value]bool{}
	var walk func(v ssa.Value)
	walk = func(v ssa.Value) {
		if v == nil || seen[v] {
			return
		}
		seen[v] = true
		switch x := v.(type) {
		case *ssa.Slice:
			walk(x.X)
		case *ssa.ChangeType:
			walk(x.X)
		case *ssa.Convert:
			walk(x.X)
		case *ssa.MakeInterface:
			walk(x.X)
		case *ssa.ChangeInterface:
			walk(x.X)
		case *ssa.Phi:
			for _, e := range x.Edges {
				walk(e)
			}
		case *ssa.IndexAddr:
			walk(x.X)
		case *ssa.UnOp:
			// load of a local variable (named result, spilled local): the values stored into it
			if a, ok := x.X.(*ssa.Alloc); ok && x.Op == token.MUL {
				n := 0
				for _, rf := range refs(a) {
					if st, ok := rf.(*ssa.Store); ok && st.Addr == ssa.Value(a) {
						walk(st.Val)
						n++
					}
				}
				if n == 0 {
					out = append(out, v)
				}
				return
			}
			out = append(out, v)
		default:
			out = append(out, v)
		}
	}
	walk(v)
	return out
}

// paramDeps returns the parameters (and free variables) that v transitively depends on,
// following every operand and the stores into local allocations (varargs arrays, locals).
func paramDeps(v ssa.Value) map[string]bool {
	out := map[string]bool{}
	seen := map[ssa.Value]bool{}
	var walk func(v ssa.Value)
	walk = func(v ssa.Value) {
		if v == nil || seen[v] {
			return
		}
		seen[v] = true
		switch x := v.(type) {
		case *ssa.Parameter:
			out[x.Name()] = true
			return
		case *ssa.FreeVar:
			out[x.Name()] = true
			return
		case *ssa.Alloc:
			for _, rf := range refs(x) {
				switch y := rf.(type) {
				case *ssa.Store:
					if y.Addr == ssa.Value(x) {
						walk(y.Val)
					}
				case *ssa.IndexAddr:
					for _, r2 := range refs(y) {
						if st, ok := r2.(*ssa.Store); ok && st.Addr == ssa.Value(y) {
							walk(st.Val)
						}
					}
				case *ssa.FieldAddr:
					for _, r2 := range refs(y) {
						if st, ok := r2.(*ssa.Store); ok && st.Addr == ssa.Value(y) {
							walk(st.Val)
						}
					}
				}
			}
			return
		}
		if in, ok := v.(ssa.Instruction); ok {
			var ops []*ssa.Value
			for _, o := range in.Operands(ops) {
				if o != nil && *o != nil {
					walk(*o)
				}
			}
		}
	}
	walk(v)
	return out
}
