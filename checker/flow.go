package main

import (
	"go/token"
	"strings"

	"golang.org/x/tools/go/ssa"
)

// A use is a terminal use of a value reached from a root through
// alias-preserving derivations (re-slicing, conversion, phi, interface boxing,
// element/field addressing).
type use struct {
	In   ssa.Instruction
	V    ssa.Value // the derived value that is used
	Kind string    // call:<callee>#<argidx> | builtin:<name>#<idx> | store-value | store-addr | return | load | mapupdate | closure | send | other:<T>
}

// aliasUses computes the terminal uses of root. Derivations followed: Slice,
// ChangeType, Convert between slice/pointer types, Phi, MakeInterface,
// ChangeInterface, IndexAddr, FieldAddr, TypeAssert. Everything else is terminal.
func aliasUses(root ssa.Value) []use {
	var out []use
	seen := map[ssa.Value]bool{root: true}
	work := []ssa.Value{root}
	for len(work) > 0 {
		v := work[0]
		work = work[1:]
		for _, r := range refs(v) {
			follow := func(nv ssa.Value) {
				if !seen[nv] {
					seen[nv] = true
					work = append(work, nv)
				}
			}
			switch in := r.(type) {
			case *ssa.Slice:
				if in.X == v {
					follow(in)
				} else {
					out = append(out, use{in, v, "slice-bound"})
				}
			case *ssa.ChangeType:
				follow(in)
			case *ssa.Convert:
				follow(in)
			case *ssa.Phi:
				follow(in)
			case *ssa.MakeInterface:
				follow(in)
			case *ssa.ChangeInterface:
				follow(in)
			case *ssa.TypeAssert:
				follow(in)
			case *ssa.IndexAddr:
				if in.X == v {
					follow(in)
				} else {
					out = append(out, use{in, v, "index"})
				}
			case *ssa.FieldAddr:
				follow(in)
			case *ssa.Extract:
				follow(in)
			case *ssa.Store:
				if in.Val == v {
					out = append(out, use{in, v, "store-value"})
				} else {
					out = append(out, use{in, v, "store-addr"})
				}
			case *ssa.Return:
				out = append(out, use{in, v, "return"})
			case *ssa.UnOp:
				if in.Op == token.MUL {
					out = append(out, use{in, v, "load"})
				} else {
					out = append(out, use{in, v, "other:unop"})
				}
			case *ssa.MapUpdate:
				out = append(out, use{in, v, "mapupdate"})
			case *ssa.MakeClosure:
				out = append(out, use{in, v, "closure"})
			case *ssa.Send:
				out = append(out, use{in, v, "send"})
			case *ssa.DebugRef:
			case ssa.CallInstruction:
				c := in.Common()
				name := calleeName(in)
				if c.IsInvoke() && c.Value == v {
					out = append(out, use{in, v, "call:" + name + "#recv"})
				}
				for i, a := range c.Args {
					if a == v {
						k := "call:" + name
						if b, ok := c.Value.(*ssa.Builtin); ok {
							k = b.Name()
						}
						out = append(out, use{in, v, k + "#" + itoa(i)})
					}
				}
				if !c.IsInvoke() && c.Value == v {
					out = append(out, use{in, v, "callee"})
				}
			default:
				out = append(out, use{r, v, "other:" + instrKind(r)})
			}
		}
	}
	return out
}

func itoa(i int) string {
	if i == 0 {
		return "0"
	}
	neg := i < 0
	if neg {
		i = -i
	}
	var b []byte
	for i > 0 {
		b = append([]byte{byte('0' + i%10)}, b...)
		i /= 10
	}
	if neg {
		b = append([]byte{'-'}, b...)
	}
	return string(b)
}

func instrKind(in ssa.Instruction) string {
	switch in.(type) {
	case *ssa.BinOp:
		return "binop"
	case *ssa.Lookup:
		return "lookup"
	case *ssa.Range:
		return "range"
	case *ssa.Next:
		return "next"
	case *ssa.If:
		return "if"
	case *ssa.Index:
		return "index"
	case *ssa.Field:
		return "field"
	case *ssa.Panic:
		return "panic"
	case *ssa.Defer:
		return "defer"
	case *ssa.Go:
		return "go"
	case *ssa.MakeSlice:
		return "makeslice"
	case *ssa.MakeMap:
		return "makemap"
	}
	return "instr"
}

// origins walks backwards from v through the same alias-preserving derivations
// and returns the set of origin values (parameters, allocations, calls, loads…).
func origins(v ssa.Value) []ssa.Value {
	var out []ssa.Value
	seen := map[ssa.Value]bool{}
	var walk func(v ssa.Value)
	walk = func(v ssa.Value) {
		if v == nil || seen[v] {
			return
		}
		seen[v] = true
		switch x := v.(type) {
		case *ssa.Slice:
			walk(x.X)
		case *ssa.ChangeType:
			walk(x.X)
		case *ssa.Convert:
			walk(x.X)
		case *ssa.MakeInterface:
			walk(x.X)
		case *ssa.ChangeInterface:
			walk(x.X)
		case *ssa.Phi:
			for _, e := range x.Edges {
				walk(e)
			}
		case *ssa.IndexAddr:
			walk(x.X)
		case *ssa.UnOp:
			// load of a local variable (named result, spilled local): the values stored into it
			if a, ok := x.X.(*ssa.Alloc); ok && x.Op == token.MUL {
				n := 0
				for _, rf := range refs(a) {
					if st, ok := rf.(*ssa.Store); ok && st.Addr == ssa.Value(a) {
						walk(st.Val)
						n++
					}
				}
				if n == 0 {
					out = append(out, v)
				}
				return
			}
			out = append(out, v)
		default:
			out = append(out, v)
		}
	}
	walk(v)
	return out
}

// paramDeps returns the parameters (and free variables) that v transitively depends on,
// following every operand and the stores into local allocations (varargs arrays, locals).
func paramDeps(v ssa.Value) map[string]bool {
	out := map[string]bool{}
	seen := map[ssa.Value]bool{}
	var walk func(v ssa.Value)
	walk = func(v ssa.Value) {
		if v == nil || seen[v] {
			return
		}
		seen[v] = true
		switch x := v.(type) {
		case *ssa.Parameter:
			out[x.Name()] = true
			return
		case *ssa.FreeVar:
			out[x.Name()] = true
			return
		case *ssa.Alloc:
			for _, rf := range refs(x) {
				switch y := rf.(type) {
				case *ssa.Store:
					if y.Addr == ssa.Value(x) {
						walk(y.Val)
					}
				case *ssa.IndexAddr:
					for _, r2 := range refs(y) {
						if st, ok := r2.(*ssa.Store); ok && st.Addr == ssa.Value(y) {
							walk(st.Val)
						}
					}
				case *ssa.FieldAddr:
					for _, r2 := range refs(y) {
						if st, ok := r2.(*ssa.Store); ok && st.Addr == ssa.Value(y) {
							walk(st.Val)
						}
					}
				}
			}
			return
		}
		if in, ok := v.(ssa.Instruction); ok {
			var ops []*ssa.Value
			for _, o := range in.Operands(ops) {
				if o != nil && *o != nil {
					walk(*o)
				}
			}
		}
	}
	walk(v)
	return out
}

// aliasUsesDeep is aliasUses that follows the value into repository callees:
// a use "passed as argument i of g" is replaced by the uses of g's parameter i
// (recursively); if g can return (an alias of) the parameter, the call's result
// is followed in the caller as well.
func (p *Prog) aliasUsesDeep(root ssa.Value) []use {
	var out []use
	type pk struct {
		f *ssa.Function
		i int
	}
	visitedParam := map[pk]bool{}
	visitedVal := map[ssa.Value]bool{}
	var walkVal func(v ssa.Value, depth int)
	walkVal = func(v ssa.Value, depth int) {
		if visitedVal[v] || depth > 6 {
			return
		}
		visitedVal[v] = true
		for _, u := range aliasUses(v) {
			ci, isCall := u.In.(ssa.CallInstruction)
			if !isCall || !strings.HasPrefix(u.Kind, "call:") {
				out = append(out, u)
				continue
			}
			cal := calleeOf(ci.Common())
			if cal == nil || cal.Pkg == nil || !InRepo(cal.Pkg.Pkg.Path()) || len(cal.Blocks) == 0 {
				out = append(out, u)
				continue
			}
			for i, a := range ci.Common().Args {
				if a != u.V || i >= len(cal.Params) {
					continue
				}
				k := pk{cal, i}
				if visitedParam[k] {
					continue
				}
				visitedParam[k] = true
				// uses inside the callee
				n0 := len(out)
				walkVal(cal.Params[i], depth+1)
				// did the callee return it?
				returned := false
				var kept []use
				for _, cu := range out[n0:] {
					if cu.Kind == "return" && cu.In.Parent() == cal {
						returned = true
						continue
					}
					kept = append(kept, cu)
				}
				out = append(out[:n0], kept...)
				if returned {
					if cv, ok := u.In.(ssa.Value); ok {
						walkVal(cv, depth+1)
					}
				}
			}
		}
	}
	walkVal(root, 0)
	return out
}

// originsDeep is origins that looks through calls of repository functions:
// the origins of a call result are the origins of what the callee returns
// (a callee parameter maps back to the argument at this call).
func (p *Prog) originsDeep(v ssa.Value) []ssa.Value {
	var out []ssa.Value
	seen := map[ssa.Value]bool{}
	var walk func(v ssa.Value, frames []*ssa.Call, depth int)
	walk = func(v ssa.Value, frames []*ssa.Call, depth int) {
		if v == nil || depth > 8 {
			return
		}
		for _, o := range origins(v) {
			if seen[o] {
				continue
			}
			seen[o] = true
			switch x := o.(type) {
			case *ssa.Call:
				cal := calleeOf(&x.Call)
				if cal != nil && cal.Pkg != nil && InRepo(cal.Pkg.Pkg.Path()) && len(cal.Blocks) > 0 && cal.Signature.Results().Len() == 1 {
					n := 0
					for _, b := range cal.Blocks {
						for _, in := range b.Instrs {
							if ret, ok := in.(*ssa.Return); ok && len(ret.Results) == 1 {
								n++
								walk(ret.Results[0], append(frames, x), depth+1)
							}
						}
					}
					if n > 0 {
						continue
					}
				}
				out = append(out, o)
			case *ssa.Extract:
				if c, ok := x.Tuple.(*ssa.Call); ok {
					cal := calleeOf(&c.Call)
					if cal != nil && cal.Pkg != nil && InRepo(cal.Pkg.Pkg.Path()) && len(cal.Blocks) > 0 {
						n := 0
						for _, b := range cal.Blocks {
							for _, in := range b.Instrs {
								if ret, ok := in.(*ssa.Return); ok && x.Index < len(ret.Results) {
									n++
									walk(ret.Results[x.Index], append(frames, c), depth+1)
								}
							}
						}
						if n > 0 {
							continue
						}
					}
				}
				out = append(out, o)
			case *ssa.Parameter:
				// map back to the argument of the innermost frame that called this function
				mapped := false
				for i := len(frames) - 1; i >= 0; i-- {
					fr := frames[i]
					if calleeOf(&fr.Call) == x.Parent() {
						for j, pa := range x.Parent().Params {
							if pa == x && j < len(fr.Call.Args) {
								walk(fr.Call.Args[j], frames[:i], depth+1)
								mapped = true
							}
						}
						break
					}
				}
				if !mapped {
					out = append(out, o)
				}
			default:
				out = append(out, o)
			}
		}
	}
	walk(v, nil, 0)
	return out
}
