package main

import (
	"fmt"
	"go/token"
	"go/types"
	"sort"
	"strings"

	"golang.org/x/tools/go/ssa"
)

var translatorPkgs = []string{Mod, coqPkg, cmdGoosePkg}

type c06Finding struct {
	Rule, Key, Detail string
	Pos               token.Pos
	OK                bool
}

// loopBlocks returns the blocks of the natural loop(s) headed at h (blocks that can reach a back edge to h without leaving through h).
func loopBody(h *ssa.BasicBlock) map[*ssa.BasicBlock]bool {
	body := map[*ssa.BasicBlock]bool{h: true}
	var stack []*ssa.BasicBlock
	for _, p := range h.Preds {
		if h.Dominates(p) {
			stack = append(stack, p)
		}
	}
	for len(stack) > 0 {
		b := stack[len(stack)-1]
		stack = stack[:len(stack)-1]
		if body[b] {
			continue
		}
		body[b] = true
		stack = append(stack, b.Preds...)
	}
	return body
}

// mapRangeFindings classifies every range over a map in the given packages.
func mapRangeFindings(p *Prog, pkgs []string) []c06Finding {
	var out []c06Finding
	for _, pk := range pkgs {
		for _, f := range p.FuncsIn(pk) {
			rm := p.Rels(f)
			p.instrs(f, func(b *ssa.BasicBlock, i int, in ssa.Instruction) {
				rg, ok := in.(*ssa.Range)
				if !ok {
					return
				}
				if _, isMap := rg.X.Type().Underlying().(*types.Map); !isMap {
					return
				}
				key := fmt.Sprintf("%s range over map %s", FuncName(f), sk(rg.X))
				rs := p.RelsAt(rm, rg)
				mk := sk(rg.X)
				// idiom (i): at most one element
				if rs["len("+mk+") <= 1"] || rs["len("+mk+") < 2"] || rs[eqRel("len("+mk+")", "1")] || rs[eqRel("len("+mk+")", "0")] {
					out = append(out, c06Finding{"R06a", key, "at most one element on every path here (fact len <= 1): iteration order is irrelevant", rg.Pos(), true})
					return
				}
				// locate the loop
				var header *ssa.BasicBlock
				for _, rf := range refs(rg) {
					if nx, ok := rf.(*ssa.Next); ok {
						header = nx.Block()
					}
				}
				if header == nil {
					out = append(out, c06Finding{"R06a", key, "range without a loop", rg.Pos(), false})
					return
				}
				body := loopBody(header)
				// idiom (ii): body is order-insensitive (only map inserts/deletes, lookups, integer/boolean accumulation)
				insens := true
				var appended []ssa.Value
				why := ""
				for bb := range body {
					for _, x := range bb.Instrs {
						switch y := x.(type) {
						case *ssa.Next, *ssa.Extract, *ssa.MapUpdate, *ssa.Lookup, *ssa.BinOp, *ssa.UnOp, *ssa.If, *ssa.Jump, *ssa.Phi, *ssa.DebugRef, *ssa.FieldAddr, *ssa.Field, *ssa.Convert, *ssa.ChangeType, *ssa.IndexAddr, *ssa.MakeInterface, *ssa.Alloc, *ssa.Slice:
						case *ssa.Store:
							// storing the appended slice back into a local is part of the append idiom
						case *ssa.Call:
							if bi, ok := y.Call.Value.(*ssa.Builtin); ok {
								switch bi.Name() {
								case "len", "delete":
								case "append":
									appended = append(appended, y)
								default:
									insens, why = false, "builtin "+bi.Name()
								}
							} else if g := calleeOf(&y.Call); g != nil && setAccumulating(p, g, map[*ssa.Function]bool{}) {
								// the callee (and what it calls) only inserts into maps: a set union, whatever the order
							} else if p.pureCall(&y.Call) {
							} else {
								insens, why = false, "calls "+calleeName(y)+" inside the loop"
							}
						default:
							insens, why = false, "instruction "+x.String()
						}
					}
				}
				if insens && len(appended) == 0 {
					out = append(out, c06Finding{"R06a", key, "loop body only updates maps / accumulates: order-insensitive", rg.Pos(), true})
					return
				}
				// idiom (iii): keys collected into a slice that is sorted before any other use
				if insens && len(appended) > 0 {
					sorted := false
					for _, g := range f.Blocks {
						for _, x := range g.Instrs {
							if c, ok := x.(*ssa.Call); ok {
								n := calleeName(c)
								if n == "sort.Strings" || n == "sort.Slice" || n == "sort.Ints" || strings.HasPrefix(n, "slices.Sort") || n == "sort.Sort" || n == "sort.SliceStable" {
									if !body[g] && header.Dominates(g) {
										sorted = true
									}
								}
							}
						}
					}
					if sorted {
						out = append(out, c06Finding{"R06a", key, "collected elements are sorted after the loop", rg.Pos(), true})
						return
					}
					why = "elements are appended in map order and not sorted afterwards"
				}
				out = append(out, c06Finding{"R06a", key, "iteration order of a Go map is randomised per run and the loop is order-sensitive: " + why, rg.Pos(), false})
			})
		}
	}
	return out
}

var ambientSources = map[string]bool{
	"time.Now": true, "time.Since": true, "time.Until": true, "os.Getenv": true, "os.LookupEnv": true, "os.Environ": true,
	"os.Getpid": true, "os.Getppid": true, "os.Hostname": true, "os.Getwd": true, "os.Getuid": true, "os.UserHomeDir": true,
	"runtime.NumGoroutine": true, "runtime.GOMAXPROCS": true, "runtime.NumCPU": true,
}

func ambientFindings(p *Prog, pkgs []string) []c06Finding {
	var out []c06Finding
	for _, pk := range pkgs {
		for _, f := range p.FuncsIn(pk) {
			p.instrs(f, func(b *ssa.BasicBlock, i int, in ssa.Instruction) {
				// the order in which values arrive on a channel fed by several goroutines is the schedule's
				switch x := in.(type) {
				case *ssa.UnOp:
					if x.Op == token.ARROW {
						out = append(out, c06Finding{"R06d", FuncName(f) + " receives from a channel", "the arrival order of values sent by concurrent workers depends on the schedule; results must be placed by index, not in completion order", instrPos(in), false})
					}
				case *ssa.Select:
					out = append(out, c06Finding{"R06d", FuncName(f) + " selects on channels", "the chosen case depends on the schedule", instrPos(in), false})
				case *ssa.Range:
					if _, isChan := x.X.Type().Underlying().(*types.Chan); isChan {
						out = append(out, c06Finding{"R06d", FuncName(f) + " ranges over a channel", "the arrival order of values sent by concurrent workers depends on the schedule; results must be placed by index, not in completion order", instrPos(in), false})
					}
				case *ssa.Next:
					if r0, ok := x.Iter.(*ssa.Range); ok {
						_ = r0
					}
				}
				c, ok := in.(ssa.CallInstruction)
				if !ok {
					return
				}
				n := calleeName(c)
				if ambientSources[n] || strings.HasPrefix(n, "math/rand.") || strings.HasPrefix(n, "math/rand/v2.") || strings.HasPrefix(n, "crypto/rand.") {
					out = append(out, c06Finding{"R06d", FuncName(f) + " calls " + n, "ambient (run-dependent) source in a translator package", instrPos(in), false})
				}
			})
		}
	}
	return out
}

func checkC06(p *Prog, r *Report) {
	r.Rule("R06a", "map iteration: every range over a map in the translator packages is order-insensitive by a recognised idiom: at most one element (fact len <= 1), body only updates maps/accumulates, or the collected elements are sorted after the loop", 1)
	r.Rule("R06b", "immutable globals: no package-level variable of the translator packages is stored to, no map/slice reached through one is updated, and no mutating method is called on one (sync.Map.Store, …), outside package initialisation", 3)
	r.Rule("R06c", "worker slots: a goroutine launched by the translator writes captured state only as slot[i] of a captured slice with i its own parameter, bound at the go statement to the loop index; every other captured variable is only read or is a WaitGroup; WaitGroup.Add precedes the loop and Wait post-dominates it; the per-package context is created inside the worker", 4)
	r.Rule("R06d", "ambient sources: no call to clock, random, environment, pid, hostname or scheduler-introspection functions and no channel receive/select (arrival order is the schedule's) in the translator packages", 0)
	r.Rule("R06e", "sort before emit: Decls receives the result of sortedFiles, which sorts by path with a strict order; PrintImports de-duplicates with a seen-set (or sorts before compacting) and sorts before joining", 4)
	r.Rule("R06f", "packages do not influence each other in the command: whether a package's file is written depends only on that package's own error (from its err == nil edge every path to the next iteration passes the write; from its err != nil edge the write is reachable only through -ignore-errors) — the R17b analysis", 2)
	r.Assume = append(r.Assume, "go/packages, go/types and token.FileSet are safe for concurrent use as documented", "fmt prints maps with sorted keys (Go >= 1.12)")
	// R06a
	fs := mapRangeFindings(p, translatorPkgs)
	for _, x := range fs {
		r.Check(x.Rule, x.Key, x.Pos, x.OK, x.Detail)
	}
	// R06d
	amb := ambientFindings(p, []string{Mod, coqPkg})
	for _, x := range amb {
		r.Check(x.Rule, x.Key, x.Pos, x.OK, x.Detail)
	}
	if len(amb) == 0 {
		n := 0
		for _, pk := range []string{Mod, coqPkg} {
			n += len(p.FuncsIn(pk))
		}
		r.OK("R06d", fmt.Sprintf("no ambient source in %d functions of goose and internal/coq", n), token.NoPos, "")
	}
	c06Controls(r)
	c06MessageOperands(p, r)
	// package independence in the command's loop: shared with C17 (R17b)
	scratch := NewReport("C17", p)
	checkC17(p, scratch)
	for _, o := range scratch.Obls {
		if o.Rule == "R17b" {
			r.Obls = append(r.Obls, Obligation{Rule: "R06f", Key: o.Key, Pos: o.Pos, Status: o.Status, Detail: o.Detail, Path: o.Path})
			r.ruleIdx["R06f"].Instances++
		}
	}
	c06Globals(p, r)
	c06Workers(p, r)
	c06Sorting(p, r)
}

// c06Controls analyses the positive-control package: the rules whose expected
// count on /repo is zero must fire there on every run.
func c06Controls(r *Report) {
	cp, err := Load(controlsDir(), Config{Name: "controls", GOOS: "linux", GOARCH: "amd64"}, "./c06")
	if err != nil {
		r.Unknown("R06a", "positive control", token.NoPos, "cannot load control package: "+err.Error())
		return
	}
	pk := "verif/checker/controls/c06"
	nBad := 0
	for _, x := range mapRangeFindings(cp, []string{pk}) {
		if !x.OK {
			nBad++
		}
	}
	nAmb := len(ambientFindings(cp, []string{pk}))
	if nBad >= 1 {
		r.Controls = append(r.Controls, fmt.Sprintf("R06a fired on controls/c06 (%d order-sensitive map ranges)", nBad))
	} else {
		r.Unknown("R06a", "positive control", token.NoPos, "the rule did not fire on the control package that ranges over a map on an output path")
	}
	if nAmb >= 1 {
		r.Controls = append(r.Controls, fmt.Sprintf("R06d fired on controls/c06 (%d ambient calls)", nAmb))
	} else {
		r.Unknown("R06d", "positive control", token.NoPos, "the rule did not fire on the control package that calls time.Now")
	}
	curProg = r.P
}

func c06Globals(p *Prog, r *Report) {
	for _, pk := range []string{Mod, coqPkg} {
		sp := p.SSAPkg[pk]
		if sp == nil {
			continue
		}
		for _, name := range sortedKeys(sp.Members) {
			g, ok := sp.Members[name].(*ssa.Global)
			if !ok || strings.HasPrefix(name, "init$") {
				continue
			}
			var bad []string
			for _, f := range p.FuncsIn(pk) {
				if f.Name() == "init" || strings.HasPrefix(f.Name(), "init#") {
					continue
				}
				p.instrs(f, func(b *ssa.BasicBlock, i int, in ssa.Instruction) {
					switch x := in.(type) {
					case *ssa.Store:
						if x.Addr == ssa.Value(g) {
							bad = append(bad, "assigned in "+FuncName(f))
						}
					case *ssa.Call:
						// a pointer-receiver method called on the variable itself (sync.Map.Store, a cache's Put, …)
						if len(x.Call.Args) > 0 && x.Call.Args[0] == ssa.Value(g) && !x.Call.IsInvoke() {
							if cal := x.Call.StaticCallee(); cal != nil && cal.Signature.Recv() != nil {
								n := calleeName(x)
								switch {
								case strings.HasPrefix(n, "(*sync.Mutex)."), strings.HasPrefix(n, "(*sync.RWMutex)."), strings.HasPrefix(n, "(*sync.Once)."):
								case strings.HasSuffix(n, ".Load") || strings.HasSuffix(n, ".Range") || strings.HasSuffix(n, ".Len") || strings.HasSuffix(n, ".String"):
								default:
									bad = append(bad, n+" on the variable in "+FuncName(f))
								}
							}
						}
					case *ssa.UnOp:
						if x.X != ssa.Value(g) {
							return
						}
						for _, u := range aliasUses(x) {
							switch u.Kind {
							case "mapupdate", "store-addr", "delete#0", "clear#0", "append#0":
								bad = append(bad, u.Kind+" in "+FuncName(f))
							}
						}
					}
				})
			}
			pkn := sp.Pkg.Name()
			r.Check("R06b", "global "+pkn+"."+name, g.Pos(), len(bad) == 0,
				"package-level state is modified after initialisation (shared between concurrent package workers, carries state between packages): "+strings.Join(bad, "; "))
		}
	}
}

func c06Workers(p *Prog, r *Report) {
	nGo := 0
	for _, pk := range translatorPkgs {
		for _, f := range p.FuncsIn(pk) {
			p.instrs(f, func(b *ssa.BasicBlock, i int, in ssa.Instruction) {
				g, ok := in.(*ssa.Go)
				if !ok {
					return
				}
				nGo++
				r.Sites++
				mc, ok := g.Call.Value.(*ssa.MakeClosure)
				key := "go statement in " + FuncName(f)
				if !ok {
					if wk := g.Call.StaticCallee(); wk != nil && wk.Pkg != nil && InRepo(wk.Pkg.Pkg.Path()) && len(wk.Blocks) > 0 {
						c06NamedWorker(p, r, f, g, wk, key)
						return
					}
					r.Unknown("R06c", key, instrPos(in), "go statement launches neither a function literal nor a function of the repository")
					return
				}
				cl := mc.Fn.(*ssa.Function)
				r.Func(FuncName(cl))
				// which parameter positions receive a per-iteration distinct value?
				distinct := map[*ssa.Parameter]bool{}
				for i, a := range g.Call.Args {
					if i < len(cl.Params) && isLoopIndex(a) {
						distinct[cl.Params[i]] = true
					}
				}
				// captured variables that are fresh per iteration and hold the loop index: the binding is an
				// allocation made inside the loop (idx := idx, or a per-iteration loop variable) whose only
				// stores are of the loop index
				distinctFV := map[*ssa.FreeVar]bool{}
				perIterFV := map[*ssa.FreeVar]bool{} // a variable of the loop body: every worker captures its own
				for i, bnd := range mc.Bindings {
					al, ok := bnd.(*ssa.Alloc)
					if !ok || i >= len(cl.FreeVars) || !inLoop(al.Block()) {
						continue
					}
					perIterFV[cl.FreeVars[i]] = true
					okAll, n := true, 0
					for _, rf := range refs(al) {
						if st, ok := rf.(*ssa.Store); ok && st.Addr == ssa.Value(al) {
							n++
							if !isLoopIndex(st.Val) {
								okAll = false
							}
						}
					}
					if okAll && n > 0 {
						distinctFV[cl.FreeVars[i]] = true
					}
				}
				var bad []string
				p.instrs(cl, func(b2 *ssa.BasicBlock, i2 int, in2 ssa.Instruction) {
					switch x := in2.(type) {
					case *ssa.Store:
						// address must be slot[i] of a captured slice
						if ia, ok := x.Addr.(*ssa.IndexAddr); ok {
							if pa, ok := ia.Index.(*ssa.Parameter); ok && distinct[pa] && fromFreeVar(ia.X) {
								return
							}
							if ld, ok := ia.Index.(*ssa.UnOp); ok && ld.Op == token.MUL {
								if fv, ok := ld.X.(*ssa.FreeVar); ok && distinctFV[fv] && fromFreeVar(ia.X) {
									return
								}
							}
						}
						if fromFreeVar(x.Addr) {
							bad = append(bad, "store to captured "+sk(x.Addr)+" at "+p.Pos(instrPos(in2)))
						}
					case *ssa.MapUpdate:
						if fromFreeVar(x.Map) {
							bad = append(bad, "map update of captured "+sk(x.Map))
						}
					case *ssa.Call:
						// captured pointers passed to calls other than sync primitives
						n := calleeName(x)
						for _, a := range x.Call.Args {
							if fv, ok := a.(*ssa.FreeVar); ok {
								if strings.HasPrefix(n, "(*sync.WaitGroup).") || strings.HasPrefix(n, "(*sync.Mutex).") {
									continue
								}
								if _, isPtr := fv.Type().Underlying().(*types.Pointer); isPtr {
									bad = append(bad, "captured "+fv.Name()+" passed to "+n)
								}
								continue
							}
							// the value of a captured variable that holds references (a map, a pointer, a struct with a
							// map field …) handed to a function of the repository that is not free of side effects:
							// every worker works on the same object
							ld, ok := a.(*ssa.UnOp)
							if !ok || ld.Op != token.MUL {
								continue
							}
							fv, ok := ld.X.(*ssa.FreeVar)
							if !ok || !holdsReference(ld.Type(), 0) || perIterFV[fv] {
								continue
							}
							if strings.HasPrefix(n, "(*sync.") || strings.HasPrefix(n, "sync.") {
								continue
							}
							cal := calleeOf(&x.Call)
							if cal == nil || cal.Pkg == nil || !InRepo(cal.Pkg.Pkg.Path()) || p.pureFunc(cal) {
								continue
							}
							bad = append(bad, "captured "+fv.Name()+" ("+types.TypeString(ld.Type(), qualNone)+", which holds references) is handed to "+n+" by every worker")
						}
						if bi, ok := x.Call.Value.(*ssa.Builtin); ok && bi.Name() == "append" && fromFreeVar(x.Call.Args[0]) {
							bad = append(bad, "append to captured slice "+sk(x.Call.Args[0]))
						}
					}
				})
				r.Check("R06c", key+" writes only its own slot", instrPos(in), len(bad) == 0,
					"the worker writes shared captured state: "+strings.Join(bad, "; "))
				// WaitGroup protocol
				var add, wait *ssa.Call
				p.instrs(f, func(b2 *ssa.BasicBlock, i2 int, in2 ssa.Instruction) {
					if c, ok := in2.(*ssa.Call); ok {
						switch calleeName(c) {
						case "(*sync.WaitGroup).Add":
							add = c
						case "(*sync.WaitGroup).Wait":
							wait = c
						}
					}
				})
				okWG := add != nil && wait != nil && dominatesInstr(add, g) && reachesInstr(g, wait)
				if okWG {
					// every return reachable from the go statement passes through Wait
					p.instrs(f, func(b2 *ssa.BasicBlock, i2 int, in2 ssa.Instruction) {
						if ret, ok := in2.(*ssa.Return); ok && reachesInstr(g, ret) && !dominatesInstr(wait, ret) {
							okWG = false
						}
					})
				}
				doneInWorker := false
				p.instrs(cl, func(b2 *ssa.BasicBlock, i2 int, in2 ssa.Instruction) {
					if c, ok := in2.(*ssa.Call); ok && calleeName(c) == "(*sync.WaitGroup).Done" {
						doneInWorker = true
					}
					if d, ok := in2.(*ssa.Defer); ok && calleeName(d) == "(*sync.WaitGroup).Done" {
						doneInWorker = true
					}
				})
				r.Check("R06c", key+" WaitGroup protocol", instrPos(in), okWG && doneInWorker,
					"need wg.Add before every go statement (once with the count, or per iteration), wg.Done in the worker, and wg.Wait before every return that follows the go statement")
			})
		}
	}
	if nGo == 0 {
		r.Note("no go statement in the translator packages")
	}
	// the per-package context is created only on the worker's side
	np := p.Func(Mod, "newPkgCtx")
	tpk := p.Func(Mod, "TranslationConfig.translatePackage")
	if np != nil && tpk != nil {
		var callers []string
		for _, pk := range translatorPkgs {
			for _, f := range p.FuncsIn(pk) {
				p.instrs(f, func(b *ssa.BasicBlock, i int, in ssa.Instruction) {
					if c, ok := in.(*ssa.Call); ok && calleeOf(&c.Call) == np {
						callers = append(callers, FuncName(f))
					}
				})
			}
		}
		sort.Strings(callers)
		okC := true
		for _, c := range callers {
			if c != FuncName(tpk) && c != "goose.NewPkgCtx" {
				okC = false
			}
		}
		r.Check("R06c", "per-package context created per package", np.Pos(), okC && len(callers) > 0, fmt.Sprintf("newPkgCtx is called from %v; must be created inside translatePackage (one per worker)", callers))
		// and never stored in a global or captured by the closure
		stored := false
		p.instrs(tpk, func(b *ssa.BasicBlock, i int, in ssa.Instruction) {
			if st, ok := in.(*ssa.Store); ok {
				if _, isG := st.Addr.(*ssa.Global); isG {
					stored = true
				}
			}
		})
		r.Check("R06c", "translatePackage stores nothing in globals", tpk.Pos(), !stored, "translatePackage writes a package-level variable")
	} else {
		r.Anchor("R06c", "goose.newPkgCtx / translatePackage")
	}
}

func isLoopIndex(v ssa.Value) bool {
	// rangeindex: phi + 1, or the phi itself; for i := 0; ...: a phi
	switch x := v.(type) {
	case *ssa.BinOp:
		if x.Op == token.ADD {
			if _, ok := x.X.(*ssa.Phi); ok {
				if c, ok := constInt(x.Y); ok && c == 1 {
					return true
				}
			}
		}
	case *ssa.Phi:
		return true
	case *ssa.Extract:
		if _, ok := x.Tuple.(*ssa.Next); ok && x.Index == 1 {
			return true
		}
	case *ssa.UnOp:
		// a local that holds nothing but the loop index (idx := idx; a per-iteration loop variable)
		if al, ok := x.X.(*ssa.Alloc); ok && x.Op == token.MUL {
			n, all := 0, true
			for _, rf := range refs(al) {
				if st, ok := rf.(*ssa.Store); ok && st.Addr == ssa.Value(al) {
					n++
					if st.Val == v || !isLoopIndex(st.Val) {
						all = false
					}
				}
			}
			return n > 0 && all
		}
	}
	return false
}

// inLoop: the block lies on a cycle of the control-flow graph (it is executed once per iteration).
func inLoop(b *ssa.BasicBlock) bool {
	seen := map[*ssa.BasicBlock]bool{}
	q := append([]*ssa.BasicBlock{}, b.Succs...)
	for len(q) > 0 {
		x := q[0]
		q = q[1:]
		if x == b {
			return true
		}
		if seen[x] {
			continue
		}
		seen[x] = true
		q = append(q, x.Succs...)
	}
	return false
}

func fromFreeVar(v ssa.Value) bool {
	for _, o := range origins(v) {
		switch x := o.(type) {
		case *ssa.FreeVar:
			return true
		case *ssa.UnOp:
			if _, ok := x.X.(*ssa.FreeVar); ok {
				return true
			}
		}
	}
	return false
}

func c06Sorting(p *Prog, r *Report) {
	sf := p.Func(Mod, "sortedFiles")
	tpk := p.Func(Mod, "TranslationConfig.translatePackage")
	if sf == nil || tpk == nil {
		r.Anchor("R06e", "goose.sortedFiles / translatePackage")
	} else {
		r.Func(FuncName(sf))
		// Decls receives the value returned by sortedFiles
		okFlow := false
		p.instrs(tpk, func(b *ssa.BasicBlock, i int, in ssa.Instruction) {
			if c, ok := in.(*ssa.Call); ok && strings.HasSuffix(calleeName(c), ".Decls") {
				for _, a := range c.Call.Args {
					if cc, ok := a.(*ssa.Call); ok && calleeOf(&cc.Call) == sf {
						okFlow = true
					}
				}
			}
		})
		r.Check("R06e", "Decls receives sortedFiles(...)", tpk.Pos(), okFlow, "the file list passed to Decls is not the result of sortedFiles: output order would follow directory/loader order")
		// sortedFiles sorts its result with a strict comparison of a string field
		var srt *ssa.Call
		p.instrs(sf, func(b *ssa.BasicBlock, i int, in ssa.Instruction) {
			if c, ok := in.(*ssa.Call); ok && (calleeName(c) == "sort.Slice" || calleeName(c) == "sort.SliceStable") {
				srt = c
			}
		})
		okSort, why := false, "no sort.Slice call"
		if srt != nil {
			// sorted value is what is returned
			p.instrs(sf, func(b *ssa.BasicBlock, i int, in ssa.Instruction) {
				if ret, ok := in.(*ssa.Return); ok {
					if sk(ret.Results[0]) == sk(srt.Call.Args[0].(*ssa.MakeInterface).X) && dominatesInstr(srt, ret) {
						okSort = true
					} else {
						why = "the sorted slice is not the returned slice"
					}
				}
			})
			if mc, ok := srt.Call.Args[1].(*ssa.MakeClosure); ok {
				less := mc.Fn.(*ssa.Function)
				strict := false
				for _, b := range less.Blocks {
					for _, in := range b.Instrs {
						if ret, ok := in.(*ssa.Return); ok {
							if bo, ok := ret.Results[0].(*ssa.BinOp); ok && (bo.Op == token.LSS || bo.Op == token.GTR) {
								strict = true
							}
						}
					}
				}
				if !strict {
					okSort, why = false, "comparator is not a strict order on one key"
				}
			}
		}
		r.Check("R06e", "sortedFiles sorts by path", sf.Pos(), okSort, why)
	}
	pi := p.Func(coqPkg, "ImportDecls.PrintImports")
	if pi == nil {
		r.Anchor("R06e", "coq.ImportDecls.PrintImports")
		return
	}
	r.Func(FuncName(pi))
	var srt, join, compact *ssa.Call
	var appends []*ssa.Call
	p.instrs(pi, func(b *ssa.BasicBlock, i int, in ssa.Instruction) {
		if c, ok := in.(*ssa.Call); ok {
			n := calleeName(c)
			switch {
			case n == "sort.Strings" || strings.HasPrefix(n, "slices.Sort"):
				srt = c
			case n == "strings.Join":
				join = c
			case strings.HasPrefix(n, "slices.Compact"):
				compact = c
			}
			if bi, ok := c.Call.Value.(*ssa.Builtin); ok && bi.Name() == "append" {
				appends = append(appends, c)
			}
		}
	})
	r.Check("R06e", "PrintImports sorts before joining", pi.Pos(), srt != nil && join != nil && dominatesInstr(srt, join), "imports are joined without a preceding sort")
	// de-duplication
	rm := p.Rels(pi)
	dedup := false
	why := ""
	for _, a := range appends {
		rs := p.RelsAt(rm, a)
		for k := range rs {
			if strings.Contains(k, "[") && (strings.HasSuffix(k, "] == false") || strings.HasSuffix(k, "]#1 == false") || strings.HasPrefix(k, "false == ") && (strings.HasSuffix(k, "]") || strings.HasSuffix(k, "]#1"))) {
				dedup = true
			}
		}
		if !dedup {
			why = fmt.Sprintf("append is not guarded by a not-yet-seen fact; facts: %v", relList(rs))
		}
	}
	if !dedup && compact != nil && srt != nil && dominatesInstr(srt, compact) {
		dedup = true
	}
	// collected as the keys of a map first (a set): every appended element is a key drawn from a range over a map
	if !dedup && len(appends) > 0 {
		all := true
		for _, a := range appends {
			fromMapKey := false
			if len(a.Call.Args) == 2 {
				for _, o := range origins(a.Call.Args[1]) {
					if ex, ok := o.(*ssa.Extract); ok && ex.Index == 1 {
						if nx, ok := ex.Tuple.(*ssa.Next); ok {
							if rg, ok := nx.Iter.(*ssa.Range); ok {
								if _, isMap := rg.X.Type().Underlying().(*types.Map); isMap {
									fromMapKey = true
								}
							}
						}
					}
				}
				if sl, ok := a.Call.Args[1].(*ssa.Slice); ok {
					if al, ok := sl.X.(*ssa.Alloc); ok {
						for _, rf := range refs(al) {
							if ia, ok := rf.(*ssa.IndexAddr); ok {
								for _, r2 := range refs(ia) {
									if st, ok := r2.(*ssa.Store); ok {
										if ex, ok := st.Val.(*ssa.Extract); ok && ex.Index == 1 {
											if nx, ok := ex.Tuple.(*ssa.Next); ok {
												if rg, ok := nx.Iter.(*ssa.Range); ok {
													if _, isMap := rg.X.Type().Underlying().(*types.Map); isMap {
														fromMapKey = true
													}
												}
											}
										}
									}
								}
							}
						}
					}
				}
			}
			if !fromMapKey {
				all = false
			}
		}
		if all {
			dedup, why = true, ""
		}
	}
	// a hand-written remover of adjacent repeats applied after the sort
	if !dedup && srt != nil && join != nil {
		if c, ok := join.Call.Args[0].(*ssa.Call); ok && dominatesInstr(srt, c) {
			if g := calleeOf(&c.Call); g != nil && g.Pkg == pi.Pkg && len(c.Call.Args) == 1 && c.Call.Args[0] == srt.Call.Args[0] && dropsAdjacentRepeats(p, g) {
				dedup = true
			}
		}
	}
	if !dedup && compact != nil {
		why = "slices.Compact removes only adjacent duplicates and runs before the sort: a repeated import that is not adjacent in file order is printed twice"
	}
	r.Check("R06e", "PrintImports prints each import once", pi.Pos(), dedup, why)
}

// dropsAdjacentRepeats: g(xs []string) []string appends an element only if it is the first or differs from
// its predecessor (every path prefix reaching the append carries one of those facts).
func dropsAdjacentRepeats(p *Prog, g *ssa.Function) bool {
	if len(g.Params) != 1 {
		return false
	}
	xs := g.Params[0].Name()
	n, ok := 0, true
	p.instrs(g, func(b *ssa.BasicBlock, i int, in ssa.Instruction) {
		c, isC := in.(*ssa.Call)
		if !isC {
			return
		}
		if bi, isB := c.Call.Value.(*ssa.Builtin); !isB || bi.Name() != "append" {
			return
		}
		n++
		pre, okp := p.prefixFactsAt(g, c)
		if !okp || len(pre) == 0 {
			ok = false
			return
		}
		for _, rs := range pre {
			good := false
			for k := range rs {
				if strings.HasSuffix(k, " <= 0") && strings.Contains(k, "rangeindex") {
					good = true // first element
				}
				if j := topLevelIndex(k, " != "); j >= 0 {
					a, b := k[:j], k[j+4:]
					if strings.HasPrefix(a, xs+"[") && strings.HasPrefix(b, xs+"[") && (strings.Contains(a, " - 1)") != strings.Contains(b, " - 1)")) {
						good = true // differs from its predecessor
					}
				}
			}
			if !good {
				ok = false
			}
		}
	})
	return n == 1 && ok
}

// setAccumulating: the only effects of g (and of the repository functions it calls, itself included) are
// insertions into and deletions from maps — the result of running it over a collection does not depend on
// the order of the collection.
func setAccumulating(p *Prog, g *ssa.Function, seen map[*ssa.Function]bool) bool {
	if seen[g] {
		return true
	}
	seen[g] = true
	if g.Pkg == nil || !InRepo(g.Pkg.Pkg.Path()) || len(g.Blocks) == 0 {
		return false
	}
	if g.Signature.Results().Len() != 0 {
		return false
	}
	ok := true
	p.instrs(g, func(b *ssa.BasicBlock, i int, in ssa.Instruction) {
		switch y := in.(type) {
		case *ssa.Next, *ssa.Extract, *ssa.MapUpdate, *ssa.Lookup, *ssa.BinOp, *ssa.UnOp, *ssa.If, *ssa.Jump, *ssa.Phi, *ssa.DebugRef, *ssa.FieldAddr, *ssa.Field,
			*ssa.Convert, *ssa.ChangeType, *ssa.IndexAddr, *ssa.MakeInterface, *ssa.Return, *ssa.Range, *ssa.Alloc, *ssa.MakeMap:
			if u, isU := y.(*ssa.UnOp); isU && u.Op == token.ARROW {
				ok = false
			}
		case *ssa.Store:
			if !localAddr(y.Addr) {
				ok = false
			}
		case *ssa.Call:
			if bi, isB := y.Call.Value.(*ssa.Builtin); isB {
				if bi.Name() != "len" && bi.Name() != "delete" {
					ok = false
				}
				return
			}
			if h := calleeOf(&y.Call); h != nil && h.Pkg != nil && InRepo(h.Pkg.Pkg.Path()) {
				if !setAccumulating(p, h, seen) {
					ok = false
				}
				return
			}
			if !p.pureCall(&y.Call) {
				ok = false
			}
		default:
			ok = false
		}
	})
	return ok
}

// c06NamedWorker: `go f(args)` with a named function or method as the worker. The worker may write only
// through a parameter that receives a pointer to the creator's own slot (&results[i] for the loop index i).
func c06NamedWorker(p *Prog, r *Report, f *ssa.Function, g *ssa.Go, wk *ssa.Function, key string) {
	r.Func(FuncName(wk))
	slot := map[*ssa.Parameter]bool{}
	for i, a := range g.Call.Args {
		if i >= len(wk.Params) {
			break
		}
		if ia, ok := a.(*ssa.IndexAddr); ok && isLoopIndex(ia.Index) {
			if _, isSlice := ia.X.Type().Underlying().(*types.Slice); isSlice {
				slot[wk.Params[i]] = true
			}
		}
	}
	baseParam := func(v ssa.Value) *ssa.Parameter {
		for d := 0; d < 8; d++ {
			switch x := v.(type) {
			case *ssa.Parameter:
				return x
			case *ssa.FieldAddr:
				v = x.X
			case *ssa.IndexAddr:
				v = x.X
			default:
				return nil
			}
		}
		return nil
	}
	var bad []string
	doneInWorker := false
	p.instrs(wk, func(b *ssa.BasicBlock, i int, in ssa.Instruction) {
		switch x := in.(type) {
		case *ssa.Store:
			if localAddr(x.Addr) {
				return
			}
			if pa := baseParam(x.Addr); pa != nil && slot[pa] {
				return
			}
			bad = append(bad, "store to "+sk(x.Addr)+" at "+p.Pos(instrPos(in)))
		case *ssa.MapUpdate:
			if !localAddr(x.Map) {
				bad = append(bad, "map update of "+sk(x.Map))
			}
		case *ssa.Call:
			n := calleeName(x)
			if n == "(*sync.WaitGroup).Done" {
				doneInWorker = true
			}
		case *ssa.Defer:
			if calleeName(x) == "(*sync.WaitGroup).Done" {
				doneInWorker = true
			}
		}
	})
	r.Check("R06c", key+" writes only its own slot", instrPos(g), len(bad) == 0 && len(slot) > 0,
		fmt.Sprintf("the worker %s must write only through a pointer to its own result slot (&slice[loop index]); slot parameters: %d; %s", wk.Name(), len(slot), strings.Join(bad, "; ")))
	var add, wait *ssa.Call
	p.instrs(f, func(b2 *ssa.BasicBlock, i2 int, in2 ssa.Instruction) {
		if c, ok := in2.(*ssa.Call); ok {
			switch calleeName(c) {
			case "(*sync.WaitGroup).Add":
				add = c
			case "(*sync.WaitGroup).Wait":
				wait = c
			}
		}
	})
	okWG := add != nil && wait != nil && dominatesInstr(add, g) && reachesInstr(g, wait)
	if okWG {
		p.instrs(f, func(b2 *ssa.BasicBlock, i2 int, in2 ssa.Instruction) {
			if ret, ok := in2.(*ssa.Return); ok && reachesInstr(g, ret) && !dominatesInstr(wait, ret) {
				okWG = false
			}
		})
	}
	r.Check("R06c", key+" WaitGroup protocol", instrPos(g), okWG && doneInWorker,
		"need wg.Add before every go statement (once with the count, or per iteration), wg.Done in the worker, and wg.Wait before every return that follows the go statement")
}

// holdsReference: a value of type t shares memory with its copies (maps, pointers, slices, channels, functions,
// interfaces, or a struct/array that contains one).
func holdsReference(t types.Type, depth int) bool {
	if depth > 6 {
		return true
	}
	switch u := t.Underlying().(type) {
	case *types.Basic:
		return false
	case *types.Struct:
		for i := 0; i < u.NumFields(); i++ {
			if holdsReference(u.Field(i).Type(), depth+1) {
				return true
			}
		}
		return false
	case *types.Array:
		return holdsReference(u.Elem(), depth+1)
	}
	return true
}
