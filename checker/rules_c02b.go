package main

import (
	"fmt"
	"go/token"
	"go/types"
	"sort"
	"strings"

	"golang.org/x/tools/go/ssa"
)

// lenUpperBound derives the greatest possible length of the slice with key `key` from the relations (-1: unbounded).
func lenUpperBound(rs relSet, key string) int64 {
	ub := int64(-1)
	lk := "len(" + key + ")"
	set := func(n int64) {
		if ub < 0 || n < ub {
			ub = n
		}
	}
	for k := range rs {
		for _, op := range []string{" == ", " < ", " <= "} {
			i := topLevelIndex(k, op)
			if i < 0 {
				continue
			}
			a, b := k[:i], k[i+len(op):]
			var n int64
			switch {
			case a == lk:
				if _, err := fmt.Sscan(b, &n); err != nil {
					continue
				}
				switch op {
				case " == ", " <= ":
					set(n)
				case " < ":
					set(n - 1)
				}
			case b == lk && op == " == ":
				if _, err := fmt.Sscan(a, &n); err == nil {
					set(n)
				}
			}
		}
	}
	return ub
}

// builtinExactArgs: predeclared functions whose argument count is fixed by Go typing.
var builtinExactArgs = map[string]int64{"new": 1, "len": 1, "cap": 1, "copy": 2, "delete": 2, "panic": 1, "uint64": 1, "uint32": 1, "uint8": 1, "string": 1, "byte": 1}

// r02bTable: audited arity drops, keyed "function|slice", applying only where a fact containing Need holds.
var r02bTable = map[string]guardedReason{
	"goose.Ctx.assignStmt|s.Rhs":        {"len(s.Lhs) <= 1", "Go typing: an assignment with one left-hand side has exactly one right-hand side"},
	"goose.Ctx.varSpec|s.Values":        {"len(s.Names) <= 1", "Go typing: a var spec with one name has at most one value"},
	"goose.Ctx.constSpec|spec.Values":   {"len(spec.Names) <= 1", "Go typing: a const spec with one name has at most one value"},
	"goose.Ctx.packageMethod|call.Args": {"\"DPrintf\" == f.Sel.Name", "documented hack in the source: util.DPrintf has no observable behaviour in GooseLang, its variadic arguments are deliberately replaced by #()"},
	"goose.Ctx.makeSliceExpr|args":      {"", "args[0] is only the reported node of the rejection for a wrong argument count"},
	"goose.Ctx.makeExpr|args":           {"", "make(T, n[, c]): the remaining arguments are consumed by makeSliceExpr, which rejects other counts"},
}

func checkR02b(p *Prog, r *Report) {
	type site struct {
		f   *ssa.Function
		x   *ssa.IndexAddr
		k   int64
		key string
	}
	bySlice := map[string][]site{}
	var order []string
	for _, f := range p.FuncsIn(Mod) {
		if isPeekFunc(f) {
			continue
		}
		p.instrs(f, func(b *ssa.BasicBlock, i int, in ssa.Instruction) {
			x, ok := in.(*ssa.IndexAddr)
			if !ok {
				return
			}
			sl, isSlice := x.X.Type().Underlying().(*types.Slice)
			if !isSlice {
				return
			}
			k, ok := constInt(x.Index)
			if !ok {
				return
			}
			// only slices of syntax nodes
			et := types.TypeString(sl.Elem(), nil)
			if !strings.Contains(et, "go/ast.") {
				return
			}
			key := FuncName(f) + "|" + sk(x.X)
			if _, seen := bySlice[key]; !seen {
				order = append(order, key)
			}
			bySlice[key] = append(bySlice[key], site{f, x, k, key})
		})
	}
	sort.Strings(order)
	for _, key := range order {
		sites := bySlice[key]
		f := sites[0].f
		rm := p.Rels(f)
		entry := p.entryRels(f)
		maxK := int64(0)
		for _, s := range sites {
			if s.k > maxK {
				maxK = s.k
			}
		}
		// fully ranged over in the same function?
		ranged := false
		sliceKey := sk(sites[0].x.X)
		p.instrs(f, func(b *ssa.BasicBlock, i int, in ssa.Instruction) {
			if ia, ok := in.(*ssa.IndexAddr); ok && sk(ia.X) == sliceKey {
				if _, isConst := constInt(ia.Index); !isConst {
					ranged = true
				}
			}
			// the remainder s[k:] is kept and used
			if sl, ok := in.(*ssa.Slice); ok && sk(sl.X) == sliceKey && sl.Low != nil {
				ranged = true
			}
		})
		okAll, why := true, ""
		for _, s := range sites {
			rs := p.RelsAt(rm, s.x)
			for k := range entry {
				rs[k] = true
			}
			ub := lenUpperBound(rs, sliceKey)
			switch {
			case ub >= 0 && ub <= maxK+1:
				why = fmt.Sprintf("length facts bound the slice by %d and indices 0..%d are used", ub, maxK)
			case ranged:
				why = "the slice is also iterated completely in this function"
			default:
				// builtin with exact arity
				hit := ""
				if _, fld, ok := fieldOf(s.x.X); ok && fld == "Args" {
					for _, name := range p.resolvedBuiltinNames(rs) {
						if n, ok := builtinExactArgs[name]; ok && n <= maxK+1 {
							hit = fmt.Sprintf("Go typing: the predeclared %s takes exactly %d argument(s)", name, n)
						}
					}
					for fct := range rs {
						if strings.Contains(fct, ".IsType()") && strings.HasSuffix(fct, " == true") {
							hit = "Go typing: a conversion has exactly one argument"
						}
					}
				}
				if pa, ok := s.x.X.(*ssa.Parameter); ok && hit == "" {
					_ = pa
				}
				if hit == "" {
					// a later call in the same block (reached on every continuing path) rejects longer slices
					seen := false
					for _, in2 := range s.x.Block().Instrs {
						if in2 == ssa.Instruction(s.x) {
							seen = true
							continue
						}
						c2, ok := in2.(*ssa.Call)
						if !seen || !ok {
							continue
						}
						if post := p.callPost(c2, 0); post != nil {
							if ub2 := lenUpperBound(post, sliceKey); ub2 >= 0 && ub2 <= maxK+1 {
								hit = fmt.Sprintf("the call of %s that follows on every continuing path returns only when the slice has at most %d element(s)", calleeName(c2), ub2)
							}
						}
					}
				}
				if hit != "" {
					why = hit
				} else if g, ok := auditFind(r02bTable, key); ok && hasFactCanon(rs, g.Need) {
					why = "audited: " + g.Why
				} else {
					okAll = false
					why = fmt.Sprintf("index %d is used but nothing bounds len(%s) by %d and the slice is not iterated: further elements are silently dropped (facts: %v)", s.k, sliceKey, maxK+1, relList(rs))
				}
			}
			if !okAll {
				break
			}
		}
		r.Check("R02b", key, instrPos(sites[0].x), okAll, why)
		if okAll {
			r.Obls[len(r.Obls)-1].Detail = why
		}
	}
}

// ---------------------------------------------------------------------------
// R02c token default rejection

var tokenDomains = map[string][]token.Token{
	"IncDecStmt.Tok": {token.INC, token.DEC},
	"BranchStmt.Tok": {token.BREAK, token.CONTINUE, token.GOTO, token.FALLTHROUGH},
	"RangeStmt.Tok":  {token.ILLEGAL, token.ASSIGN, token.DEFINE},
	"GenDecl.Tok":    {token.IMPORT, token.CONST, token.TYPE, token.VAR},
	"BasicLit.Kind":  {token.INT, token.FLOAT, token.IMAG, token.CHAR, token.STRING},
}

// acceptedRemainders: sets of token values that may share one translation.
var acceptedRemainders = map[string]string{
	"RangeStmt.Tok|:=,ILLEGAL": "`for range x` (no variables, Tok ILLEGAL) and `for k, v := range x` differ only in the variables, which are read separately",
}

// r02cAccepted: handlers in which an unmatched token legitimately falls through, with the reason.
// The entry applies on a path only where the facts resolve the call to the named predeclared function.
var r02cAccepted = map[string]struct{ Builtin, Why string }{
	"BasicLit.Kind": {"panic", "the kind only selects the text of the Panic message (\"oops\" for anything but a string literal); the message has no meaning in GooseLang"},
}

// tokenFieldKeyParts: for a relation operand that is a load of a token field, return "T.F".
func tokenFieldOf(v ssa.Value) (string, bool) {
	ld, ok := v.(*ssa.UnOp)
	if !ok || ld.Op != token.MUL {
		return "", false
	}
	o, fld, okf := fieldOf(ld)
	if !okf || o.Obj().Pkg() == nil || o.Obj().Pkg().Path() != "go/ast" {
		return "", false
	}
	if types.TypeString(ld.Type(), nil) != "go/token.Token" {
		return "", false
	}
	return o.Obj().Name() + "." + fld, true
}

func checkR02c(p *Prog, r *Report) {
	for _, f := range p.FuncsIn(Mod) {
		if isPeekFunc(f) || f.Parent() != nil {
			continue
		}
		// token fields read in f, by key
		type tf struct {
			name string
			key  string
		}
		fields := map[string]tf{}
		p.instrs(f, func(b *ssa.BasicBlock, i int, in ssa.Instruction) {
			if v, ok := in.(ssa.Value); ok {
				if n, ok := tokenFieldOf(v); ok {
					fields[sk(v)] = tf{n, sk(v)}
				}
			}
		})
		if len(fields) == 0 {
			continue
		}
		paths, ok := p.enumPaths(f, 0, 30000)
		if !ok {
			r.Unknown("R02c", FuncName(f)+" token dispatch", f.Pos(), "too many paths to enumerate")
			continue
		}
		for _, fk := range sortedKeys(fields) {
			fld := fields[fk]
			// does any path compare this field at all?
			bad, accepted := "", ""
			nRet, nCmp := 0, 0
			for _, pt := range paths {
				if _, isRet := pt.endsInReturn(); !isRet {
					continue
				}
				pos, neg := map[int64]bool{}, map[int64]bool{}
				hit := false
				touched := false
				for _, fc := range pt.Facts {
					cond := resolveOnPathAt(pt, fc.Cond, fc.At, false)
					val := fc.Val
					// comparisons field == const
					if bo, ok := cond.(*ssa.BinOp); ok && (bo.Op == token.EQL || bo.Op == token.NEQ) {
						var c int64
						var okc bool
						if sk(bo.X) == fk {
							c, okc = constInt(bo.Y)
						} else if sk(bo.Y) == fk {
							c, okc = constInt(bo.X)
						}
						if okc {
							touched = true
							eq := (bo.Op == token.EQL) == val
							if eq {
								pos[c] = true
							} else {
								neg[c] = true
							}
						}
					}
					// map lookup keyed by the field: ok result
					if ex, ok := cond.(*ssa.Extract); ok && ex.Index == 1 {
						if lk, ok := ex.Tuple.(*ssa.Lookup); ok && sk(lk.Index) == fk {
							touched = true
							if val {
								hit = true
							}
						}
					}
					// table function called with the field: ok result
					if ex, ok := cond.(*ssa.Extract); ok && ex.Index == 1 {
						if cl, ok := ex.Tuple.(*ssa.Call); ok && len(cl.Call.Args) >= 1 && sk(cl.Call.Args[len(cl.Call.Args)-1]) == fk {
							if g := calleeOf(&cl.Call); g != nil && g.Pkg != nil && InRepo(g.Pkg.Pkg.Path()) {
								if _, isTab := p.switchTable(g, "", ""); isTab {
									touched = true
									if val {
										hit = true
									}
								}
							}
						}
					}
					if c, ok := cond.(*ssa.Const); ok && c.Value != nil && c.Value.String() == "true" && val {
						// `ok = true` after a positive comparison: covered by pos
					}
				}
				if !touched {
					continue
				}
				nRet++
				nCmp++
				if len(pos) > 0 || hit {
					continue
				}
				// delegation: the path returns the result of a translator function that receives the same node
				// and dispatches on the same field itself (its own obligation)
				if ret, ok := pt.endsInReturn(); ok && len(ret.Results) > 0 {
					if c, ok := resolveOnPath(pt, ret.Results[0]).(*ssa.Call); ok {
						if cal := calleeOf(&c.Call); cal != nil && cal.Pkg != nil && cal.Pkg.Pkg.Path() == Mod {
							nodeKey := strings.TrimSuffix(fk, "."+strings.SplitN(fld.name, ".", 2)[1])
							passes := false
							for _, a := range c.Call.Args {
								if sk(a) == nodeKey {
									passes = true
								}
							}
							readsSame := false
							p.instrs(cal, func(b *ssa.BasicBlock, i int, in ssa.Instruction) {
								if v, ok := in.(ssa.Value); ok {
									if n, ok := tokenFieldOf(v); ok && n == fld.name {
										readsSame = true
									}
								}
							})
							if passes && readsSame {
								continue
							}
						}
					}
				}
				if acc, ok := r02cAccepted[fld.name]; ok {
					rs := pt.rels()
					for k := range p.entryRels(f) {
						rs[k] = true
					}
					under := false
					for _, nm := range p.resolvedBuiltinNames(rs) {
						if nm == acc.Builtin {
							under = true
						}
					}
					if under {
						accepted = acc.Why
						continue
					}
				}
				dom := tokenDomains[fld.name]
				if dom != nil {
					var rem []string
					for _, t := range dom {
						if !neg[int64(t)] {
							rem = append(rem, t.String())
						}
					}
					sort.Strings(rem)
					if len(rem) <= 1 {
						continue
					}
					if _, ok := acceptedRemainders[fld.name+"|"+strings.Join(rem, ",")]; ok {
						continue
					}
					bad = fmt.Sprintf("a normal return is reachable with %s ∈ {%s} undistinguished (path %s)", fld.name, strings.Join(rem, ","), pt.String())
				} else {
					var ns []string
					for c := range neg {
						ns = append(ns, token.Token(c).String())
					}
					sort.Strings(ns)
					bad = fmt.Sprintf("a normal return is reachable when %s is none of the handled operators (only excluded: %v): an unsupported operator is translated like a supported one (path %s)", fld.name, ns, pt.String())
				}
				break
			}
			if nCmp == 0 {
				continue // the field is only forwarded or printed here
			}
			if accepted != "" && bad == "" {
				r.OK("R02c", fmt.Sprintf("%s dispatch on %s (%s)", FuncName(f), fld.name, fk), f.Pos(), "audited fall-through: "+accepted)
				continue
			}
			r.Check("R02c", fmt.Sprintf("%s dispatch on %s (%s)", FuncName(f), fld.name, fk), f.Pos(), bad == "", bad)
		}
	}
}

// ---------------------------------------------------------------------------
// R02d resolved recognition

// spellingClass: v is the spelling of an identifier (ast.Ident.Name, possibly returned through
// repository helpers) or the name of a type's package (Pkg().Name()).
func spellingClass(v ssa.Value, depth int) string {
	if depth > 4 {
		return ""
	}
	switch x := v.(type) {
	case *ssa.UnOp:
		if x.Op == token.MUL {
			if fa, ok := x.X.(*ssa.FieldAddr); ok {
				st := deref(fa.X.Type()).Underlying().(*types.Struct)
				if st.Field(fa.Field).Name() == "Name" && types.TypeString(deref(fa.X.Type()), nil) == "go/ast.Ident" {
					// x.Sel.Name of a selector is a field or method name, not a free identifier
					if ld, ok := fa.X.(*ssa.UnOp); ok {
						if f2, ok := ld.X.(*ssa.FieldAddr); ok {
							st2 := deref(f2.X.Type()).Underlying().(*types.Struct)
							if st2.Field(f2.Field).Name() == "Sel" {
								return ""
							}
						}
					}
					return "identifier"
				}
			}
		}
	case *ssa.Call:
		if x.Call.IsInvoke() && x.Call.Method.Name() == "Name" {
			if c, ok := x.Call.Value.(*ssa.Call); ok && c.Call.IsInvoke() && c.Call.Method.Name() == "Pkg" {
				return "package name of a type (Pkg().Name())"
			}
			if c, ok := x.Call.Value.(*ssa.Call); ok && !c.Call.IsInvoke() {
				if cal := c.Call.StaticCallee(); cal != nil && cal.Name() == "Pkg" && cal.Pkg != nil && cal.Pkg.Pkg.Path() == "go/types" {
					return "package name of a type (Pkg().Name())"
				}
			}
			return ""
		}
		if cal := x.Call.StaticCallee(); cal != nil {
			if cal.Name() == "Name" && cal.Pkg != nil && cal.Pkg.Pkg.Path() == "go/types" && len(x.Call.Args) == 1 {
				if c, ok := x.Call.Args[0].(*ssa.Call); ok {
					if c2 := c.Call.StaticCallee(); (c2 != nil && c2.Name() == "Pkg") || (c.Call.IsInvoke() && c.Call.Method.Name() == "Pkg") {
						return "package name of a type (Pkg().Name())"
					}
				}
				return ""
			}
			if cal.Pkg != nil && InRepo(cal.Pkg.Pkg.Path()) && cal.Signature.Results().Len() == 1 {
				return spellingOfReturns(cal, 0, depth)
			}
		}
	case *ssa.Extract:
		if c, ok := x.Tuple.(*ssa.Call); ok {
			if cal := c.Call.StaticCallee(); cal != nil && cal.Pkg != nil && InRepo(cal.Pkg.Pkg.Path()) {
				return spellingOfReturns(cal, x.Index, depth)
			}
		}
	case *ssa.Phi:
		for _, e := range x.Edges {
			if c := spellingClass(e, depth+1); c != "" {
				return c
			}
		}
	}
	return ""
}

func spellingOfReturns(cal *ssa.Function, idx int, depth int) string {
	for _, b := range cal.Blocks {
		if ret, ok := b.Instrs[len(b.Instrs)-1].(*ssa.Return); ok && idx < len(ret.Results) {
			if c := spellingClass(ret.Results[idx], depth+1); c != "" {
				return c
			}
		}
	}
	return ""
}

// isTypeRecogniser: func(t types.Type, …) bool — the role of isDisk, isLockRef, … whose answer
// selects a library model for every use of the type.
func isTypeRecogniser(f *ssa.Function) bool {
	sig := f.Signature
	if sig.Recv() != nil || sig.Params().Len() == 0 || sig.Results().Len() != 1 {
		return false
	}
	if b, ok := sig.Results().At(0).Type().Underlying().(*types.Basic); !ok || b.Kind() != types.Bool {
		return false
	}
	return types.TypeString(sig.Params().At(0).Type(), nil) == "go/types.Type"
}

// checkR02d: spelling-based recognition, one obligation per (class, literal) — independent of
// which function does the comparison, so moving a recogniser does not change the verdict.
func checkR02d(p *Prog, r *Report) {
	rec := p.resolvedRecognisers()
	type hit struct {
		pos token.Pos
		fns map[string]bool
	}
	spell := map[string]*hit{} // "class: lit"
	add := func(cls, lit string, pos token.Pos, f *ssa.Function) {
		k := cls + ": " + lit
		if spell[k] == nil {
			spell[k] = &hit{pos: pos, fns: map[string]bool{}}
		}
		spell[k].fns[FuncName(f)] = true
	}
	for _, f := range p.FuncsIn(Mod) {
		if rec[f] {
			continue // its comparisons are conjoined with the resolution (checked by resolvedRecognisers)
		}
		rm := p.Rels(f)
		p.instrs(f, func(b *ssa.BasicBlock, i int, in ssa.Instruction) {
			bo, ok := in.(*ssa.BinOp)
			if !ok || (bo.Op != token.EQL && bo.Op != token.NEQ) {
				return
			}
			for _, pr := range [][2]ssa.Value{{bo.X, bo.Y}, {bo.Y, bo.X}} {
				if t, ok := pr[1].Type().Underlying().(*types.Basic); !ok || t.Info()&types.IsString == 0 {
					continue
				}
				cls := spellingClass(pr[0], 0)
				if cls == "" {
					continue
				}
				if c, ok := pr[0].(*ssa.Call); ok && p.returnsResolvedName(calleeOf(&c.Call)) {
					continue // the helper yields the spelling only after resolving the identifier, and a constant otherwise
				}
				lits, _ := p.litOperands(pr[1], in, 0)
				for _, ls := range lits {
					lit := ls.Lit
					if lit == "_" {
						continue // the blank identifier never denotes a declared object: no look-alike exists
					}
					c := cls
					if cls == "identifier" {
						if types.Universe.Lookup(lit) != nil {
							if _, isConst := pr[1].(*ssa.Const); isConst && (p.hasRecogniserFact(p.RelsAt(rm, in)) || p.hasRecogniserFact(p.entryRels(f))) {
								continue // compared only after the identifier was resolved to the predeclared object
							}
							c = "predeclared name"
						} else {
							c = "package-or-type name"
						}
					}
					if isTypeRecogniser(f) {
						c += ", deciding a predicate over types.Type"
					}
					add(c, lit, ls.Pos, ls.Fn)
				}
			}
		})
	}
	for _, k := range sortedKeys(spell) {
		h := spell[k]
		r.Fail("R02d", "recognised by spelling: "+k, h.pos,
			fmt.Sprintf("the meaning is chosen by comparing an identifier's spelling with this literal, not the object it resolves to: a user-defined package, type or function of the same name is given the meaning of the recognised one (compared in %v)", sortedKeys(h.fns)), "")
	}
	// the resolved recognisers themselves
	bases := p.universeBases()
	r.Check("R02d", "a recogniser of predeclared names consults the identifier's object (Parent() == Universe)", token.NoPos, len(bases) >= 1, fmt.Sprintf("%d base recogniser(s)", len(bases)))
	var names []string
	for f := range rec {
		names = append(names, FuncName(f))
		r.Func(FuncName(f))
	}
	sort.Strings(names)
	r.Table("resolved recognisers of predeclared names", names)
	// the builtin translations are selected under resolved facts
	n := 0
	for _, f := range p.FuncsIn(Mod) {
		p.instrs(f, func(b *ssa.BasicBlock, i int, in ssa.Instruction) {
			if c, ok := in.(*ssa.Call); ok && rec[calleeOf(&c.Call)] && !rec[f] {
				n++
			}
		})
	}
	r.Check("R02d", "predeclared functions and types are recognised through the resolved recognisers", token.NoPos, n >= 3, fmt.Sprintf("%d resolved recognition call sites", n))
}

func uniq(s []string) []string {
	var out []string
	for i, x := range s {
		if i == 0 || x != s[i-1] {
			out = append(out, x)
		}
	}
	return out
}

// ---------------------------------------------------------------------------
// R02e control-effect availability

func checkR02e(p *Prog, r *Report) {
	sib := p.Func(Mod, "Ctx.stmtInBlock")
	if sib == nil {
		r.Anchor("R02e", "goose.Ctx.stmtInBlock")
		return
	}
	r.Func(FuncName(sib))
	_ = sib
	var usage *ssa.Parameter
	for _, pa := range sib.Params {
		if strings.HasSuffix(types.TypeString(pa.Type(), nil), "ExprValUsage") {
			usage = pa
		}
	}
	if usage == nil {
		r.Unknown("R02e", "stmtInBlock usage parameter", sib.Pos(), "no ExprValUsage parameter")
		return
	}
	// values of the constants
	consts := map[string]int64{}
	if gp := p.All[Mod]; gp != nil {
		for _, n := range []string{"ExprValLocal", "ExprValReturned", "ExprValLoop"} {
			if c, ok := gp.Types.Scope().Lookup(n).(*types.Const); ok {
				v, _ := constantInt64(c)
				consts[n] = v
			}
		}
	}
	// the translations of return and break/continue may sit in stmtInBlock or in a helper it was split into: every
	// call site in the translator is judged, with the usage parameter of the function it is in and the facts that
	// function's callers establish
	usageOf := func(g *ssa.Function) *ssa.Parameter {
		for _, pa := range g.Params {
			if strings.HasSuffix(types.TypeString(pa.Type(), nil), "ExprValUsage") {
				return pa
			}
		}
		return nil
	}
	factsAt := func(g *ssa.Function, in ssa.Instruction) relSet {
		rs := p.RelsAt(p.Rels(g), in)
		for k := range p.entryRels(g) {
			rs[k] = true
		}
		return rs
	}
	check := func(calleeSuffix, constName, what string) {
		n := 0
		for _, g := range p.FuncsIn(Mod) {
			p.instrs(g, func(b *ssa.BasicBlock, i int, in ssa.Instruction) {
				c, ok := in.(*ssa.Call)
				if !ok || !strings.HasSuffix(calleeName(c), calleeSuffix) {
					return
				}
				n++
				u := usageOf(g)
				rs := factsAt(g, c)
				okU := u != nil && rs[eqRel(fmt.Sprint(consts[constName]), u.Name())]
				r.Check("R02e", what+" only where its control effect is available", instrPos(in), okU,
					fmt.Sprintf("%s is translated without the fact usage == %s (facts %v): the translation would run in a position where the effect does not end the function/loop iteration", what, constName, relList(rs)))
			})
		}
		if n == 0 {
			r.Fail("R02e", what+" only where its control effect is available", sib.Pos(), "no translation of "+what+" found", "")
		}
	}
	check(".returnExpr", "ExprValReturned", "return")
	check(".branchStmt", "ExprValLoop", "break/continue")
	// elsewhere both reach a reporter
	for _, nt := range []string{"ReturnStmt", "BranchStmt"} {
		rej := false
		for _, g := range p.FuncsIn(Mod) {
			p.instrs(g, func(b *ssa.BasicBlock, i int, in ssa.Instruction) {
				if c, ok := in.(*ssa.Call); ok {
					if cal := calleeOf(&c.Call); cal != nil && p.NoReturn(cal) {
						if hasFactContaining(factsAt(g, c), ".(*"+nt+")#1 == true") {
							rej = true
						}
					}
				}
			})
		}
		r.Check("R02e", nt+" in any other position is rejected", sib.Pos(), rej, "no rejecting call under the type test for *ast."+nt)
	}
	// ifStmt: usage propagates into the then-branch with a non-empty remainder only when the branch must end in a control effect and there is no else
	if is := p.Func(Mod, "Ctx.ifStmt"); is != nil {
		r.Func(FuncName(is))
		rmI := p.Rels(is)
		var usageI, rem *ssa.Parameter
		for _, pa := range is.Params {
			if strings.HasSuffix(types.TypeString(pa.Type(), nil), "ExprValUsage") {
				usageI = pa
			}
			if strings.HasSuffix(types.TypeString(pa.Type(), nil), "[]go/ast.Stmt") {
				rem = pa
			}
		}
		n := 0
		p.instrs(is, func(b *ssa.BasicBlock, i int, in ssa.Instruction) {
			c, ok := in.(*ssa.Call)
			if !ok || !strings.HasSuffix(calleeName(c), ".blockStmt") || usageI == nil || rem == nil {
				return
			}
			if c.Call.Args[2] != ssa.Value(usageI) {
				return // translated with ExprValLocal: no effect available, fine
			}
			n++
			rs := p.RelsAt(rmI, c)
			emptyRem := rs[eqRel("0", "len("+rem.Name()+")")]
			ends := false
			for k := range rs {
				if strings.Contains(k, ".endsWithReturn(") && strings.HasSuffix(k, "== true") && strings.Contains(k, "s.Body") {
					ends = true
				}
			}
			r.Check("R02e", fmt.Sprintf("ifStmt propagates the control effect into %s soundly", sk(c.Call.Args[1])), instrPos(in), emptyRem || ends,
				fmt.Sprintf("a branch is translated with the enclosing usage although statements follow the conditional and the branch is not known to end in return/break/continue (facts %v)", relList(rs)))
		})
		if n == 0 {
			r.Unknown("R02e", "ifStmt usage propagation", is.Pos(), "no branch translated with the enclosing usage")
		}
		// with a non-empty remainder and a returning then-branch, a non-empty else is rejected before the remainder is moved into it
		rejElse := false
		p.instrs(is, func(b *ssa.BasicBlock, i int, in ssa.Instruction) {
			if c, ok := in.(*ssa.Call); ok {
				if cal := calleeOf(&c.Call); cal != nil && p.NoReturn(cal) {
					rs := p.RelsAt(rmI, c)
					if hasFactContaining(rs, ".endsWithReturn(") && hasFactContaining(rs, "0 < len(") {
						rejElse = true
					}
				}
			}
		})
		r.Check("R02e", "early return with an else branch and trailing code is rejected", is.Pos(), rejElse, "no rejection under endsWithReturn(then) ∧ len(else) > 0")
	} else {
		r.Anchor("R02e", "goose.Ctx.ifStmt")
	}
	// the must-end-in-control-effect analysis itself
	checkEndsWithReturn(p, r)
	// finalisation is exhaustive: some function of the translator (stmts itself, or the helper it hands an
	// unfinalised list of bindings to) appends the implicit control effect under each of the three usages, and does
	// so only for a block that was not finalised
	{
		best, bestSeen := (*ssa.Function)(nil), map[string]bool{}
		underFlag := false
		for _, g := range p.FuncsIn(Mod) {
			u := usageOf(g)
			if u == nil {
				continue
			}
			rmG := p.Rels(g)
			seen := map[string]bool{}
			flag := false
			p.instrs(g, func(b *ssa.BasicBlock, i int, in ssa.Instruction) {
				c, ok := in.(*ssa.Call)
				if !ok || calleeName(c) != coqPkg+".NewAnon" {
					return
				}
				rs := p.RelsAt(rmG, c)
				for n, v := range consts {
					if rs[eqRel(fmt.Sprint(v), u.Name())] {
						// the appended effect is a constant control expression, not a translated statement
						if _, isCall := stripConv(c.Call.Args[0]).(*ssa.Call); isCall {
							continue
						}
						seen[n] = true
						if hasFactContaining(rs, "phi:finalized") {
							flag = true
						}
					}
				}
			})
			if len(seen) > len(bestSeen) {
				best, bestSeen, underFlag = g, seen, flag
			}
		}
		if best != nil && !underFlag {
			// a helper: every call of it is made for an unfinalised block
			n, okAll := 0, true
			for _, g := range p.FuncsIn(Mod) {
				p.instrs(g, func(b *ssa.BasicBlock, i int, in ssa.Instruction) {
					if c, ok := in.(*ssa.Call); ok && calleeOf(&c.Call) == best {
						n++
						if !hasFactContaining(p.RelsAt(p.Rels(g), c), "finalized") {
							okAll = false
						}
					}
				})
			}
			underFlag = n > 0 && okAll
		}
		pos := sib.Pos()
		if best != nil {
			pos = best.Pos()
			r.Func(FuncName(best))
		}
		r.Check("R02e", "an unfinalised block is completed for every usage", pos, bestSeen["ExprValReturned"] && bestSeen["ExprValLoop"] && bestSeen["ExprValLocal"] && underFlag,
			fmt.Sprintf("finalisation cases found: %v, under the not-finalised fact: %v (need unit return for Returned, Continue for Loop, unit for an empty Local block)", sortedKeys(bestSeen), underFlag))
	}
}

func checkEndsWithReturn(p *Prog, r *Report) {
	ser := p.Func(Mod, "Ctx.stmtsEndWithReturn")
	ewr := p.Func(Mod, "Ctx.endsWithReturn")
	if ser == nil || ewr == nil {
		r.Anchor("R02e", "goose.Ctx.stmtsEndWithReturn / endsWithReturn")
		return
	}
	r.Func(FuncName(ser))
	r.Func(FuncName(ewr))
	// endsWithReturn(nil) is false
	paths, _ := p.enumPaths(ewr, 0, 2000)
	okNil := false
	for _, pt := range paths {
		ret, isRet := pt.endsInReturn()
		if !isRet {
			continue
		}
		rs := pt.rels()
		if rs[eqRel("nil", ewr.Params[1].Name())] || rs[eqRel("nil:go/ast.Stmt", ewr.Params[1].Name())] {
			if c, ok := ret.Results[0].(*ssa.Const); ok && c.Value.String() == "false" {
				okNil = true
			} else {
				okNil = false
				break
			}
		}
	}
	r.Check("R02e", "a missing branch does not count as ending in a control effect", ewr.Pos(), okNil, "endsWithReturn(nil) must be false: an `if` without else falls through")
	// stmtsEndWithReturn: true only for return/branch, or if-with-both-branches
	paths, ok := p.enumPaths(ser, 0, 5000)
	if !ok {
		r.Unknown("R02e", "stmtsEndWithReturn paths", ser.Pos(), "too many paths")
		return
	}
	bad := ""
	nTrue := 0
	for _, pt := range paths {
		ret, isRet := pt.endsInReturn()
		if !isRet {
			continue
		}
		v := resolveOnPath(pt, ret.Results[0])
		rs := pt.rels()
		isRetOrBranch := hasFactContaining(rs, ".(*ReturnStmt)#1 == true") || hasFactContaining(rs, ".(*BranchStmt)#1 == true")
		isIf := hasFactContaining(rs, ".(*IfStmt)#1 == true")
		if c, ok := v.(*ssa.Const); ok {
			if c.Value.String() == "true" {
				nTrue++
				if !isRetOrBranch {
					bad = "returns true on a path where the last statement is neither return nor break/continue: " + pt.String()
				}
			}
			continue
		}
		// a computed result: must be endsWithReturn(else) under the fact endsWithReturn(body) == true, or endsWithReturn(body) itself when false
		if c, ok := v.(*ssa.Call); ok && calleeOf(&c.Call) == ewr && isIf {
			argK := sk(c.Call.Args[1])
			if strings.HasSuffix(argK, ".Else") {
				bodyTrue := false
				for k := range rs {
					if strings.Contains(k, ".endsWithReturn(") && strings.Contains(k, ".Body") && strings.HasSuffix(k, "== true") {
						bodyTrue = true
					}
				}
				if !bodyTrue {
					bad = "the result for an if statement is the else branch's alone (then-branch not required to end in a control effect): " + pt.String()
				}
				continue
			}
			if strings.HasSuffix(argK, ".Body") {
				// only sound as the value of `left && right` when left is false
				bodyFalse := false
				for k := range rs {
					if strings.Contains(k, ".endsWithReturn(") && strings.Contains(k, ".Body") && (strings.HasSuffix(k, "== false") || strings.HasPrefix(k, "false == ")) {
						bodyFalse = true
					}
				}
				if bodyFalse {
					continue
				}
				bad = "the result for an if statement is the then-branch's alone: an `if` without else (or whose else falls through) is reported as always ending in a control effect, so trailing statements are moved into the else position only: " + pt.String()
				continue
			}
		}
		bad = "result " + sk(v) + " is outside the recognised shape (return/branch ⇒ true, if ⇒ then ∧ else, otherwise false): " + pt.String()
	}
	r.Check("R02e", "stmtsEndWithReturn is true only for return/branch or an if whose both branches end so", ser.Pos(), bad == "" && nTrue > 0, bad)
}

// ---------------------------------------------------------------------------
// R02f multi-result agreement

// checkR02f: a binding of several names destructures a tuple, so its right-hand side has to be
// translated in the mode that produces a tuple (v, ok := m[k] is a pair only when asked for one).
// Wherever the translator builds a coq.Binding whose Names are not a single fixed name, the bound
// expression must come from the mode-aware translation — the method of Ctx of type
// func(ast.Expr, bool) coq.Expr — called with the flag len(<names' source>) == 2, unless the facts at
// the construction bound the number of names by one. Sibling constructions (define, assign) thereby agree.
func checkR02f(p *Prog, r *Report) {
	var modeAware *ssa.Function
	for _, g := range p.FuncsIn(Mod) {
		sig := g.Signature
		if sig.Recv() == nil || sig.Params().Len() != 2 || sig.Results().Len() != 1 {
			continue
		}
		if types.TypeString(sig.Params().At(0).Type(), nil) == "go/ast.Expr" && types.TypeString(sig.Params().At(1).Type(), nil) == "bool" &&
			strings.HasSuffix(types.TypeString(sig.Results().At(0).Type(), nil), "coq.Expr") {
			modeAware = g
		}
	}
	if modeAware == nil {
		r.Anchor("R02f", "the mode-aware expression translation func(ast.Expr, bool) coq.Expr")
		return
	}
	r.Func(FuncName(modeAware))
	n := 0
	for _, f := range p.FuncsIn(Mod) {
		rm := p.Rels(f)
		// bindings built in f: alloc -> stores of Names / Expr
		type parts struct{ names, expr *ssa.Store }
		bs := map[ssa.Value]*parts{}
		var order []ssa.Value
		p.instrs(f, func(b *ssa.BasicBlock, i int, in ssa.Instruction) {
			st, ok := in.(*ssa.Store)
			if !ok {
				return
			}
			fa, ok := st.Addr.(*ssa.FieldAddr)
			if !ok {
				return
			}
			o, fld, okf := fieldOf(fa)
			if !okf || o.Obj().Name() != "Binding" || o.Obj().Pkg().Path() != coqPkg {
				return
			}
			if bs[fa.X] == nil {
				bs[fa.X] = &parts{}
				order = append(order, fa.X)
			}
			switch fld {
			case "Names":
				bs[fa.X].names = st
			case "Expr":
				bs[fa.X].expr = st
			}
		})
		for _, a := range order {
			pt := bs[a]
			if pt.names == nil || pt.expr == nil {
				continue
			}
			// a single fixed name or no name: a slice literal of at most one element, or make([]string, 0)
			single := false
			switch x := pt.names.Val.(type) {
			case *ssa.Slice:
				if al, ok := x.X.(*ssa.Alloc); ok {
					if at, ok := deref(al.Type()).Underlying().(*types.Array); ok && at.Len() <= 1 {
						single = true
					}
				}
			case *ssa.MakeSlice:
				if c, ok := constInt(x.Len); ok && c <= 1 {
					single = true
				}
			case *ssa.Const:
				single = true
			}
			if single {
				continue
			}
			rs := p.RelsAt(rm, pt.expr)
			bounded := false
			for k := range rs {
				if strings.HasPrefix(k, "1 == len(") || strings.HasPrefix(k, "0 == len(") {
					bounded = true
				}
			}
			if bounded {
				continue
			}
			n++
			v := pt.expr.Val
			if mi, ok := v.(*ssa.MakeInterface); ok {
				v = mi.X
			}
			okMode, why := false, "the bound expression is "+sk(v)+", not the result of "+modeAware.Name()+"(…, len(…) == 2)"
			if c, ok := v.(*ssa.Call); ok && calleeOf(&c.Call) == modeAware {
				flag := c.Call.Args[len(c.Call.Args)-1]
				fk := sk(flag)
				if strings.HasPrefix(fk, "(2 == len(") || strings.HasPrefix(fk, "(len(") && strings.HasSuffix(fk, " == 2)") {
					okMode, why = true, ""
				} else {
					why = "the tuple-mode flag is " + fk + ", not len(<names' source>) == 2"
				}
			}
			r.Check("R02f", fmt.Sprintf("%s binds several names to a tuple-mode translation", f.Name()), instrPos(pt.expr), okMode, why)
		}
	}
	if n == 0 {
		r.Unknown("R02f", "multi-name bindings", token.NoPos, "no construction of a binding with several names found")
	}
}

// returnsResolvedName: a function of the translator with one string result that returns a non-constant value only
// on paths where a resolved recogniser held (the identifier denotes the predeclared object), and a constant on all
// other paths: comparing its result with a predeclared name is a comparison after resolution.
func (p *Prog) returnsResolvedName(g *ssa.Function) bool {
	if g == nil || g.Pkg == nil || g.Pkg.Pkg.Path() != Mod || len(g.Blocks) == 0 || g.Signature.Results().Len() != 1 {
		return false
	}
	rm := p.Rels(g)
	n, ok := 0, true
	p.instrs(g, func(b *ssa.BasicBlock, i int, in ssa.Instruction) {
		ret, isRet := in.(*ssa.Return)
		if !isRet || len(ret.Results) != 1 {
			return
		}
		if _, isConst := ret.Results[0].(*ssa.Const); isConst {
			return
		}
		n++
		if !p.hasRecogniserFact(p.RelsAt(rm, ret)) {
			ok = false
		}
	})
	return ok && n > 0
}
