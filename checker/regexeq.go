package main

import (
	"fmt"
	"regexp/syntax"
	"sort"
	"strings"
	"unicode"
)

// A9: regular-language equivalence. Regular expressions are parsed with
// regexp/syntax, translated to Thompson NFAs over rune ranges, and compared by
// a simultaneous subset construction over a common partition of the rune space.
// No text is matched against anything.

type nfaEdge struct {
	lo, hi rune // inclusive; eps if lo > hi
	to     int
}

type nfa struct {
	edges [][]nfaEdge
	start int
	final int
}

func (n *nfa) newState() int {
	n.edges = append(n.edges, nil)
	return len(n.edges) - 1
}

func (n *nfa) eps(a, b int) { n.edges[a] = append(n.edges[a], nfaEdge{1, 0, b}) }

func (n *nfa) arc(a, b int, lo, hi rune) { n.edges[a] = append(n.edges[a], nfaEdge{lo, hi, b}) }

// build returns (start, end) of the fragment for re.
func (n *nfa) build(re *syntax.Regexp, atStart bool) (int, int, error) {
	s, e := n.newState(), n.newState()
	switch re.Op {
	case syntax.OpEmptyMatch:
		n.eps(s, e)
	case syntax.OpLiteral:
		cur := s
		for i, r := range re.Rune {
			nx := e
			if i < len(re.Rune)-1 {
				nx = n.newState()
			}
			n.arc(cur, nx, r, r)
			if re.Flags&syntax.FoldCase != 0 {
				for f := unicode.SimpleFold(r); f != r; f = unicode.SimpleFold(f) {
					n.arc(cur, nx, f, f)
				}
			}
			cur = nx
		}
		if len(re.Rune) == 0 {
			n.eps(s, e)
		}
	case syntax.OpCharClass:
		for i := 0; i+1 < len(re.Rune); i += 2 {
			n.arc(s, e, re.Rune[i], re.Rune[i+1])
		}
	case syntax.OpAnyCharNotNL:
		n.arc(s, e, 0, '\n'-1)
		n.arc(s, e, '\n'+1, unicode.MaxRune)
	case syntax.OpAnyChar:
		n.arc(s, e, 0, unicode.MaxRune)
	case syntax.OpBeginText, syntax.OpBeginLine:
		if !atStart {
			return 0, 0, fmt.Errorf("anchor ^ not at the start of the pattern is outside the supported fragment")
		}
		n.eps(s, e)
	case syntax.OpCapture:
		a, b, err := n.build(re.Sub[0], atStart)
		if err != nil {
			return 0, 0, err
		}
		n.eps(s, a)
		n.eps(b, e)
	case syntax.OpConcat:
		cur := s
		first := atStart
		for _, sub := range re.Sub {
			a, b, err := n.build(sub, first)
			if err != nil {
				return 0, 0, err
			}
			n.eps(cur, a)
			cur = b
			// only leading zero-width anchors keep "at start"
			if !(sub.Op == syntax.OpBeginText || sub.Op == syntax.OpBeginLine || sub.Op == syntax.OpEmptyMatch) {
				first = false
			}
			if sub.Op == syntax.OpCapture || sub.Op == syntax.OpConcat {
				first = first && leadsWithAnchorOnly(sub)
			}
		}
		n.eps(cur, e)
	case syntax.OpAlternate:
		for _, sub := range re.Sub {
			a, b, err := n.build(sub, atStart)
			if err != nil {
				return 0, 0, err
			}
			n.eps(s, a)
			n.eps(b, e)
		}
	case syntax.OpStar, syntax.OpPlus, syntax.OpQuest:
		a, b, err := n.build(re.Sub[0], false)
		if err != nil {
			return 0, 0, err
		}
		n.eps(s, a)
		n.eps(b, e)
		if re.Op != syntax.OpPlus {
			n.eps(s, e)
		}
		if re.Op != syntax.OpQuest {
			n.eps(b, a)
		}
	case syntax.OpRepeat:
		cur := s
		for i := 0; i < re.Min; i++ {
			a, b, err := n.build(re.Sub[0], false)
			if err != nil {
				return 0, 0, err
			}
			n.eps(cur, a)
			cur = b
		}
		if re.Max < 0 {
			a, b, err := n.build(re.Sub[0], false)
			if err != nil {
				return 0, 0, err
			}
			n.eps(cur, a)
			n.eps(b, a)
			n.eps(b, e)
			n.eps(cur, e)
		} else {
			n.eps(cur, e)
			for i := re.Min; i < re.Max; i++ {
				a, b, err := n.build(re.Sub[0], false)
				if err != nil {
					return 0, 0, err
				}
				n.eps(cur, a)
				n.eps(b, e)
				cur = b
			}
		}
	default:
		return 0, 0, fmt.Errorf("regexp operator %v is outside the supported fragment", re.Op)
	}
	return s, e, nil
}

func leadsWithAnchorOnly(re *syntax.Regexp) bool {
	switch re.Op {
	case syntax.OpBeginText, syntax.OpBeginLine, syntax.OpEmptyMatch:
		return true
	case syntax.OpCapture:
		return leadsWithAnchorOnly(re.Sub[0])
	case syntax.OpConcat:
		for _, s := range re.Sub {
			if !leadsWithAnchorOnly(s) {
				return false
			}
		}
		return true
	}
	return false
}

func nfaOf(re *syntax.Regexp) (*nfa, error) {
	n := &nfa{}
	s, e, err := n.build(re, true)
	if err != nil {
		return nil, err
	}
	n.start, n.final = s, e
	return n, nil
}

func (n *nfa) closure(set map[int]bool) {
	var stack []int
	for s := range set {
		stack = append(stack, s)
	}
	for len(stack) > 0 {
		s := stack[len(stack)-1]
		stack = stack[:len(stack)-1]
		for _, ed := range n.edges[s] {
			if ed.lo > ed.hi && !set[ed.to] {
				set[ed.to] = true
				stack = append(stack, ed.to)
			}
		}
	}
}

func (n *nfa) step(set map[int]bool, r rune) map[int]bool {
	out := map[int]bool{}
	for s := range set {
		for _, ed := range n.edges[s] {
			if ed.lo <= ed.hi && ed.lo <= r && r <= ed.hi {
				out[ed.to] = true
			}
		}
	}
	n.closure(out)
	return out
}

func setKey(m map[int]bool) string {
	var ks []int
	for k := range m {
		ks = append(ks, k)
	}
	sort.Ints(ks)
	var b strings.Builder
	for _, k := range ks {
		fmt.Fprintf(&b, "%d,", k)
	}
	return b.String()
}

// representatives: one rune from each cell of the partition induced by all arc boundaries.
func representatives(ns ...*nfa) []rune {
	cuts := map[rune]bool{0: true}
	for _, n := range ns {
		for _, es := range n.edges {
			for _, e := range es {
				if e.lo <= e.hi {
					cuts[e.lo] = true
					if e.hi < unicode.MaxRune {
						cuts[e.hi+1] = true
					}
				}
			}
		}
	}
	var rs []rune
	for c := range cuts {
		rs = append(rs, c)
	}
	sort.Slice(rs, func(i, j int) bool { return rs[i] < rs[j] })
	return rs
}

// langEquivalent decides L(a) == L(b) (whole-string languages); on difference it
// returns a shortest distinguishing string and which side accepts it.
func langEquivalent(a, b *nfa) (bool, string, string) {
	reps := representatives(a, b)
	type pair struct {
		sa, sb map[int]bool
		w      []rune
	}
	sa := map[int]bool{a.start: true}
	a.closure(sa)
	sb := map[int]bool{b.start: true}
	b.closure(sb)
	seen := map[string]bool{setKey(sa) + "|" + setKey(sb): true}
	q := []pair{{sa, sb, nil}}
	for len(q) > 0 {
		p := q[0]
		q = q[1:]
		fa, fb := p.sa[a.final], p.sb[b.final]
		if fa != fb {
			who := "only the first accepts"
			if fb {
				who = "only the second accepts"
			}
			return false, string(p.w), who
		}
		for _, r := range reps {
			na, nb := a.step(p.sa, r), b.step(p.sb, r)
			if len(na) == 0 && len(nb) == 0 {
				continue
			}
			k := setKey(na) + "|" + setKey(nb)
			if seen[k] {
				continue
			}
			seen[k] = true
			w := append(append([]rune{}, p.w...), r)
			q = append(q, pair{na, nb, w})
		}
	}
	return true, "", ""
}

// regexEquiv parses both patterns (Perl syntax, as regexp.MustCompile does) and compares their languages.
func regexEquiv(p1, p2 string) (bool, string, error) {
	r1, err := syntax.Parse(p1, syntax.Perl)
	if err != nil {
		return false, "", err
	}
	r2, err := syntax.Parse(p2, syntax.Perl)
	if err != nil {
		return false, "", err
	}
	// FindStringSubmatch searches: a pattern that does not start with ^ matches anywhere in the line
	r1, r2 = searchForm(r1), searchForm(r2)
	n1, err := nfaOf(r1)
	if err != nil {
		return false, "", err
	}
	n2, err := nfaOf(r2)
	if err != nil {
		return false, "", err
	}
	eq, w, who := langEquivalent(n1, n2)
	if !eq {
		return false, fmt.Sprintf("%q: %s", w, who), nil
	}
	return true, "", nil
}

// captureSub returns the sub-expression of capture group idx (1-based).
func captureSub(re *syntax.Regexp, idx int) *syntax.Regexp {
	if re.Op == syntax.OpCapture && re.Cap == idx {
		return re.Sub[0]
	}
	for _, s := range re.Sub {
		if r := captureSub(s, idx); r != nil {
			return r
		}
	}
	return nil
}

// topLevelShape flattens the top-level concatenation into a list of items:
// "cap<N>" for capture groups, "lit:<text>" for literals, "other" for anything else
// (non-capturing groups are flattened).
func topLevelShape(re *syntax.Regexp) []string {
	var out []string
	var walk func(r *syntax.Regexp)
	walk = func(r *syntax.Regexp) {
		switch r.Op {
		case syntax.OpConcat:
			for _, s := range r.Sub {
				walk(s)
			}
		case syntax.OpCapture:
			out = append(out, fmt.Sprintf("cap%d", r.Cap))
		case syntax.OpLiteral:
			out = append(out, "lit:"+string(r.Rune))
		case syntax.OpBeginText, syntax.OpBeginLine, syntax.OpEmptyMatch:
		default:
			out = append(out, "other")
		}
	}
	walk(re)
	return out
}

// startsAnchored: every match of re begins at the start of the text.
func startsAnchored(re *syntax.Regexp) bool {
	switch re.Op {
	case syntax.OpBeginText, syntax.OpBeginLine:
		return true
	case syntax.OpCapture:
		return startsAnchored(re.Sub[0])
	case syntax.OpConcat:
		for _, s := range re.Sub {
			if startsAnchored(s) {
				return true
			}
			if s.Op != syntax.OpEmptyMatch {
				return false
			}
		}
	case syntax.OpAlternate:
		for _, s := range re.Sub {
			if !startsAnchored(s) {
				return false
			}
		}
		return len(re.Sub) > 0
	}
	return false
}

// searchForm gives an unanchored pattern the meaning it has under a search: any prefix may precede it.
func searchForm(re *syntax.Regexp) *syntax.Regexp {
	if startsAnchored(re) {
		return re
	}
	any := &syntax.Regexp{Op: syntax.OpStar, Sub: []*syntax.Regexp{{Op: syntax.OpAnyChar}}}
	return &syntax.Regexp{Op: syntax.OpConcat, Sub: []*syntax.Regexp{any, re}}
}
