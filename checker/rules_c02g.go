package main

import (
	"fmt"
	"go/ast"
	"go/constant"
	"go/token"
	"go/types"
	"os"
	"strings"

	"golang.org/x/tools/go/ssa"
)

// placeholderValue reports whether v is a value that carries no translation: nil, the empty string, or the zero
// value of a struct type (an empty composite literal, possibly boxed into an interface).
func placeholderValue(v ssa.Value) bool {
	switch v := v.(type) {
	case *ssa.Const:
		if v.Value == nil { // nil or the zero value of an aggregate
			if st, ok := v.Type().Underlying().(*types.Struct); ok && st.NumFields() == 0 {
				return false // a field-less struct is a complete value (coq.PtrType{})
			}
			return true
		}
		if b, ok := v.Type().Underlying().(*types.Basic); ok && b.Info()&types.IsString != 0 {
			// the empty string, or a marker such as TypeIdent("<invalid>")
			s := constant.StringVal(v.Value)
			return s == "" || strings.HasPrefix(s, "<") && strings.HasSuffix(s, ">")
		}
		return false
	case *ssa.MakeInterface:
		return placeholderValue(v.X)
	case *ssa.UnOp:
		// load of a local composite that nothing was stored into
		if al, ok := v.X.(*ssa.Alloc); ok && !al.Heap || ok && al.Comment == "complit" {
			if _, isStruct := al.Type().(*types.Pointer).Elem().Underlying().(*types.Struct); !isStruct {
				return false
			}
			for _, ref := range *al.Referrers() {
				switch ref := ref.(type) {
				case *ssa.UnOp, *ssa.DebugRef:
				case *ssa.FieldAddr:
					for _, r2 := range *ref.Referrers() {
						if _, isStore := r2.(*ssa.Store); isStore {
							return false
						}
					}
				default:
					return false
				}
			}
			return true
		}
	}
	return false
}

// r02gAudit: reachable placeholder returns that are neither dead nor the image of an absent input, keyed by the
// syntax node type the function translates (its first go/ast parameter), the placeholder, and a fact that
// must hold at the return ("" for none).
var r02gAudit = []struct{ node, ret, fact, why string }{
	{"*", "nil", ".Specs)", "a declaration group without specs (`type ()`, `var ()`) declares nothing"},
}

// translationResult reports whether t (or its element type) is a type of the GooseLang syntax package.
func translationResult(t types.Type) bool {
	switch u := t.(type) {
	case *types.Slice:
		return translationResult(u.Elem())
	case *types.Pointer:
		return translationResult(u.Elem())
	case *types.Named:
		return u.Obj().Pkg() != nil && u.Obj().Pkg().Path() == coqPkg
	case *types.Alias:
		return translationResult(types.Unalias(u))
	}
	return false
}

// absenceFact: the relation says that something rooted at a parameter is absent (nil, or of length zero).
func absenceFact(rel string, params map[string]bool) bool {
	// the parameter itself (not a part of it: an empty Names list of a present Field is not an absent field)
	rooted := func(k string) bool {
		if strings.HasPrefix(k, "len(") && strings.HasSuffix(k, ")") {
			k = k[4 : len(k)-1]
		}
		return params[k]
	}
	for _, op := range []string{" == ", " <= "} {
		if i := topLevelIndex(rel, op); i > 0 {
			a, b := rel[:i], rel[i+len(op):]
			if op == " == " && (a == "nil" && rooted(b) || b == "nil" && rooted(a)) {
				return true
			}
			if strings.HasPrefix(a, "len(") && b == "0" && rooted(a) || op == " == " && strings.HasPrefix(b, "len(") && a == "0" && rooted(b) {
				return true
			}
		}
	}
	return false
}

// checkR02g: a translator function returns a placeholder only after it has rejected the construct.
// checkR02g: a translator function returns a placeholder only after it has rejected the construct.
func checkR02g(p *Prog, r *Report) {
	for _, f := range p.FuncsIn(Mod) {
		if len(f.Blocks) == 0 || f.Signature.Results().Len() == 0 {
			continue
		}
		tr := false
		for i := 0; i < f.Signature.Results().Len(); i++ {
			if translationResult(f.Signature.Results().At(i).Type()) {
				tr = true
			}
		}
		if !tr {
			continue
		}
		r.Func(FuncName(f))
		params := map[string]bool{}
		for _, pa := range f.Params {
			params[pa.Name()] = true
		}
		for _, fv := range f.FreeVars {
			params[fv.Name()] = true
		}
		reach := p.reachable(f)
		var rm map[*ssa.BasicBlock]relSet
		nth := 0
		for _, b := range f.Blocks {
			if len(b.Instrs) == 0 {
				continue
			}
			ret, ok := b.Instrs[len(b.Instrs)-1].(*ssa.Return)
			if !ok || len(ret.Results) == 0 {
				continue
			}
			all := true
			for _, v := range ret.Results {
				if !placeholderValue(v) {
					all = false
				}
			}
			if !all {
				// a result variable that still holds its placeholder on some way into the return: `var e coq.Expr;
				// switch … { default: reject() }; return e`
				if len(ret.Results) == 1 {
					_, isIface := ret.Results[0].Type().Underlying().(*types.Interface)
					// (a nil slice is the empty list an accumulating loop starts from)
					if ph, ok := ret.Results[0].(*ssa.Phi); ok && isIface {
						for i, e := range ph.Edges {
							pred := ph.Block().Preds[i]
							if !placeholderValue(e) {
								continue
							}
							r.Sites++
							nth++
							key := fmt.Sprintf("%s returns %s left unset (#%d)", FuncName(f), sk(e), nth)
							if !reach[pred] || p.blockDiverges(pred) {
								r.OK("R02g", key+" (after a rejection)", instrPos(ret), "the way into the return on which the result is still unset ends in a diverging rejection")
							} else {
								r.Unknown("R02g", key, instrPos(ret), fmt.Sprintf("%s returns its result variable, which is still %s when control arrives from block %d without a rejection: the construct is translated as an empty term", f.Name(), sk(e), pred.Index))
							}
						}
					}
				}
				continue
			}
			r.Sites++
			nth++
			key := fmt.Sprintf("%s returns %s (#%d)", FuncName(f), strings.Join(mapKeys(ret.Results), ", "), nth)
			if !reach[b] || p.blockDiverges(b) {
				r.OK("R02g", key+" (after a rejection)", instrPos(ret), "unreachable: a diverging rejection precedes it")
				continue
			}
			if rm == nil {
				rm = p.Rels(f)
			}
			abs := ""
			for k := range p.RelsAt(rm, ret) {
				if absenceFact(k, params) {
					abs = k
				}
			}
			if os.Getenv("VERIF_DEBUG") == "R02g" {
				fmt.Println("R02g", key, "abs=", abs, relList(p.RelsAt(rm, ret)))
			}
			if abs != "" {
				r.OK("R02g", key+" (absent input)", instrPos(ret), "returned under the fact "+abs+": nothing to translate")
				continue
			}
			// infeasible: every abstract path of the function that ends in this return is contradictory (the
			// cases before it are exhaustive)
			// callees stay opaque: the case split is local, and splicing the expression translator only
			// multiplies paths
			keepAll := map[*ssa.Function]bool{}
			for _, g := range p.srcFuncs {
				if g != f {
					keepAll[g] = true
				}
			}
			ips, okI := p.ipathsKeeping(f, keepAll)
			if os.Getenv("VERIF_DEBUG") == "R02g" {
				fmt.Println("R02g ipaths", key, okI, len(ips))
			}
			if ok := okI; ok {
				n := 0
				for _, ip := range ips {
					if ip.Exit == "return" && ip.RetIn == ret {
						n++
					}
				}
				if os.Getenv("VERIF_DEBUG") == "R02g" {
					for _, ip := range ips {
						if ip.Exit == "return" && ip.RetIn == ret {
							fmt.Println("R02g feasible", key, ip.Trace, relList(ip.Rels))
							break
						}
					}
				}
				if n == 0 {
					r.OK("R02g", key+" (infeasible)", instrPos(ret), "no feasible abstract path of the function ends in this return: the cases tested before it are exhaustive")
					continue
				}
			}
			short := f.Name()
			node := ""
			for _, pa := range f.Params {
				if strings.Contains(pa.Type().String(), "go/ast.") && node == "" {
					node = pa.Type().String()
				}
			}
			audited := ""
			for _, a := range r02gAudit {
				if a.node != "*" && a.node != node || a.ret != strings.Join(mapKeys(ret.Results), ",") {
					continue
				}
				if a.fact == "" {
					audited = a.why
				}
				for k := range p.RelsAt(rm, ret) {
					if a.fact != "" && strings.Contains(k, a.fact) && (strings.HasPrefix(k, "0 == len(") || strings.HasSuffix(k, " <= 0")) {
						audited = a.why
					}
				}
			}
			if audited != "" {
				r.OK("R02g", key+" (audited)", instrPos(ret), "audited: "+audited)
				continue
			}
			r.Unknown("R02g", key, instrPos(ret), fmt.Sprintf("%s can return the placeholder %s without having rejected the construct (no diverging rejection call precedes the return, and no fact says the input was absent): the construct would be dropped or translated as an empty term without an error", short, strings.Join(mapKeys(ret.Results), ", ")))
		}
	}
}

func mapKeys(vs []ssa.Value) []string {
	var out []string
	for _, v := range vs {
		out = append(out, sk(v))
	}
	return out
}

// checkEmptyGuards: a branch of the translator that tests something and then does nothing on either arm has no
// effect; where it reads syntax it is a guard whose rejection is missing (the field counts as consumed for R02a
// although nothing follows from the test).
func checkEmptyGuards(p *Prog, r *Report) {
	pk := p.All[Mod]
	if pk == nil {
		return
	}
	n := 0
	for _, f := range pk.Syntax {
		ast.Inspect(f, func(nd ast.Node) bool {
			// a type switch over syntax or type values with an empty clause accepts that kind of node and does
			// nothing with it; an empty default of any switch accepts everything that was not listed
			switch sw := nd.(type) {
			case *ast.TypeSwitchStmt:
				for _, c := range sw.Body.List {
					if cc := c.(*ast.CaseClause); len(cc.Body) == 0 {
						what := "default"
						if len(cc.List) > 0 {
							what = "case " + types.ExprString(cc.List[0])
						}
						r.Fail("R02g", "clause without effect: type switch "+what, cc.Pos(), "the "+what+" clause of this type switch is empty: nodes of that kind are accepted and ignored instead of being translated or rejected", "")
					}
				}
			case *ast.SwitchStmt:
				for _, c := range sw.Body.List {
					if cc := c.(*ast.CaseClause); len(cc.Body) == 0 && cc.List == nil {
						r.Fail("R02g", "clause without effect: default", cc.Pos(), "the default clause of this switch is empty: every value that was not listed is accepted and falls through to the code after the switch", "")
					}
				}
			}
			is, ok := nd.(*ast.IfStmt)
			if !ok {
				return true
			}
			n++
			if len(is.Body.List) == 0 && is.Else == nil {
				r.Fail("R02g", "guard without effect: if "+types.ExprString(is.Cond), is.Pos(),
					"the branch on `"+types.ExprString(is.Cond)+"` has an empty body and no else: whatever it was guarding against is now accepted silently", "")
			}
			return true
		})
	}
	r.Check("R02g", "no guard of the translator is without effect", token.NoPos, n > 0, "no if statement found in the translator package")
}
