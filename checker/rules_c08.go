package main

import (
	"fmt"
	"go/token"
	"go/types"
	"sort"
	"strings"

	"golang.org/x/tools/go/ssa"
)

// globalMapLiteral extracts a package-level map variable initialised with constant keys/values in init.
func globalMapLiteral(p *Prog, g *ssa.Global) (map[string]string, bool) {
	initF := g.Pkg.Func("init")
	if initF == nil {
		return nil, false
	}
	var mk ssa.Value
	for _, b := range initF.Blocks {
		for _, in := range b.Instrs {
			if st, ok := in.(*ssa.Store); ok && st.Addr == ssa.Value(g) {
				mk = st.Val
			}
		}
	}
	if mk == nil {
		return nil, false
	}
	out := map[string]string{}
	for _, rf := range refs(mk) {
		mu, ok := rf.(*ssa.MapUpdate)
		if !ok || mu.Map != mk {
			continue
		}
		k, ok1 := constString(mu.Key)
		if !ok1 {
			return nil, false
		}
		if v, ok := constString(mu.Value); ok {
			out[k] = v
		} else if c, ok := mu.Value.(*ssa.Const); ok && c.Value != nil {
			out[k] = c.Value.String()
		} else {
			return nil, false
		}
	}
	return out, true
}

// lookupGlobal: the global whose loaded map is the X of a Lookup instruction.
func lookupGlobal(lk *ssa.Lookup) *ssa.Global {
	if ld, ok := lk.X.(*ssa.UnOp); ok {
		if g, ok := ld.X.(*ssa.Global); ok {
			return g
		}
	}
	return nil
}

func checkC08(p *Prog, r *Report) {
	r.Rule("R08a", "tables: every FFI package is a builtin import (modelled by the prelude, never Required); the machine/X and primitive/X spellings of one FFI map to the same prelude", 6)
	r.Rule("R08b", "import-graph walk: the pre-visit callback returns false exactly when the visited package's path is in the FFI table (constant results, decided by that lookup alone), the post-visit callback records exactly on the same lookup, more than one FFI reaches a refusal (non-nil error or no-return), the single FFI or \"none\" is returned otherwise", 5)
	r.Rule("R08c", "header/footer: the value \"none\" yields the generic Section header and the matching End footer; any other value yields the ffi.<value>_prelude import and an empty footer", 3)
	r.Rule("R08d", "one path mapping: the import path reaches the emitted Require and the output file path only through pathToCoqPath (which maps '.' and '-' to '_'); the trusted prefix selects the trusted namespace", 5)
	r.Rule("R08e", "imports: an ImportDecl is produced exactly for paths not in the builtin table; renamed imports are rejected; the header (prelude) comes from getFfi of the package; imports are printed once, sorted and de-duplicated (with C06 R06e)", 5)
	r.Assume = append(r.Assume, "Coq resolving the Require is not decided", "packages.Visit calls pre before descending and post after, as documented")
	gf := p.Func(Mod, "getFfi")
	if gf == nil {
		r.Anchor("R08b", "goose.getFfi")
		return
	}
	r.Func(FuncName(gf))
	// --- identify the FFI table by role: the global looked up inside getFfi's callbacks
	// the walk may live in getFfi itself or in a helper it calls
	var visit *ssa.Call
	var wf *ssa.Function
	for _, g := range append([]*ssa.Function{gf}, directCallees(p, gf)...) {
		p.instrs(g, func(b *ssa.BasicBlock, i int, in ssa.Instruction) {
			if c, ok := in.(*ssa.Call); ok && calleeName(c) == "golang.org/x/tools/go/packages.Visit" {
				visit, wf = c, g
			}
		})
	}
	// … or be a hand-written recursion over the imports
	var rw *ssa.Function
	if visit == nil {
		rw = findRecursiveWalker(p, gf)
		if rw == nil {
			r.Fail("R08b", "getFfi walks the import graph", gf.Pos(), "neither a packages.Visit call nor a recursive walk over Package.Imports", "")
			return
		}
		r.Func(FuncName(rw))
	}
	gfPaths := func() ([]ipath, bool) {
		if rw != nil {
			return p.ipathsKeeping(gf, map[*ssa.Function]bool{rw: true})
		}
		return p.ipaths(gf)
	}
	// an FFI name is returned only after the walk and only under the fact that at most one FFI was seen
	if ips, ok := gfPaths(); ok {
		bad, n := "", 0
		for _, ip := range ips {
			if ip.Exit != "return" || len(ip.Ret) != 2 || ip.Ret[1] != "nil" || ip.Ret[0] == `"none"` {
				continue
			}
			n++
			walked := len(ip.eventsOf("golang.org/x/tools/go/packages.Visit")) > 0 || rw != nil && len(ip.eventsOf(fullName(rw))) > 0
			counted := false
			for k := range ip.Rels {
				if strings.HasPrefix(k, "len(") && strings.HasSuffix(k, ") <= 1") || strings.HasPrefix(k, "1 == len(") || strings.HasPrefix(k, "len(") && strings.HasSuffix(k, ") == 1") {
					counted = true
				}
			}
			if !walked || !counted {
				bad = fmt.Sprintf("the FFI %s is returned on a path that did not walk the import graph (walked=%v) or did not establish that at most one FFI is used (counted=%v): %s", ip.Ret[0], walked, counted, ip.Trace)
			}
		}
		r.Check("R08b", "an FFI is chosen only after the whole walk, when at most one was seen", gf.Pos(), n > 0 && bad == "", bad)
	} else {
		r.Unknown("R08b", "an FFI is chosen only after the whole walk, when at most one was seen", gf.Pos(), "paths of getFfi could not be enumerated")
	}
	var ffiT *strTable
	visitChecks := func() bool {
		cbFunc := func(v ssa.Value) *ssa.Function {
			switch x := v.(type) {
			case *ssa.Function:
				return x
			case *ssa.MakeClosure:
				return x.Fn.(*ssa.Function)
			}
			return nil
		}
		pre, post := cbFunc(visit.Call.Args[1]), cbFunc(visit.Call.Args[2])
		if c, isNil := visit.Call.Args[2].(*ssa.Const); isNil && c.Value == nil && pre != nil {
			// one callback does both: packages.Visit calls pre exactly once per package, so recording there
			// (under the lookup hit) is as good as recording on the way back
			post = pre
		}
		if pre == nil || post == nil {
			r.Fail("R08b", "getFfi callbacks", instrPos(visit), "pre/post callbacks are not function literals", "")
			return false
		}
		findTest := func(f *ssa.Function) *tableTest {
			ts := p.tableTests(f)
			if len(ts) == 0 {
				return nil
			}
			return &ts[len(ts)-1]
		}
		preT, postT := findTest(pre), findTest(post)
		if preT != nil {
			ffiT = preT.Table
		}
		// pre-visit shape
		{
			ok, why := true, ""
			if preT == nil {
				ok, why = false, "pre-visit does not test membership in a constant table of FFI packages"
			} else {
				_, fld, okf := fieldOf(preT.Key)
				if !okf || fld != "PkgPath" {
					ok, why = false, "pre-visit looks up "+sk(preT.Key)+", expected the visited package's PkgPath"
				}
				nRet := 0
				seenVals := map[bool]bool{}
				ips, okp := p.ipathsKeeping(pre, keepTableFuncs(p, pre))
				if !okp {
					ok, why = false, "paths of the pre-visit callback could not be enumerated"
				}
				for _, ip := range ips {
					if ip.Exit != "return" || len(ip.Ret) != 1 {
						continue
					}
					nRet++
					switch ip.Ret[0] {
					case "true":
						seenVals[true] = true
						if !preT.holds(ip.Rels, false) {
							ok, why = false, "pre-visit returns true (descend) without the fact that the package is not an FFI"
						}
					case "false":
						seenVals[false] = true
						if !preT.holds(ip.Rels, true) {
							ok, why = false, "pre-visit returns false (prune) for a package that is not an FFI"
						}
					default:
						// `return !isFfi`: the returned value is the negated membership itself
						if ip.Ret[0] != "!"+preT.OkKey && ip.Ret[0] != "(!"+preT.OkKey+")" {
							ok, why = false, "pre-visit returns a computed value ("+ip.Ret[0]+"): whether the walk descends must depend only on the FFI lookup"
						} else {
							seenVals[true], seenVals[false] = true, true
						}
					}
				}
				if (!seenVals[true] || !seenVals[false]) && ok {
					ok, why = false, "pre-visit never prunes or never descends"
				}
				_ = nRet
			}
			r.Check("R08b", "pre-visit prunes exactly at FFI packages", pre.Pos(), ok, why)
		}
		// post-visit shape
		{
			ok, why := true, ""
			if postT == nil || postT.Table != ffiT {
				ok, why = false, "post-visit does not look up the same FFI table"
			} else {
				_, fld, okf := fieldOf(postT.Key)
				if !okf || fld != "PkgPath" {
					ok, why = false, "post-visit looks up "+sk(postT.Key)
				}
				rm := p.Rels(post)
				nUpd := 0
				p.instrs(post, func(b *ssa.BasicBlock, i int, in ssa.Instruction) {
					if mu, isMu := in.(*ssa.MapUpdate); isMu {
						nUpd++
						rs := p.RelsAt(rm, mu)
						if !postT.holds(rs, true) {
							ok, why = false, "an FFI is recorded without the lookup having succeeded"
						}
						// recorded value is the looked-up FFI name
						if sk(mu.Key) != postT.ValKey {
							ok, why = false, "the recorded key is "+sk(mu.Key)+", not the FFI name found in the table"
						}
					}
				})
				if nUpd != 1 && ok {
					ok, why = false, fmt.Sprintf("%d recordings in post-visit", nUpd)
				}
			}
			r.Check("R08b", "post-visit records exactly the FFI packages", post.Pos(), ok, why)
		}
		return true
	}
	if visit != nil {
		if !visitChecks() {
			return
		}
	} else {
		ffiT = c08RecursiveWalker(p, r, rw)
	}
	// refusal and result, on the abstract paths of getFfi (the walker spliced in)
	{
		ips, okp := gfPaths()
		okBound, nNil, nRefuse, nNone := okp, 0, 0, 0
		why := ""
		for _, ip := range ips {
			if ip.Exit == "panic" {
				nRefuse++
				continue
			}
			if ip.Exit != "return" || len(ip.Ret) < 1 {
				continue
			}
			if len(ip.Ret) == 2 && ip.Ret[1] != "nil" {
				nRefuse++
				continue
			}
			nNil++
			if ip.Ret[0] == `"none"` {
				nNone++
			}
			bounded := false
			for k := range ip.Rels {
				if strings.HasPrefix(k, "len(") && (strings.HasSuffix(k, ") <= 1") || strings.HasSuffix(k, ") <= 0") || strings.HasSuffix(k, ") == 1") || strings.HasSuffix(k, ") == 0")) ||
					strings.HasPrefix(k, "1 == len(") || strings.HasPrefix(k, "0 == len(") {
					bounded = true
				}
			}
			if !bounded {
				okBound = false
				why = "a result is returned without the fact that at most one FFI was seen: " + ip.Trace
			}
		}
		r.Check("R08b", "two different FFIs are refused", gf.Pos(), okBound && nRefuse > 0 && nNil > 0,
			fmt.Sprintf("%s (refusing exits: %d, successful returns: %d)", why, nRefuse, nNil))
		r.Check("R08b", "single FFI or none is returned", gf.Pos(), nNone > 0 && nNil > nNone, fmt.Sprintf("%d successful returns of which %d return \"none\"", nNil, nNone))
		// walk starts at the package itself
		okRoot, rootWhat, rootPos := false, "", gf.Pos()
		if visit != nil {
			okRoot = len(wf.Params) > 0 && sk(visit.Call.Args[0]) == "["+wf.Params[0].Name()+"]"
			rootWhat, rootPos = "roots are "+sk(visit.Call.Args[0]), instrPos(visit)
			if okRoot && wf != gf {
				okRoot = false
				p.instrs(gf, func(b *ssa.BasicBlock, i int, in ssa.Instruction) {
					if c, ok := in.(*ssa.Call); ok && calleeOf(&c.Call) == wf && len(c.Call.Args) > 0 && c.Call.Args[0] == ssa.Value(gf.Params[0]) {
						okRoot = true
					}
				})
			}
		} else {
			rootWhat = "the recursive walker is not started on getFfi's package parameter"
			for _, g := range append([]*ssa.Function{gf}, directCallees(p, gf)...) {
				p.instrs(g, func(b *ssa.BasicBlock, i int, in ssa.Instruction) {
					if c, ok := in.(*ssa.Call); ok && calleeOf(&c.Call) == rw && g != rw {
						for _, a := range c.Call.Args {
							if a == ssa.Value(gf.Params[0]) || g != gf && len(g.Params) > 0 && a == ssa.Value(g.Params[0]) {
								okRoot = true
							}
						}
					}
				})
			}
		}
		r.Check("R08b", "walk starts from the translated package", rootPos, okRoot, rootWhat)
	}
	// --- R08a tables
	imp := p.Func(Mod, "Ctx.imports")
	var builtinT *strTable
	if imp != nil {
		for _, tt := range p.tableTests(imp) {
			builtinT = tt.Table
		}
	}
	if ffiT == nil || builtinT == nil {
		r.Unknown("R08a", "tables", gf.Pos(), "cannot identify the FFI table (tested in getFfi's callbacks) and the builtin table (tested in imports)")
	} else {
		ffi, bi := ffiT.Rows, builtinT.Rows
		r.Table("ffi table "+ffiT.Name, ffi)
		r.Table("builtin imports "+builtinT.Name, sortedKeys(bi))
		for _, k := range sortedKeys(ffi) {
			r.Check("R08a", "FFI package "+k+" is builtin", ffiT.Pos, bi[k] == "true", "an FFI package that is not in the builtin table would also be emitted as a Require")
			for _, pr := range [][2]string{{Mod + "/machine/", "github.com/goose-lang/primitive/"}, {"github.com/goose-lang/primitive/", Mod + "/machine/"}} {
				if strings.HasPrefix(k, pr[0]) {
					sib := pr[1] + strings.TrimPrefix(k, pr[0])
					v, has := ffi[sib]
					r.Check("R08a", "FFI sibling of "+k, ffiT.Pos, has && v == ffi[k], fmt.Sprintf("%s ↦ %q but %s ↦ %q (present=%v): the two spellings of one FFI must agree", k, ffi[k], sib, v, has))
				}
			}
		}
		// the FFI value names the package's last path element (disk ↦ disk, async_disk ↦ async_disk)
		for _, k := range sortedKeys(ffi) {
			if strings.HasPrefix(k, Mod+"/machine/") || strings.HasPrefix(k, "github.com/goose-lang/primitive/") {
				base := k[strings.LastIndex(k, "/")+1:]
				r.Check("R08a", "FFI name of "+k, ffiT.Pos, ffi[k] == base, fmt.Sprintf("%s ↦ %q, expected %q", k, ffi[k], base))
			}
		}
	}
	c08Header(p, r)
	c08PathMapping(p, r)
	c08Imports(p, r, imp, builtinT, gf)
	// shared obligations decided by the C06 and C17 analyses
	s6 := NewReport("C06", p)
	c06Sorting(p, s6)
	for _, o := range s6.Obls {
		if strings.HasPrefix(o.Key, "PrintImports") {
			o.Rule = "R08e"
			r.Obls = append(r.Obls, o)
			r.ruleIdx["R08e"].Instances++
		}
	}
	s17 := NewReport("C17", p)
	checkC17(p, s17)
	for _, o := range s17.Obls {
		if o.Key == "translate output path" {
			o.Rule = "R08d"
			r.Obls = append(r.Obls, o)
			r.ruleIdx["R08d"].Instances++
		}
	}
}

func c08Header(p *Prog, r *Report) {
	// by role: the function of the translator with results (string, string) that distinguishes the value "none"
	var f *ssa.Function
	par := ""
	for _, g := range p.FuncsIn(Mod) {
		res := g.Signature.Results()
		if g.Parent() != nil || res.Len() != 2 || types.TypeString(res.At(0).Type(), nil) != "string" || types.TypeString(res.At(1).Type(), nil) != "string" {
			continue
		}
		ps, _ := p.enumPaths(g, 1, 1000)
		for _, pt := range ps {
			for k := range pt.relsResolved() {
				if strings.HasPrefix(k, `"none" == `) {
					f, par = g, strings.TrimPrefix(k, `"none" == `)
				}
			}
		}
	}
	if f == nil {
		r.Anchor("R08c", "the header/footer selection (a function returning (header, footer) that distinguishes \"none\")")
		return
	}
	r.Func(FuncName(f))
	paths, _ := p.enumPaths(f, 1, 1000)
	var noneOK, otherOK, seenNone, seenOther bool
	for _, pt := range paths {
		ret, isRet := pt.endsInReturn()
		if !isRet {
			continue
		}
		rs := pt.relsResolved()
		hdr, ftr := resolveOnPath(pt, resolveLocal(ret.Results[0])), resolveOnPath(pt, resolveLocal(ret.Results[1]))
		if rs[eqRel(`"none"`, par)] {
			seenNone = true
			h, okh := constString(hdr)
			ft, okf := constString(ftr)
			sec, end := "", ""
			for _, ln := range strings.Split(h, "\n") {
				if strings.HasPrefix(ln, "Section ") {
					sec = strings.TrimSuffix(strings.TrimPrefix(ln, "Section "), ".")
				}
			}
			for _, ln := range strings.Split(ft, "\n") {
				if strings.HasPrefix(ln, "End ") {
					end = strings.TrimSuffix(strings.TrimPrefix(ln, "End "), ".")
				}
			}
			noneOK = okh && okf && sec != "" && sec == end && strings.Contains(h, "ext_types")
		} else {
			seenOther = true
			ft, okf := constString(ftr)
			okHdr := false
			if c, ok := hdr.(*ssa.Call); ok && calleeName(c) == "fmt.Sprintf" {
				fs, _ := constString(c.Call.Args[0])
				if strings.Contains(fs, "ffi.%s_prelude") && sk(c.Call.Args[1]) == "["+par+"]" {
					okHdr = true
				}
			}
			// or spelled as a concatenation "… ffi." + ffi + "_prelude" …
			if hk := sk(hdr); strings.Contains(hk, `ffi." + `+par+`)`) && strings.Contains(hk, `_prelude`) {
				okHdr = true
			}
			otherOK = okf && ft == "" && okHdr
		}
	}
	r.Check("R08c", "no FFI gives the Section header with its End footer", f.Pos(), seenNone && noneOK, "under ffi == \"none\": header must open `Section X.` with the ext_types context and the footer must close `End X.`")
	r.Check("R08c", "an FFI gives its prelude import and no footer", f.Pos(), seenOther && otherOK, "otherwise: header must be `…ffi.<ffi>_prelude.` formatted from the parameter and the footer empty")
	// translatePackage wires it: header/footer come from ffiHeaderFooter(ctx.Ffi) where Ffi = getFfi(pkg)
	tpk := p.Func(Mod, "TranslationConfig.translatePackage")
	okWire := false
	if tpk != nil {
		p.instrs(tpk, func(b *ssa.BasicBlock, i int, in ssa.Instruction) {
			if c, ok := in.(*ssa.Call); ok && calleeOf(&c.Call) == f && len(c.Call.Args) > 0 {
				if strings.HasSuffix(sk(c.Call.Args[0]), ".Ffi") {
					okWire = true
				}
				// or the receiver is the package configuration whose Ffi field the function reads
				if st, ok := deref(c.Call.Args[0].Type()).Underlying().(*types.Struct); ok && strings.HasSuffix(par, ".Ffi") {
					for i := 0; i < st.NumFields(); i++ {
						if st.Field(i).Name() == "Ffi" {
							okWire = true
						}
					}
				}
			}
		})
		if !okWire {
			// the call sits in a constructor of the output file that translatePackage calls: splice only the
			// functions that call the header function and read the operand in translatePackage's terms
			keep := map[*ssa.Function]bool{}
			callers := map[*ssa.Function]bool{}
			for _, g := range p.FuncsIn(Mod) {
				p.instrs(g, func(b *ssa.BasicBlock, i int, in ssa.Instruction) {
					if c, ok := in.(*ssa.Call); ok && calleeOf(&c.Call) == f {
						callers[g] = true
					}
				})
			}
			for _, g := range p.srcFuncs {
				if g != tpk && !callers[g] {
					keep[g] = true
				}
			}
			if ips, ok := p.ipathsKeeping(tpk, keep); ok {
				n, good := 0, 0
				for _, ip := range ips {
					for _, e := range ip.eventsOf(fullName(f)) {
						n++
						if len(e.Args) > 0 && strings.HasSuffix(e.Args[0], ".Ffi") {
							good++
						}
					}
				}
				okWire = n > 0 && n == good
			}
		}
		// some constructor in the package stores getFfi(its package parameter) into the Ffi field
		gfStored := false
		for _, g := range p.FuncsIn(Mod) {
			p.instrs(g, func(b *ssa.BasicBlock, i int, in ssa.Instruction) {
				st, ok := in.(*ssa.Store)
				if !ok {
					return
				}
				if _, fld, okf := fieldOf(st.Addr); !okf || fld != "Ffi" {
					return
				}
				for _, o := range origins(st.Val) {
					var c *ssa.Call
					switch x := o.(type) {
					case *ssa.Call:
						c = x
					case *ssa.Extract:
						c, _ = x.Tuple.(*ssa.Call)
					}
					if c != nil && calleeName(c) == Mod+".getFfi" && len(g.Params) > 0 && c.Call.Args[0] == ssa.Value(g.Params[0]) {
						gfStored = true
					}
				}
			})
		}
		okWire = okWire && gfStored
	}
	r.Check("R08c", "header is chosen from the package's own FFI", f.Pos(), okWire, "translatePackage must pass ctx.Ffi (= getFfi(pkg)) to ffiHeaderFooter")
}

// resolveOnPath resolves phi nodes along a concrete path (as seen at the end of the path).
func resolveOnPath(pt cfgPath, v ssa.Value) ssa.Value {
	return resolveOnPathAt(pt, v, len(pt.Blocks)-1, false)
}

// resolveOnPathAt resolves a phi as seen from position `at` of the path: through the last visit of
// the phi's block at or before that position. With havoc, a phi of a loop header that is entered
// from outside the loop stays symbolic: the path then stands for an arbitrary iteration.
func resolveOnPathAt(pt cfgPath, v ssa.Value, at int, havoc bool) ssa.Value {
	for depth := 0; depth < 10; depth++ {
		ph, ok := v.(*ssa.Phi)
		if !ok {
			return v
		}
		idx := -1
		for i, b := range pt.Blocks {
			if i > at {
				break
			}
			if b == ph.Block() {
				idx = i
			}
		}
		if idx <= 0 {
			return v
		}
		pred := pt.Blocks[idx-1]
		if havoc && isLoopHeader(ph.Block()) && !ph.Block().Dominates(pred) {
			return v
		}
		found := false
		for i, pb := range ph.Block().Preds {
			if pb == pred {
				v = ph.Edges[i]
				found = true
				break
			}
		}
		if !found {
			return v
		}
		at = idx - 1
	}
	return v
}

func isLoopHeader(b *ssa.BasicBlock) bool {
	for _, pr := range b.Preds {
		if b.Dominates(pr) {
			return true
		}
	}
	return false
}

// resolveLocal follows a load of a local (named result) to the single value stored in it on this function (flow-insensitive; used only for constants/calls).
func resolveLocal(v ssa.Value) ssa.Value {
	if ld, ok := v.(*ssa.UnOp); ok && ld.Op == token.MUL {
		if a, ok := ld.X.(*ssa.Alloc); ok {
			var vals []ssa.Value
			for _, rf := range refs(a) {
				if st, ok := rf.(*ssa.Store); ok && st.Addr == ssa.Value(a) && dominatesInstr(st, ld) {
					vals = append(vals, st.Val)
				}
			}
			// the last dominating store in the same block as the load, else the unique one
			for _, sv := range vals {
				for _, rf := range refs(a) {
					if st, ok := rf.(*ssa.Store); ok && st.Val == sv && st.Block() == ld.Block() {
						return sv
					}
				}
			}
			if len(vals) == 1 {
				return vals[0]
			}
			if len(vals) == 0 {
				// zero value
				return ssa.NewConst(nil, a.Type().(*types.Pointer).Elem())
			}
		}
	}
	return v
}

func c08PathMapping(p *Prog, r *Report) {
	var mapped func(arg string) string
	// the mapping is read off the output path itself: in the key of ImportToPath's result (helpers spliced in),
	// the outermost chain of strings.ReplaceAll — or one application of a constant strings.Replacer — whose
	// innermost operand is the import-path parameter
	itp := p.Func(coqPkg, "ImportToPath")
	if itp == nil || len(itp.Params) == 0 {
		r.Anchor("R08d", "coq.ImportToPath")
		return
	}
	pn := itp.Params[0].Name()
	mapKey := ""
	var reps map[string]string
	if ips, ok := p.ipaths(itp); ok {
		for _, ip := range ips {
			if ip.Exit != "return" || len(ip.Ret) != 1 {
				continue
			}
			if mk, rp, ok := findMappingIn(p, itp, ip.Ret[0], pn); ok {
				mapKey, reps = mk, rp
			}
		}
	}
	if mapKey == "" {
		r.Anchor("R08d", "the path mapping of the printer (a strings.ReplaceAll chain or a constant strings.Replacer applied to the import path)")
		return
	}
	mapped = func(arg string) string { return substIdents(mapKey, map[string]string{pn: arg}) }
	r.Check("R08d", "pathToCoqPath maps '.' and '-' to '_'", itp.Pos(), reps["."] == "_" && reps["-"] == "_" && len(reps) == 2, fmt.Sprintf("replacements: %v", reps))
	// onlyMapped: every occurrence of src in the keys lies inside the mapping applied to src
	onlyMapped := func(keys []string, src string) (n int, bad string) {
		m := mapped(src)
		for _, k := range keys {
			n += strings.Count(k, m)
			rest := strings.ReplaceAll(k, m, "§")
			if replaceToken(rest, src, "\x00") != rest {
				bad = rest
			}
		}
		return n, bad
	}
	if f := p.Func(coqPkg, "ImportDecl.CoqDecl"); f != nil {
		r.Func(FuncName(f))
		ips, ok := p.ipaths(f)
		src := ""
		if len(f.Params) > 0 {
			src = f.Params[0].Name() + ".Path"
		}
		nTot, bad := 0, ""
		okT := ok
		for _, ip := range ips {
			if ip.Exit != "return" {
				continue
			}
			keys := append([]string{}, ip.Ret...)
			trusted := ip.Rels[eqRel("true", f.Params[0].Name()+".Trusted")] || ip.Rels[f.Params[0].Name()+".Trusted == true"]
			for _, e := range ip.Events {
				if e.Key != "" && strings.Contains(mapped(src), e.Key) {
					continue // a step of the mapping itself
				}
				keys = append(keys, e.Args...)
				if e.Callee == "fmt.Sprintf" && len(e.Args) > 0 {
					if strings.Contains(e.Args[0], "goose_lang.trusted") != trusted || !strings.Contains(e.Args[0], "Require") {
						okT = false
					}
				}
			}
			n, b := onlyMapped(keys, src)
			nTot += n
			if b != "" {
				bad = b
			}
		}
		r.Check("R08d", "Require path goes through pathToCoqPath", f.Pos(), ok && nTot >= 1 && bad == "",
			"the unmapped path is used directly ("+bad+"): the Require/file name would keep '.' or '-' that the other side maps to '_'")
		r.Check("R08d", "trusted imports use the trusted namespace", f.Pos(), okT, "the trusted Require form must be emitted exactly under decl.Trusted")
	} else {
		r.Anchor("R08d", "coq.ImportDecl.CoqDecl")
	}
	if f := p.Func(coqPkg, "ImportToPath"); f != nil {
		r.Func(FuncName(f))
		ips, ok := p.ipaths(f)
		src := f.Params[0].Name()
		nTot, bad, okV, shape := 0, "", ok, ""
		for _, ip := range ips {
			if ip.Exit != "return" || len(ip.Ret) != 1 {
				continue
			}
			n, b := onlyMapped(ip.Ret, src)
			nTot += n
			if b != "" {
				bad = b
			}
			rest := strings.ReplaceAll(ip.Ret[0], mapped(src), "§")
			if rest != `path/filepath.Join([path.Dir(§),(path.Base(§) + ".v")])` && rest != `path.Join([path.Dir(§),(path.Base(§) + ".v")])` {
				okV, shape = false, rest
			}
		}
		r.Check("R08d", "output file path goes through pathToCoqPath", f.Pos(), ok && nTot >= 1 && bad == "",
			"the unmapped path is used directly ("+bad+"): the Require/file name would keep '.' or '-' that the other side maps to '_'")
		r.Check("R08d", "output file is <dir>/<base>.v of the mapped path", f.Pos(), okV && nTot >= 1, "the result is "+shape)
	} else {
		r.Anchor("R08d", "coq.ImportToPath")
	}
}

func c08Imports(p *Prog, r *Report, imp *ssa.Function, builtinT *strTable, gf *ssa.Function) {
	if imp == nil {
		r.Anchor("R08e", "goose.Ctx.imports")
		return
	}
	r.Func(FuncName(imp))
	rm := p.Rels(imp)
	var lk *tableTest
	for _, tt := range p.tableTests(imp) {
		if tt.Table == builtinT && builtinT != nil {
			t2 := tt
			lk = &t2
		}
	}
	nApp := 0
	okGuard, okTrust := true, true
	var why string
	p.instrs(imp, func(b *ssa.BasicBlock, i int, in ssa.Instruction) {
		c, ok := in.(*ssa.Call)
		if !ok {
			return
		}
		if bi, isB := c.Call.Value.(*ssa.Builtin); !isB || bi.Name() != "append" {
			return
		}
		nApp++
		rs := p.RelsAt(rm, c)
		if lk == nil || !lk.holds(rs, false) {
			okGuard = false
			why = fmt.Sprintf("an ImportDecl is appended without the fact that the path is not builtin; facts %v", relList(rs))
		}
		// Trusted field value vs. the HasPrefix fact
		trustedFact := false
		for k := range rs {
			if strings.HasPrefix(k, "strings.HasPrefix(") && strings.Contains(k, `"trusted_"`) && strings.HasSuffix(k, "== true") {
				trustedFact = true
			}
		}
		tv := ""
		for _, v := range flowOperands(c.Call.Args[1]) {
			if a, ok := v.(*ssa.Alloc); ok {
				for _, rf := range refs(a) {
					if ia, ok := rf.(*ssa.IndexAddr); ok {
						for _, r2 := range refs(ia) {
							if st, ok := r2.(*ssa.Store); ok {
								// composite literal stored into the varargs array
								for _, o := range flowOperands(st.Val) {
									if fa, ok := o.(*ssa.FieldAddr); ok {
										if _, fld, _ := fieldOf(fa); fld == "Trusted" {
											for _, r3 := range refs(fa) {
												if s3, ok := r3.(*ssa.Store); ok {
													if cc, ok := s3.Val.(*ssa.Const); ok {
														tv = cc.Value.String()
													}
												}
											}
										}
									}
								}
							}
						}
					}
				}
			}
		}
		if tv != "" && (tv == "true") != trustedFact {
			okTrust = false
		}
	})
	r.Check("R08e", "ImportDecl exactly for non-builtin imports", imp.Pos(), okGuard && nApp >= 1 && lk != nil, why)
	r.Check("R08e", "trusted_ prefix selects Trusted", imp.Pos(), okTrust, "Trusted must be true exactly under the HasPrefix(pkgName, \"trusted_\") fact")
	// key looked up is the unquoted import path of the spec
	if lk != nil {
		okKey := strings.Contains(sk(lk.Key), ".Path")
		r.Check("R08e", "builtin test uses the spec's import path", instrPos(lk.In), okKey, "looked-up key is "+sk(lk.Key))
	}
	// renamed imports rejected: the ImportSpec.Name field is tested and leads to a reporter
	rejected := false
	p.instrs(imp, func(b *ssa.BasicBlock, i int, in ssa.Instruction) {
		if c, ok := in.(*ssa.Call); ok {
			if cal := calleeOf(&c.Call); cal != nil && p.NoReturn(cal) {
				rs := p.RelsAt(rm, c)
				for k := range rs {
					if strings.Contains(k, ".Name") && strings.Contains(k, " != ") && strings.Contains(k, "nil") {
						rejected = true
					}
				}
			}
		}
	})
	r.Check("R08e", "renamed imports are rejected", imp.Pos(), rejected, "no rejecting call under the fact spec.Name != nil: a renamed import would be emitted under its path's name while uses refer to the new name")
	// File.Write prints the imports once and the header once
	if w := p.Func(coqPkg, "File.Write"); w != nil {
		r.Func(FuncName(w))
		// on every returning abstract path (helpers such as a header writer spliced in) exactly once
		pi := p.Func(coqPkg, "ImportDecls.PrintImports")
		ips, okp := p.ipathsKeeping(w, map[*ssa.Function]bool{pi: true})
		bad, nRet := "", 0
		for _, ip := range ips {
			if ip.Exit != "return" {
				continue
			}
			nRet++
			if n := len(ip.eventsOf("(" + coqPkg + ".ImportDecls).PrintImports")); n != 1 {
				bad = fmt.Sprintf("%d PrintImports calls on the path %s", n, ip.Trace)
			}
		}
		r.Check("R08e", "file prints its imports once", w.Pos(), okp && pi != nil && nRet > 0 && bad == "", bad)
	}
	var _ = sort.Strings
}

// keepTableFuncs: the table functions called in f stay opaque in its abstract paths (their answer is the fact).
func keepTableFuncs(p *Prog, f *ssa.Function) map[*ssa.Function]bool {
	keep := map[*ssa.Function]bool{}
	for _, tt := range p.tableTests(f) {
		if tt.Table.Fn != nil {
			keep[tt.Table.Fn] = true
		}
	}
	return keep
}

// directCallees: the functions of the same package that f calls directly.
func directCallees(p *Prog, f *ssa.Function) []*ssa.Function {
	var out []*ssa.Function
	seen := map[*ssa.Function]bool{}
	p.instrs(f, func(b *ssa.BasicBlock, i int, in ssa.Instruction) {
		if c, ok := in.(ssa.CallInstruction); ok {
			if g := c.Common().StaticCallee(); g != nil && g.Pkg == f.Pkg && g != f && !seen[g] && len(g.Blocks) > 0 {
				seen[g] = true
				out = append(out, g)
			}
		}
	})
	return out
}

// replacerPairs: g applies a package-level *strings.Replacer; the constant (old, new) pairs it was built with.
func replacerPairs(p *Prog, g *ssa.Function) (map[string]string, bool) {
	var glob *ssa.Global
	p.instrs(g, func(b *ssa.BasicBlock, i int, in ssa.Instruction) {
		if c, ok := in.(*ssa.Call); ok && calleeName(c) == "(*strings.Replacer).Replace" && len(c.Call.Args) > 0 {
			glob = globalOfLoad(c.Call.Args[0])
		}
	})
	if glob == nil || glob.Pkg == nil {
		return nil, false
	}
	ini := glob.Pkg.Func("init")
	if ini == nil {
		return nil, false
	}
	pairs := map[string]string{}
	n := 0
	p.instrs(ini, func(b *ssa.BasicBlock, i int, in ssa.Instruction) {
		st, ok := in.(*ssa.Store)
		if !ok || st.Addr != ssa.Value(glob) {
			return
		}
		n++
		c, ok := st.Val.(*ssa.Call)
		if !ok || calleeName(c) != "strings.NewReplacer" || len(c.Call.Args) != 1 {
			n += 2
			return
		}
		// the variadic argument: a slice of a local array with constant stores
		elems := map[int64]string{}
		if sl, ok := c.Call.Args[0].(*ssa.Slice); ok {
			for _, rf := range refs(sl.X) {
				if ia, ok := rf.(*ssa.IndexAddr); ok {
					idx, _ := constInt(ia.Index)
					for _, r2 := range refs(ia) {
						if s2, ok := r2.(*ssa.Store); ok {
							if cs, ok := constString(s2.Val); ok {
								elems[idx] = cs
							} else {
								n += 2
							}
						}
					}
				}
			}
		}
		for i := int64(0); i+1 < int64(len(elems)); i += 2 {
			pairs[elems[i]] = elems[i+1]
		}
	})
	for _, fn := range p.srcFuncs {
		if fn == ini {
			continue
		}
		p.instrs(fn, func(b *ssa.BasicBlock, i int, in ssa.Instruction) {
			if st, ok := in.(*ssa.Store); ok && st.Addr == ssa.Value(glob) {
				n += 2
			}
		})
	}
	return pairs, n == 1 && len(pairs) > 0
}

// findMappingIn: the outermost mapping expression over param inside key, with its replacement pairs.
func findMappingIn(p *Prog, f *ssa.Function, key, param string) (string, map[string]string, bool) {
	for _, head := range []string{"strings.ReplaceAll(", "*strings.Replacer.Replace("} {
		for from := 0; ; {
			i := strings.Index(key[from:], head)
			if i < 0 {
				break
			}
			i += from
			from = i + 1
			// balanced extent of the call
			depth, end := 0, -1
			inStr := false
			for j := i; j < len(key); j++ {
				c := key[j]
				if inStr {
					if c == '\\' {
						j++
					} else if c == '"' {
						inStr = false
					}
					continue
				}
				switch c {
				case '"':
					inStr = true
				case '(':
					depth++
				case ')':
					depth--
					if depth == 0 {
						end = j
					}
				}
				if end >= 0 {
					break
				}
			}
			if end < 0 {
				continue
			}
			sub := key[i : end+1]
			reps := map[string]string{}
			inner := sub
			for {
				n, a, ok := parseCallKey(inner)
				if !ok || n != "strings.ReplaceAll" || len(a) != 3 {
					break
				}
				reps[strings.Trim(a[1], `"`)] = strings.Trim(a[2], `"`)
				inner = a[0]
			}
			if len(reps) > 0 && inner == param {
				return sub, reps, true
			}
			if n, a, ok := parseCallKey(sub); ok && n == "*strings.Replacer.Replace" && len(a) == 2 && a[1] == param {
				// the replacer's pairs: from the function (in the region of f) that applies it
				for _, g := range p.region([]*ssa.Function{f}) {
					if pairs, ok := replacerPairs(p, g); ok {
						return sub, pairs, true
					}
				}
			}
		}
	}
	return "", nil, false
}

// findRecursiveWalker: a function reachable from gf (two call levels) that takes a *packages.Package and
// calls itself on the elements of that package's Imports.
func findRecursiveWalker(p *Prog, gf *ssa.Function) *ssa.Function {
	cands := append([]*ssa.Function{gf}, directCallees(p, gf)...)
	for _, g := range directCallees(p, gf) {
		cands = append(cands, directCallees(p, g)...)
	}
	for _, w := range cands {
		var pkgP *ssa.Parameter
		for _, pa := range w.Params {
			if types.TypeString(pa.Type(), nil) == "*golang.org/x/tools/go/packages.Package" {
				pkgP = pa
			}
		}
		if pkgP == nil {
			continue
		}
		self := false
		p.instrs(w, func(b *ssa.BasicBlock, i int, in ssa.Instruction) {
			if c, ok := in.(*ssa.Call); ok && calleeOf(&c.Call) == w {
				for _, a := range c.Call.Args {
					if strings.Contains(sk(a), "range("+pkgP.Name()+".Imports)") {
						self = true
					}
				}
			}
		})
		if self {
			return w
		}
	}
	return nil
}

// c08RecursiveWalker: the hand-written walk records exactly the FFI packages it reaches and descends exactly
// below the packages that are not FFIs. Returns the FFI table it tests.
func c08RecursiveWalker(p *Prog, r *Report, w *ssa.Function) *strTable {
	var pkgP *ssa.Parameter
	for _, pa := range w.Params {
		if types.TypeString(pa.Type(), nil) == "*golang.org/x/tools/go/packages.Package" {
			pkgP = pa
		}
	}
	var tt *tableTest
	for _, t := range p.tableTests(w) {
		if sk(t.Key) == pkgP.Name()+".PkgPath" {
			t2 := t
			tt = &t2
		}
	}
	if tt == nil {
		r.Fail("R08b", "the walk tests the FFI table", w.Pos(), "the recursive walker does not test a constant table of FFI packages on the visited package's PkgPath", "")
		return nil
	}
	rm := p.Rels(w)
	// descends exactly below non-FFI packages, into every import
	okDesc, whyDesc, nSelf := true, "", 0
	p.instrs(w, func(b *ssa.BasicBlock, i int, in ssa.Instruction) {
		c, ok := in.(*ssa.Call)
		if !ok || calleeOf(&c.Call) != w {
			return
		}
		nSelf++
		rs := p.RelsAt(rm, c)
		if !tt.holds(rs, false) {
			okDesc, whyDesc = false, "the walk descends below a package without the fact that it is not an FFI (the dependencies of an FFI are not uses of the translated package)"
		}
		for k := range rs {
			switch {
			case k == tt.OkKey+" == false" || k == "false == "+tt.OkKey:
			case strings.Contains(k, "next(range(") && strings.HasSuffix(k, "#0 == true"):
			case isLoopBoundFact(k):
			case strings.HasSuffix(k, "["+pkgP.Name()+"] == false") || strings.HasPrefix(k, "false == ") && strings.HasSuffix(k, "["+pkgP.Name()+"]"):
				// not visited before
			default:
				okDesc, whyDesc = false, "an import is followed only under the additional condition "+k
			}
		}
	})
	r.Check("R08b", "pre-visit prunes exactly at FFI packages", w.Pos(), okDesc && nSelf == 1, fmt.Sprintf("%s (%d recursive calls)", whyDesc, nSelf))
	// records exactly the FFI packages
	okRec, whyRec, nUpd := true, "", 0
	p.instrs(w, func(b *ssa.BasicBlock, i int, in ssa.Instruction) {
		mu, ok := in.(*ssa.MapUpdate)
		if !ok {
			return
		}
		if sk(mu.Key) == pkgP.Name() {
			return // the visited set
		}
		nUpd++
		rs := p.RelsAt(rm, mu)
		if !tt.holds(rs, true) {
			okRec, whyRec = false, "an FFI is recorded without the lookup having succeeded"
		}
		if sk(mu.Key) != tt.ValKey {
			okRec, whyRec = false, "the recorded key is "+sk(mu.Key)+", not the FFI name found in the table"
		}
	})
	r.Check("R08b", "post-visit records exactly the FFI packages", w.Pos(), okRec && nUpd == 1, fmt.Sprintf("%s (%d recordings)", whyRec, nUpd))
	return tt.Table
}
