package main

import (
	"fmt"
	"go/token"
	"go/types"
	"sort"
	"strings"

	"golang.org/x/tools/go/ssa"
)

// globalMapLiteral extracts a package-level map variable initialised with constant keys/values in init.
func globalMapLiteral(p *Prog, g *ssa.Global) (map[string]string, bool) {
	initF := g.Pkg.Func("init")
	if initF == nil {
		return nil, false
	}
	var mk ssa.Value
	for _, b := range initF.Blocks {
		for _, in := range b.Instrs {
			if st, ok := in.(*ssa.Store); ok && st.Addr == ssa.Value(g) {
				mk = st.Val
			}
		}
	}
	if mk == nil {
		return nil, false
	}
	out := map[string]string{}
	for _, rf := range refs(mk) {
		mu, ok := rf.(*ssa.MapUpdate)
		if !ok || mu.Map != mk {
			continue
		}
		k, ok1 := constString(mu.Key)
		if !ok1 {
			return nil, false
		}
		if v, ok := constString(mu.Value); ok {
			out[k] = v
		} else if c, ok := mu.Value.(*ssa.Const); ok && c.Value != nil {
			out[k] = c.Value.String()
		} else {
			return nil, false
		}
	}
	return out, true
}

// lookupGlobal: the global whose loaded map is the X of a Lookup instruction.
func lookupGlobal(lk *ssa.Lookup) *ssa.Global {
	if ld, ok := lk.X.(*ssa.UnOp); ok {
		if g, ok := ld.X.(*ssa.Global); ok {
			return g
		}
	}
	return nil
}

func checkC08(p *Prog, r *Report) {
	r.Rule("R08a", "tables: every FFI package is a builtin import (modelled by the prelude, never Required); the machine/X and primitive/X spellings of one FFI map to the same prelude", 6)
	r.Rule("R08b", "import-graph walk: the pre-visit callback returns false exactly when the visited package's path is in the FFI table (constant results, decided by that lookup alone), the post-visit callback records exactly on the same lookup, more than one FFI reaches a refusal (non-nil error or no-return), the single FFI or \"none\" is returned otherwise", 5)
	r.Rule("R08c", "header/footer: the value \"none\" yields the generic Section header and the matching End footer; any other value yields the ffi.<value>_prelude import and an empty footer", 3)
	r.Rule("R08d", "one path mapping: the import path reaches the emitted Require and the output file path only through pathToCoqPath (which maps '.' and '-' to '_'); the trusted prefix selects the trusted namespace", 5)
	r.Rule("R08e", "imports: an ImportDecl is produced exactly for paths not in the builtin table; renamed imports are rejected; the header (prelude) comes from getFfi of the package; imports are printed once, sorted and de-duplicated (with C06 R06e)", 5)
	r.Assume = append(r.Assume, "Coq resolving the Require is not decided", "packages.Visit calls pre before descending and post after, as documented")
	gf := p.Func(Mod, "getFfi")
	if gf == nil {
		r.Anchor("R08b", "goose.getFfi")
		return
	}
	r.Func(FuncName(gf))
	// --- identify the FFI table by role: the global looked up inside getFfi's callbacks
	var ffiG *ssa.Global
	var visit *ssa.Call
	p.instrs(gf, func(b *ssa.BasicBlock, i int, in ssa.Instruction) {
		if c, ok := in.(*ssa.Call); ok && calleeName(c) == "golang.org/x/tools/go/packages.Visit" {
			visit = c
		}
	})
	if visit == nil {
		r.Fail("R08b", "getFfi walks the import graph", gf.Pos(), "no packages.Visit call", "")
		return
	}
	// an FFI name is returned only after the walk and only under the fact that at most one FFI was seen
	if ips, ok := p.ipaths(gf); ok {
		bad, n := "", 0
		for _, ip := range ips {
			if ip.Exit != "return" || len(ip.Ret) != 2 || ip.Ret[1] != "nil" || ip.Ret[0] == `"none"` {
				continue
			}
			n++
			walked := len(ip.eventsOf("golang.org/x/tools/go/packages.Visit")) > 0
			counted := false
			for k := range ip.Rels {
				if strings.HasPrefix(k, "len(") && strings.HasSuffix(k, ") <= 1") || strings.HasPrefix(k, "1 == len(") || strings.HasPrefix(k, "len(") && strings.HasSuffix(k, ") == 1") {
					counted = true
				}
			}
			if !walked || !counted {
				bad = fmt.Sprintf("the FFI %s is returned on a path that did not walk the import graph (walked=%v) or did not establish that at most one FFI is used (counted=%v): %s", ip.Ret[0], walked, counted, ip.Trace)
			}
		}
		r.Check("R08b", "an FFI is chosen only after the whole walk, when at most one was seen", gf.Pos(), n > 0 && bad == "", bad)
	} else {
		r.Unknown("R08b", "an FFI is chosen only after the whole walk, when at most one was seen", gf.Pos(), "paths of getFfi could not be enumerated")
	}
	cbFunc := func(v ssa.Value) *ssa.Function {
		switch x := v.(type) {
		case *ssa.Function:
			return x
		case *ssa.MakeClosure:
			return x.Fn.(*ssa.Function)
		}
		return nil
	}
	pre, post := cbFunc(visit.Call.Args[1]), cbFunc(visit.Call.Args[2])
	if pre == nil || post == nil {
		r.Fail("R08b", "getFfi callbacks", instrPos(visit), "pre/post callbacks are not function literals", "")
		return
	}
	findLookup := func(f *ssa.Function) *ssa.Lookup {
		var lk *ssa.Lookup
		p.instrs(f, func(b *ssa.BasicBlock, i int, in ssa.Instruction) {
			if l, ok := in.(*ssa.Lookup); ok && lookupGlobal(l) != nil {
				lk = l
			}
		})
		return lk
	}
	preLk, postLk := findLookup(pre), findLookup(post)
	if preLk != nil {
		ffiG = lookupGlobal(preLk)
	}
	// pre-visit shape
	{
		ok, why := true, ""
		if preLk == nil || !preLk.CommaOk {
			ok, why = false, "pre-visit does not test membership in a package-level table"
		} else {
			_, fld, okf := fieldOf(preLk.Index)
			if !okf || fld != "PkgPath" {
				ok, why = false, "pre-visit looks up "+sk(preLk.Index)+", expected the visited package's PkgPath"
			}
			okKey := sk(preLk) + "#1"
			rm := p.Rels(pre)
			nRet := 0
			p.instrs(pre, func(b *ssa.BasicBlock, i int, in ssa.Instruction) {
				ret, isRet := in.(*ssa.Return)
				if !isRet {
					return
				}
				nRet++
				c, isC := ret.Results[0].(*ssa.Const)
				if !isC {
					ok, why = false, "pre-visit returns a computed value ("+sk(ret.Results[0])+"): whether the walk descends must depend only on the FFI lookup"
					return
				}
				rs := p.RelsAt(rm, ret)
				val := c.Value.String() == "true"
				if val && !rs[okKey+" == false"] {
					ok, why = false, "pre-visit returns true (descend) without the fact that the package is not an FFI"
				}
				if !val && !rs[okKey+" == true"] {
					ok, why = false, "pre-visit returns false (prune) for a package that is not an FFI"
				}
			})
			if nRet < 2 && ok {
				ok, why = false, "pre-visit never prunes or never descends"
			}
		}
		r.Check("R08b", "pre-visit prunes exactly at FFI packages", pre.Pos(), ok, why)
	}
	// post-visit shape
	{
		ok, why := true, ""
		if postLk == nil || lookupGlobal(postLk) != ffiG {
			ok, why = false, "post-visit does not look up the same FFI table"
		} else {
			_, fld, okf := fieldOf(postLk.Index)
			if !okf || fld != "PkgPath" {
				ok, why = false, "post-visit looks up "+sk(postLk.Index)
			}
			rm := p.Rels(post)
			nUpd := 0
			p.instrs(post, func(b *ssa.BasicBlock, i int, in ssa.Instruction) {
				if mu, isMu := in.(*ssa.MapUpdate); isMu {
					nUpd++
					rs := p.RelsAt(rm, mu)
					if !rs[sk(postLk)+"#1 == true"] {
						ok, why = false, "an FFI is recorded without the lookup having succeeded"
					}
					// recorded value is the looked-up FFI name
					if ex, isEx := mu.Key.(*ssa.Extract); !isEx || ex.Tuple != ssa.Value(postLk) || ex.Index != 0 {
						ok, why = false, "the recorded key is not the FFI name found in the table"
					}
				}
			})
			if nUpd != 1 && ok {
				ok, why = false, fmt.Sprintf("%d recordings in post-visit", nUpd)
			}
		}
		r.Check("R08b", "post-visit records exactly the FFI packages", post.Pos(), ok, why)
	}
	// refusal and result
	{
		rm := p.Rels(gf)
		var seenKey string
		p.instrs(gf, func(b *ssa.BasicBlock, i int, in ssa.Instruction) {
			if rg, ok := in.(*ssa.Range); ok {
				seenKey = sk(rg.X)
			}
		})
		okRefuse, okNone, okOne := false, false, false
		p.instrs(gf, func(b *ssa.BasicBlock, i int, in ssa.Instruction) {
			ret, isRet := in.(*ssa.Return)
			if !isRet || len(ret.Results) < 1 {
				return
			}
			rs := p.RelsAt(rm, ret)
			errIsNilConst := true // with a one-result signature there is no error to inspect
			if len(ret.Results) == 2 {
				errC, isC := ret.Results[1].(*ssa.Const)
				errIsNilConst = isC && errC.Value == nil
			}
			if rs["1 < len("+seenKey+")"] {
				if len(ret.Results) == 2 && !errIsNilConst {
					okRefuse = true
				}
				return
			}
			if s, ok := constString(ret.Results[0]); ok && s == "none" && errIsNilConst {
				okNone = true
			}
			if ex, ok := ret.Results[0].(*ssa.Extract); ok && errIsNilConst {
				if _, isNext := ex.Tuple.(*ssa.Next); isNext && rs["len("+seenKey+") <= 1"] {
					okOne = true
				}
			}
		})
		// a panic-based refusal is also a refusal for C08 (C07 decides whether it is a crash)
		if !okRefuse {
			p.instrs(gf, func(b *ssa.BasicBlock, i int, in ssa.Instruction) {
				if _, isP := in.(*ssa.Panic); isP {
					rs := p.RelsAt(rm, in)
					if rs["1 < len("+seenKey+")"] {
						okRefuse = true
					}
				}
			})
		}
		r.Check("R08b", "two different FFIs are refused", gf.Pos(), okRefuse, "no refusing exit under the fact len(seen) > 1")
		r.Check("R08b", "single FFI or none is returned", gf.Pos(), okNone && okOne, fmt.Sprintf("returns \"none\" when nothing was seen=%v; returns the single recorded FFI under len <= 1=%v", okNone, okOne))
		// walk starts at the package itself
		okRoot := sk(visit.Call.Args[0]) == "["+gf.Params[0].Name()+"]"
		r.Check("R08b", "walk starts from the translated package", instrPos(visit), okRoot, "roots are "+sk(visit.Call.Args[0]))
	}
	// --- R08a tables
	imp := p.Func(Mod, "Ctx.imports")
	var builtinG *ssa.Global
	if imp != nil {
		p.instrs(imp, func(b *ssa.BasicBlock, i int, in ssa.Instruction) {
			if l, ok := in.(*ssa.Lookup); ok && lookupGlobal(l) != nil {
				builtinG = lookupGlobal(l)
			}
		})
	}
	if ffiG == nil || builtinG == nil {
		r.Unknown("R08a", "tables", gf.Pos(), "cannot identify the FFI table (looked up in getFfi) and the builtin table (looked up in imports)")
	} else {
		ffi, ok1 := globalMapLiteral(p, ffiG)
		bi, ok2 := globalMapLiteral(p, builtinG)
		if !ok1 || !ok2 {
			r.Unknown("R08a", "tables", ffiG.Pos(), "tables are not constant map literals")
		} else {
			r.Table("ffi table "+ffiG.Name(), ffi)
			r.Table("builtin imports "+builtinG.Name(), sortedKeys(bi))
			for _, k := range sortedKeys(ffi) {
				r.Check("R08a", "FFI package "+k+" is builtin", ffiG.Pos(), bi[k] == "true", "an FFI package that is not in the builtin table would also be emitted as a Require")
				for _, pr := range [][2]string{{Mod + "/machine/", "github.com/goose-lang/primitive/"}, {"github.com/goose-lang/primitive/", Mod + "/machine/"}} {
					if strings.HasPrefix(k, pr[0]) {
						sib := pr[1] + strings.TrimPrefix(k, pr[0])
						v, has := ffi[sib]
						r.Check("R08a", "FFI sibling of "+k, ffiG.Pos(), has && v == ffi[k], fmt.Sprintf("%s ↦ %q but %s ↦ %q (present=%v): the two spellings of one FFI must agree", k, ffi[k], sib, v, has))
					}
				}
			}
			// the FFI value names the package's last path element (disk ↦ disk, async_disk ↦ async_disk)
			for _, k := range sortedKeys(ffi) {
				if strings.HasPrefix(k, Mod+"/machine/") || strings.HasPrefix(k, "github.com/goose-lang/primitive/") {
					base := k[strings.LastIndex(k, "/")+1:]
					r.Check("R08a", "FFI name of "+k, ffiG.Pos(), ffi[k] == base, fmt.Sprintf("%s ↦ %q, expected %q", k, ffi[k], base))
				}
			}
		}
	}
	c08Header(p, r)
	c08PathMapping(p, r)
	c08Imports(p, r, imp, builtinG, gf)
	// shared obligations decided by the C06 and C17 analyses
	s6 := NewReport("C06", p)
	c06Sorting(p, s6)
	for _, o := range s6.Obls {
		if strings.HasPrefix(o.Key, "PrintImports") {
			o.Rule = "R08e"
			r.Obls = append(r.Obls, o)
			r.ruleIdx["R08e"].Instances++
		}
	}
	s17 := NewReport("C17", p)
	checkC17(p, s17)
	for _, o := range s17.Obls {
		if o.Key == "translate output path" {
			o.Rule = "R08d"
			r.Obls = append(r.Obls, o)
			r.ruleIdx["R08d"].Instances++
		}
	}
}

func c08Header(p *Prog, r *Report) {
	f := p.Func(Mod, "ffiHeaderFooter")
	if f == nil {
		r.Anchor("R08c", "goose.ffiHeaderFooter")
		return
	}
	r.Func(FuncName(f))
	paths, _ := p.enumPaths(f, 1, 1000)
	par := f.Params[0].Name()
	var noneOK, otherOK, seenNone, seenOther bool
	for _, pt := range paths {
		ret, isRet := pt.endsInReturn()
		if !isRet {
			continue
		}
		rs := pt.rels()
		hdr, ftr := resolveOnPath(pt, resolveLocal(ret.Results[0])), resolveOnPath(pt, resolveLocal(ret.Results[1]))
		if rs[eqRel(`"none"`, par)] {
			seenNone = true
			h, okh := constString(hdr)
			ft, okf := constString(ftr)
			sec, end := "", ""
			for _, ln := range strings.Split(h, "\n") {
				if strings.HasPrefix(ln, "Section ") {
					sec = strings.TrimSuffix(strings.TrimPrefix(ln, "Section "), ".")
				}
			}
			for _, ln := range strings.Split(ft, "\n") {
				if strings.HasPrefix(ln, "End ") {
					end = strings.TrimSuffix(strings.TrimPrefix(ln, "End "), ".")
				}
			}
			noneOK = okh && okf && sec != "" && sec == end && strings.Contains(h, "ext_types")
		} else {
			seenOther = true
			ft, okf := constString(ftr)
			okHdr := false
			if c, ok := hdr.(*ssa.Call); ok && calleeName(c) == "fmt.Sprintf" {
				fs, _ := constString(c.Call.Args[0])
				if strings.Contains(fs, "ffi.%s_prelude") && sk(c.Call.Args[1]) == "["+par+"]" {
					okHdr = true
				}
			}
			otherOK = okf && ft == "" && okHdr
		}
	}
	r.Check("R08c", "no FFI gives the Section header with its End footer", f.Pos(), seenNone && noneOK, "under ffi == \"none\": header must open `Section X.` with the ext_types context and the footer must close `End X.`")
	r.Check("R08c", "an FFI gives its prelude import and no footer", f.Pos(), seenOther && otherOK, "otherwise: header must be `…ffi.<ffi>_prelude.` formatted from the parameter and the footer empty")
	// translatePackage wires it: header/footer come from ffiHeaderFooter(ctx.Ffi) where Ffi = getFfi(pkg)
	tpk := p.Func(Mod, "TranslationConfig.translatePackage")
	okWire := false
	if tpk != nil {
		p.instrs(tpk, func(b *ssa.BasicBlock, i int, in ssa.Instruction) {
			if c, ok := in.(*ssa.Call); ok && calleeOf(&c.Call) == f {
				if strings.HasSuffix(sk(c.Call.Args[0]), ".Ffi") {
					okWire = true
				}
			}
		})
		// some constructor in the package stores getFfi(its package parameter) into the Ffi field
		gfStored := false
		for _, g := range p.FuncsIn(Mod) {
			p.instrs(g, func(b *ssa.BasicBlock, i int, in ssa.Instruction) {
				st, ok := in.(*ssa.Store)
				if !ok {
					return
				}
				if _, fld, okf := fieldOf(st.Addr); !okf || fld != "Ffi" {
					return
				}
				for _, o := range origins(st.Val) {
					var c *ssa.Call
					switch x := o.(type) {
					case *ssa.Call:
						c = x
					case *ssa.Extract:
						c, _ = x.Tuple.(*ssa.Call)
					}
					if c != nil && calleeName(c) == Mod+".getFfi" && len(g.Params) > 0 && c.Call.Args[0] == ssa.Value(g.Params[0]) {
						gfStored = true
					}
				}
			})
		}
		okWire = okWire && gfStored
	}
	r.Check("R08c", "header is chosen from the package's own FFI", f.Pos(), okWire, "translatePackage must pass ctx.Ffi (= getFfi(pkg)) to ffiHeaderFooter")
}

// resolveOnPath resolves phi nodes along a concrete path (as seen at the end of the path).
func resolveOnPath(pt cfgPath, v ssa.Value) ssa.Value {
	return resolveOnPathAt(pt, v, len(pt.Blocks)-1, false)
}

// resolveOnPathAt resolves a phi as seen from position `at` of the path: through the last visit of
// the phi's block at or before that position. With havoc, a phi of a loop header that is entered
// from outside the loop stays symbolic: the path then stands for an arbitrary iteration.
func resolveOnPathAt(pt cfgPath, v ssa.Value, at int, havoc bool) ssa.Value {
	for depth := 0; depth < 10; depth++ {
		ph, ok := v.(*ssa.Phi)
		if !ok {
			return v
		}
		idx := -1
		for i, b := range pt.Blocks {
			if i > at {
				break
			}
			if b == ph.Block() {
				idx = i
			}
		}
		if idx <= 0 {
			return v
		}
		pred := pt.Blocks[idx-1]
		if havoc && isLoopHeader(ph.Block()) && !ph.Block().Dominates(pred) {
			return v
		}
		found := false
		for i, pb := range ph.Block().Preds {
			if pb == pred {
				v = ph.Edges[i]
				found = true
				break
			}
		}
		if !found {
			return v
		}
		at = idx - 1
	}
	return v
}

func isLoopHeader(b *ssa.BasicBlock) bool {
	for _, pr := range b.Preds {
		if b.Dominates(pr) {
			return true
		}
	}
	return false
}

// resolveLocal follows a load of a local (named result) to the single value stored in it on this function (flow-insensitive; used only for constants/calls).
func resolveLocal(v ssa.Value) ssa.Value {
	if ld, ok := v.(*ssa.UnOp); ok && ld.Op == token.MUL {
		if a, ok := ld.X.(*ssa.Alloc); ok {
			var vals []ssa.Value
			for _, rf := range refs(a) {
				if st, ok := rf.(*ssa.Store); ok && st.Addr == ssa.Value(a) && dominatesInstr(st, ld) {
					vals = append(vals, st.Val)
				}
			}
			// the last dominating store in the same block as the load, else the unique one
			for _, sv := range vals {
				for _, rf := range refs(a) {
					if st, ok := rf.(*ssa.Store); ok && st.Val == sv && st.Block() == ld.Block() {
						return sv
					}
				}
			}
			if len(vals) == 1 {
				return vals[0]
			}
			if len(vals) == 0 {
				// zero value
				return ssa.NewConst(nil, a.Type().(*types.Pointer).Elem())
			}
		}
	}
	return v
}

func c08PathMapping(p *Prog, r *Report) {
	// the path mapping, found by role: the func(string) string of the printer whose result is a chain of
	// strings.ReplaceAll over its parameter
	var pm *ssa.Function
	mapped := func(arg string) string { return "" }
	var cands []*ssa.Function
	if itp := p.Func(coqPkg, "ImportToPath"); itp != nil {
		cands = p.region([]*ssa.Function{itp}) // the mapping is the one the output path is computed with
	}
	for _, g := range cands {
		if g.Parent() != nil || g.Signature.Recv() != nil || g.Signature.Params().Len() != 1 || g.Signature.Results().Len() != 1 {
			continue
		}
		if types.TypeString(g.Signature.Params().At(0).Type(), nil) != "string" || types.TypeString(g.Signature.Results().At(0).Type(), nil) != "string" {
			continue
		}
		ips, ok := p.ipaths(g)
		if !ok || len(ips) != 1 || len(ips[0].Ret) != 1 {
			continue
		}
		k := ips[0].Ret[0]
		reps := map[string]string{}
		inner := k
		for {
			n, a, ok := parseCallKey(inner)
			if !ok || n != "strings.ReplaceAll" || len(a) != 3 {
				break
			}
			reps[strings.Trim(a[1], `"`)] = strings.Trim(a[2], `"`)
			inner = a[0]
		}
		if len(reps) == 0 || inner != g.Params[0].Name() {
			continue
		}
		pm = g
		pn := g.Params[0].Name()
		mapped = func(arg string) string { return substIdents(k, map[string]string{pn: arg}) }
		r.Func(FuncName(pm))
		r.Check("R08d", "pathToCoqPath maps '.' and '-' to '_'", pm.Pos(), reps["."] == "_" && reps["-"] == "_" && len(reps) == 2, fmt.Sprintf("replacements: %v", reps))
	}
	if pm == nil {
		r.Anchor("R08d", "the path mapping of the printer (a strings.ReplaceAll chain over an import path)")
		return
	}
	// onlyMapped: every occurrence of src in the keys lies inside the mapping applied to src
	onlyMapped := func(keys []string, src string) (n int, bad string) {
		m := mapped(src)
		for _, k := range keys {
			n += strings.Count(k, m)
			rest := strings.ReplaceAll(k, m, "§")
			if replaceToken(rest, src, "\x00") != rest {
				bad = rest
			}
		}
		return n, bad
	}
	if f := p.Func(coqPkg, "ImportDecl.CoqDecl"); f != nil {
		r.Func(FuncName(f))
		ips, ok := p.ipaths(f)
		src := ""
		if len(f.Params) > 0 {
			src = f.Params[0].Name() + ".Path"
		}
		nTot, bad := 0, ""
		okT := ok
		for _, ip := range ips {
			if ip.Exit != "return" {
				continue
			}
			keys := append([]string{}, ip.Ret...)
			trusted := ip.Rels[eqRel("true", f.Params[0].Name()+".Trusted")] || ip.Rels[f.Params[0].Name()+".Trusted == true"]
			for _, e := range ip.Events {
				if e.Key != "" && strings.Contains(mapped(src), e.Key) {
					continue // a step of the mapping itself
				}
				keys = append(keys, e.Args...)
				if e.Callee == "fmt.Sprintf" && len(e.Args) > 0 {
					if strings.Contains(e.Args[0], "goose_lang.trusted") != trusted || !strings.Contains(e.Args[0], "Require") {
						okT = false
					}
				}
			}
			n, b := onlyMapped(keys, src)
			nTot += n
			if b != "" {
				bad = b
			}
		}
		r.Check("R08d", "Require path goes through pathToCoqPath", f.Pos(), ok && nTot >= 1 && bad == "",
			"the unmapped path is used directly ("+bad+"): the Require/file name would keep '.' or '-' that the other side maps to '_'")
		r.Check("R08d", "trusted imports use the trusted namespace", f.Pos(), okT, "the trusted Require form must be emitted exactly under decl.Trusted")
	} else {
		r.Anchor("R08d", "coq.ImportDecl.CoqDecl")
	}
	if f := p.Func(coqPkg, "ImportToPath"); f != nil {
		r.Func(FuncName(f))
		ips, ok := p.ipaths(f)
		src := f.Params[0].Name()
		nTot, bad, okV, shape := 0, "", ok, ""
		for _, ip := range ips {
			if ip.Exit != "return" || len(ip.Ret) != 1 {
				continue
			}
			n, b := onlyMapped(ip.Ret, src)
			nTot += n
			if b != "" {
				bad = b
			}
			rest := strings.ReplaceAll(ip.Ret[0], mapped(src), "§")
			if rest != `path/filepath.Join([path.Dir(§),(path.Base(§) + ".v")])` && rest != `path.Join([path.Dir(§),(path.Base(§) + ".v")])` {
				okV, shape = false, rest
			}
		}
		r.Check("R08d", "output file path goes through pathToCoqPath", f.Pos(), ok && nTot >= 1 && bad == "",
			"the unmapped path is used directly ("+bad+"): the Require/file name would keep '.' or '-' that the other side maps to '_'")
		r.Check("R08d", "output file is <dir>/<base>.v of the mapped path", f.Pos(), okV && nTot >= 1, "the result is "+shape)
	} else {
		r.Anchor("R08d", "coq.ImportToPath")
	}
}

func c08Imports(p *Prog, r *Report, imp *ssa.Function, builtinG *ssa.Global, gf *ssa.Function) {
	if imp == nil {
		r.Anchor("R08e", "goose.Ctx.imports")
		return
	}
	r.Func(FuncName(imp))
	rm := p.Rels(imp)
	var lk *ssa.Lookup
	p.instrs(imp, func(b *ssa.BasicBlock, i int, in ssa.Instruction) {
		if l, ok := in.(*ssa.Lookup); ok && lookupGlobal(l) == builtinG && builtinG != nil {
			lk = l
		}
	})
	nApp := 0
	okGuard, okTrust := true, true
	var why string
	p.instrs(imp, func(b *ssa.BasicBlock, i int, in ssa.Instruction) {
		c, ok := in.(*ssa.Call)
		if !ok {
			return
		}
		if bi, isB := c.Call.Value.(*ssa.Builtin); !isB || bi.Name() != "append" {
			return
		}
		nApp++
		rs := p.RelsAt(rm, c)
		if lk == nil || !rs[sk(lk)+" == false"] {
			okGuard = false
			why = fmt.Sprintf("an ImportDecl is appended without the fact that the path is not builtin; facts %v", relList(rs))
		}
		// Trusted field value vs. the HasPrefix fact
		trustedFact := false
		for k := range rs {
			if strings.HasPrefix(k, "strings.HasPrefix(") && strings.Contains(k, `"trusted_"`) && strings.HasSuffix(k, "== true") {
				trustedFact = true
			}
		}
		tv := ""
		for _, v := range flowOperands(c.Call.Args[1]) {
			if a, ok := v.(*ssa.Alloc); ok {
				for _, rf := range refs(a) {
					if ia, ok := rf.(*ssa.IndexAddr); ok {
						for _, r2 := range refs(ia) {
							if st, ok := r2.(*ssa.Store); ok {
								// composite literal stored into the varargs array
								for _, o := range flowOperands(st.Val) {
									if fa, ok := o.(*ssa.FieldAddr); ok {
										if _, fld, _ := fieldOf(fa); fld == "Trusted" {
											for _, r3 := range refs(fa) {
												if s3, ok := r3.(*ssa.Store); ok {
													if cc, ok := s3.Val.(*ssa.Const); ok {
														tv = cc.Value.String()
													}
												}
											}
										}
									}
								}
							}
						}
					}
				}
			}
		}
		if tv != "" && (tv == "true") != trustedFact {
			okTrust = false
		}
	})
	r.Check("R08e", "ImportDecl exactly for non-builtin imports", imp.Pos(), okGuard && nApp >= 1 && lk != nil && !lk.CommaOk, why)
	r.Check("R08e", "trusted_ prefix selects Trusted", imp.Pos(), okTrust, "Trusted must be true exactly under the HasPrefix(pkgName, \"trusted_\") fact")
	// key looked up is the unquoted import path of the spec
	if lk != nil {
		okKey := strings.Contains(sk(lk.Index), ".Path")
		r.Check("R08e", "builtin test uses the spec's import path", instrPos(lk), okKey, "looked-up key is "+sk(lk.Index))
	}
	// renamed imports rejected: the ImportSpec.Name field is tested and leads to a reporter
	rejected := false
	p.instrs(imp, func(b *ssa.BasicBlock, i int, in ssa.Instruction) {
		if c, ok := in.(*ssa.Call); ok {
			if cal := calleeOf(&c.Call); cal != nil && p.NoReturn(cal) {
				rs := p.RelsAt(rm, c)
				for k := range rs {
					if strings.Contains(k, ".Name") && strings.Contains(k, " != ") && strings.Contains(k, "nil") {
						rejected = true
					}
				}
			}
		}
	})
	r.Check("R08e", "renamed imports are rejected", imp.Pos(), rejected, "no rejecting call under the fact spec.Name != nil: a renamed import would be emitted under its path's name while uses refer to the new name")
	// File.Write prints the imports once and the header once
	if w := p.Func(coqPkg, "File.Write"); w != nil {
		r.Func(FuncName(w))
		n := len(blockOfCall(p, w, "("+coqPkg+".ImportDecls).PrintImports"))
		r.Check("R08e", "file prints its imports once", w.Pos(), n == 1, fmt.Sprintf("%d PrintImports calls", n))
	}
	var _ = sort.Strings
}
