package main

import (
	"fmt"
	"go/types"
	"sort"
	"strings"

	"golang.org/x/tools/go/ssa"
)

// c07Constructors (R07e): the translator's context is complete when it is built. Every non-empty composite
// literal of the context type sets every field of the type except those the package assigns later (lazily
// initialised per declaration); every types.Info literal sets every map the translator reads, directly or
// through Info.TypeOf / Info.ObjectOf. A missing field is a nil file set, type-information table or error
// reporter at the first use: a runtime panic outside the structured errors, or type information silently absent.
func c07Constructors(p *Prog, r *Report) {
	r.Rule("R07e", "complete context: every non-empty composite literal of the translator's context type (the receiver type of the translation methods) sets every field of that type except fields that are assigned elsewhere in the package (initialised lazily); every types.Info literal sets every table the package reads (Defs, Uses, Types, Instances, … — directly or through TypeOf/ObjectOf)", 2)
	// the context type: the named struct type of the package with the most methods
	var ctxT *types.Named
	best := 0
	if pk := p.All[Mod]; pk != nil {
		sc := pk.Types.Scope()
		for _, n := range sc.Names() {
			if tn, ok := sc.Lookup(n).(*types.TypeName); ok {
				if nt, ok := tn.Type().(*types.Named); ok {
					if _, isS := nt.Underlying().(*types.Struct); isS && nt.NumMethods() > best {
						best, ctxT = nt.NumMethods(), nt
					}
				}
			}
		}
	}
	if ctxT == nil {
		r.Anchor("R07e", "the translator's context type")
		return
	}
	st := ctxT.Underlying().(*types.Struct)
	// fields stored outside composite literals, and the literals with their stored fields
	lazy := map[string]bool{}
	type lit struct {
		al     *ssa.Alloc
		fn     *ssa.Function
		fields map[string]bool
	}
	var ctxLits, infoLits []*lit
	infoRead := map[string]bool{}
	isInfo := func(t types.Type) bool {
		if pt, ok := t.(*types.Pointer); ok {
			t = pt.Elem()
		}
		nt, ok := t.(*types.Named)
		return ok && nt.Obj().Pkg() != nil && nt.Obj().Pkg().Path() == "go/types" && nt.Obj().Name() == "Info"
	}
	for _, f := range p.FuncsIn(Mod) {
		lits := map[*ssa.Alloc]*lit{}
		p.instrs(f, func(b *ssa.BasicBlock, i int, in ssa.Instruction) {
			switch in := in.(type) {
			case *ssa.Alloc:
				et := in.Type().(*types.Pointer).Elem()
				if in.Comment == "complit" && (types.Identical(et, ctxT) || isInfo(et)) {
					lits[in] = &lit{in, f, map[string]bool{}}
				}
			case *ssa.Call:
				n := calleeName(in)
				if n == "(*go/types.Info).TypeOf" {
					infoRead["Types"], infoRead["Defs"], infoRead["Uses"] = true, true, true
				}
				if n == "(*go/types.Info).ObjectOf" {
					infoRead["Defs"], infoRead["Uses"] = true, true
				}
			}
		})
		p.instrs(f, func(b *ssa.BasicBlock, i int, in ssa.Instruction) {
			fa, ok := in.(*ssa.FieldAddr)
			if !ok {
				return
			}
			bt := fa.X.Type().(*types.Pointer).Elem()
			name := bt.Underlying().(*types.Struct).Field(fa.Field).Name()
			stored := false
			for _, rf := range refs(fa) {
				if s, ok := rf.(*ssa.Store); ok && s.Addr == ssa.Value(fa) {
					stored = true
				}
			}
			if al, ok := fa.X.(*ssa.Alloc); ok && lits[al] != nil {
				if stored {
					lits[al].fields[name] = true
				}
				return
			}
			if types.Identical(bt, ctxT) && stored {
				lazy[name] = true
			}
			if isInfo(bt) && !stored {
				infoRead[name] = true
			}
		})
		for _, l := range lits {
			if len(l.fields) == 0 {
				continue // the zero value returned next to an error
			}
			if isInfo(l.al.Type().(*types.Pointer).Elem()) {
				infoLits = append(infoLits, l)
			} else {
				ctxLits = append(ctxLits, l)
			}
		}
	}
	sort.Slice(ctxLits, func(i, j int) bool { return ctxLits[i].al.Pos() < ctxLits[j].al.Pos() })
	for _, l := range ctxLits {
		var missing []string
		for i := 0; i < st.NumFields(); i++ {
			n := st.Field(i).Name()
			if !l.fields[n] && !lazy[n] {
				missing = append(missing, n)
			}
		}
		r.Func(FuncName(l.fn))
		r.Check("R07e", fmt.Sprintf("%s builds a complete %s", FuncName(l.fn), ctxT.Obj().Name()), l.al.Pos(), len(missing) == 0,
			fmt.Sprintf("the literal does not set %s (fields assigned elsewhere in the package: %v): the first use of the missing part is a nil dereference or silently absent information", strings.Join(missing, ", "), sortedKeys(lazy)))
	}
	if len(ctxLits) == 0 {
		r.Unknown("R07e", "context literals", ctxT.Obj().Pos(), "no composite literal of the context type "+ctxT.Obj().Name()+" found")
	}
	for _, l := range infoLits {
		var missing []string
		for n := range infoRead {
			if !l.fields[n] {
				missing = append(missing, n)
			}
		}
		sort.Strings(missing)
		r.Check("R07e", fmt.Sprintf("%s builds a types.Info with every table the translator reads", FuncName(l.fn)), l.al.Pos(), len(missing) == 0,
			fmt.Sprintf("the translator reads Info.%s but the literal leaves it nil: go/types records nothing there and every lookup silently finds nothing", strings.Join(missing, ", Info.")))
	}
	r.Table("types.Info tables read by the translator", sortedKeys(infoRead))
}
