package main

import (
	"fmt"
	"go/constant"
	"go/token"
	"go/types"
	"sort"
	"strings"

	"golang.org/x/tools/go/ssa"
)

// ---------------------------------------------------------------------------
// A1: no-return functions (least fixpoint)

func calleeOf(c *ssa.CallCommon) *ssa.Function {
	if c == nil {
		return nil
	}
	return c.StaticCallee()
}

// fullName is "pkgpath.Func" or "(pkgpath.T).Method" / "(*pkgpath.T).Method".
func fullName(f *ssa.Function) string {
	if f == nil {
		return ""
	}
	return f.String()
}

func isOsExit(f *ssa.Function) bool {
	n := fullName(f)
	return n == "os.Exit" || n == "runtime.Goexit" || n == "log.Fatal" || n == "log.Fatalf" || n == "log.Fatalln"
}

// blockDiverges reports whether control never leaves b normally: b contains a
// call to a no-return function, or ends in panic.
func (p *Prog) blockDiverges(b *ssa.BasicBlock) bool {
	for _, in := range b.Instrs {
		switch in := in.(type) {
		case *ssa.Panic:
			return true
		case ssa.CallInstruction:
			if _, isDefer := in.(*ssa.Defer); isDefer {
				continue
			}
			if _, isGo := in.(*ssa.Go); isGo {
				continue
			}
			if f := calleeOf(in.Common()); f != nil && (p.noReturn[f] || isOsExit(f)) {
				return true
			}
		}
	}
	return false
}

// reachable returns the blocks reachable from entry, not following edges out of
// diverging blocks. Diverging blocks themselves are included.
func (p *Prog) reachable(f *ssa.Function) map[*ssa.BasicBlock]bool {
	seen := map[*ssa.BasicBlock]bool{}
	if len(f.Blocks) == 0 {
		return seen
	}
	var walk func(b *ssa.BasicBlock)
	walk = func(b *ssa.BasicBlock) {
		if seen[b] {
			return
		}
		seen[b] = true
		if p.blockDiverges(b) {
			return
		}
		for _, s := range b.Succs {
			walk(s)
		}
	}
	walk(f.Blocks[0])
	return seen
}

func (p *Prog) computeNoReturn() {
	p.noReturn = map[*ssa.Function]bool{}
	var all []*ssa.Function
	all = append(all, p.srcFuncs...)
	for changed := true; changed; {
		changed = false
		for _, f := range all {
			if p.noReturn[f] || len(f.Blocks) == 0 {
				continue
			}
			if f.Recover != nil {
				continue // a recovering function can return normally
			}
			reach := p.reachable(f)
			returns := false
			for b := range reach {
				if p.blockDiverges(b) {
					continue
				}
				if len(b.Instrs) > 0 {
					if _, ok := b.Instrs[len(b.Instrs)-1].(*ssa.Return); ok {
						returns = true
						break
					}
				}
			}
			if !returns {
				p.noReturn[f] = true
				changed = true
			}
		}
	}
}

// NoReturn reports whether f never returns normally.
func (p *Prog) NoReturn(f *ssa.Function) bool { return f != nil && (p.noReturn[f] || isOsExit(f)) }

// ---------------------------------------------------------------------------
// Path facts: branch conditions that must hold on entry to a block.

type fact struct {
	Cond ssa.Value
	Val  bool
	At   int // on an enumerated path: index (in the path's block list) of the block whose branch this is
}

// relSet is a set of canonical relation strings (see relOf).
type relSet map[string]bool

func (a relSet) intersect(b relSet) relSet {
	out := relSet{}
	for k := range a {
		if b[k] {
			out[k] = true
		}
	}
	return out
}

func (a relSet) clone() relSet {
	out := relSet{}
	for k := range a {
		out[k] = true
	}
	return out
}

// callPost returns the relations established by a call that returns normally:
// the facts that hold at every normal return of a repository callee, with the
// callee's parameter names replaced by the caller's argument expressions
// (helper summaries, so that extracting a guard into a helper is understood).
func (p *Prog) callPost(c *ssa.Call, depth int) relSet {
	callee := calleeOf(&c.Call)
	if callee == nil || depth > 3 || callee.Pkg == nil || !InRepo(callee.Pkg.Pkg.Path()) || len(callee.Blocks) == 0 {
		return nil
	}
	if len(callee.Params) != len(c.Call.Args) {
		return nil
	}
	post := p.exitRels(callee, depth+1)
	if len(post) == 0 {
		return nil
	}
	sub := map[string]string{}
	for i, pa := range callee.Params {
		sub[pa.Name()] = sk(c.Call.Args[i])
	}
	out := relSet{}
	for k := range post {
		out[renormRel(substIdents(k, sub))] = true
	}
	return out
}

// exitRels: relations holding at every normal return of f.
func (p *Prog) exitRels(f *ssa.Function, depth int) relSet {
	if p.exitCache == nil {
		p.exitCache = map[*ssa.Function]relSet{}
	}
	if r, ok := p.exitCache[f]; ok {
		return r
	}
	p.exitCache[f] = relSet{} // recursion guard
	rm := p.relsDepth(f, depth)
	var res relSet
	for _, b := range f.Blocks {
		if rm[b] == nil || len(b.Instrs) == 0 {
			continue
		}
		ret, ok := b.Instrs[len(b.Instrs)-1].(*ssa.Return)
		if !ok || p.blockDiverges(b) {
			continue
		}
		at := p.relsAtDepth(rm, ret, depth)
		if res == nil {
			res = at.clone()
		} else {
			res = res.intersect(at)
		}
	}
	if res == nil {
		res = relSet{}
	}
	p.exitCache[f] = res
	return res
}

// Rels computes, per reachable block, the set of relations that hold on every
// path from entry to that block (edges out of diverging blocks do not exist;
// calls to repository helpers contribute their exit relations). Forward
// must-analysis to a fixpoint.
func (p *Prog) Rels(f *ssa.Function) map[*ssa.BasicBlock]relSet { return p.relsDepth(f, 0) }

func (p *Prog) relsDepth(f *ssa.Function, depth int) map[*ssa.BasicBlock]relSet {
	reach := p.reachable(f)
	in := map[*ssa.BasicBlock]relSet{}
	if len(f.Blocks) == 0 {
		return in
	}
	in[f.Blocks[0]] = relSet{}
	work := []*ssa.BasicBlock{f.Blocks[0]}
	for len(work) > 0 {
		b := work[0]
		work = work[1:]
		if p.blockDiverges(b) {
			continue
		}
		out := in[b].clone()
		for _, ins := range b.Instrs {
			if c, ok := ins.(*ssa.Call); ok {
				for k := range p.callPost(c, depth) {
					out[k] = true
				}
			}
		}
		var ifc *ssa.If
		if len(b.Instrs) > 0 {
			ifc, _ = b.Instrs[len(b.Instrs)-1].(*ssa.If)
		}
		for i, s := range b.Succs {
			if !reach[s] {
				continue
			}
			e := out.clone()
			if ifc != nil && b.Succs[0] != b.Succs[1] {
				if rs, ok := relOf(fact{Cond: ifc.Cond, Val: i == 0}); ok {
					e[rs] = true
				}
				for k := range p.condCallFacts(ifc.Cond, i == 0) {
					e[k] = true
				}
				// a materialised a && b (|| dually), as go/ssa builds for the case expressions of a tagless
				// switch: the phi is true only through its one non-constant edge, whose operand was true and
				// whose block was entered on the true edges of the operands before it
				for _, fc := range shortCircuitFacts(ifc.Cond, i == 0, 0) {
					if rs, ok := relOf(fc); ok {
						e[rs] = true
					}
					for k := range p.condCallFacts(fc.Cond, fc.Val) {
						e[k] = true
					}
				}
			}
			old, ok := in[s]
			var nw relSet
			if !ok {
				nw = e
			} else {
				nw = old.intersect(e)
			}
			if !ok || len(nw) != len(old) {
				in[s] = nw
				work = append(work, s)
			}
		}
	}
	return in
}

// RelsAt returns the relations holding just before instruction `at`.
func (p *Prog) RelsAt(rm map[*ssa.BasicBlock]relSet, at ssa.Instruction) relSet {
	return p.relsAtDepth(rm, at, 0)
}

func (p *Prog) relsAtDepth(rm map[*ssa.BasicBlock]relSet, at ssa.Instruction, depth int) relSet {
	b := at.Block()
	out := rm[b].clone()
	for _, ins := range b.Instrs {
		if ins == at {
			break
		}
		if c, ok := ins.(*ssa.Call); ok {
			for k := range p.callPost(c, depth) {
				out[k] = true
			}
		}
	}
	return out
}

// ---------------------------------------------------------------------------
// Structural keys for pure SSA values (go/ssa performs no CSE, so the same
// source expression read twice yields two values; keys make them comparable).

func constKey(c *ssa.Const) string {
	if c.Value == nil {
		return "nil"
	}
	return c.Value.ExactString()
}

// exprKey renders v as an access-path-like expression. Loads through a field
// address are rendered as the field path; this is only sound where the rule has
// separately established that the field is not reassigned (e.g. R09d) or where
// the key is used to *name* a construct rather than to equate values.
func exprKey(v ssa.Value) string {
	return exprKeyD(v, 0)
}

// keyMemo makes the key of a value independent of the context it is rendered in:
// every value has exactly one key; over-long sub-keys are abbreviated by a hash of their full text.
var keyMemo = map[ssa.Value]string{}

func shortKey(k string) string {
	if len(k) <= 2400 {
		return k
	}
	h := uint32(2166136261)
	for i := 0; i < len(k); i++ {
		h ^= uint32(k[i])
		h *= 16777619
	}
	// keep a readable head
	head := k
	if len(head) > 60 {
		head = head[:60]
	}
	return fmt.Sprintf("%s…‹%08x›", head, h)
}

func exprKeyD(v ssa.Value, d int) string {
	if v == nil {
		return "<nil>"
	}
	if k, ok := keyMemo[v]; ok {
		if d > 0 {
			return shortKey(k)
		}
		return k
	}
	if d > 40 {
		return "…"
	}
	k := exprKeyRaw(v, d)
	if _, isCall := v.(*ssa.Call); !isCall || curProg != nil {
		keyMemo[v] = k
	}
	if d > 0 {
		return shortKey(k)
	}
	return k
}

func exprKeyRaw(v ssa.Value, d int) string {
	switch v := v.(type) {
	case nil:
		return "<nil>"
	case *ssa.Parameter:
		return v.Name()
	case *ssa.FreeVar:
		return v.Name()
	case *ssa.Const:
		return constKey(v)
	case *ssa.Global:
		return v.Pkg.Pkg.Name() + "." + v.Name()
	case *ssa.Function:
		return FuncName(v)
	case *ssa.Alloc:
		if v.Comment != "" {
			return "&" + v.Comment
		}
		return "&alloc"
	case *ssa.FieldAddr:
		st := deref(v.X.Type()).Underlying().(*types.Struct)
		if a, ok := v.X.(*ssa.Alloc); ok && a.Comment != "" {
			// spilled value receiver / local struct: name it by its variable
			return a.Comment + "." + st.Field(v.Field).Name()
		}
		return exprKeyD(v.X, d+1) + "." + st.Field(v.Field).Name()
	case *ssa.Field:
		st := v.X.Type().Underlying().(*types.Struct)
		return exprKeyD(v.X, d+1) + "." + st.Field(v.Field).Name()
	case *ssa.UnOp:
		if v.Op == token.MUL {
			switch x := v.X.(type) {
			case *ssa.FieldAddr:
				return exprKeyD(x, d+1)
			case *ssa.IndexAddr:
				return exprKeyD(x, d+1)
			case *ssa.Alloc:
				if x.Comment != "" {
					return x.Comment
				}
			case *ssa.Global:
				return exprKeyD(x, d+1)
			}
			return "*" + exprKeyD(v.X, d+1)
		}
		return v.Op.String() + exprKeyD(v.X, d+1)
	case *ssa.BinOp:
		return "(" + exprKeyD(v.X, d+1) + " " + v.Op.String() + " " + exprKeyD(v.Y, d+1) + ")"
	case *ssa.Convert:
		return types.TypeString(v.Type(), qualNone) + "(" + exprKeyD(v.X, d+1) + ")"
	case *ssa.ChangeType:
		return exprKeyD(v.X, d+1)
	case *ssa.Call:
		if b, ok := v.Call.Value.(*ssa.Builtin); ok {
			var as []string
			for _, a := range v.Call.Args {
				as = append(as, exprKeyD(a, d+1))
			}
			return b.Name() + "(" + strings.Join(as, ",") + ")"
		}
		if k, ok := inlineCallKey(v, d); ok {
			return k
		}
		if f := calleeOf(&v.Call); f != nil {
			// methods promoted from go/types' embedded object (Pkg, Name, Type…) and interface
			// invocations of the same method render alike: "<recv>.M()"
			if f.Pkg != nil && f.Pkg.Pkg.Path() == "go/types" && f.Signature.Recv() != nil && len(v.Call.Args) == 1 {
				recv := v.Call.Args[0]
				if fa, ok := recv.(*ssa.FieldAddr); ok {
					if _, fld, okf := fieldOf(fa); okf && fld == "object" {
						recv = fa.X
					}
				}
				return exprKeyD(recv, d+1) + "." + f.Name() + "()"
			}
			var as []string
			for _, a := range v.Call.Args {
				as = append(as, exprKeyD(a, d+1))
			}
			return FuncName(f) + "(" + strings.Join(as, ",") + ")"
		}
		{
			var as []string
			for _, a := range v.Call.Args {
				as = append(as, exprKeyD(a, d+1))
			}
			if v.Call.IsInvoke() {
				return exprKeyD(v.Call.Value, d+1) + "." + v.Call.Method.Name() + "(" + strings.Join(as, ",") + ")"
			}
			return exprKeyD(v.Call.Value, d+1) + "(" + strings.Join(as, ",") + ")"
		}
	case *ssa.IndexAddr:
		return exprKeyD(v.X, d+1) + "[" + exprKeyD(v.Index, d+1) + "]"
	case *ssa.Index:
		return exprKeyD(v.X, d+1) + "[" + exprKeyD(v.Index, d+1) + "]"
	case *ssa.Lookup:
		return exprKeyD(v.X, d+1) + "[" + exprKeyD(v.Index, d+1) + "]"
	case *ssa.Slice:
		if a, ok := v.X.(*ssa.Alloc); ok && (a.Comment == "varargs" || a.Comment == "slicelit") && v.Low == nil && v.High == nil {
			// variadic argument list: render the stored elements in order
			elems := map[int64]string{}
			max := int64(-1)
			for _, rf := range refs(a) {
				if ia, ok := rf.(*ssa.IndexAddr); ok {
					if i, ok := constInt(ia.Index); ok {
						for _, r2 := range refs(ia) {
							if st, ok := r2.(*ssa.Store); ok && st.Addr == ssa.Value(ia) {
								elems[i] = exprKeyD(st.Val, d+1)
								if i > max {
									max = i
								}
							}
						}
					}
				}
			}
			var es []string
			for i := int64(0); i <= max; i++ {
				es = append(es, elems[i])
			}
			return "[" + strings.Join(es, ",") + "]"
		}
		s := exprKeyD(v.X, d+1) + "["
		if v.Low != nil {
			s += exprKeyD(v.Low, d+1)
		}
		s += ":"
		if v.High != nil {
			s += exprKeyD(v.High, d+1)
		}
		return s + "]"
	case *ssa.Extract:
		if c, ok := v.Tuple.(*ssa.Call); ok {
			if k, ok := inlineCallKeyIdx(c, v.Index, d); ok {
				return k
			}
		}
		return exprKeyD(v.Tuple, d+1) + "#" + fmt.Sprint(v.Index)
	case *ssa.Phi:
		return "phi:" + v.Comment
	case *ssa.MakeInterface:
		return exprKeyD(v.X, d+1)
	case *ssa.ChangeInterface:
		return exprKeyD(v.X, d+1)
	case *ssa.TypeAssert:
		return exprKeyD(v.X, d+1) + ".(" + types.TypeString(v.AssertedType, qualNone) + ")"
	case *ssa.MakeSlice:
		return "make(" + types.TypeString(v.Type(), qualNone) + "," + exprKeyD(v.Len, d+1) + ")"
	case *ssa.MakeMap:
		return "make(" + types.TypeString(v.Type(), qualNone) + ")"
	case *ssa.MakeClosure:
		return "closure:" + exprKeyD(v.Fn, d+1)
	case *ssa.Next:
		return "next(" + exprKeyD(v.Iter, d+1) + ")"
	case *ssa.Range:
		return "range(" + exprKeyD(v.X, d+1) + ")"
	case *ssa.Builtin:
		return v.Name()
	}
	// never leak SSA register names (they are renumbered by unrelated edits)
	return "<" + strings.TrimPrefix(fmt.Sprintf("%T", v), "*ssa.") + ">"
}

func qualNone(*types.Package) string { return "" }

// curProg lets exprKey see through calls of small repository helpers.
var curProg *Prog

// inlineCallKey renders a call of a repository function that has exactly one
// normal return with one result as that result expression, with parameters
// replaced by the argument expressions.
func inlineCallKey(v *ssa.Call, d int) (string, bool) {
	callee := calleeOf(&v.Call)
	if callee == nil || callee.Signature.Results().Len() != 1 {
		return "", false
	}
	return inlineCallKeyIdx(v, 0, d)
}

// inlineCallKeyIdx renders result idx of a call of a repository function with exactly one normal return.
func inlineCallKeyIdx(v *ssa.Call, idx int, d int) (string, bool) {
	p := curProg
	callee := calleeOf(&v.Call)
	if p == nil || callee == nil || callee.Pkg == nil || !InRepo(callee.Pkg.Pkg.Path()) || len(callee.Blocks) == 0 || d > 6 {
		return "", false
	}
	if idx >= callee.Signature.Results().Len() || len(callee.Params) != len(v.Call.Args) {
		return "", false
	}
	reach := p.reachable(callee)
	var rets []*ssa.Return
	for _, b := range callee.Blocks {
		if !reach[b] || p.blockDiverges(b) || len(b.Instrs) == 0 {
			continue
		}
		if r, ok := b.Instrs[len(b.Instrs)-1].(*ssa.Return); ok {
			rets = append(rets, r)
		}
	}
	if len(rets) != 1 {
		return "", false
	}
	if idx >= len(rets[0].Results) {
		return "", false
	}
	rk := exprKeyD(rets[0].Results[idx], d+2)
	if strings.Contains(rk, "phi:") || strings.Contains(rk, "‹") {
		// a result that is a phi of the callee (or abbreviated) has no meaning in the caller's terms
		return "", false
	}
	sub := map[string]string{}
	for i, pa := range callee.Params {
		sub[pa.Name()] = exprKeyD(v.Call.Args[i], d+2)
	}
	return substIdents(rk, sub), true
}

func deref(t types.Type) types.Type {
	if p, ok := t.Underlying().(*types.Pointer); ok {
		return p.Elem()
	}
	return t
}

// foldInt evaluates integer expressions built from constants with | & + (go/ssa does not fold across statements).
func foldInt(v ssa.Value) (int64, bool) {
	if n, ok := constInt(v); ok {
		return n, true
	}
	switch x := v.(type) {
	case *ssa.BinOp:
		a, ok1 := foldInt(x.X)
		b, ok2 := foldInt(x.Y)
		if !ok1 || !ok2 {
			return 0, false
		}
		switch x.Op {
		case token.OR:
			return a | b, true
		case token.AND:
			return a & b, true
		case token.ADD:
			return a + b, true
		case token.SHL:
			return a << uint(b), true
		}
	case *ssa.Convert:
		return foldInt(x.X)
	case *ssa.ChangeType:
		return foldInt(x.X)
	}
	return 0, false
}

// constInt returns the integer value of a constant SSA value.
func constInt(v ssa.Value) (int64, bool) {
	c, ok := v.(*ssa.Const)
	if !ok || c.Value == nil || c.Value.Kind() != constant.Int {
		return 0, false
	}
	n, ok := constant.Int64Val(c.Value)
	return n, ok
}

func constUint(v ssa.Value) (uint64, bool) {
	c, ok := v.(*ssa.Const)
	if !ok || c.Value == nil || c.Value.Kind() != constant.Int {
		return 0, false
	}
	n, ok := constant.Uint64Val(c.Value)
	return n, ok
}

func constString(v ssa.Value) (string, bool) {
	c, ok := v.(*ssa.Const)
	if !ok || c.Value == nil || c.Value.Kind() != constant.String {
		return "", false
	}
	return constant.StringVal(c.Value), true
}

// stripConv removes value-preserving wrappers.
func stripConv(v ssa.Value) ssa.Value {
	for {
		switch x := v.(type) {
		case *ssa.Convert:
			v = x.X
		case *ssa.ChangeType:
			v = x.X
		default:
			return v
		}
	}
}

// instrsOf iterates all instructions of reachable blocks.
func (p *Prog) instrs(f *ssa.Function, fn func(b *ssa.BasicBlock, i int, in ssa.Instruction)) {
	reach := p.reachable(f)
	for _, b := range f.Blocks {
		if !reach[b] {
			continue
		}
		for i, in := range b.Instrs {
			fn(b, i, in)
		}
	}
}

// refs returns the referrers of v (nil-safe).
func refs(v ssa.Value) []ssa.Instruction {
	r := v.Referrers()
	if r == nil {
		return nil
	}
	return *r
}

// instrPos finds a usable position for an instruction.
func instrPos(in ssa.Instruction) token.Pos {
	if in.Pos().IsValid() {
		return in.Pos()
	}
	if v, ok := in.(ssa.Value); ok {
		for _, r := range refs(v) {
			if r.Pos().IsValid() {
				return r.Pos()
			}
		}
	}
	var ops []*ssa.Value
	for _, o := range in.Operands(ops) {
		if o != nil && *o != nil && (*o).Pos().IsValid() {
			return (*o).Pos()
		}
	}
	if in.Block() != nil {
		for _, x := range in.Block().Instrs {
			if x.Pos().IsValid() {
				return x.Pos()
			}
		}
		return in.Parent().Pos()
	}
	return token.NoPos
}

// blockPath renders a shortest entry→b block path as "0→3→5" with the branch
// conditions taken, for violation witnesses.
func (p *Prog) blockPath(f *ssa.Function, target *ssa.BasicBlock) string {
	if len(f.Blocks) == 0 {
		return ""
	}
	prev := map[*ssa.BasicBlock]*ssa.BasicBlock{}
	seen := map[*ssa.BasicBlock]bool{f.Blocks[0]: true}
	q := []*ssa.BasicBlock{f.Blocks[0]}
	for len(q) > 0 {
		b := q[0]
		q = q[1:]
		if b == target {
			break
		}
		if p.blockDiverges(b) {
			continue
		}
		for _, s := range b.Succs {
			if !seen[s] {
				seen[s] = true
				prev[s] = b
				q = append(q, s)
			}
		}
	}
	var chain []*ssa.BasicBlock
	for b := target; b != nil; b = prev[b] {
		chain = append([]*ssa.BasicBlock{b}, chain...)
		if b == f.Blocks[0] {
			break
		}
	}
	var parts []string
	for i, b := range chain {
		s := fmt.Sprintf("b%d", b.Index)
		if b.Comment != "" {
			s += "(" + b.Comment + ")"
		}
		if i+1 < len(chain) && len(b.Instrs) > 0 {
			if ifc, ok := b.Instrs[len(b.Instrs)-1].(*ssa.If); ok {
				if b.Succs[0] == chain[i+1] {
					s += "[" + exprKey(ifc.Cond) + "]"
				} else {
					s += "[!" + exprKey(ifc.Cond) + "]"
				}
			}
		}
		parts = append(parts, s)
	}
	return FuncName(f) + ": " + strings.Join(parts, " → ")
}

// sortedKeys returns the sorted keys of a string-keyed map.
func sortedKeys[V any](m map[string]V) []string {
	var ks []string
	for k := range m {
		ks = append(ks, k)
	}
	sort.Strings(ks)
	return ks
}

// calleeName returns the full name of the static callee of a call instruction ("" if dynamic).
func calleeName(in ssa.CallInstruction) string {
	if f := calleeOf(in.Common()); f != nil {
		return fullName(f)
	}
	if b, ok := in.Common().Value.(*ssa.Builtin); ok {
		return "builtin." + b.Name()
	}
	if in.Common().IsInvoke() {
		return "invoke:" + types.TypeString(in.Common().Value.Type(), nil) + "." + in.Common().Method.Name()
	}
	return ""
}

// sk is the canonical (context-independent, length-bounded) key of a value; every
// operand inside a relation and every hand-composed key uses it.
func sk(v ssa.Value) string { return shortKey(exprKey(v)) }

// RelsOnEdge returns the relations that hold when control passes from pred to succ.
func (p *Prog) RelsOnEdge(rm map[*ssa.BasicBlock]relSet, pred, succ *ssa.BasicBlock) relSet {
	out := rm[pred].clone()
	for _, ins := range pred.Instrs {
		if c, ok := ins.(*ssa.Call); ok {
			for k := range p.callPost(c, 0) {
				out[k] = true
			}
		}
	}
	if len(pred.Instrs) > 0 {
		if ifc, ok := pred.Instrs[len(pred.Instrs)-1].(*ssa.If); ok && pred.Succs[0] != pred.Succs[1] {
			for i, s := range pred.Succs {
				if s == succ {
					if rs, ok := relOf(fact{Cond: ifc.Cond, Val: i == 0}); ok {
						out[rs] = true
					}
				}
			}
		}
	}
	return out
}

// condCallFacts: the facts a branch on the result of a repository helper establishes beyond the
// branch condition itself — what holds on every abstract path of the callee that can return the
// tested value (helper-extracted guards such as `obj, ok := namedPtrElem(t); if ok {…}`), with
// the callee's parameters replaced by the arguments and its returned keys by the call's results.
func (p *Prog) condCallFacts(cond ssa.Value, val bool) relSet {
	for {
		u, ok := cond.(*ssa.UnOp)
		if !ok || u.Op != token.NOT {
			break
		}
		cond, val = u.X, !val
	}
	var call *ssa.Call
	idx := 0
	want := ""
	pick := func(v ssa.Value) bool {
		switch x := v.(type) {
		case *ssa.Extract:
			if c, ok := x.Tuple.(*ssa.Call); ok {
				call, idx = c, x.Index
				return true
			}
		case *ssa.Call:
			call, idx = x, 0
			return true
		}
		return false
	}
	if bo, ok := cond.(*ssa.BinOp); ok && (bo.Op == token.EQL || bo.Op == token.NEQ) {
		var other ssa.Value
		if c, ok := bo.Y.(*ssa.Const); ok && c.Value == nil {
			other = bo.X
		} else if c, ok := bo.X.(*ssa.Const); ok && c.Value == nil {
			other = bo.Y
		}
		if other == nil || !pick(other) {
			return nil
		}
		if (bo.Op == token.EQL) == val {
			want = "nil"
		} else {
			want = "!nil"
		}
	} else if pick(cond) {
		if val {
			want = "true"
		} else {
			want = "false"
		}
	} else {
		return nil
	}
	callee := calleeOf(&call.Call)
	if callee == nil || callee.Pkg == nil || !InRepo(callee.Pkg.Pkg.Path()) || len(callee.Blocks) == 0 || len(callee.Blocks) > 40 ||
		len(callee.Params) != len(call.Call.Args) || p.condBusy[callee] {
		return nil
	}
	if p.condBusy == nil {
		p.condBusy = map[*ssa.Function]bool{}
	}
	p.condBusy[callee] = true
	ips, ok := p.ipaths(callee)
	delete(p.condBusy, callee)
	if !ok {
		return p.condCallFactsLocal(call, callee, idx, want)
	}
	psub := map[string]string{}
	for i, pa := range callee.Params {
		psub[pa.Name()] = sk(call.Call.Args[i])
	}
	ck := sk(call)
	var res relSet
	for _, ip := range ips {
		if ip.Exit != "return" || idx >= len(ip.Ret) {
			continue
		}
		r := ip.Ret[idx]
		lit := isLiteralKey(r)
		switch want {
		case "true":
			if r == "false" {
				continue
			}
		case "false":
			if r == "true" {
				continue
			}
		case "nil":
			if lit && r != "nil" || neverNilKey(r) {
				continue
			}
		case "!nil":
			if r == "nil" {
				continue
			}
		}
		facts := relSet{}
		for k := range ip.Rels {
			facts[k] = true
		}
		if !lit && (want == "true" || want == "false") {
			if s, ok := relFromKey(r, want == "true"); ok {
				facts[s] = true
			}
		}
		var binds [][2]string
		for j, rk := range ip.Ret {
			if isLiteralKey(rk) {
				continue
			}
			to := ck
			if len(ip.Ret) > 1 {
				to = shortKey(ck + "#" + itoa(j))
			}
			binds = append(binds, [2]string{keySubst(rk, psub), to})
		}
		out := relSet{}
		for k := range facts {
			out[renormRel(replaceAllKeys(keySubst(k, psub), binds))] = true
		}
		if res == nil {
			res = out
		} else {
			res = res.intersect(out)
		}
	}
	return res
}

// condCallFactsLocal: the same summary from the callee's own control-flow paths (no splicing of its
// callees), used when the interprocedural paths are too many. Only literal results are understood: if
// some path returns a computed value for the tested result, nothing is concluded.
func (p *Prog) condCallFactsLocal(call *ssa.Call, callee *ssa.Function, idx int, want string) relSet {
	paths, ok := p.enumPaths(callee, 1, 20000)
	if !ok {
		return nil
	}
	psub := map[string]string{}
	for i, pa := range callee.Params {
		psub[pa.Name()] = sk(call.Call.Args[i])
	}
	var res relSet
	for _, pt := range paths {
		ret, isRet := pt.endsInReturn()
		if !isRet || idx >= len(ret.Results) {
			continue
		}
		rv := resolveOnPath(pt, ret.Results[idx])
		c, isConst := rv.(*ssa.Const)
		if !isConst {
			return nil
		}
		r := constKey(c)
		switch want {
		case "true", "false":
			if r != want {
				continue
			}
		case "nil":
			if r != "nil" {
				continue
			}
		case "!nil":
			if r == "nil" {
				continue
			}
		}
		out := relSet{}
		for k := range pt.relsResolved() {
			out[renormRel(keySubst(k, psub))] = true
		}
		if res == nil {
			res = out
		} else {
			res = res.intersect(out)
		}
	}
	return res
}

// shortCircuitFacts: the operand facts implied by a materialised short-circuit value. v is a phi with comment
// "&&" (val true) or "||" (val false): all edges but one carry the short-circuit constant.
func shortCircuitFacts(v ssa.Value, val bool, depth int) []fact {
	ph, ok := v.(*ssa.Phi)
	if !ok || depth > 4 || !(ph.Comment == "&&" && val || ph.Comment == "||" && !val) {
		return nil
	}
	j := -1
	for i, e := range ph.Edges {
		if c, isC := e.(*ssa.Const); isC && c.Value != nil && (c.Value.String() == "true") == !val {
			continue // the short-circuit constant
		}
		if j >= 0 {
			return nil
		}
		j = i
	}
	if j < 0 {
		return nil
	}
	out := []fact{{Cond: ph.Edges[j], Val: val}}
	out = append(out, shortCircuitFacts(ph.Edges[j], val, depth+1)...)
	shortPreds := map[*ssa.BasicBlock]bool{}
	for i, pr := range ph.Block().Preds {
		if i != j {
			shortPreds[pr] = true
		}
	}
	blk := ph.Block().Preds[j]
	for step := 0; step < 8 && len(blk.Preds) == 1; step++ {
		pr := blk.Preds[0]
		ifc, isIf := pr.Instrs[len(pr.Instrs)-1].(*ssa.If)
		if !isIf || pr.Succs[0] == pr.Succs[1] {
			break
		}
		out = append(out, fact{Cond: ifc.Cond, Val: pr.Succs[0] == blk})
		if !shortPreds[pr] {
			break
		}
		delete(shortPreds, pr)
		blk = pr
		if len(shortPreds) == 0 {
			break
		}
	}
	return out
}
