package main

import (
	"fmt"
	"os"
	"os/exec"
	"path/filepath"
	"sort"
	"strings"
	"sync"

	"golang.org/x/tools/go/ssa"
)

// thorough tier:
//  1. the same rules under a matrix of build configurations (the verdict on every
//     obligation must be the same in each configuration that type-checks);
//  2. the sensitivity run: every patch of the catalogue (/verif/mutants/<prop>/*.patch,
//     /verif/seeded/<prop>-*/patch.diff, /verif/mutants/benign/*.patch) is applied to a
//     scratch copy of /repo, which is then ANALYSED (never run) by a child goosecheck
//     process; the evidence records which breaking changes are caught and that the
//     behaviour-preserving ones stay silent. Results never change the verdict on /repo.

var configMatrix = []Config{
	{Name: "linux/amd64 (no build tags)", GOOS: "linux", GOARCH: "amd64", Tags: ""},
	{Name: "linux/386 -tags goose", GOOS: "linux", GOARCH: "386", Tags: "goose"},
	{Name: "linux/arm64 -tags goose", GOOS: "linux", GOARCH: "arm64", Tags: "goose"},
}

func thorough(id string, run func(p *Prog, r *Report), repo, verif string, r *Report, extra map[string]interface{}) {
	// --- 1. configuration matrix
	base := map[string]Status{}
	for _, o := range r.Obls {
		base[o.Rule+"\x00"+o.Key] = worst(base[o.Rule+"\x00"+o.Key], o.Status)
	}
	var cfgNotes []string
	for _, cfg := range configMatrix {
		p2, err := Load(repo, cfg)
		if err != nil {
			cfgNotes = append(cfgNotes, fmt.Sprintf("%s: does not load (%v) — skipped", cfg.Name, firstLine(err.Error())))
			continue
		}
		r2 := NewReport(id, p2)
		run(p2, r2)
		diff := 0
		got := map[string]Status{}
		for _, o := range r2.Obls {
			got[o.Rule+"\x00"+o.Key] = worst(got[o.Rule+"\x00"+o.Key], o.Status)
		}
		for k, st := range got {
			if st != Discharged && base[k] == Discharged || base[k] == "" && st != Discharged {
				parts := strings.SplitN(k, "\x00", 2)
				r.Obls = append(r.Obls, Obligation{Rule: parts[0], Key: parts[1] + " [" + cfg.Name + "]", Pos: "-", Status: st,
					Detail: "the obligation is discharged under the default configuration but not under " + cfg.Name})
				if ri := r.ruleIdx[parts[0]]; ri != nil {
					ri.Instances++
				}
				diff++
			}
		}
		r.Configs = append(r.Configs, fmt.Sprintf("%s: %d packages, %d obligations, %d differ from the default configuration", cfg.Name, len(p2.Pkgs), len(r2.Obls), diff))
	}
	// restore the global key context of the primary program
	curProg = r.P
	keyMemo = map[ssa.Value]string{}
	extra["config_notes"] = cfgNotes

	// --- 2. sensitivity run
	type variant struct {
		name, patch, kind string // kind: breaking | benign
	}
	var vs []variant
	ms, _ := filepath.Glob(filepath.Join(verif, "mutants", id, "*.patch"))
	for _, m := range ms {
		vs = append(vs, variant{"mutants/" + id + "/" + filepath.Base(m), m, "breaking"})
	}
	ss, _ := filepath.Glob(filepath.Join(verif, "seeded", id+"-*", "patch.diff"))
	for _, s := range ss {
		vs = append(vs, variant{"seeded/" + filepath.Base(filepath.Dir(s)), s, "breaking"})
	}
	// every behaviour-preserving refactoring of the corpus is analysed under every property
	bs, _ := filepath.Glob(filepath.Join(verif, "mutants", "benign", "*.patch"))
	for _, b := range bs {
		vs = append(vs, variant{"mutants/benign/" + filepath.Base(b), b, "benign"})
	}
	// the held-out corpus (heavier refactorings the rules were not tuned on) is analysed too and reported
	// separately: its alarms are the measured envelope of recognised code shapes (DESIGN.md §9.0.4)
	hs, _ := filepath.Glob(filepath.Join(verif, "mutants", "benign-heldout*", "*.patch"))
	for _, b := range hs {
		vs = append(vs, variant{"mutants/" + filepath.Base(filepath.Dir(b)) + "/" + filepath.Base(b), b, "heldout"})
	}
	sort.Slice(vs, func(i, j int) bool { return vs[i].name < vs[j].name })
	self, _ := os.Executable()
	type res struct {
		name, kind, outcome string
		rules               []string
	}
	results := make([]res, len(vs))
	sem := make(chan struct{}, 8)
	var wg sync.WaitGroup
	for i, v := range vs {
		wg.Add(1)
		go func(i int, v variant) {
			defer wg.Done()
			sem <- struct{}{}
			defer func() { <-sem }()
			results[i] = res{name: v.name, kind: v.kind}
			dir, err := os.MkdirTemp("", "goosecheck-variant-")
			if err != nil {
				results[i].outcome = "skipped: " + err.Error()
				return
			}
			defer os.RemoveAll(dir)
			if out, err := exec.Command("cp", "-a", repo+"/.", dir).CombinedOutput(); err != nil {
				results[i].outcome = "skipped: copy failed: " + firstLine(string(out))
				return
			}
			os.RemoveAll(filepath.Join(dir, ".git"))
			ap := exec.Command("git", "apply", v.patch)
			ap.Dir = dir
			if out, err := ap.CombinedOutput(); err != nil {
				results[i].outcome = "skipped: patch does not apply to the current tree (" + firstLine(string(out)) + ")"
				return
			}
			cmd := exec.Command(self, "-prop", id, "-repo", dir, "-verif", verif, "-no-evidence")
			out, _ := cmd.CombinedOutput()
			viol := false
			for _, ln := range strings.Split(string(out), "\n") {
				if strings.HasPrefix(ln, "VIOLATION") {
					viol = true
				}
				if strings.HasPrefix(ln, "  rule ") {
					f := strings.Fields(ln)
					if len(f) > 1 {
						results[i].rules = append(results[i].rules, f[1])
					}
				}
			}
			if viol {
				results[i].outcome = "reported"
			} else {
				results[i].outcome = "silent"
			}
		}(i, v)
	}
	wg.Wait()
	caught, total, benignSilent, benignTotal := 0, 0, 0, 0
	var rows []map[string]interface{}
	var missed, falseAlarms, heldAlarms []string
	heldSilent, heldTotal := 0, 0
	for _, x := range results {
		row := map[string]interface{}{"variant": x.name, "kind": x.kind, "outcome": x.outcome, "rules": uniqSorted(x.rules)}
		rows = append(rows, row)
		if strings.HasPrefix(x.outcome, "skipped") {
			continue
		}
		if x.kind == "heldout" {
			heldTotal++
			if x.outcome == "silent" {
				heldSilent++
			} else {
				heldAlarms = append(heldAlarms, x.name)
			}
			continue
		}
		if x.kind == "breaking" {
			total++
			if x.outcome == "reported" {
				caught++
			} else {
				missed = append(missed, x.name)
			}
		} else {
			benignTotal++
			if x.outcome == "silent" {
				benignSilent++
			} else {
				falseAlarms = append(falseAlarms, x.name)
			}
		}
	}
	extra["sensitivity"] = map[string]interface{}{
		"explanation":        "each variant is a patch applied to a scratch copy of /repo that is analysed (not executed) by the same rules; breaking variants are hand-written mutants and the independently seeded changes for this property, benign variants are behaviour-preserving refactorings",
		"breaking_caught":    caught,
		"breaking_total":     total,
		"breaking_missed":    missed,
		"benign_silent":      benignSilent,
		"benign_total":       benignTotal,
		"benign_false_alarm": falseAlarms,
		"heldout_silent":     heldSilent,
		"heldout_total":      heldTotal,
		"heldout_alarm":      heldAlarms,
		"variants":           rows,
	}
	fmt.Printf("%s thorough: configurations %d; sensitivity: %d/%d breaking variants reported, %d/%d benign variants silent\n", id, len(configMatrix)+1, caught, total, benignSilent, benignTotal)
	if len(missed) > 0 {
		fmt.Printf("  note: not reported by %s's own rules (may be covered by another property's check): %v\n", id, missed)
	}
	if heldTotal > 0 {
		fmt.Printf("  held-out refactorings (not tuned on): %d/%d silent under this property\n", heldSilent, heldTotal)
	}
	if len(falseAlarms) > 0 {
		fmt.Printf("  note: benign variants that raised an alarm: %v\n", falseAlarms)
	}
}

func worst(a, b Status) Status {
	rank := map[Status]int{"": 0, Discharged: 1, Undecided: 2, Violated: 3}
	if rank[b] > rank[a] {
		return b
	}
	return a
}

func firstLine(s string) string {
	if i := strings.Index(s, "\n"); i >= 0 {
		return s[:i]
	}
	return s
}

func uniqSorted(s []string) []string {
	sort.Strings(s)
	return uniq(s)
}
