package main

// thorough tier: placeholder, extended below (configuration matrix + sensitivity run).
func thorough(id string, run func(p *Prog, r *Report), repo, verif string, r *Report, extra map[string]interface{}) {
}
