// goosecheck decides, by static analysis of /repo's current source, structural
// rules that are necessary conditions of the properties in /verif/properties.jsonl.
package main

import (
	"flag"
	"fmt"
	"os"
	"path/filepath"
	"sort"
	"strconv"
	"time"
)

type propCheck struct {
	ID  string
	Run func(p *Prog, r *Report)
}

var registry = map[string]func(p *Prog, r *Report){}

func register(id string, f func(p *Prog, r *Report)) { registry[id] = f }

func init() {
	register("C01", checkC01)
	register("C02", checkC02)
	register("C03", checkC03)
	register("C04", checkC04)
	register("C05", checkC05)
	register("C06", checkC06)
	register("C07", checkC07)
	register("C08", checkC08)
	register("C09", checkC09)
	register("C10", checkC10)
	register("C11", checkC11)
	register("C12", checkC12)
	register("C13", checkC13)
	register("C14", checkC14)
	register("C15", checkC15)
	register("C16", checkC16)
	register("C17", checkC17)
	register("C18", checkC18)
}

func main() {
	var (
		prop   = flag.String("prop", "", "property id (C01..C18)")
		tier   = flag.String("tier", "quick", "quick|thorough")
		repo   = flag.String("repo", "/repo", "repository root to analyse")
		verif  = flag.String("verif", "/verif", "verification directory (evidence, known findings)")
		list   = flag.Bool("list", false, "list implemented properties")
		noEvid = flag.Bool("no-evidence", false, "analyse only, write evidence to a scratch dir (used by the sensitivity run)")
		all    = flag.Bool("all", false, "sweep mode: load once, run every property, print one line per property with the violated rules (never writes evidence)")
	)
	flag.Parse()
	if *all {
		os.Exit(sweep(*repo, *verif))
	}
	if *list {
		var ids []string
		for id := range registry {
			ids = append(ids, id)
		}
		sort.Strings(ids)
		for _, id := range ids {
			fmt.Println(id)
		}
		return
	}
	run, ok := registry[*prop]
	if !ok {
		fmt.Fprintf(os.Stderr, "unknown property %q\n", *prop)
		os.Exit(2)
	}
	seed := 0
	if s := os.Getenv("VERIF_SEED"); s != "" {
		seed, _ = strconv.Atoi(s)
	}
	start := time.Now()
	code := runProp(*prop, run, *tier, *repo, *verif, seed, start, *noEvid)
	os.Exit(code)
}

func runProp(id string, run func(p *Prog, r *Report), tier, repo, verif string, seed int, start time.Time, noEvid bool) (code int) {
	defer func() {
		if e := recover(); e != nil {
			// a panic inside the checker must never look like a pass
			fmt.Printf("VIOLATION property=%s replay=%s\n  checker panic: %v\n", id, "-", e)
			panic(e)
		}
	}()
	p, err := Load(repo, defaultConfig)
	if err != nil {
		fmt.Printf("VIOLATION property=%s replay=-\n  cannot load %s: %v\n", id, repo, err)
		return 1
	}
	r := NewReport(id, p)
	r.Configs = append(r.Configs, fmt.Sprintf("%s: %d packages, %d source functions", p.Cfg.Name, len(p.Pkgs), len(p.srcFuncs)))
	run(p, r)
	extra := map[string]interface{}{}
	if tier == "thorough" {
		thorough(id, run, repo, verif, r, extra)
	}
	out := verif
	if noEvid {
		out, _ = os.MkdirTemp("", "goosecheck-ev")
		defer os.RemoveAll(out)
		// known findings still come from the real verif dir
		if b, err := os.ReadFile(verif + "/known-findings.json"); err == nil {
			os.WriteFile(out+"/known-findings.json", b, 0o644)
		}
	}
	return r.Finish(out, tier, seed, start, extra)
}

// sweep analyses one tree under every property with a single load and prints, per property, the rules and
// keys that are violated or undecided beyond the known findings. It is the bulk mode of the sensitivity
// tooling (tools/mutation_sweep.sh); the registered checks never use it.
func sweep(repo, verif string) int {
	p, err := Load(repo, defaultConfig)
	if err != nil {
		fmt.Printf("LOAD-FAIL %v\n", err)
		return 2
	}
	known, _ := loadKnown(filepath.Join(verif, "known-findings.json"))
	var ids []string
	for id := range registry {
		ids = append(ids, id)
	}
	sort.Strings(ids)
	code := 0
	for _, id := range ids {
		var lines []string
		func() {
			defer func() {
				if e := recover(); e != nil {
					lines = append(lines, fmt.Sprintf("PANIC %v", e))
				}
			}()
			r := NewReport(id, p)
			registry[id](p, r)
			for _, ri := range r.Rules {
				if ri.Instances < ri.Min {
					lines = append(lines, ri.ID+" [vacuity]")
				}
			}
			kn := map[string]bool{}
			for _, k := range known {
				if k.Property == id && k.Status == "known" {
					kn[k.Rule+"\x00"+k.Key] = true
				}
			}
			for _, o := range r.Obls {
				if o.Status == Discharged || (o.Status == Violated && kn[o.Rule+"\x00"+o.Key]) {
					continue
				}
				lines = append(lines, fmt.Sprintf("%s [%s] %s", o.Rule, o.Key, o.Pos))
			}
		}()
		if len(lines) > 0 {
			code = 1
			sort.Strings(lines)
			for _, l := range lines {
				fmt.Printf("ALARM %s %s\n", id, l)
			}
		}
	}
	if code == 0 {
		fmt.Println("SILENT")
	}
	return code
}
