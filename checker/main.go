// goosecheck decides, by static analysis of /repo's current source, structural
// rules that are necessary conditions of the properties in /verif/properties.jsonl.
package main

import (
	"flag"
	"fmt"
	"os"
	"sort"
	"strconv"
	"time"
)

type propCheck struct {
	ID  string
	Run func(p *Prog, r *Report)
}

var registry = map[string]func(p *Prog, r *Report){}

func register(id string, f func(p *Prog, r *Report)) { registry[id] = f }

func init() {
	register("C01", checkC01)
	register("C02", checkC02)
	register("C03", checkC03)
	register("C04", checkC04)
	register("C05", checkC05)
	register("C06", checkC06)
	register("C07", checkC07)
	register("C08", checkC08)
	register("C09", checkC09)
	register("C10", checkC10)
	register("C11", checkC11)
	register("C12", checkC12)
	register("C13", checkC13)
	register("C14", checkC14)
	register("C15", checkC15)
	register("C16", checkC16)
	register("C17", checkC17)
	register("C18", checkC18)
}

func main() {
	var (
		prop   = flag.String("prop", "", "property id (C01..C18)")
		tier   = flag.String("tier", "quick", "quick|thorough")
		repo   = flag.String("repo", "/repo", "repository root to analyse")
		verif  = flag.String("verif", "/verif", "verification directory (evidence, known findings)")
		list   = flag.Bool("list", false, "list implemented properties")
		noEvid = flag.Bool("no-evidence", false, "analyse only, write evidence to a scratch dir (used by the sensitivity run)")
	)
	flag.Parse()
	if *list {
		var ids []string
		for id := range registry {
			ids = append(ids, id)
		}
		sort.Strings(ids)
		for _, id := range ids {
			fmt.Println(id)
		}
		return
	}
	run, ok := registry[*prop]
	if !ok {
		fmt.Fprintf(os.Stderr, "unknown property %q\n", *prop)
		os.Exit(2)
	}
	seed := 0
	if s := os.Getenv("VERIF_SEED"); s != "" {
		seed, _ = strconv.Atoi(s)
	}
	start := time.Now()
	code := runProp(*prop, run, *tier, *repo, *verif, seed, start, *noEvid)
	os.Exit(code)
}

func runProp(id string, run func(p *Prog, r *Report), tier, repo, verif string, seed int, start time.Time, noEvid bool) (code int) {
	defer func() {
		if e := recover(); e != nil {
			// a panic inside the checker must never look like a pass
			fmt.Printf("VIOLATION property=%s replay=%s\n  checker panic: %v\n", id, "-", e)
			panic(e)
		}
	}()
	p, err := Load(repo, defaultConfig)
	if err != nil {
		fmt.Printf("VIOLATION property=%s replay=-\n  cannot load %s: %v\n", id, repo, err)
		return 1
	}
	r := NewReport(id, p)
	r.Configs = append(r.Configs, fmt.Sprintf("%s: %d packages, %d source functions", p.Cfg.Name, len(p.Pkgs), len(p.srcFuncs)))
	run(p, r)
	extra := map[string]interface{}{}
	if tier == "thorough" {
		thorough(id, run, repo, verif, r, extra)
	}
	out := verif
	if noEvid {
		out, _ = os.MkdirTemp("", "goosecheck-ev")
		defer os.RemoveAll(out)
		// known findings still come from the real verif dir
		if b, err := os.ReadFile(verif + "/known-findings.json"); err == nil {
			os.WriteFile(out+"/known-findings.json", b, 0o644)
		}
	}
	return r.Finish(out, tier, seed, start, extra)
}
