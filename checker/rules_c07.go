package main

import (
	"fmt"
	"go/token"
	"go/types"
	"regexp"
	"sort"
	"strings"

	"golang.org/x/tools/go/ssa"
)

// ---------------------------------------------------------------------------
// call graph over repository functions (static callees + interface calls resolved
// against the repository's own types)

type callGraph struct {
	p     *Prog
	succs map[*ssa.Function][]*ssa.Function
}

func (p *Prog) implementersOf(iface *types.Interface, method string) []*ssa.Function {
	var out []*ssa.Function
	for _, pk := range p.Pkgs {
		scope := pk.Types.Scope()
		for _, n := range scope.Names() {
			tn, ok := scope.Lookup(n).(*types.TypeName)
			if !ok || tn.IsAlias() {
				continue
			}
			for _, T := range []types.Type{tn.Type(), types.NewPointer(tn.Type())} {
				if types.IsInterface(T) || !types.Implements(T, iface) {
					continue
				}
				sel := p.SSA.MethodSets.MethodSet(T).Lookup(pk.Types, method)
				if sel == nil {
					// exported method: package argument irrelevant
					sel = p.SSA.MethodSets.MethodSet(T).Lookup(nil, method)
				}
				if sel != nil {
					if f := p.SSA.MethodValue(sel); f != nil {
						if f.Synthetic != "" {
							if fn, ok := sel.Obj().(*types.Func); ok {
								if d := p.SSA.FuncValue(fn); d != nil {
									f = d
								}
							}
						}
						out = append(out, f)
					}
				}
				break
			}
		}
	}
	return out
}

func (p *Prog) buildCallGraph() *callGraph {
	cg := &callGraph{p: p, succs: map[*ssa.Function][]*ssa.Function{}}
	cache := map[string][]*ssa.Function{}
	for _, f := range p.srcFuncs {
		seen := map[*ssa.Function]bool{}
		add := func(g *ssa.Function) {
			if g != nil && !seen[g] {
				seen[g] = true
				cg.succs[f] = append(cg.succs[f], g)
			}
		}
		for _, a := range f.AnonFuncs {
			add(a) // a closure created here may be called here or by a callee
		}
		p.instrs(f, func(b *ssa.BasicBlock, i int, in ssa.Instruction) {
			c, ok := in.(ssa.CallInstruction)
			if !ok {
				return
			}
			cc := c.Common()
			if g := cc.StaticCallee(); g != nil {
				add(g)
				return
			}
			if cc.IsInvoke() {
				it, ok := cc.Value.Type().Underlying().(*types.Interface)
				if !ok {
					return
				}
				k := types.TypeString(cc.Value.Type(), nil) + "." + cc.Method.Name()
				impls, ok := cache[k]
				if !ok {
					impls = p.implementersOf(it, cc.Method.Name())
					cache[k] = impls
				}
				for _, g := range impls {
					add(g)
				}
			}
		})
	}
	return cg
}

// ---------------------------------------------------------------------------
// C07

func isGooseErrorPanic(pn *ssa.Panic) bool {
	v := pn.X
	if mi, ok := v.(*ssa.MakeInterface); ok {
		v = mi.X
	}
	if n, ok := v.Type().(*types.Named); ok && structuredErrTypes()[n.Obj()] {
		return true
	}
	return false
}

var structuredErrMemo map[*types.TypeName]bool
var structuredErrProg *Prog

// structuredErrTypes: the types of the translator that carry a structured error through a panic — those a deferred
// function of the translator tests the recovered value for (`recover().(T)` with the comma-ok form). Found by role,
// so renaming the type does not matter.
func structuredErrTypes() map[*types.TypeName]bool {
	p := curProg
	if structuredErrMemo != nil && structuredErrProg == p {
		return structuredErrMemo
	}
	out := map[*types.TypeName]bool{}
	if p != nil {
		for _, f := range p.FuncsIn(Mod) {
			for _, a := range deferredRecoverers(p, f) {
				p.instrs(a, func(b *ssa.BasicBlock, i int, in ssa.Instruction) {
					if ta, ok := in.(*ssa.TypeAssert); ok && ta.CommaOk {
						if n, ok := ta.AssertedType.(*types.Named); ok && n.Obj().Pkg() != nil && n.Obj().Pkg().Path() == Mod {
							if c, ok := ta.X.(*ssa.Call); ok {
								if bi, ok := c.Call.Value.(*ssa.Builtin); ok && bi.Name() == "recover" {
									out[n.Obj()] = true
								}
							}
						}
					}
				})
			}
		}
	}
	structuredErrMemo, structuredErrProg = out, p
	return out
}

// recovers reports whether f installs a deferred function that calls recover().
func recovers(p *Prog, f *ssa.Function) bool { return len(deferredRecoverers(p, f)) > 0 }

// deferredRecoverers: the functions (closures or named) that f defers directly and that call recover().
func deferredRecoverers(p *Prog, f *ssa.Function) []*ssa.Function {
	var out []*ssa.Function
	p.instrs(f, func(b *ssa.BasicBlock, i int, in ssa.Instruction) {
		d, ok := in.(*ssa.Defer)
		if !ok {
			return
		}
		var cl *ssa.Function
		switch x := d.Call.Value.(type) {
		case *ssa.MakeClosure:
			cl = x.Fn.(*ssa.Function)
		case *ssa.Function:
			cl = x
		}
		if cl == nil {
			return
		}
		found := false
		p.instrs(cl, func(b2 *ssa.BasicBlock, i2 int, in2 ssa.Instruction) {
			if c, ok := in2.(*ssa.Call); ok {
				if bi, ok := c.Call.Value.(*ssa.Builtin); ok && bi.Name() == "recover" {
					found = true
				}
			}
		})
		if found {
			out = append(out, cl)
		}
	})
	return out
}

// lenLowerBound derives the least length of the slice with key sk from the relations.
func lenLowerBound(rs relSet, key string) int64 {
	lb := int64(0)
	lk := "len(" + key + ")"
	up := func(n int64) {
		if n > lb {
			lb = n
		}
	}
	for k := range rs {
		for _, op := range []string{" == ", " < ", " <= ", " != "} {
			i := topLevelIndex(k, op)
			if i < 0 {
				continue
			}
			a, b := k[:i], k[i+len(op):]
			var n int64
			switch {
			case b == lk:
				if _, err := fmt.Sscan(a, &n); err != nil {
					continue
				}
				switch op {
				case " == ":
					up(n)
				case " < ":
					up(n + 1)
				case " <= ":
					up(n)
				case " != ":
					if n == 0 {
						up(1)
					}
				}
			case a == lk:
				if _, err := fmt.Sscan(b, &n); err != nil {
					continue
				}
				switch op {
				case " == ":
					up(n)
				case " != ":
					if n == 0 {
						up(1)
					}
				}
			}
		}
	}
	return lb
}

// audit tables: one line of reason per entry. Keys are "function|construct".
var c07RawPanics = map[string]string{
	"goose.Ctx.printGo|panic(go/printer.Fprint(&what,ctx.Fset,node).Error())":              "printer.Fprint into a bytes.Buffer fails only on malformed syntax trees; the tree came from go/parser and was type-checked",
	"goose.errorReporter.printField|panic(go/printer.Fprint(&what,r.fset,f.Type).Error())": "as printGo: printing a type-checked field type into a buffer cannot fail",
	"goose.errorReporter.printGo|panic(go/printer.Fprint(&what,r.fset,n).Error())":         "as printGo",
	"goose.Ctx.stmts|panic(\"bad ExprValUsage\")":                                          "the switch covers the three ExprValUsage constants and usage values only come from those constants",
	"goose.Ctx.ifStmt|panic(\"if statement with unexpected kind of else branch\")":         "go/ast documents IfStmt.Else as *BlockStmt or *IfStmt (nil was tested before)",
	"goose.Ctx.stmt|panic(\"ExprValLocal usage should always be finalized\")":              "stmtInBlock returns finalized=true on every path when usage is ExprValLocal",
	"goose.Ctx.coqRecurFunc|panic(\"type checker doesn't have func\")":                     "the identifier was resolved through types.Info by both callers before",
	"goose.stringLitValue|panic(\"unexpected non-string literal\")":                        "partial helper: its call sites are audited",
	"goose.stringLitValue|panic(\"unexpected string literal value: \" + …)":                "a string literal accepted by go/parser always unquotes",
	"goose.sliceElem|panic(fmt.Errorf)":                                                    "partial helper: its call sites are audited",
	"goose.ptrElem|panic(fmt.Errorf)":                                                      "partial helper: its call sites are audited",
	"goose.sortedFiles|panic(\"sortedFiles(): fileNames must match fileAsts\")":            "partial helper: its call site is audited",
	"goose.NewPkgCtx|panic(goose.newPkgCtx(pkg,tr)#1.Error())":                             "exported constructor kept for API compatibility; the translator's own path uses newPkgCtx and returns the error (R07a: no entry-point path to it from TranslatePackages)",
	"goose.Ctx.declsOrError$1|panic(recover())":                                            "re-panic of a non-structured panic value: every source of such a value is one of the audited sites of this rule",
	"coq.BinaryExpr.Coq|panic(fmt.Sprintf)":                                                "the notation table covers every BinOp constant (checked under C01 R01a)",
	"coq.Binding.AddTo|panic(\"no support for destructuring more than 4 return values\")":  "bindings with more than four names are rejected at translation time by defineStmt / multipleAssignStmt (checked below as 'at most four names')",
}

var c07Asserts = map[string]string{
	"goose.Ctx.arrayType|*go/types.Info.TypeOf(ctx.info,e).(*Array)":          "go/types: the type of an *ast.ArrayType expression with a length is *types.Array (the branch tested e.Len != nil)",
	"goose.Ctx.mapType|*go/types.Info.TypeOf(ctx.info,e).Underlying().(*Map)": "go/types: the type of an *ast.MapType expression is a map type",
	"goose.Ctx.packageMethod|f.X.(*Ident)":                                    "getType failed for f.X, so f.X denotes a package; a package qualifier is an identifier",
}

// c07Indices: audited constant indices. The entry applies only where a fact containing Need holds,
// so that a new unguarded index with the same spelling is not covered by it.
type guardedReason struct{ Need, Why string }

var c07Indices = map[string]guardedReason{
	"goose.Ctx.callExpr|s.Args[0]": {".(*Signature)#1 == true", "Go typing: inside the loop over the callee signature's parameters a non-variadic interface parameter exists, so the call has at least one argument (a variadic parameter has slice type and is not matched)"},
}

// c07VarIndices: variable indices whose bound is not a dominating fact of the same function.
var c07VarIndices = map[string]string{
	"goose.Ctx.Decls$1|*fs[id.fileIdx]":                                                         "every declId is built from the indices of the range loops over fs and f.Ast.Decls in Decls (the only constructor sites), so fileIdx < len(fs)",
	"goose.Ctx.multipleAssignStmt|s.Lhs[(phi:rangeindex + 1)]":                                  "the loop ranges over names, made with length len(s.Lhs)",
	"goose.Ctx.multipleAssignStmt|make([]Binding,(len(s.Lhs) + 1))[((phi:rangeindex + 1) + 1)]": "the loop ranges over names (length len(s.Lhs)); the slice was made with length len(s.Lhs)+1",
	"goose.TranslationConfig.TranslatePackages$1|*files[i]":                                     "i is the index of the range loop over pkgs; files was made with length len(pkgs)",
	"goose.TranslationConfig.TranslatePackages$1|*errs[i]":                                      "i is the index of the range loop over pkgs; errs was made with length len(pkgs)",
	"goose.sortedFiles|fileAsts[(phi:rangeindex + 1)]":                                          "the loop ranges over fileNames and the function panics first unless len(fileNames) == len(fileAsts)",
	"goose.sortedFiles$1|*flatFiles[i]":                                                         "less function of sort.Slice: called with indices inside the sorted slice",
	"goose.sortedFiles$1|*flatFiles[j]":                                                         "less function of sort.Slice: called with indices inside the sorted slice",
}

// c07Slices: slice expressions whose bounds are justified by a caller-side protocol.
var c07Slices = map[string]string{
	"*goose.cursor.Next|c.Stmts[1:]": "documented precondition HasNext(): the only caller (stmts) calls Next inside `for c.HasNext()`",
}

var c07Helpers = map[string]string{
	"goose.Ctx.callExpr|sliceElem(*go/types.Info.TypeOf(ctx.info,s.Args[0]).Underlying())": "Go typing: the first argument of the predeclared append has a slice underlying type (identifier resolved to the predeclared object)",
	"goose.Ctx.imports|stringLitValue(d[(phi:rangeindex + 1)].(*ImportSpec).Path)":         "go/ast: ImportSpec.Path is a STRING literal",
	"goose.TranslationConfig.translatePackage|sortedFiles(pkg.CompiledGoFiles,pkg.Syntax)": "go/packages fills CompiledGoFiles and Syntax in parallel under NeedCompiledGoFiles|NeedSyntax (the configured mode, C17 R17e) for a package without load errors (tested just before)",
}

var stringLitRE = regexp.MustCompile(`"(?:[^"\\]|\\.)*"`)

// blankStrings replaces the contents of string literals in a key.
func blankStrings(k string) string { return stringLitRE.ReplaceAllString(k, `"…"`) }

// rawPanicByShape finds the audit entry of a raw panic whose message text changed: the entry of the same function
// with the same shape once string literals are blanked; each entry discharges at most one site.
func rawPanicByShape(key string, used map[string]int) (string, bool) {
	bk := blankStrings(key)
	if bk == key {
		return "", false
	}
	n, why := 0, ""
	for k, v := range c07RawPanics {
		if blankStrings(k) == bk {
			n++
			why = v
		}
	}
	if n == 0 || used[bk] >= n {
		return "", false
	}
	used[bk]++
	return why, true
}

func panicKey(p *Prog, f *ssa.Function, pn *ssa.Panic) string {
	v := pn.X
	if mi, ok := v.(*ssa.MakeInterface); ok {
		v = mi.X
	}
	if ci, ok := v.(*ssa.ChangeInterface); ok {
		v = ci.X
	}
	desc := ""
	switch x := v.(type) {
	case *ssa.Const:
		desc = constKey(x)
	case *ssa.Call:
		n := calleeName(x)
		if i := strings.LastIndex(n, "/"); i >= 0 {
			n = n[i+1:]
		}
		if x.Call.IsInvoke() {
			n = sk(x.Call.Value) + "." + x.Call.Method.Name() + "()"
		}
		if bi, ok := x.Call.Value.(*ssa.Builtin); ok {
			n = bi.Name() + "()"
		}
		desc = n
	case *ssa.BinOp:
		if s, ok := constString(x.X); ok {
			desc = fmt.Sprintf("%q + …", s)
		} else {
			desc = sk(v)
		}
	case *ssa.Parameter, *ssa.Extract:
		desc = sk(v)
	default:
		if n, ok := v.Type().(*types.Named); ok {
			desc = n.Obj().Name()
		} else {
			desc = sk(v)
		}
	}
	return FuncName(f) + "|panic(" + desc + ")"
}

func checkC07(p *Prog, r *Report) {
	r.Rule("R07a", "recover discipline: on every call path from an exported entry point of the translator (or the command's main) to the function that raises a structured error, a frame that recovers it lies in between (call graph: static callees + interface calls resolved against the repository's types)", 3)
	r.Rule("R07b", "panic-site audit over the translator and printer packages: every raw (non-structured) panic, single-result type assertion, constant index into a slice, call of a partial helper, and dereference of a possibly-nil go/types package is either proven guarded by dominating facts (type test, length bound, nil test — including facts established by callers or helpers) or justified by a table entry naming the go/ast / go/types / Go-typing invariant; a site that is neither is undecided and fails", 60)
	r.Rule("R07c", "categories: the category argument of every structured-error constructor call is one of the documented constants; the reported node is never a freshly constructed (position-less) syntax node", 6)
	r.Rule("R07d", "aggregation: the declaration loop and the package loop continue after an error (no exit edge on the error branch); every declaration's error is appended", 2)
	r.Assume = append(r.Assume, "termination and panics inside dependencies (go/types, go/packages, go/printer) are not decided", "go/ast and go/types documented invariants listed per table entry")
	cg := p.buildCallGraph()
	var prefixed *ssa.Function
	for _, f := range p.FuncsIn(Mod) {
		p.instrs(f, func(b *ssa.BasicBlock, i int, in ssa.Instruction) {
			if pn, ok := in.(*ssa.Panic); ok && isGooseErrorPanic(pn) {
				prefixed = f
			}
		})
	}
	if prefixed == nil {
		r.Anchor("R07a", "the function that panics with a structured goose error")
		return
	}
	c07Recover(p, r, cg, prefixed)
	c07Audit(p, r, prefixed)
	c07NilFields(p, r)
	c07BindingArity(p, r)
	c07Categories(p, r, prefixed)
	c07Aggregation(p, r)
	c07Constructors(p, r)
	// the declarations that did translate are kept next to the errors (decided by the C17 analysis R17f)
	s17 := NewReport("C17", p)
	checkPartialOutput(p, s17)
	for _, o := range s17.Obls {
		o.Rule = "R07d"
		r.Obls = append(r.Obls, o)
		r.ruleIdx["R07d"].Instances++
	}
}

func c07Recover(p *Prog, r *Report, cg *callGraph, prefixed *ssa.Function) {
	// functions from which the reporter is reachable
	reach := map[*ssa.Function]bool{prefixed: true}
	for changed := true; changed; {
		changed = false
		for f, ss := range cg.succs {
			if reach[f] {
				continue
			}
			for _, s := range ss {
				if reach[s] {
					reach[f] = true
					changed = true
					break
				}
			}
		}
	}
	var entries []*ssa.Function
	for _, pk := range []string{Mod, cmdGoosePkg} {
		for _, f := range p.FuncsIn(pk) {
			if f.Parent() != nil {
				continue
			}
			exported := token.IsExported(f.Name()) || (pk == cmdGoosePkg && f.Name() == "main")
			if rc := f.Signature.Recv(); rc != nil {
				if n, ok := deref(rc.Type()).(*types.Named); ok && !n.Obj().Exported() {
					exported = false
				}
			}
			if exported {
				entries = append(entries, f)
			}
		}
	}
	nRecov := 0
	for _, f := range p.FuncsIn(Mod) {
		if recovers(p, f) {
			nRecov++
			r.Note("recovering frame: %s", FuncName(f))
		}
	}
	for _, e := range entries {
		if !reach[e] {
			continue
		}
		// DFS not descending below recovering frames
		var path []string
		bad := ""
		seen := map[*ssa.Function]bool{}
		var dfs func(f *ssa.Function) bool
		dfs = func(f *ssa.Function) bool {
			if seen[f] {
				return false
			}
			seen[f] = true
			path = append(path, FuncName(f))
			defer func() { path = path[:len(path)-1] }()
			if f == prefixed {
				bad = strings.Join(path, " → ")
				return true
			}
			if recovers(p, f) {
				return false
			}
			for _, s := range cg.succs[f] {
				if reach[s] && dfs(s) {
					return true
				}
			}
			return false
		}
		dfs(e)
		r.Check("R07a", "entry "+FuncName(e), e.Pos(), bad == "", "a structured error raised on this path is not recovered and aborts the process: "+bad)
	}
	r.Check("R07a", "a recovering frame exists", prefixed.Pos(), nRecov >= 1, "no function in the translator recovers structured errors")
	// the recovering closure re-panics anything that is not a structured error and converts the structured one
	for _, f := range p.FuncsIn(Mod) {
		if !recovers(p, f) {
			continue
		}
		okConv := false
		for _, a := range deferredRecoverers(p, f) {
			p.instrs(a, func(b *ssa.BasicBlock, i int, in ssa.Instruction) {
				if ta, ok := in.(*ssa.TypeAssert); ok && ta.CommaOk {
					if n, ok := ta.AssertedType.(*types.Named); ok && structuredErrTypes()[n.Obj()] {
						okConv = true
					}
				}
			})
		}
		r.Check("R07a", FuncName(f)+" recovers exactly structured errors", f.Pos(), okConv, "the deferred function must type-test the recovered value for the structured error type")
		// … and nothing recovered is swallowed: from the edge on which recover() returned a non-nil value every path
		// to the end of the deferred function stores an error into the enclosing function's result or panics
		// again. A path that does neither turns a crash (or a structured error) into a declaration that is
		// silently missing from a run that reports success.
		for _, a := range deferredRecoverers(p, f) {
			avoid := map[*ssa.BasicBlock]bool{}
			var froms, rets []*ssa.BasicBlock
			for _, b := range a.Blocks {
				for _, in := range b.Instrs {
					switch in := in.(type) {
					case *ssa.Panic:
						avoid[b] = true
					case *ssa.Store:
						if types.Identical(in.Val.Type(), types.Universe.Lookup("error").Type()) {
							avoid[b] = true
						}
					case *ssa.Return:
						rets = append(rets, b)
					case *ssa.If:
						// the test of the recovered value against nil
						if bo, ok := in.Cond.(*ssa.BinOp); ok {
							for _, side := range []ssa.Value{bo.X, bo.Y} {
								if c, ok := side.(*ssa.Call); ok {
									if bi, ok := c.Call.Value.(*ssa.Builtin); ok && bi.Name() == "recover" {
										if bo.Op == token.NEQ {
											froms = append(froms, b.Succs[0])
										} else if bo.Op == token.EQL {
											froms = append(froms, b.Succs[1])
										}
									}
								}
							}
						}
					}
				}
			}
			swallowed := false
			for _, fr := range froms {
				for _, rt := range rets {
					if !avoid[fr] && pathAvoiding(fr, rt, avoid, nil, p) {
						swallowed = true
					}
				}
			}
			r.Check("R07a", FuncName(f)+" swallows nothing it recovers", a.Pos(), len(froms) > 0 && !swallowed,
				fmt.Sprintf("the deferred function can return after recover() gave a non-nil value without storing an error or panicking again (%d nil-tests of the recovered value found): the declaration is dropped and no error is reported", len(froms)))
		}
	}
}

func c07Audit(p *Prog, r *Report, prefixed *ssa.Function) {
	pkgs := []string{Mod, coqPkg}
	// partial helpers: repository functions (other than reporters) with a reachable raw panic
	partial := map[*ssa.Function]bool{}
	for _, pk := range pkgs {
		for _, f := range p.FuncsIn(pk) {
			if p.NoReturn(f) {
				continue
			}
			p.instrs(f, func(b *ssa.BasicBlock, i int, in ssa.Instruction) {
				if pn, ok := in.(*ssa.Panic); ok && !isGooseErrorPanic(pn) {
					// helpers = small leaf functions whose panic depends on their argument
					if len(f.Blocks) <= 6 && f.Signature.Recv() == nil {
						partial[f] = true
					}
				}
			})
		}
	}
	shapeUsed := map[string]int{}
	for _, pk := range pkgs {
		for _, f := range p.FuncsIn(pk) {
			r.Func(FuncName(f))
			rm := p.Rels(f)
			entry := p.entryRels(f)
			at := func(in ssa.Instruction) relSet {
				rs := p.RelsAt(rm, in)
				for k := range entry {
					rs[k] = true
				}
				return rs
			}
			p.instrs(f, func(b *ssa.BasicBlock, i int, in ssa.Instruction) {
				switch x := in.(type) {
				case *ssa.Panic:
					if isGooseErrorPanic(x) {
						return
					}
					r.Sites++
					key := panicKey(p, f, x)
					// dead: a no-return call (a structured rejection) precedes it in its block, or the block
					// is unreachable — decided, not taken from the table
					dead := !p.reachable(f)[b]
					for _, in0 := range b.Instrs[:i] {
						if ci, ok := in0.(ssa.CallInstruction); ok {
							if _, isDefer := in0.(*ssa.Defer); !isDefer && p.NoReturn(calleeOf(ci.Common())) {
								dead = true
							}
						}
					}
					if dead {
						r.OK("R07b", "raw "+blankStrings(key), instrPos(in), "unreachable: follows a no-return call")
						return
					}
					if why, ok := auditFind(c07RawPanics, key); ok {
						r.OK("R07b", "raw "+key, instrPos(in), "audited: "+why)
					} else if why, ok := rawPanicByShape(key, shapeUsed); ok {
						// the message text was edited: same function, same shape, not more sites than entries
						r.OK("R07b", "raw "+blankStrings(key), instrPos(in), "audited (message text differs): "+why)
					} else {
						r.Unknown("R07b", "raw "+key, instrPos(in), "unaudited raw panic: it escapes the per-declaration recover (which re-panics non-structured values) and aborts goose with a stack trace")
					}
				case *ssa.TypeAssert:
					if x.CommaOk {
						return
					}
					r.Sites++
					key := fmt.Sprintf("%s|%s.(%s)", FuncName(f), sk(x.X), types.TypeString(x.AssertedType, qualNone))
					// guarded by a dominating successful comma-ok assertion of the same value to the same type?
					rs := at(in)
					guard := sk(x.X) + ".(" + types.TypeString(x.AssertedType, qualNone) + ")#1 == true"
					if rs[guard] {
						r.OK("R07b", "assert "+key, instrPos(in), "dominated by a successful comma-ok assertion")
					} else if why := p.specAssertInvariant(f, x); why != "" {
						r.OK("R07b", "assert "+key, instrPos(in), why)
					} else if why, ok := auditFind(c07Asserts, key); ok {
						r.OK("R07b", "assert "+key, instrPos(in), "audited: "+why)
					} else {
						r.Unknown("R07b", "assert "+key, instrPos(in), "single-result type assertion without a dominating type test and without an audited invariant: a value of another dynamic type aborts goose")
					}
				case *ssa.IndexAddr:
					if _, isSlice := x.X.Type().Underlying().(*types.Slice); !isSlice {
						return
					}
					k, ok := constInt(x.Index)
					if !ok {
						// variable index: bounded by the length of the slice it indexes
						r.Sites++
						ik, sk0 := sk(x.Index), sk(x.X)
						key := fmt.Sprintf("%s|%s[%s]", FuncName(f), sk0, ik)
						rs := at(in)
						switch {
						case rs[ik+" < len("+sk0+")"]:
							r.OK("R07b", "varindex "+key, instrPos(in), "dominated by the fact index < len(slice)")
						case ik == "(len("+sk0+") - 1)" && (rs["0 != len("+sk0+")"] || rs["0 < len("+sk0+")"] || strings.HasPrefix(sk0, "strings.Split(")):
							r.OK("R07b", "varindex "+key, instrPos(in), "last element of a slice known to be non-empty (length test, or strings.Split, which returns at least one element)")
						case strings.HasPrefix(sk0, "make(") && strings.HasSuffix(sk0, ")") && func() bool {
							// slice made with an explicit length L: index < L
							_, a, ok := parseCallKey(sk0)
							return ok && len(a) >= 2 && (rs[ik+" < "+a[1]] || strings.HasPrefix(a[1], "len(make(") && func() bool {
								_, b, ok2 := parseCallKey(strings.TrimSuffix(strings.TrimPrefix(a[1], "len("), ")"))
								return ok2 && len(b) >= 2 && rs[ik+" < "+b[1]]
							}())
						}():
							r.OK("R07b", "varindex "+key, instrPos(in), "the slice was made with the length the index is compared with")
						case strings.HasPrefix(ik, "(") && strings.HasSuffix(ik, " - 1)") && func() bool {
							i0 := strings.TrimSuffix(strings.TrimPrefix(ik, "("), " - 1)")
							return rs[i0+" < len("+sk0+")"] && (rs["0 < "+i0] || rs["0 != "+i0] || rs["1 <= "+i0])
						}():
							r.OK("R07b", "varindex "+key, instrPos(in), "x[i-1] under the facts 0 < i and i < len(x)")
						case func() bool {
							// the index is a parameter (or a field / captured variable) for which a bound against a slice
							// is already established — by the callers or earlier in the function: parallel slices and
							// slices handed over in a struct have the length of the slice the index was drawn from
							switch x.Index.(type) {
							case *ssa.Parameter, *ssa.UnOp, *ssa.Field:
							default:
								return false
							}
							for k := range rs {
								if strings.HasPrefix(k, ik+" < len(") {
									return true
								}
							}
							return false
						}():
							r.OK("R07b", "varindex "+key, instrPos(in), "the index is bounded by the length of the slice it was drawn from (caller-established fact); the indexed slice is a parallel slice or a copy of it held in a record")
						default:
							if why := structuralIndexBound(p, f, x); why != "" {
								r.OK("R07b", "varindex "+key, instrPos(in), why)
								return
							}
							if why, ok := auditFind(c07VarIndices, key); ok {
								r.OK("R07b", "varindex "+key, instrPos(in), "audited: "+why)
							} else {
								r.Unknown("R07b", "varindex "+key, instrPos(in), fmt.Sprintf("variable index without the fact %s < len(%s) and without an audited bound (facts: %v)", ik, sk0, relList(rs)))
							}
						}
						return
					}
					// varargs / composite-literal arrays are IndexAddr on *array, not slices: skipped above
					r.Sites++
					key := fmt.Sprintf("%s|%s[%d]", FuncName(f), sk(x.X), k)
					rs := at(in)
					if lenLowerBound(rs, sk(x.X)) > k {
						r.OK("R07b", "index "+key, instrPos(in), fmt.Sprintf("length facts give len >= %d", lenLowerBound(rs, sk(x.X))))
					} else if why := indexInvariant(x, k, rs); why != "" {
						r.OK("R07b", "index "+key, instrPos(in), why)
					} else if g, ok := auditFind(c07Indices, key); ok && hasFactCanon(rs, g.Need) {
						r.OK("R07b", "index "+key, instrPos(in), "audited: "+g.Why)
					} else {
						r.Unknown("R07b", "index "+key, instrPos(in), fmt.Sprintf("constant index %d without a dominating length bound (facts: %v) and without an audited arity invariant", k, relList(rs)))
					}
				case *ssa.Slice:
					// x[lo:hi] with explicit bounds on a slice or string panics when the bounds exceed the length
					if x.Low == nil && x.High == nil {
						return
					}
					if _, isArr := deref(x.X.Type()).Underlying().(*types.Array); isArr {
						return // slicing a local array literal (make/append idiom)
					}
					if k, ok := x.High.(*ssa.Const); ok && x.Max == nil && k.Value != nil && k.Value.String() == "0" {
						if lk, ok := x.Low.(*ssa.Const); x.Low == nil || (ok && lk.Value != nil && lk.Value.String() == "0") {
							return // x[:0] is in range for every x
						}
					}
					r.Sites++
					key := fmt.Sprintf("%s|%s", FuncName(f), sk(x))
					rs := at(in)
					lo := ""
					if x.Low != nil {
						lo = sk(x.Low)
					}
					switch {
					case x.High == nil && lo == "1" && (rs["0 != len("+sk(x.X)+")"] || rs["0 < len("+sk(x.X)+")"]):
						r.OK("R07b", "slice "+key, instrPos(in), "x[1:] under the fact that x is non-empty")
					case x.High == nil && strings.HasPrefix(lo, "(") && strings.HasSuffix(lo, " + 1)") && rs[strings.TrimSuffix(strings.TrimPrefix(lo, "("), " + 1)")+" < len("+sk(x.X)+")"]:
						r.OK("R07b", "slice "+key, instrPos(in), "x[i+1:] under the fact i < len(x)")
					case x.Low == nil && x.High != nil && sk(x.High) == "(len("+sk(x.X)+") - 1)" && (rs["0 != len("+sk(x.X)+")"] || rs["0 < len("+sk(x.X)+")"]):
						r.OK("R07b", "slice "+key, instrPos(in), "x[:len(x)-1] under the fact that x is non-empty")
					case x.Low == nil && x.High != nil && (rs[sk(x.High)+" < len("+sk(x.X)+")"] || rs[sk(x.High)+" <= len("+sk(x.X)+")"]):
						r.OK("R07b", "slice "+key, instrPos(in), "x[:i] under the fact i <= len(x)")
					case x.High == nil && strings.HasPrefix(lo, "(strings.LastIndex("+sk(x.X)+",") && strings.HasSuffix(lo, " + 1)"):
						r.OK("R07b", "slice "+key, instrPos(in), "strings.LastIndex(s, …)+1 lies in 0..len(s)")
					case x.High == nil && dominatingIndexCovers(f, x):
						r.OK("R07b", "slice "+key, instrPos(in), "x[k:] after x[k-1] (or a later element) was indexed on every path here: the length is at least k")
					default:
						if why, ok := auditFind(c07Slices, key); ok {
							r.OK("R07b", "slice "+key, instrPos(in), "audited: "+why)
						} else {
							r.Unknown("R07b", "slice "+key, instrPos(in), fmt.Sprintf("slice expression with explicit bounds and no recognised bound argument (facts: %v)", relList(rs)))
						}
					}
				case *ssa.Call:
					cal := calleeOf(&x.Call)
					if cal != nil && partial[cal] {
						r.Sites++
						var as []string
						for _, a := range x.Call.Args {
							as = append(as, sk(a))
						}
						key := fmt.Sprintf("%s|%s(%s)", FuncName(f), cal.Name(), strings.Join(as, ","))
						if why, ok := auditFind(c07Helpers, key); ok {
							r.OK("R07b", "partial "+key, instrPos(in), "audited: "+why)
						} else if g := helperGuard(p, f, x, at(in)); g != "" {
							r.OK("R07b", "partial "+key, instrPos(in), g)
						} else {
							r.Unknown("R07b", "partial "+key, instrPos(in), "call of a partial helper (panics with a plain error on the wrong kind of type) without a dominating type test and without an audited invariant")
						}
					}
					// accessors of go/types that are documented to return nil: a method called on the result dereferences it
					if why, ok := nilReturningAccessors[calleeName(x)]; ok {
						for _, rf := range refs(x) {
							c2, ok := rf.(*ssa.Call)
							if !ok || len(c2.Call.Args) == 0 || c2.Call.Args[0] != ssa.Value(x) || c2.Call.IsInvoke() {
								continue
							}
							cal2 := c2.Call.StaticCallee()
							if cal2 == nil || cal2.Signature.Recv() == nil {
								continue
							}
							r.Sites++
							key := fmt.Sprintf("%s|%s.%s()", FuncName(f), sk(x), cal2.Name())
							rs := at(c2)
							if rs[eqRel("nil", sk(x))] == false && (rs["nil != "+sk(x)] || rs[sk(x)+" != nil"]) {
								r.OK("R07b", "nilresult "+key, instrPos(c2), "dominated by a nil test of the accessor's result")
							} else {
								r.Unknown("R07b", "nilresult "+key, instrPos(c2), "the result of "+calleeName(x)+" is "+why+"; a method is called on it without a nil test")
							}
						}
					}
					// partial accessors of go/constant: StringVal, Uint64Val, … panic on a value of another kind
					if cal != nil && cal.Pkg != nil && cal.Pkg.Pkg.Path() == "go/constant" && len(x.Call.Args) >= 1 {
						if need, ok := constantAccessorKind[cal.Name()]; ok {
							r.Sites++
							ak := sk(x.Call.Args[0])
							key := fmt.Sprintf("%s|constant.%s(%s)", FuncName(f), cal.Name(), ak)
							rs := at(in)
							okKind := false
							for _, k := range need {
								if rs[eqRel(itoa(k), ak+".Kind()")] {
									okKind = true
								}
							}
							lit := ""
							if i := strings.Index(ak, ".Types["); cal.Name() == "StringVal" && i >= 0 && strings.HasSuffix(ak, "].Value") {
								// the value recorded by go/types for a STRING literal is a String constant
								e := ak[i+len(".Types[") : len(ak)-len("].Value")]
								if rs[eqRel(itoa(int(token.STRING)), e+".Kind")] {
									lit = e
								}
							}
							switch {
							case okKind:
								r.OK("R07b", "constant "+key, instrPos(in), "dominated by a test of the constant's kind")
							case lit != "":
								r.OK("R07b", "constant "+key, instrPos(in), "go/types: the constant value recorded for the STRING literal "+lit+" is a String")
							default:
								r.Unknown("R07b", "constant "+key, instrPos(in), fmt.Sprintf("constant.%s panics unless the value's kind is one of %v; no dominating kind test (an INT literal used at a floating-point type has a Float value) (facts: %v)", cal.Name(), need, relList(rs)))
							}
						}
					}
					// (*types.Package).Path/Name/Scope on a possibly-nil package
					n := calleeName(x)
					if n == "(*go/types.Package).Path" || n == "(*go/types.Package).Name" || n == "(*go/types.Package).Scope" {
						recv := x.Call.Args[0]
						if pc, ok := recv.(*ssa.Call); ok && strings.HasSuffix(calleeName(pc), ".Pkg") || isInvokePkg(recv) {
							r.Sites++
							key := fmt.Sprintf("%s|%s.%s()", FuncName(f), sk(recv), strings.TrimPrefix(n, "(*go/types.Package)."))
							rs := at(in)
							if rs["nil != "+sk(recv)] || rs[sk(recv)+" != nil"] {
								r.OK("R07b", "nilpkg "+key, instrPos(in), "dominated by a nil test of the package")
							} else if why, ok := auditFind(c07NilPkg, key); ok {
								r.OK("R07b", "nilpkg "+key, instrPos(in), "audited: "+why)
							} else {
								r.Unknown("R07b", "nilpkg "+key, instrPos(in), "Object.Pkg() is nil for predeclared objects (error, builtin types); dereferenced without a nil test (facts: "+strings.Join(relList(rs), "; ")+")")
							}
						}
					}
				}
			})
		}
	}
}

// nilReturningAccessors: go/types accessors whose documentation says they may return nil.
var nilReturningAccessors = map[string]string{
	"(*go/types.Func).Scope":      "nil for imported or instantiated functions",
	"(*go/types.Signature).Recv":  "nil for functions that are not methods",
	"(*go/types.Scope).Lookup":    "nil if the name is not declared in the scope",
	"(*go/types.Scope).Parent":    "nil for the universe scope",
	"(*go/types.Scope).Innermost": "nil if the position is outside the scope",
	"(*go/types.Info).ObjectOf":   "nil if the identifier is not found",
	"(*go/types.Info).TypeOf":     "nil if the expression is not found",
	"(*go/types.TypeName).Pkg":    "nil for predeclared types",
}

// constantAccessorKind: go/constant accessors that panic on other kinds (Unknown, 0, is always accepted).
var constantAccessorKind = map[string][]int{
	"BoolVal": {1}, "StringVal": {2}, "Int64Val": {3}, "Uint64Val": {3}, "Float32Val": {3, 4}, "Float64Val": {3, 4},
	"BitLen": {3}, "Bytes": {3}, "Num": {3, 4}, "Denom": {3, 4},
}

// astMinLen: slices of go/ast nodes that the Go grammar guarantees to be non-empty.
var astMinLen = map[string]int64{
	"AssignStmt.Lhs": 1, "AssignStmt.Rhs": 1, "ValueSpec.Names": 1,
}

// builtinMinArgs: arity guaranteed by the Go type checker for predeclared functions and conversions.
var builtinMinArgs = map[string]int64{
	"make": 1, "new": 1, "len": 1, "cap": 1, "append": 1, "copy": 2, "delete": 2, "panic": 1,
	"uint64": 1, "uint32": 1, "uint8": 1, "string": 1, "byte": 1,
}

// indexInvariant discharges a constant index by a documented invariant of go/ast, go/types or Go typing.
func indexInvariant(x *ssa.IndexAddr, k int64, rs relSet) string {
	if o, fld, ok := fieldOf(x.X); ok && o.Obj().Pkg() != nil && o.Obj().Pkg().Path() == "go/ast" {
		if n := astMinLen[o.Obj().Name()+"."+fld]; n > k {
			return fmt.Sprintf("go/ast: %s.%s has at least %d element(s) in syntactically valid Go", o.Obj().Name(), fld, n)
		}
	}
	isArgs := false
	if _, fld, ok := fieldOf(x.X); ok && fld == "Args" {
		isArgs = true
	}
	if pa, ok := x.X.(*ssa.Parameter); ok {
		if s, ok := pa.Type().Underlying().(*types.Slice); ok && strings.HasSuffix(types.TypeString(s.Elem(), nil), "go/ast.Expr") {
			isArgs = true
		}
	}
	if isArgs {
		for _, name := range curProg.resolvedBuiltinNames(rs) {
			if n, ok := builtinMinArgs[name]; ok && n > k {
				return fmt.Sprintf("Go typing: a call of the predeclared %s has at least %d argument(s) (the identifier was resolved to the predeclared object)", name, n)
			}
		}
		for f := range rs {
			if strings.Contains(f, ".IsType(") && strings.HasSuffix(f, " == true") && k == 0 {
				return "Go typing: a conversion T(x) has exactly one argument"
			}
		}
	}
	if ld, ok := x.X.(*ssa.UnOp); ok {
		if g, ok := ld.X.(*ssa.Global); ok && g.Pkg.Pkg.Path() == "go/types" {
			return "go/types: " + g.Name() + " is a fixed table indexed by BasicKind"
		}
	}
	if ms, ok := x.X.(*ssa.MakeSlice); ok {
		if b, ok := ms.Len.(*ssa.BinOp); ok && b.Op == token.ADD {
			if c, ok := constInt(b.Y); ok && c > k {
				return fmt.Sprintf("slice was made with length n+%d", c)
			}
		}
	}
	return ""
}

func hasFactContaining(rs relSet, sub string) bool {
	for k := range rs {
		if strings.Contains(k, sub) {
			return true
		}
	}
	return false
}

var c07NilPkg = map[string]string{
	"goose.Ctx.coqRecurFunc|ctx.info.Uses[e]#0.Pkg().Path()": "the object is a *types.Func of a user function or method: both callers reject predeclared receivers first (selectorMethod tests namedTy.Obj().Pkg() != nil; identExpr only reaches function() for *types.Func, and predeclared functions are *types.Builtin)",
}

func isInvokePkg(v ssa.Value) bool {
	c, ok := v.(*ssa.Call)
	return ok && c.Call.IsInvoke() && c.Call.Method.Name() == "Pkg"
}

// helperGuard recognises that the argument of sliceElem/ptrElem-like helpers was type-tested.
func helperGuard(p *Prog, f *ssa.Function, c *ssa.Call, rs relSet) string {
	if len(c.Call.Args) != 1 {
		return ""
	}
	a := c.Call.Args[0]
	// facts of the form "<a>.(*types.Slice)#1 == true"
	for k := range rs {
		if strings.HasPrefix(k, sk(a)+".(") && strings.HasSuffix(k, ")#1 == true") {
			return "argument was type-tested: " + k
		}
	}
	// argument is the #0 result of a successful comma-ok assertion
	if ex, ok := a.(*ssa.Extract); ok {
		if ta, ok := ex.Tuple.(*ssa.TypeAssert); ok && ta.CommaOk {
			if rs[sk(ta)+"#1 == true"] {
				return "argument is the result of a successful type assertion"
			}
		}
	}
	return ""
}

// entryRels: relations holding at every static call site of f (in the caller's terms, with
// argument expressions replaced by f's parameter names). Only used to discharge guards
// that the caller established for the callee.
func (p *Prog) entryRels(f *ssa.Function) relSet {
	if p.entryCache == nil {
		p.entryCache = map[*ssa.Function]relSet{}
	}
	if r, ok := p.entryCache[f]; ok {
		return r
	}
	p.entryCache[f] = relSet{}
	var res relSet
	n := 0
	for _, g := range p.srcFuncs {
		if g == f {
			continue
		}
		var rm map[*ssa.BasicBlock]relSet
		p.instrs(g, func(b *ssa.BasicBlock, i int, in ssa.Instruction) {
			c, ok := in.(*ssa.Call)
			if !ok || calleeOf(&c.Call) != f || len(c.Call.Args) != len(f.Params) {
				return
			}
			if rm == nil {
				rm = p.Rels(g)
			}
			n++
			rs := p.RelsAt(rm, c)
			// facts the caller itself inherited from all of its callers
			for k := range p.entryRels(g) {
				rs[k] = true
			}
			// rename argument keys to parameter names
			tr := relSet{}
			for k := range rs {
				nk := k
				for j, a := range c.Call.Args {
					ak := sk(a)
					if ak != "" && len(ak) > 0 {
						nk = replaceToken(nk, ak, f.Params[j].Name())
					}
				}
				tr[renormRel(nk)] = true
			}
			if res == nil {
				res = tr
			} else {
				res = res.intersect(tr)
			}
		})
	}
	if res == nil || n == 0 {
		res = relSet{}
	}
	p.entryCache[f] = res
	return res
}

// replaceToken replaces occurrences of old (an expression key) that are not part of a longer identifier.
func replaceToken(s, old, new string) string {
	if old == new || old == "" {
		return s
	}
	var b strings.Builder
	for i := 0; i < len(s); {
		j := strings.Index(s[i:], old)
		if j < 0 {
			b.WriteString(s[i:])
			break
		}
		j += i
		before := j == 0 || !isIdentByte(s[j-1])
		after := j+len(old) >= len(s) || !isIdentChar(s[j+len(old)])
		b.WriteString(s[i:j])
		if before && after {
			b.WriteString(new)
		} else {
			b.WriteString(old)
		}
		i = j + len(old)
	}
	return b.String()
}

func isIdentChar(c byte) bool {
	return c == '_' || (c >= 'a' && c <= 'z') || (c >= 'A' && c <= 'Z') || (c >= '0' && c <= '9')
}

var documentedCategories = map[string]bool{"unsupported": true, "todo": true, "future": true, "impossible(go)": true, "impossible(no-examples)": true}

func c07Categories(p *Prog, r *Report, prefixed *ssa.Function) {
	// callers of prefixed: category argument constant and documented
	// the category level: the function (the panicking one or the one it solely serves) whose callers pass a
	// constant category string
	catArg := func(c *ssa.Call) (string, bool) {
		for _, a := range c.Call.Args {
			if s, ok := constString(a); ok {
				return s, true
			}
		}
		return "", false
	}
	for level := 0; level < 3; level++ {
		hasConst := false
		callers := map[*ssa.Function]bool{}
		for _, f := range p.FuncsIn(Mod) {
			p.instrs(f, func(b *ssa.BasicBlock, i int, in ssa.Instruction) {
				if c, ok := in.(*ssa.Call); ok && calleeOf(&c.Call) == prefixed {
					callers[f] = true
					if _, ok := catArg(c); ok {
						hasConst = true
					}
				}
			})
		}
		if hasConst || len(callers) != 1 {
			break
		}
		for f := range callers {
			prefixed = f
		}
	}
	var wrappers []*ssa.Function
	for _, f := range p.FuncsIn(Mod) {
		p.instrs(f, func(b *ssa.BasicBlock, i int, in ssa.Instruction) {
			c, ok := in.(*ssa.Call)
			if !ok || calleeOf(&c.Call) != prefixed {
				return
			}
			r.Sites++
			cat, okc := catArg(c)
			r.Check("R07c", FuncName(f)+" category", instrPos(in), okc && documentedCategories[cat], fmt.Sprintf("category %q is not one of the documented categories", cat))
			wrappers = append(wrappers, f)
		})
	}
	// reported nodes are input syntax, not freshly built nodes
	isWrapper := map[*ssa.Function]bool{prefixed: true}
	for _, w := range wrappers {
		isWrapper[w] = true
	}
	nCalls, bad := 0, []string{}
	for _, f := range p.FuncsIn(Mod) {
		if isWrapper[f] {
			continue
		}
		p.instrs(f, func(b *ssa.BasicBlock, i int, in ssa.Instruction) {
			c, ok := in.(*ssa.Call)
			if !ok {
				return
			}
			cal := calleeOf(&c.Call)
			if cal == nil || !isWrapper[cal] {
				return
			}
			nCalls++
			// the reported node: the argument of go/ast node type
			var node ssa.Value
			for _, a := range c.Call.Args {
				if t := types.TypeString(a.Type(), nil); strings.HasPrefix(t, "go/ast.") || strings.HasPrefix(t, "*go/ast.") {
					node = a
					break
				}
			}
			if node == nil {
				return
			}
			for _, o := range origins(node) {
				switch x := o.(type) {
				case *ssa.Alloc:
					if x.Heap {
						bad = append(bad, fmt.Sprintf("%s reports a freshly allocated node at %s", FuncName(f), p.Pos(instrPos(in))))
					}
				}
			}
		})
	}
	r.Check("R07c", "reported nodes come from the input syntax tree", token.NoPos, len(bad) == 0,
		"a synthesised node has no position: the error carries NoPos / `src: -` instead of a location inside the offending declaration: "+strings.Join(bad, "; "))
	r.Note("%d reporter call sites", nCalls)
	// ConversionError carries Pos/End from the node
	// (in the reporter or in a helper it calls: the Pos field is n.Pos() of a parameter of go/ast node type)
	okPos := false
	for _, g := range append([]*ssa.Function{prefixed}, directCallees(p, prefixed)...) {
		p.instrs(g, func(b *ssa.BasicBlock, i int, in ssa.Instruction) {
			if st, ok := in.(*ssa.Store); ok {
				if _, fld, okf := fieldOf(st.Addr); okf && fld == "Pos" {
					if c, ok := st.Val.(*ssa.Call); ok && c.Call.IsInvoke() && c.Call.Method.Name() == "Pos" {
						if pa, ok := c.Call.Value.(*ssa.Parameter); ok && strings.HasPrefix(types.TypeString(pa.Type(), nil), "go/ast.") {
							okPos = true
						}
					}
				}
			}
		})
	}
	r.Check("R07c", "structured error takes its position from the reported node", prefixed.Pos(), okPos, "ConversionError.Pos must be n.Pos() of the node argument")
}

func c07Aggregation(p *Prog, r *Report) {
	// the call that translates one declaration under the recover frame, and the function that aggregates
	// the results (found by role: the caller of a function that defers a recover)
	var call *ssa.Call
	var decls *ssa.Function
	for _, g := range p.FuncsIn(Mod) {
		p.instrs(g, func(b *ssa.BasicBlock, i int, in ssa.Instruction) {
			if c, ok := in.(*ssa.Call); ok {
				if cal := calleeOf(&c.Call); cal != nil && cal.Pkg != nil && cal.Pkg.Pkg.Path() == Mod && recovers(p, cal) {
					call, decls = c, g
				}
			}
		})
	}
	if call == nil {
		r.Anchor("R07d", "the call of the recovering per-declaration translation")
		return
	}
	r.Func(FuncName(decls))
	// error branch: appends and continues (no return reachable from the error branch without going through the loop header)
	var errIf *ssa.If
	p.instrs(decls, func(b *ssa.BasicBlock, i int, in ssa.Instruction) {
		if ifc, ok := in.(*ssa.If); ok {
			if bo, ok := ifc.Cond.(*ssa.BinOp); ok && bo.Op == token.NEQ {
				if ex, ok := bo.X.(*ssa.Extract); ok && ex.Tuple == ssa.Value(call) {
					errIf = ifc
				}
			}
		}
	})
	ok, why := false, "no `err != nil` test of the per-declaration result"
	if errIf != nil {
		T := errIf.Block().Succs[0]
		appended := false
		for _, in := range T.Instrs {
			if c, isC := in.(*ssa.Call); isC {
				if bi, isB := c.Call.Value.(*ssa.Builtin); isB && bi.Name() == "append" {
					appended = true
				}
			}
		}
		// from T, the code that stores the declaration group must still be reached (same iteration continues)
		var header *ssa.BasicBlock
		for b := errIf.Block(); b != nil; b = b.Idom() {
			for _, pr := range b.Preds {
				if b.Dominates(pr) {
					header = b
				}
			}
			if header != nil {
				break
			}
		}
		escapes := false
		p.instrs(decls, func(b *ssa.BasicBlock, i int, in ssa.Instruction) {
			if ret, isRet := in.(*ssa.Return); isRet && header != nil {
				if pathAvoiding(T, ret.Block(), map[*ssa.BasicBlock]bool{header: true}, nil, p) {
					escapes = true
				}
			}
		})
		ok = appended && !escapes && header != nil
		why = fmt.Sprintf("error appended=%v, early return from the error branch=%v", appended, escapes)
	}
	r.Check("R07d", "an error in one declaration does not stop the others", decls.Pos(), ok, why)
	// every declaration index is translated: the call is guarded only by loop bounds
	rm := p.Rels(decls)
	rs := p.RelsAt(rm, call)
	var extra []string
	for k := range rs {
		if !isLoopBoundFact(k) {
			extra = append(extra, k)
		}
	}
	sort.Strings(extra)
	r.Check("R07d", "every declaration is translated", instrPos(call), len(extra) == 0, fmt.Sprintf("the per-declaration translation is conditional on %v", extra))
}

// ---------------------------------------------------------------------------
// nil-able go/ast fields (documented "or nil")

var astNilable = map[string]bool{
	"Field.Tag": true, "Field.Doc": true, "Field.Comment": true,
	"CompositeLit.Type": true,
	"SliceExpr.Low":     true, "SliceExpr.High": true, "SliceExpr.Max": true,
	"FuncDecl.Recv": true, "FuncDecl.Body": true, "FuncDecl.Doc": true,
	"FuncType.TypeParams": true, "FuncType.Results": true,
	"IfStmt.Init": true, "IfStmt.Else": true,
	"SwitchStmt.Init": true, "SwitchStmt.Tag": true, "TypeSwitchStmt.Init": true,
	"ForStmt.Init": true, "ForStmt.Cond": true, "ForStmt.Post": true,
	"RangeStmt.Key": true, "RangeStmt.Value": true,
	"BranchStmt.Label": true,
	"ImportSpec.Name":  true, "ImportSpec.Doc": true, "ImportSpec.Comment": true,
	"ValueSpec.Type": true, "ValueSpec.Doc": true, "ValueSpec.Comment": true,
	"TypeSpec.TypeParams": true, "TypeSpec.Doc": true, "TypeSpec.Comment": true,
	"GenDecl.Doc": true, "File.Doc": true,
	"ArrayType.Len": true, "Ellipsis.Elt": true, "CommClause.Comm": true,
}

type nilInfo struct {
	p      *Prog
	unsafe map[*ssa.Function]map[int]string // function -> param index -> why a nil argument crashes
}

// derefUses lists the uses of v in f that dereference it, with a description.
// Calls into repository functions are resolved through ni.unsafe.
func (ni *nilInfo) derefUses(f *ssa.Function, v ssa.Value) []struct {
	In  ssa.Instruction
	Why string
} {
	type du = struct {
		In  ssa.Instruction
		Why string
	}
	var out []du
	seen := map[ssa.Value]bool{}
	var walk func(v ssa.Value)
	walk = func(v ssa.Value) {
		if seen[v] {
			return
		}
		seen[v] = true
		for _, rf := range refs(v) {
			switch x := rf.(type) {
			case *ssa.FieldAddr:
				if x.X == v {
					out = append(out, du{rf, "field access ." + fieldName(x)})
				}
			case *ssa.Field:
			case *ssa.UnOp:
				if x.Op == token.MUL && x.X == v {
					out = append(out, du{rf, "pointer dereference"})
				}
			case *ssa.MakeInterface:
				walk(x)
			case *ssa.ChangeInterface:
				walk(x)
			case *ssa.Phi:
				walk(x)
			case ssa.CallInstruction:
				cc := x.Common()
				if cc.IsInvoke() && cc.Value == v {
					out = append(out, du{rf, "method call ." + cc.Method.Name() + "() on the value"})
					continue
				}
				cal := cc.StaticCallee()
				if cal == nil {
					continue
				}
				for i, a := range cc.Args {
					if a != v {
						continue
					}
					if why, bad := ni.unsafe[cal][i]; bad {
						out = append(out, du{rf, "passed to " + FuncName(cal) + ", which " + why})
					} else if cal.Pkg != nil && !InRepo(cal.Pkg.Pkg.Path()) {
						// library functions: go/printer, types.Info.TypeOf … accept nil nodes only in a few cases
						n := fullName(cal)
						if n == "(*go/types.Info).TypeOf" || n == "(*go/types.Info).ObjectOf" {
							continue
						}
						if strings.HasPrefix(n, "go/printer.") {
							out = append(out, du{rf, "passed to " + n + " (nil node)"})
						}
					}
				}
			}
		}
	}
	walk(v)
	return out
}

func fieldName(fa *ssa.FieldAddr) string {
	_, f, _ := fieldOf(fa)
	return f
}

func (p *Prog) computeNilUnsafe(pkgs []string) *nilInfo {
	ni := &nilInfo{p: p, unsafe: map[*ssa.Function]map[int]string{}}
	var funcs []*ssa.Function
	for _, pk := range pkgs {
		funcs = append(funcs, p.FuncsIn(pk)...)
	}
	for changed := true; changed; {
		changed = false
		for _, f := range funcs {
			var rm map[*ssa.BasicBlock]relSet
			for i, pa := range f.Params {
				if _, bad := ni.unsafe[f][i]; bad {
					continue
				}
				switch pa.Type().Underlying().(type) {
				case *types.Pointer, *types.Interface:
				default:
					continue
				}
				for _, u := range ni.derefUses(f, pa) {
					if rm == nil {
						rm = p.Rels(f)
					}
					rs := p.RelsAt(rm, u.In)
					if rs["nil != "+pa.Name()] || rs[pa.Name()+" != nil"] {
						continue
					}
					// a successful type test of the parameter also excludes nil
					if hasFactContaining(rs, pa.Name()+".(") && hasFactContaining(rs, ")#1 == true") {
						guarded := false
						for k := range rs {
							if strings.HasPrefix(k, pa.Name()+".(") && strings.HasSuffix(k, "#1 == true") {
								guarded = true
							}
						}
						if guarded {
							continue
						}
					}
					if ni.unsafe[f] == nil {
						ni.unsafe[f] = map[int]string{}
					}
					ni.unsafe[f][i] = "dereferences its parameter " + pa.Name() + " (" + u.Why + ") without a nil test"
					changed = true
					break
				}
			}
		}
	}
	return ni
}

func c07NilFields(p *Prog, r *Report) {
	pkgs := []string{Mod}
	ni := p.computeNilUnsafe(pkgs)
	for _, f := range p.FuncsIn(Mod) {
		rm := p.Rels(f)
		entry := p.entryRels(f)
		p.instrs(f, func(b *ssa.BasicBlock, i int, in ssa.Instruction) {
			ld, ok := in.(*ssa.UnOp)
			if !ok || ld.Op != token.MUL {
				return
			}
			o, fld, okf := fieldOf(ld)
			if !okf || o.Obj().Pkg() == nil || o.Obj().Pkg().Path() != "go/ast" || !astNilable[o.Obj().Name()+"."+fld] {
				return
			}
			vk := sk(ld)
			for _, u := range ni.derefUses(f, ld) {
				r.Sites++
				rs := p.RelsAt(rm, u.In)
				for k := range entry {
					rs[k] = true
				}
				short := u.Why
				if i := strings.Index(short, ", which"); i > 0 {
					short = short[:i]
				}
				key := fmt.Sprintf("%s|nil-able %s.%s: %s", FuncName(f), o.Obj().Name(), fld, short)
				guarded := rs["nil != "+vk] || rs[vk+" != nil"]
				if !guarded {
					for k := range rs {
						if strings.HasPrefix(k, vk+".(") && strings.HasSuffix(k, "#1 == true") {
							guarded = true
						}
					}
				}
				if guarded {
					r.OK("R07b", key, instrPos(u.In), "dominated by a nil test (or successful type test) of "+vk)
				} else if why, ok := auditFind(c07NilFieldsTable, key); ok {
					r.OK("R07b", key, instrPos(u.In), "audited: "+why)
				} else {
					r.Unknown("R07b", key, instrPos(u.In), fmt.Sprintf("go/ast documents %s.%s as possibly nil; it is used here (%s) without a dominating nil test (facts: %v)", o.Obj().Name(), fld, u.Why, relList(rs)))
				}
			}
		})
	}
	// evidence: which helper parameters are nil-unsafe
	var l []string
	for f, m := range ni.unsafe {
		for i := range m {
			l = append(l, fmt.Sprintf("%s#%d", FuncName(f), i))
		}
	}
	sort.Strings(l)
	r.Table("nil-unsafe parameters (dereferenced without a nil test, transitively)", l)
}

var c07NilFieldsTable = map[string]string{
	"goose.Ctx.coqType|nil-able Ellipsis.Elt: passed to goose.Ctx.coqType":                "an *ast.Ellipsis reached by coqType is the type of a variadic parameter, whose Elt is its element type; the nil-Elt form occurs only as ArrayType.Len ([...]T), which no caller passes to coqType (arrayType only tests e.Len != nil)",
	"goose.Ctx.ifStmt|nil-able IfStmt.Else: passed to goose.errorReporter.futureWork":     "reached only when len(Else.List) > 0, and the local Else block is non-empty only if it was taken from a non-nil s.Else (data invariant through the local variable)",
	"goose.Ctx.mapRangeStmt|nil-able RangeStmt.Key: passed to goose.errorReporter.nope":   "reached only when getIdentOrAnonymous(s.Key) returned ok=false, and that helper returns ok=true for a nil expression",
	"goose.Ctx.mapRangeStmt|nil-able RangeStmt.Value: passed to goose.errorReporter.nope": "reached only when getIdentOrAnonymous(s.Value) returned ok=false, and that helper returns ok=true for a nil expression",
}

// c07BindingArity: the printer panics (outside the recover frame) for bindings with more than four names;
// every construction of a multi-name binding in the translator must be bounded.
func c07BindingArity(p *Prog, r *Report) {
	n := 0
	for _, f := range p.FuncsIn(Mod) {
		rm := p.Rels(f)
		p.instrs(f, func(b *ssa.BasicBlock, i int, in ssa.Instruction) {
			st, ok := in.(*ssa.Store)
			if !ok {
				return
			}
			fa, ok := st.Addr.(*ssa.FieldAddr)
			if !ok {
				return
			}
			o, fld, okf := fieldOf(fa)
			if !okf || o.Obj().Name() != "Binding" || fld != "Names" || o.Obj().Pkg() == nil || o.Obj().Pkg().Path() != coqPkg {
				return
			}
			n++
			r.Sites++
			key := fmt.Sprintf("%s|Binding.Names = %s", FuncName(f), sk(st.Val))
			// constant-size literals
			if sl, ok := st.Val.(*ssa.Slice); ok {
				if a, ok := sl.X.(*ssa.Alloc); ok {
					if at, ok := deref(a.Type()).Underlying().(*types.Array); ok && at.Len() <= 4 {
						r.OK("R07b", key, instrPos(in), fmt.Sprintf("literal of %d name(s)", at.Len()))
						return
					}
				}
			}
			if ms, ok := st.Val.(*ssa.MakeSlice); ok {
				if c, ok := constInt(ms.Len); ok && c <= 4 {
					r.OK("R07b", key, instrPos(in), fmt.Sprintf("make of %d name(s)", c))
					return
				}
			}
			if c, ok := st.Val.(*ssa.Const); ok && c.Value == nil {
				r.OK("R07b", key, instrPos(in), "nil (anonymous binding)")
				return
			}
			rs := p.RelsAt(rm, in)
			bounded := ""
			for k := range rs {
				if strings.HasPrefix(k, "len(") && (strings.HasSuffix(k, " <= 4") || strings.HasSuffix(k, " < 5")) {
					bounded = k
				}
			}
			r.Check("R07b", key, instrPos(in), bounded != "",
				fmt.Sprintf("a binding with a computed number of names is built without a dominating bound `len(…) <= 4`; the printer panics for more than four names while the file is written, outside the per-declaration recover (facts: %v)", relList(rs)))
		})
	}
	if n == 0 {
		r.Unknown("R07b", "Binding.Names constructions", token.NoPos, "no construction of coq.Binding with names found in the translator")
	}
}

// specsToks: the GenDecl.Tok constants under which the slice value is some D.Specs — read off
// the facts where D.Specs is loaded, or, for a parameter, at every call site (depth 3).
func (p *Prog) specsToks(fn *ssa.Function, slice ssa.Value, at ssa.Instruction, depth int) (map[int64]bool, bool) {
	if depth > 3 {
		return nil, false
	}
	if o, fld, ok := fieldOf(slice); ok && o.Obj().Name() == "GenDecl" && o.Obj().Pkg().Path() == "go/ast" && fld == "Specs" {
		k := sk(slice)
		if !strings.HasSuffix(k, ".Specs") {
			return nil, false
		}
		tokKey := strings.TrimSuffix(k, ".Specs") + ".Tok"
		rs := p.RelsAt(p.Rels(fn), at)
		for f := range p.entryRels(fn) {
			rs[f] = true
		}
		out := map[int64]bool{}
		for f := range rs {
			i := topLevelIndex(f, " == ")
			if i < 0 {
				continue
			}
			a, b := f[:i], f[i+4:]
			var n int64
			if b == tokKey {
				if _, err := fmt.Sscan(a, &n); err == nil && fmt.Sprint(n) == a {
					out[n] = true
				}
			}
			if a == tokKey {
				if _, err := fmt.Sscan(b, &n); err == nil && fmt.Sprint(n) == b {
					out[n] = true
				}
			}
		}
		if len(out) == 1 {
			return out, true
		}
		// D is a parameter: each caller knows the token of the declaration it passes (a constant and a variable
		// handler merged into one: called under CONST here and under VAR there)
		if fa, isFA := slice.(*ssa.UnOp); isFA && len(out) == 0 {
			if fad, ok := fa.X.(*ssa.FieldAddr); ok {
				if dp, ok := fad.X.(*ssa.Parameter); ok {
					idx := -1
					for i, q := range fn.Params {
						if q == dp {
							idx = i
						}
					}
					n, good := 0, idx >= 0
					for _, g := range p.srcFuncs {
						rmG := map[*ssa.BasicBlock]relSet(nil)
						p.instrs(g, func(b *ssa.BasicBlock, i int, in ssa.Instruction) {
							c, ok := in.(ssa.CallInstruction)
							if !ok || c.Common().StaticCallee() != fn || idx >= len(c.Common().Args) {
								return
							}
							n++
							if rmG == nil {
								rmG = p.Rels(g)
							}
							tk := sk(c.Common().Args[idx]) + ".Tok"
							rsG := p.RelsAt(rmG, in)
							for f := range p.entryRels(g) {
								rsG[f] = true
							}
							found := 0
							for f := range rsG {
								i := topLevelIndex(f, " == ")
								if i < 0 {
									continue
								}
								a, b := f[:i], f[i+4:]
								var v int64
								if b == tk {
									if _, err := fmt.Sscan(a, &v); err == nil && fmt.Sprint(v) == a {
										out[v] = true
										found++
									}
								}
								if a == tk {
									if _, err := fmt.Sscan(b, &v); err == nil && fmt.Sprint(v) == b {
										out[v] = true
										found++
									}
								}
							}
							if found == 0 {
								// `case A, B:` — the block is entered from two tests; each edge knows its token
								blk := in.Block()
								okEdges := len(blk.Preds) > 1
								for _, pr := range blk.Preds {
									ne := 0
									for f := range p.RelsOnEdge(rmG, pr, blk) {
										i := topLevelIndex(f, " == ")
										if i < 0 {
											continue
										}
										a, b := f[:i], f[i+4:]
										var v int64
										if b == tk {
											if _, err := fmt.Sscan(a, &v); err == nil && fmt.Sprint(v) == a {
												out[v] = true
												ne++
											}
										}
										if a == tk {
											if _, err := fmt.Sscan(b, &v); err == nil && fmt.Sprint(v) == b {
												out[v] = true
												ne++
											}
										}
									}
									if ne != 1 {
										okEdges = false
									}
								}
								if okEdges {
									found = 1
								}
							}
							if found != 1 {
								good = false
							}
						})
					}
					return out, good && n > 0 && len(out) > 0
				}
			}
		}
		return out, len(out) == 1
	}
	pa, ok := slice.(*ssa.Parameter)
	if !ok {
		return nil, false
	}
	idx := -1
	for i, q := range fn.Params {
		if q == pa {
			idx = i
		}
	}
	out := map[int64]bool{}
	n := 0
	good := idx >= 0
	for _, g := range p.srcFuncs {
		p.instrs(g, func(b *ssa.BasicBlock, i int, in ssa.Instruction) {
			c, ok := in.(ssa.CallInstruction)
			if !ok || c.Common().StaticCallee() != fn || idx >= len(c.Common().Args) {
				return
			}
			n++
			ts, ok2 := p.specsToks(g, c.Common().Args[idx], in, depth+1)
			if !ok2 {
				good = false
			}
			for t := range ts {
				out[t] = true
			}
		})
	}
	return out, good && n > 0 && len(out) > 0
}

// specAssertInvariant: go/ast fixes the dynamic type of GenDecl.Specs elements by GenDecl.Tok.
func (p *Prog) specAssertInvariant(fn *ssa.Function, ta *ssa.TypeAssert) string {
	ld, ok := ta.X.(*ssa.UnOp)
	if !ok || ld.Op != token.MUL {
		return ""
	}
	ia, ok := ld.X.(*ssa.IndexAddr)
	if !ok {
		return ""
	}
	toks, ok := p.specsToks(fn, ia.X, ta, 0)
	if !ok {
		return ""
	}
	allowed := map[string][]token.Token{
		"*go/ast.ValueSpec":  {token.CONST, token.VAR},
		"*go/ast.TypeSpec":   {token.TYPE},
		"*go/ast.ImportSpec": {token.IMPORT},
	}[types.TypeString(ta.AssertedType, nil)]
	if allowed == nil {
		return ""
	}
	var names []string
	for t := range toks {
		in := false
		for _, a := range allowed {
			if int64(a) == t {
				in = true
			}
		}
		if !in {
			return ""
		}
		names = append(names, token.Token(t).String())
	}
	sort.Strings(names)
	return fmt.Sprintf("go/ast: the slice is the Specs of a GenDecl whose Tok is %s (facts here and at every call site), and such a declaration holds only %s", strings.Join(names, "/"), types.TypeString(ta.AssertedType, qualNone))
}

// structuralIndexBound: bounds of variable indices that are established by construction rather than by a
// dominating comparison:
//   - the index is a field of a struct all of whose stores (in the package) are range-loop indices — an id
//     made only from positions of the slices it later indexes (declId{fileIdx, declIdx});
//   - inside a closure, the index is the loop index handed to the closure (as an argument of the go/call
//     statement or through a per-iteration captured variable) and the slice is a captured slice made with
//     the length of the very slice the loop ranges over.
func structuralIndexBound(p *Prog, f *ssa.Function, x *ssa.IndexAddr) string {
	// (1) field built only from loop indices
	if o, fld, ok := fieldOf(x.Index); ok && o.Obj().Pkg() != nil && InRepo(o.Obj().Pkg().Path()) {
		n, all := 0, true
		for _, g := range p.FuncsIn(o.Obj().Pkg().Path()) {
			p.instrs(g, func(b *ssa.BasicBlock, i int, in ssa.Instruction) {
				st, ok := in.(*ssa.Store)
				if !ok {
					return
				}
				if o2, f2, ok := fieldOf(st.Addr); ok && o2 == o && f2 == fld {
					n++
					if !loopIndexLike(p, st.Val, 0) {
						all = false
					}
				}
			})
		}
		if n > 0 && all {
			return fmt.Sprintf("%s.%s is only ever assigned range-loop indices (%d construction sites): the id is a position in the slice it indexes", o.Obj().Name(), fld, n)
		}
	}
	// (2) closure indexed by the loop index of its creator
	par := f.Parent()
	if par == nil {
		return ""
	}
	var mc *ssa.MakeClosure
	var site ssa.Instruction
	var callArgs []ssa.Value
	p.instrs(par, func(b *ssa.BasicBlock, i int, in ssa.Instruction) {
		if m, ok := in.(*ssa.MakeClosure); ok && m.Fn == ssa.Value(f) {
			mc = m
			for _, rf := range refs(m) {
				switch c := rf.(type) {
				case *ssa.Go:
					site, callArgs = c, c.Call.Args
				case *ssa.Call:
					if c.Call.Value == ssa.Value(m) {
						site, callArgs = c, c.Call.Args
					}
				case *ssa.Defer:
					site, callArgs = c, c.Call.Args
				}
			}
		}
	})
	if mc != nil && site == nil {
		// (3) the less function of sort.Slice: called with indices inside the sorted slice, which is the captured one
		if pa, ok := x.Index.(*ssa.Parameter); ok && pa.Parent() == f {
			if ld, ok := x.X.(*ssa.UnOp); ok {
				if fv, ok := ld.X.(*ssa.FreeVar); ok {
					var cap ssa.Value
					for i, v := range f.FreeVars {
						if v == fv && i < len(mc.Bindings) {
							cap = mc.Bindings[i]
						}
					}
					onlyRead := true
					for _, fr := range refs(fv) {
						if u, ok := fr.(*ssa.UnOp); !ok || u.Op != token.MUL {
							onlyRead = false
						}
					}
					for _, rf := range refs(mc) {
						c, ok := rf.(*ssa.Call)
						if !ok || len(c.Call.Args) != 2 || c.Call.Args[1] != ssa.Value(mc) {
							continue
						}
						if nm := calleeName(c); nm != "sort.Slice" && nm != "sort.SliceStable" {
							continue
						}
						if mi, ok := c.Call.Args[0].(*ssa.MakeInterface); ok && onlyRead && cap != nil {
							if l0, ok := mi.X.(*ssa.UnOp); ok && l0.Op == token.MUL && l0.X == cap {
								return "less function of sort.Slice over the captured slice: it is called with indices inside that slice"
							}
						}
					}
				}
			}
		}
	}
	if mc == nil || site == nil {
		return ""
	}
	binding := func(fv *ssa.FreeVar) ssa.Value {
		for i, v := range f.FreeVars {
			if v == fv && i < len(mc.Bindings) {
				return mc.Bindings[i]
			}
		}
		return nil
	}
	// the index
	idxOK := false
	switch iv := x.Index.(type) {
	case *ssa.Parameter:
		for i, pa := range f.Params {
			if pa == iv && i < len(callArgs) && isLoopIndex(callArgs[i]) {
				idxOK = true
			}
		}
	case *ssa.UnOp:
		if fv, ok := iv.X.(*ssa.FreeVar); ok {
			if al, ok := binding(fv).(*ssa.Alloc); ok && inLoop(al.Block()) {
				n, all := 0, true
				for _, rf := range refs(al) {
					if st, ok := rf.(*ssa.Store); ok && st.Addr == ssa.Value(al) {
						n++
						if !isLoopIndex(st.Val) {
							all = false
						}
					}
				}
				idxOK = n > 0 && all
			}
		}
	}
	if !idxOK {
		return ""
	}
	// the slice: captured variable holding make([]T, len(K)) where the creator's loop ranges over K
	ld, ok := x.X.(*ssa.UnOp)
	if !ok {
		return ""
	}
	fv, ok := ld.X.(*ssa.FreeVar)
	if !ok {
		return ""
	}
	al, ok := binding(fv).(*ssa.Alloc)
	if !ok {
		return ""
	}
	lenKey := ""
	nStore := 0
	rsSite := p.RelsAt(p.Rels(par), site)
	// the captured variable is the very slice the creator's loop ranges over
	if rsSite["(phi:rangeindex + 1) < len(*"+fv.Name()+")"] || rsSite["(phi:rangeindex + 1) < len("+sk(ld)+")"] {
		return "the closure receives the index of its creator's range loop over the captured slice itself"
	}
	// the creator ranges over the captured variable, which is assigned only before that loop and never by a closure:
	// calls made inside the loop cannot change it, although it is shared with the closures
	for i, pa := range f.Params {
		if pa == x.Index && i < len(callArgs) && rangesOverAlloc(callArgs[i], al, site) && assignedOnlyBefore(al, callArgs[i]) {
			return "the closure receives the index of its creator's range loop over the captured slice, which is assigned only before the loop and by no closure"
		}
	}
	for _, rf := range refs(al) {
		if st, ok := rf.(*ssa.Store); ok && st.Addr == ssa.Value(al) {
			if !reachesInstr(st, site) {
				continue // an assignment on a path that never creates the closure
			}
			nStore++
			if ms, ok := st.Val.(*ssa.MakeSlice); ok && (lenKey == "" || lenKey == sk(ms.Len)) {
				lenKey = sk(ms.Len)
			} else if rsSite["(phi:rangeindex + 1) < len("+sk(st.Val)+")"] {
				return "the closure receives the index of its creator's range loop over the slice stored in the captured variable"
			} else {
				return ""
			}
		}
	}
	if nStore == 0 || !strings.HasPrefix(lenKey, "len(") {
		return ""
	}
	if rsSite["(phi:rangeindex + 1) < "+lenKey] {
		return "the closure receives the index of its creator's range loop over " + strings.TrimSuffix(strings.TrimPrefix(lenKey, "len("), ")") + " and the captured slice was made with that length"
	}
	return ""
}

// loopIndexLike: a range-loop index, or a parameter that receives one at every call site.
func loopIndexLike(p *Prog, v ssa.Value, depth int) bool {
	if isLoopIndex(v) {
		return true
	}
	pa, ok := v.(*ssa.Parameter)
	if !ok || depth > 2 {
		return false
	}
	f := pa.Parent()
	idx := -1
	for i, q := range f.Params {
		if q == pa {
			idx = i
		}
	}
	n, all := 0, idx >= 0
	for _, g := range p.srcFuncs {
		p.instrs(g, func(b *ssa.BasicBlock, i int, in ssa.Instruction) {
			c, ok := in.(ssa.CallInstruction)
			if !ok || c.Common().StaticCallee() != f || idx >= len(c.Common().Args) {
				return
			}
			n++
			if !loopIndexLike(p, c.Common().Args[idx], depth+1) {
				all = false
			}
		})
	}
	return n > 0 && all
}

// dominatingIndexCovers: the slice expression x[k:] (constant k) is preceded, on every path, by an index
// expression x[i] of the same slice value with constant i >= k-1 — which would have panicked (and is audited
// as an index site of its own) unless len(x) >= k.
func dominatingIndexCovers(f *ssa.Function, sl *ssa.Slice) bool {
	k, ok := constInt(sl.Low)
	if !ok || k < 1 {
		return false
	}
	base := sk(sl.X)
	found := false
	for _, b := range f.Blocks {
		for _, in := range b.Instrs {
			ia, ok := in.(*ssa.IndexAddr)
			if !ok || sk(ia.X) != base {
				continue
			}
			if i, okc := constInt(ia.Index); okc && i >= k-1 && dominatesInstr(ia, sl) {
				found = true
			}
		}
	}
	return found
}

// rangesOverAlloc: idx is the index (phi+1) of a range loop whose bound is len(*al), read before the loop, and site
// lies in the loop body.
func rangesOverAlloc(idx ssa.Value, al *ssa.Alloc, site ssa.Instruction) bool {
	bo, ok := idx.(*ssa.BinOp)
	if !ok || bo.Op != token.ADD {
		return false
	}
	if _, ok := bo.X.(*ssa.Phi); !ok {
		return false
	}
	hdr := bo.Block()
	iff, ok := hdr.Instrs[len(hdr.Instrs)-1].(*ssa.If)
	if !ok {
		return false
	}
	cmp, ok := iff.Cond.(*ssa.BinOp)
	if !ok || cmp.Op != token.LSS || cmp.X != ssa.Value(bo) {
		return false
	}
	lc, ok := cmp.Y.(*ssa.Call)
	if !ok {
		return false
	}
	if b, ok := lc.Call.Value.(*ssa.Builtin); !ok || b.Name() != "len" || len(lc.Call.Args) != 1 {
		return false
	}
	ld, ok := lc.Call.Args[0].(*ssa.UnOp)
	if !ok || ld.Op != token.MUL || ld.X != ssa.Value(al) {
		return false
	}
	body := hdr.Succs[0]
	return len(body.Preds) == 1 && body.Dominates(site.Block())
}

// assignedOnlyBefore: every store to the local al happens in its own function in a block that dominates the loop
// header of idx and is not part of the loop; closures that capture it only read it; its address goes nowhere else.
func assignedOnlyBefore(al *ssa.Alloc, idx ssa.Value) bool {
	hdr := idx.(*ssa.BinOp).Block()
	for _, rf := range refs(al) {
		switch x := rf.(type) {
		case *ssa.Store:
			if x.Addr != ssa.Value(al) || !x.Block().Dominates(hdr) || hdr.Dominates(x.Block()) {
				return false
			}
		case *ssa.UnOp:
			if x.Op != token.MUL {
				return false
			}
		case *ssa.MakeClosure:
			fn, _ := x.Fn.(*ssa.Function)
			if fn == nil {
				return false
			}
			for i, b := range x.Bindings {
				if b != ssa.Value(al) || i >= len(fn.FreeVars) {
					continue
				}
				for _, fr := range refs(fn.FreeVars[i]) {
					if u, ok := fr.(*ssa.UnOp); !ok || u.Op != token.MUL {
						return false
					}
				}
			}
		case *ssa.DebugRef:
		default:
			return false
		}
	}
	return true
}
