package main

import (
	"fmt"
	"sort"
	"strings"

	"golang.org/x/tools/go/ssa"
)

// r01hVocab: the GooseLang library names the translator refers to, transcribed from Perennial's goose_lang
// (lib/slice, lib/map, lib/string, lib/struct, lib/lock, lib/waitgroup, lib/time, lib/control, lib/rand,
// prelude notations). A constant that is emitted as a Gallina name and is not in this set refers to nothing.
var r01hVocab = func() map[string]bool {
	m := map[string]bool{}
	for _, n := range strings.Fields(`
		slice.len slice.cap slice.nil SliceTake SliceSkip SliceSubslice SliceGet SliceSet SliceRef SliceAppend
		SliceAppendSlice SliceCopy SliceSingleton NewSlice NewSliceWithCap
		NewMap MapGet MapInsert MapDelete MapLen MapClear Fst
		StringLength StringToBytes StringFromBytes uint64_to_string
		ref zero_val zero_array null Panic
		struct.alloc struct.load struct.store struct.storeF struct.fieldRef
		lock.new lock.acquire lock.release lock.newCond lock.condSignal lock.condBroadcast lock.condWait lock.condWaitTimeout
		waitgroup.New waitgroup.Add waitgroup.Done waitgroup.Wait
		time.Sleep time.TimeNow control.impl.Assume control.impl.Assert control.impl.Exit rand.RandomUint64
		Linearize NewProph ResolveProph util.DPrintf
		UInt64Get UInt64Put UInt32Get UInt32Put`) {
		m[n] = true
	}
	return m
}()

// r01hAffinity: library functions that are specific to one kind of Go value. The name may be emitted only where
// a dominating fact says the operand's go/types type (or the go/ast type expression) is of that kind.
var r01hAffinity = map[string][]string{
	"slice.len":      {"*Slice"},
	"slice.cap":      {"*Slice"},
	"MapLen":         {"*Map"},
	"StringLength":   {"*Basic"},
	"null":           {"*Pointer"},
	"slice.nil":      {"*Slice", "*Basic"},
	"MapGet":         {"*Map"},
	"SliceGet":       {"*Slice"},
	"MapInsert":      {"*Map"},
	"SliceSet":       {"*Slice"},
	"MapDelete":      {"*Map"},
	"SliceRef":       {"*Slice"},
	"SliceCopy":      {"*Slice"},
	"SliceTake":      {"*Slice"},
	"SliceSkip":      {"*Slice"},
	"SliceSubslice":  {"*Slice"},
	"zero_array":     {"*Array"},
	"NewMap":         {"*Map", "*MapType"},
	"SliceSingleton": {"*Slice"},
}

// r01hPrims: Go function of the machine/primitive package ↦ GooseLang name ("=" : the Go name itself).
var r01hPrims = map[string]string{
	"UInt64Get": "=", "UInt64Put": "=", "UInt32Get": "=", "UInt32Put": "=",
	"RandomUint64": "rand.RandomUint64", "UInt64ToString": "uint64_to_string", "Linearize": "=",
	"Assume": "control.impl.Assume", "Assert": "control.impl.Assert", "Exit": "control.impl.Exit",
	"WaitTimeout": "lock.condWaitTimeout", "Sleep": "time.Sleep", "TimeNow": "time.TimeNow",
	"MapClear": "=", "NewProph": "=",
}

// r01hTypes: the GooseLang type names the translator refers to as constants.
var r01hTypes = map[string]bool{"uint64T": true, "uint32T": true, "byteT": true, "boolT": true, "stringT": true, "unitT": true,
	"anyT": true, "ptrT": true, "fileT": true, "disk.Disk": true, "disk.blockT": true, "ProphIdT": true}

// r01hRoles: operand order of library calls whose operands have the same GooseLang type and could be exchanged
// unnoticed. For the i-th operand after the name, the key of the value must contain one of the alternatives
// (separated by |); "" leaves the operand unchecked.
var r01hRoles = map[string][]string{
	"NewMap":        {".Key", ".Elem()|.Value"},
	"MapGet":        {".X", ".Index"},
	"SliceGet":      {"", ".X", ".Index"},
	"MapDelete":     {"Args[0]", "Args[1]"},
	"SliceTake":     {".X", ".High"},
	"SliceSkip":     {"", ".X", ".Low"},
	"SliceSubslice": {"", ".X", ".Low", ".High"},
	"zero_array":    {".Elem()", ""},
}

type emitSite struct {
	name string
	in   ssa.Instruction
	fn   *ssa.Function
}

// gallinaNameSites: every instruction of the translator package that uses a constant as a Gallina name: a
// constant of type coq.GallinaIdent, or the name argument of newCoqCall.
func gallinaNameSites(p *Prog) []emitSite {
	var out []emitSite
	for _, f := range p.FuncsIn(Mod) {
		p.instrs(f, func(b *ssa.BasicBlock, i int, in ssa.Instruction) {
			var ops []*ssa.Value
			ops = in.Operands(ops)
			for idx, op := range ops {
				if op == nil || *op == nil {
					continue
				}
				s, ok := constString(*op)
				if !ok {
					continue
				}
				if isCoqNamed((*op).Type(), "GallinaIdent") {
					out = append(out, emitSite{s, in, f})
					continue
				}
				if isCoqNamed((*op).Type(), "TypeIdent") {
					out = append(out, emitSite{"type:" + s, in, f})
					continue
				}
				if c, isCall := in.(*ssa.Call); isCall && strings.HasSuffix(calleeName(c), ".newCoqCall") && len(c.Call.Args) >= 2 && c.Call.Args[1] == *op {
					_ = idx
					out = append(out, emitSite{s, in, f})
				}
			}
		})
	}
	return out
}

func checkR01h(p *Prog, r *Report) {
	r.Rule("R01h", "library mapping: every constant the translator emits as a Gallina name is a name of the GooseLang library (reference vocabulary); a name that is specific to one kind of value (slice.len, MapLen, StringLength, null, slice.nil, MapGet, SliceGet, MapInsert, SliceSet, MapDelete, SliceRef, SliceCopy, SliceTake/Skip/Subslice, zero_array, NewMap, SliceSingleton) is emitted only under a dominating fact that the operand's type is of that kind; the functions of the machine/primitive package are mapped exactly as in the reference table", 40)
	sites := gallinaNameSites(p)
	rels := map[*ssa.Function]map[*ssa.BasicBlock]relSet{}
	seenAff := map[string]bool{}
	for _, s := range sites {
		r.Sites++
		key := fmt.Sprintf("%s emits %s", FuncName(s.fn), s.name)
		if tn, isType := strings.CutPrefix(s.name, "type:"); isType {
			if strings.HasPrefix(tn, "<") {
				// a placeholder next to a rejection: R02g decides that it is unreachable
				continue
			}
			r.Check("R01h", key+" (type vocabulary)", instrPos(s.in), r01hTypes[tn], fmt.Sprintf("%q is emitted as a GooseLang type name but is not one of the library's types", tn))
			continue
		}
		if !r01hVocab[s.name] {
			r.Fail("R01h", key+" (vocabulary)", instrPos(s.in), fmt.Sprintf("%q is emitted as a Gallina name but is not a name of the GooseLang library: the generated file refers to a definition that does not exist (or to a user definition of that name)", s.name), "")
			continue
		}
		kinds, specific := r01hAffinity[s.name]
		if !specific {
			r.OK("R01h", key+" (vocabulary)", instrPos(s.in), "in the reference vocabulary")
			continue
		}
		if rels[s.fn] == nil {
			rels[s.fn] = p.Rels(s.fn)
		}
		found := ""
		var typeFacts []string
		for k := range p.RelsAt(rels[s.fn], s.in) {
			if !strings.HasSuffix(k, "#1 == true") && !strings.HasPrefix(k, "true == ") {
				continue
			}
			for _, kd := range kinds {
				if strings.Contains(k, ".("+kd+")#1") {
					found = k
				}
			}
			if strings.Contains(k, ".(*") {
				typeFacts = append(typeFacts, k)
			}
		}
		seenAff[s.name] = true
		sort.Strings(typeFacts)
		r.Check("R01h", fmt.Sprintf("%s (operand kind %s)", key, strings.Join(kinds, " or ")), instrPos(s.in), found != "",
			fmt.Sprintf("%s is the GooseLang operation for %s values, but no dominating fact at this emission says the operand is one (type facts here: %v): a value of another kind would be given this operation", s.name, strings.Join(kinds, "/"), typeFacts))
	}
	// operand order
	for _, s := range sites {
		roles, ok := r01hRoles[s.name]
		c, isCall := s.in.(*ssa.Call)
		if mi, isMI := s.in.(*ssa.MakeInterface); isMI {
			for _, rf := range refs(mi) {
				if cc, ok := rf.(*ssa.Call); ok && len(cc.Call.Args) > 0 && cc.Call.Args[0] == ssa.Value(mi) {
					c, isCall = cc, true
				}
			}
		}
		if !ok || !isCall || calleeName(c) != coqPkg+".NewCallExpr" || len(c.Call.Args) < 2 {
			continue
		}
		// the variadic operands: a slice literal built just before the call
		var ops []string
		if sl, ok := c.Call.Args[1].(*ssa.Slice); ok {
			if al, ok := sl.X.(*ssa.Alloc); ok {
				byIdx := map[int64]string{}
				for _, rf := range refs(al) {
					if ia, ok := rf.(*ssa.IndexAddr); ok {
						idx, okc := constInt(ia.Index)
						for _, r2 := range refs(ia) {
							if st, ok := r2.(*ssa.Store); ok && okc {
								byIdx[idx] = sk(st.Val)
							}
						}
					}
				}
				for i := int64(0); i < int64(len(byIdx)); i++ {
					ops = append(ops, byIdx[i])
				}
			}
		}
		if len(ops) < len(roles) {
			continue
		}
		bad := ""
		for i, role := range roles {
			if role == "" {
				continue
			}
			hit := false
			for _, alt := range strings.Split(role, "|") {
				if strings.Contains(ops[i], alt) {
					hit = true
				}
			}
			if !hit {
				bad = fmt.Sprintf("operand %d of %s is %s, expected the %s of the construct", i+1, s.name, ops[i], role)
			}
		}
		r.Check("R01h", fmt.Sprintf("%s passes the operands of %s in order", FuncName(s.fn), s.name), instrPos(s.in), bad == "", bad)
	}
	for n := range r01hAffinity {
		if !seenAff[n] {
			r.Note("R01h: the kind-specific name %s is not emitted anywhere as a constant", n)
		}
	}
	// the primitive table (the discriminant is the selected name, under the package guard machine/primitive)
	f := p.Func(Mod, "Ctx.packageMethod")
	if f == nil {
		r.Anchor("R01h", "goose.Ctx.packageMethod")
		return
	}
	rows, ok := caseTable(p, f)
	if !ok {
		r.Unknown("R01h", "packageMethod table", f.Pos(), "too many paths")
		return
	}
	got := map[string]map[string]bool{}
	for _, row := range rows {
		prim := false
		for _, c := range row.Cases {
			if strings.HasPrefix(c, "machine @ ") || strings.HasPrefix(c, "primitive @ ") {
				prim = true
			}
		}
		if !prim {
			continue
		}
		for _, c := range row.Cases {
			parts := strings.SplitN(c, " @ ", 2)
			if !strings.HasSuffix(parts[1], ".Sel.Name") {
				continue
			}
			em := strings.Join(row.Emitted, "+")
			if em == "" {
				// newCoqCall(f.Sel.Name, …): the Go name itself
				if c, isCall := resolveOnPath(row.Path, row.Ret.Results[0]).(*ssa.Call); isCall && strings.HasSuffix(calleeName(c), ".newCoqCall") && len(c.Call.Args) >= 2 && sk(c.Call.Args[1]) == parts[1] {
					em = "="
				} else if mi, isMI := resolveOnPath(row.Path, row.Ret.Results[0]).(*ssa.MakeInterface); isMI {
					if c, isCall := mi.X.(*ssa.Call); isCall && strings.HasSuffix(calleeName(c), ".newCoqCall") && len(c.Call.Args) >= 2 && sk(c.Call.Args[1]) == parts[1] {
						em = "="
					}
				}
			}
			if em == parts[0] {
				em = "=" // spelled out as a constant
			}
			if got[parts[0]] == nil {
				got[parts[0]] = map[string]bool{}
			}
			got[parts[0]][em] = true
		}
	}
	for name, want := range r01hPrims {
		g := sortedKeys(got[name])
		r.Check("R01h", fmt.Sprintf("primitive %s ↦ %s", name, strings.Replace(want, "=", name, 1)), f.Pos(), len(g) == 1 && g[0] == want,
			fmt.Sprintf("the translation of machine.%s emits %v (\"=\" is the Go name itself), the reference is %q", name, g, want))
	}
	for name, g := range got {
		if _, known := r01hPrims[name]; !known {
			r.Fail("R01h", "primitive "+name+" is not in the reference table", f.Pos(), fmt.Sprintf("machine.%s is translated to %v but the reference table has no such primitive", name, sortedKeys(g)), "")
		}
	}
}
