package main

import (
	"fmt"
	"go/token"
	"regexp/syntax"
	"sort"
	"strings"

	"golang.org/x/tools/go/ssa"
)

const testGenPkg = Mod + "/cmd/test_gen"

type genBranch struct {
	name    string // "coq" or "go"
	entry   *ssa.BasicBlock
	regex   string
	reCall  *ssa.Call
	find    *ssa.Call // FindStringSubmatch
	fprintf []*ssa.Call
	opens   []*ssa.Call // os.Open of the source files
}

func checkC18(p *Prog, r *Report) {
	r.Rule("R18a", "both generators' regular expressions denote the same language (Thompson NFAs from regexp/syntax, simultaneous subset construction over a common rune partition); the failing-prefix groups denote the same language; the Coq name group equals \"test\" followed by the Go name group; the function name is reconstructed from the groups exactly as it was matched", 5)
	r.Rule("R18b", "both generators apply the same file filter: the set of constant suffixes tested with strings.HasSuffix on the file name is the same in both loops, every test's true edge skips the file (the open call is unreachable from it within the iteration), and the set contains the backup, gold and _test.go suffixes", 4)
	r.Rule("R18c", "one emission per match: every test-emitting Fprintf is reached only under len(m) != 0; the Coq generator emits exactly one of the Fail/plain forms, the Fail form exactly under a non-empty failing group; the Go generator's emission sequence is brace-balanced and calls <failing-prefix>test<name>", 6)
	r.Rule("R18d", "the output file is opened with os.Create (truncating); no other file-opening-for-write call exists in the generator", 1)
	r.Assume = append(r.Assume, "matches inside raw strings or block comments are a limitation of the line-regex approach shared by both generators and are not decided", "bufio.Scanner yields lines without newline")
	f := p.Func(testGenPkg, "main")
	if f == nil {
		r.Anchor("R18a", "cmd/test_gen.main")
		return
	}
	r.Func(FuncName(f))
	// branches: If on t == "coq" / t == "go"
	br := map[string]*genBranch{}
	p.instrs(f, func(b *ssa.BasicBlock, i int, in ssa.Instruction) {
		ifc, ok := in.(*ssa.If)
		if !ok {
			return
		}
		bo, ok := ifc.Cond.(*ssa.BinOp)
		if !ok || bo.Op != token.EQL {
			return
		}
		if s, ok := constString(bo.Y); ok && (s == "coq" || s == "go") {
			br[s] = &genBranch{name: s, entry: b.Succs[0]}
		}
	})
	if br["coq"] == nil || br["go"] == nil {
		r.Unknown("R18a", "generator branches", f.Pos(), "cannot find the `t == \"coq\"` / `t == \"go\"` branches")
		return
	}
	inBranch := func(g *genBranch, b *ssa.BasicBlock) bool {
		other := br["go"]
		if g.name == "go" {
			other = br["coq"]
		}
		return g.entry.Dominates(b) && !(other.entry.Dominates(b) && g.entry.Dominates(other.entry))
	}
	for _, g := range br {
		g := g
		p.instrs(f, func(b *ssa.BasicBlock, i int, in ssa.Instruction) {
			c, ok := in.(*ssa.Call)
			if !ok || !inBranch(g, b) {
				return
			}
			switch calleeName(c) {
			case "regexp.MustCompile", "regexp.Compile":
				if s, ok := constString(c.Call.Args[0]); ok {
					g.regex, g.reCall = s, c
				}
			case "(*regexp.Regexp).FindStringSubmatch":
				g.find = c
			case "fmt.Fprintf":
				g.fprintf = append(g.fprintf, c)
			case "os.Open":
				g.opens = append(g.opens, c)
			}
		})
	}
	for _, n := range []string{"coq", "go"} {
		g := br[n]
		if g.reCall == nil || g.find == nil || len(g.opens) != 1 {
			r.Unknown("R18a", n+" generator shape", f.Pos(), fmt.Sprintf("regex literal=%v FindStringSubmatch=%v opens=%d", g.reCall != nil, g.find != nil, len(g.opens)))
			return
		}
	}
	r.Table("regexes", map[string]string{"coq": br["coq"].regex, "go": br["go"].regex})
	checkRegexes(r, br["coq"], br["go"])
	checkFilters(p, r, f, br)
	checkEmissions(p, r, f, br)
	// R18d
	var creates, others []string
	p.instrs(f, func(b *ssa.BasicBlock, i int, in ssa.Instruction) {
		if c, ok := in.(*ssa.Call); ok {
			switch calleeName(c) {
			case "os.Create":
				creates = append(creates, p.Pos(instrPos(c)))
			case "os.OpenFile":
				fl, okc := foldInt(c.Call.Args[1])
				if !(okc && fl&0x200 != 0) { // O_TRUNC on linux
					others = append(others, "os.OpenFile without O_TRUNC at "+p.Pos(instrPos(c)))
				}
			}
		}
	})
	r.Check("R18d", "output file is truncated on open", f.Pos(), len(creates) >= 1 && len(others) == 0,
		fmt.Sprintf("os.Create calls: %v; %s: regenerating into an existing longer file would keep its tail", creates, strings.Join(others, ", ")))
}

func checkRegexes(r *Report, cq, gq *genBranch) {
	pos := cq.reCall.Pos()
	eq, diff, err := regexEquiv(cq.regex, gq.regex)
	if err != nil {
		r.Unknown("R18a", "regex languages equal", pos, "cannot analyse: "+err.Error())
		return
	}
	r.Check("R18a", "regex languages equal", pos, eq, "the two generators match different lines; distinguishing line prefix "+diff)
	rc, _ := syntax.Parse(cq.regex, syntax.Perl)
	rg, _ := syntax.Parse(gq.regex, syntax.Perl)
	sub := func(re *syntax.Regexp, i int) *nfa {
		s := captureSub(re, i)
		if s == nil {
			return nil
		}
		n, err := nfaOf(s)
		if err != nil {
			return nil
		}
		return n
	}
	// group 2: failing prefix
	c2, g2 := sub(rc, 2), sub(rg, 2)
	if c2 == nil || g2 == nil {
		r.Unknown("R18a", "failing-prefix groups equal", pos, "group 2 missing")
	} else {
		e, w, who := langEquivalent(c2, g2)
		r.Check("R18a", "failing-prefix groups equal", pos, e, fmt.Sprintf("group 2 differs on %q (%s)", w, who))
		// group 2 is literally "failing_" so that the Coq side can print it back
		lit, _ := syntax.Parse("failing_", syntax.Perl)
		ln, _ := nfaOf(lit)
		e2, _, _ := langEquivalent(c2, ln)
		r.Check("R18a", "failing-prefix group is the literal failing_", pos, e2, "group 2 must match exactly \"failing_\"")
	}
	// group 3: coq = "test" + go
	c3 := captureSub(rc, 3)
	g3 := captureSub(rg, 3)
	if c3 == nil || g3 == nil {
		r.Unknown("R18a", "name groups correspond", pos, "group 3 missing")
	} else {
		lit := &syntax.Regexp{Op: syntax.OpLiteral, Rune: []rune("test")}
		cat := &syntax.Regexp{Op: syntax.OpConcat, Sub: []*syntax.Regexp{lit, g3}}
		n1, e1 := nfaOf(c3)
		n2, e2 := nfaOf(cat)
		if e1 != nil || e2 != nil {
			r.Unknown("R18a", "name groups correspond", pos, "unsupported operator in group 3")
		} else {
			e, w, who := langEquivalent(n1, n2)
			r.Check("R18a", "name groups correspond", pos, e, fmt.Sprintf("Coq name group must equal \"test\"+Go name group; differ on %q (%s)", w, who))
		}
	}
	// reconstruction shape: [.. cap1(contains cap2) , (lit:test)?, cap3 ..]
	sc, sg := topLevelShape(rc), topLevelShape(rg)
	between := func(shape []string) (string, bool) {
		i1, i3 := -1, -1
		for i, s := range shape {
			if s == "cap1" {
				i1 = i
			}
			if s == "cap3" {
				i3 = i
			}
		}
		if i1 < 0 || i3 < 0 || i3 < i1 {
			return "", false
		}
		lit := ""
		for _, s := range shape[i1+1 : i3] {
			if !strings.HasPrefix(s, "lit:") {
				return "", false
			}
			lit += s[4:]
		}
		return lit, true
	}
	bc, okc := between(sc)
	bg, okg := between(sg)
	r.Check("R18a", "groups are adjacent up to a literal", pos, okc && okg && bc == "" && bg == "test",
		fmt.Sprintf("between the failing group and the name group: Coq has %q (want \"\"), Go has %q (want \"test\"): the emitted call must spell the matched function name", bc, bg))
}

// suffixTests returns, for the file loop of a branch, the HasSuffix constants and whether each true edge skips the file.
func checkFilters(p *Prog, r *Report, f *ssa.Function, br map[string]*genBranch) {
	sets := map[string][]string{}
	for _, n := range []string{"coq", "go"} {
		g := br[n]
		open := g.opens[0]
		// loop header of the file loop: nearest dominator of open's block with a back edge
		var header *ssa.BasicBlock
		for b := open.Block(); b != nil; b = b.Idom() {
			for _, pr := range b.Preds {
				if b.Dominates(pr) {
					header = b
				}
			}
			if header != nil {
				break
			}
		}
		var consts []string
		okSkip := true
		unknownFilter := ""
		p.instrs(f, func(b *ssa.BasicBlock, i int, in ssa.Instruction) {
			c, ok := in.(*ssa.Call)
			if !ok || header == nil || !header.Dominates(b) || !b.Dominates(open.Block()) && !reachesBlock(b, open.Block(), header) {
				return
			}
			// only tests that lie between the loop header and the open call
			if !reachesBlock(b, open.Block(), header) && b != open.Block() {
				return
			}
			cal := calleeName(c)
			if cal == "strings.HasSuffix" {
				s, okc := constString(c.Call.Args[1])
				if !okc {
					unknownFilter = "non-constant suffix"
					return
				}
				consts = append(consts, s)
				// the true edge must not reach the open call within the iteration
				for _, rf := range refs(c) {
					if ifc, ok := rf.(*ssa.If); ok {
						if pathAvoiding(ifc.Block().Succs[0], open.Block(), map[*ssa.BasicBlock]bool{header: true}, nil, p) {
							okSkip = false
						}
					}
				}
				return
			}
			if cf := calleeOf(&c.Call); cf != nil && cf.Pkg != nil && InRepo(cf.Pkg.Pkg.Path()) && cf != f {
				// a helper deciding the filter: collect its HasSuffix constants; anything else is unrecognised
				n := 0
				p.instrs(cf, func(b2 *ssa.BasicBlock, i2 int, in2 ssa.Instruction) {
					if c2, ok := in2.(*ssa.Call); ok {
						switch calleeName(c2) {
						case "strings.HasSuffix":
							if s, okc := constString(c2.Call.Args[1]); okc {
								consts = append(consts, s)
								n++
							}
						default:
							unknownFilter = "helper " + cf.Name() + " decides with " + calleeName(c2)
						}
					}
				})
				if n == 0 && unknownFilter == "" {
					unknownFilter = "helper " + cf.Name() + " has no suffix tests"
				}
			}
		})
		sort.Strings(consts)
		sets[n] = consts
		if unknownFilter != "" {
			r.Unknown("R18b", n+" generator file filter", instrPos(open), "filter outside the recognised idiom (constant strings.HasSuffix tests): "+unknownFilter)
		} else {
			r.Check("R18b", n+" generator filter skips", instrPos(open), okSkip && header != nil, "a suffix test's true edge reaches the open call: the file is not skipped")
		}
	}
	r.Table("file filters", sets)
	same := strings.Join(sets["coq"], "|") == strings.Join(sets["go"], "|")
	r.Check("R18b", "filters agree", br["go"].opens[0].Pos(), same, fmt.Sprintf("Coq generator skips suffixes %v, Go generator skips %v: a file scanned by only one of them yields tests the other lacks", sets["coq"], sets["go"]))
	need := []string{"~", ".gold.v", "_test.go"}
	miss := []string{}
	for _, s := range need {
		found := false
		for _, c := range sets["go"] {
			if c == s {
				found = true
			}
		}
		if !found {
			miss = append(miss, s)
		}
	}
	r.Check("R18b", "filter covers backup, gold and test files", br["go"].opens[0].Pos(), len(miss) == 0,
		fmt.Sprintf("suffixes not skipped: %v (backup copies duplicate tests; the generated _test.go and the gold file are not sources)", miss))
}

// reachesBlock: can `to` be reached from `from` without passing `stop`?
func reachesBlock(from, to, stop *ssa.BasicBlock) bool {
	seen := map[*ssa.BasicBlock]bool{}
	q := []*ssa.BasicBlock{from}
	for len(q) > 0 {
		b := q[0]
		q = q[1:]
		if seen[b] {
			continue
		}
		seen[b] = true
		if b == to {
			return true
		}
		for _, s := range b.Succs {
			if s != stop {
				q = append(q, s)
			}
		}
	}
	return false
}

func checkEmissions(p *Prog, r *Report, f *ssa.Function, br map[string]*genBranch) {
	rm := p.Rels(f)
	for _, n := range []string{"coq", "go"} {
		g := br[n]
		mKey := sk(g.find)
		var emit []*ssa.Call
		for _, c := range g.fprintf {
			// test emissions are those dominated by the FindStringSubmatch call
			if dominatesInstr(g.find, c) {
				emit = append(emit, c)
			}
		}
		if len(emit) == 0 {
			r.Unknown("R18c", n+" generator emissions", f.Pos(), "no Fprintf after the match")
			continue
		}
		allGuarded := true
		for _, c := range emit {
			rs := p.RelsAt(rm, c)
			if !rs["0 != len("+mKey+")"] && !rs["0 < len("+mKey+")"] {
				allGuarded = false
			}
		}
		r.Check("R18c", n+" generator emits only on a match", instrPos(emit[0]), allGuarded, "a test-emitting Fprintf is reachable without the fact len(m) != 0")
		// argKeys renders the variadic arguments structurally: "[m[3],m[2]]" when each is an element of the match slice
		argKeys := func(c *ssa.Call) string {
			sl, ok := c.Call.Args[2].(*ssa.Slice)
			if !ok {
				return "?"
			}
			a, ok := sl.X.(*ssa.Alloc)
			if !ok {
				return "?"
			}
			elems := map[int64]string{}
			max := int64(-1)
			for _, rf := range refs(a) {
				ia, ok := rf.(*ssa.IndexAddr)
				if !ok {
					continue
				}
				i, _ := constInt(ia.Index)
				for _, r2 := range refs(ia) {
					st, ok := r2.(*ssa.Store)
					if !ok {
						continue
					}
					v := st.Val
					if mi, ok := v.(*ssa.MakeInterface); ok {
						v = mi.X
					}
					e := "?"
					if ld, ok := v.(*ssa.UnOp); ok {
						if ea, ok := ld.X.(*ssa.IndexAddr); ok && ea.X == ssa.Value(g.find) {
							if k, ok := constInt(ea.Index); ok {
								e = "m[" + itoa(int(k)) + "]"
							}
						}
					}
					elems[i] = e
					if i > max {
						max = i
					}
				}
			}
			var es []string
			for i := int64(0); i <= max; i++ {
				es = append(es, elems[i])
			}
			return "[" + strings.Join(es, ",") + "]"
		}
		m := func(i int) string { return "m[" + itoa(i) + "]" }
		if n == "coq" {
			var failC, plainC *ssa.Call
			for _, c := range emit {
				fs, _ := constString(c.Call.Args[1])
				if strings.HasPrefix(fs, "Fail Example ") {
					failC = c
				} else if strings.HasPrefix(fs, "Example ") {
					plainC = c
				}
			}
			if failC == nil || plainC == nil || len(emit) != 2 {
				r.Fail("R18c", "coq generator has one Fail and one plain form", instrPos(emit[0]), fmt.Sprintf("found %d emissions (Fail=%v plain=%v)", len(emit), failC != nil, plainC != nil), "")
				continue
			}
			// mutually exclusive and selected by the failing group
			excl := !reachesInstr(failC, plainC) || !failC.Block().Dominates(plainC.Block())
			exclOK := failC.Block() != plainC.Block() && !pathWithin(failC.Block(), plainC.Block(), g.find.Block()) && !pathWithin(plainC.Block(), failC.Block(), g.find.Block())
			_ = excl
			r.Check("R18c", "coq generator emits exactly one form per match", instrPos(failC), exclOK, "both forms can be emitted for one matched line")
			rsF, rsP := p.RelsAt(rm, failC), p.RelsAt(rm, plainC)
			gk := "len(" + mKey + "[2])"
			r.Check("R18c", "coq Fail form exactly when the failing group is non-empty", instrPos(failC),
				(rsF["0 != "+gk] || rsF["0 < "+gk]) && (rsP[eqRel("0", gk)] || rsP[gk+" <= 0"]),
				fmt.Sprintf("Fail form facts %v; plain form facts %v; need len(m[2]) != 0 resp. == 0", relList(rsF), relList(rsP)))
			fsF, _ := constString(failC.Call.Args[1])
			fsP, _ := constString(plainC.Call.Args[1])
			okArgs := argKeys(failC) == "["+m(3)+","+m(2)+","+m(3)+"]" && strings.Contains(fsF, " : %s%s ") &&
				argKeys(plainC) == "["+m(3)+","+m(3)+"]" && strings.Contains(fsP, " : %s ")
			r.Check("R18c", "coq emission names the matched function", instrPos(failC), okArgs,
				fmt.Sprintf("Fail: %q %s; plain: %q %s; the callee must be <failing group><name group>", fsF, argKeys(failC), fsP, argKeys(plainC)))
		} else {
			// go: one straight-line sequence in a single block, braces balanced, callee = m[2]+"test"+m[3]
			blk := emit[0].Block()
			same := true
			depth := 0
			okCallee, okName := false, false
			for _, c := range emit {
				if c.Block() != blk {
					same = false
				}
				fs, _ := constString(c.Call.Args[1])
				depth += strings.Count(fs, "{") - strings.Count(fs, "}")
				if strings.Contains(fs, "%stest%s()") && argKeys(c) == "["+m(2)+","+m(3)+"]" {
					okCallee = true
				}
				if strings.HasPrefix(fs, "func (suite *GoTestSuite) Test%s()") && argKeys(c) == "["+m(3)+"]" {
					okName = true
				}
			}
			r.Check("R18c", "go generator emits one straight-line test per match", instrPos(emit[0]), same, "the emission is split over several blocks: a match can emit a partial or repeated test")
			r.Check("R18c", "go emission is brace-balanced", instrPos(emit[0]), depth == 0, fmt.Sprintf("net brace depth %d over the emitted formats", depth))
			r.Check("R18c", "go emission names and calls the matched function", instrPos(emit[0]), okCallee && okName, "need `func (suite *GoTestSuite) Test<name>()` and a call of <failing group>test<name>()")
		}
	}
}

// pathWithin: is b reachable from a without passing through `stop`?
func pathWithin(a, b, stop *ssa.BasicBlock) bool {
	seen := map[*ssa.BasicBlock]bool{}
	q := append([]*ssa.BasicBlock{}, a.Succs...)
	for len(q) > 0 {
		x := q[0]
		q = q[1:]
		if seen[x] || x == stop {
			continue
		}
		seen[x] = true
		if x == b {
			return true
		}
		q = append(q, x.Succs...)
	}
	return false
}
