package main

import (
	"fmt"
	"go/ast"
	"go/parser"
	"go/token"
	"go/types"
	"os"
	"path/filepath"
	"regexp"
	"regexp/syntax"
	"sort"
	"strconv"
	"strings"

	"golang.org/x/tools/go/packages"
	"golang.org/x/tools/go/ssa"
)

const testGenPkg = Mod + "/cmd/test_gen"

// A generator, identified by the regular expression it matches lines with: the abstract paths of
// main (helpers spliced in, loop state symbolic) on which that expression is applied.
type genBranch struct {
	name    string // "coq" or "go"
	regex   string
	pos     token.Pos
	paths   []ipath
	between string // the literal between the failing group and the name group of the expression ("" or "test")
}

const findName = "(*regexp.Regexp).FindStringSubmatch"

// regexOf resolves the receiver of a FindStringSubmatch call to the pattern it was compiled from:
// regexp.MustCompile("…") in place, or a package-level variable initialised with it.
func regexOf(p *Prog, e ievent) (string, bool) {
	c, ok := e.In.(*ssa.Call)
	if !ok || len(c.Call.Args) == 0 {
		return "", false
	}
	var lit func(v ssa.Value, depth int) (string, bool)
	lit = func(v ssa.Value, depth int) (string, bool) {
		if depth > 4 {
			return "", false
		}
		switch x := v.(type) {
		case *ssa.Call:
			n := calleeName(x)
			if (n == "regexp.MustCompile" || n == "regexp.Compile") && len(x.Call.Args) == 1 {
				return constString(x.Call.Args[0])
			}
		case *ssa.Extract:
			return lit(x.Tuple, depth+1)
		case *ssa.Phi:
			out, okAll := "", true
			for _, ed := range x.Edges {
				s, ok := lit(ed, depth+1)
				if !ok || out != "" && s != out {
					okAll = false
				}
				out = s
			}
			return out, okAll && out != ""
		case *ssa.Parameter:
			// the compiled expression is passed in: the same literal at every call site
			f := x.Parent()
			idx := -1
			for i, q := range f.Params {
				if q == x {
					idx = i
				}
			}
			out, n := "", 0
			for _, g := range p.srcFuncs {
				bad := false
				p.instrs(g, func(b *ssa.BasicBlock, i int, in ssa.Instruction) {
					if ci, ok := in.(ssa.CallInstruction); ok && ci.Common().StaticCallee() == f && idx >= 0 && idx < len(ci.Common().Args) {
						s, ok := lit(ci.Common().Args[idx], depth+1)
						if !ok || out != "" && s != out {
							bad = true
						}
						out = s
						n++
					}
				})
				if bad {
					return "", false
				}
			}
			return out, n > 0 && out != ""
		case *ssa.UnOp:
			if g, ok := x.X.(*ssa.Global); ok && x.Op == token.MUL && g.Pkg != nil {
				if ini := g.Pkg.Func("init"); ini != nil {
					out, n := "", 0
					p.instrs(ini, func(b *ssa.BasicBlock, i int, in ssa.Instruction) {
						if st, ok := in.(*ssa.Store); ok && st.Addr == ssa.Value(g) {
							if s, ok := lit(st.Val, depth+1); ok {
								out = s
								n++
							} else {
								n += 2
							}
						}
					})
					// and nobody else assigns it
					for _, fn := range p.srcFuncs {
						if fn == ini {
							continue
						}
						p.instrs(fn, func(b *ssa.BasicBlock, i int, in ssa.Instruction) {
							if st, ok := in.(*ssa.Store); ok && st.Addr == ssa.Value(g) {
								n += 2
							}
						})
					}
					return out, n == 1
				}
			}
		}
		return "", false
	}
	return lit(c.Call.Args[0], 0)
}

// suffixPredicate: g(name string) bool answers true exactly when name has one of a constant set of
// suffixes — written as a disjunction of strings.HasSuffix tests or as a loop over a constant
// package-level table. Returns the set.
func suffixPredicate(p *Prog, g *ssa.Function) ([]string, bool) {
	sig := g.Signature
	if sig.Recv() != nil || sig.Params().Len() != 1 || sig.Results().Len() != 1 || len(g.Blocks) == 0 {
		return nil, false
	}
	if types.TypeString(sig.Params().At(0).Type(), nil) != "string" || types.TypeString(sig.Results().At(0).Type(), nil) != "bool" {
		return nil, false
	}
	name := g.Params[0].Name()
	ips, ok := p.ipaths(g)
	if !ok || len(ips) == 0 {
		return nil, false
	}
	set := map[string]bool{}
	var table *ssa.Global
	n := 0
	for _, ip := range ips {
		for _, e := range ip.Events {
			switch e.Callee {
			case "len":
			case "strings.HasSuffix":
				n++
				if len(e.Args) != 2 || e.Args[0] != name {
					return nil, false
				}
				c := e.In.(*ssa.Call)
				if s, ok := constString(c.Call.Args[1]); ok {
					set[s] = true
					continue
				}
				// element of a package-level table
				ld, ok := c.Call.Args[1].(*ssa.UnOp)
				if !ok {
					return nil, false
				}
				ia, ok := ld.X.(*ssa.IndexAddr)
				if !ok {
					return nil, false
				}
				tl, ok := ia.X.(*ssa.UnOp)
				if !ok {
					return nil, false
				}
				gl, ok := tl.X.(*ssa.Global)
				if !ok || table != nil && table != gl {
					return nil, false
				}
				table = gl
			default:
				return nil, false
			}
		}
		if ip.Exit != "return" || len(ip.Ret) != 1 {
			return nil, false
		}
		pos := false
		for k := range ip.Rels {
			if strings.Contains(k, "strings.HasSuffix(") {
				if strings.HasSuffix(k, " == true") || strings.HasPrefix(k, "true == ") {
					pos = true
				}
				continue
			}
			if !isLoopBoundFact(k) {
				return nil, false // the answer depends on something else
			}
		}
		switch {
		case ip.Ret[0] == "true":
			if !pos {
				return nil, false
			}
		case ip.Ret[0] == "false":
			if pos {
				return nil, false
			}
		case strings.HasPrefix(ip.Ret[0], "strings.HasSuffix("+name+","):
		default:
			return nil, false
		}
	}
	if n == 0 {
		return nil, false
	}
	if table != nil {
		if len(set) > 0 {
			return nil, false
		}
		elems, ok := constStringTable(p, table)
		if !ok {
			return nil, false
		}
		for _, e := range elems {
			set[e] = true
		}
	}
	return sortedKeys(set), true
}

// constStringTable: the elements of a package-level []string initialised with a literal and never assigned elsewhere.
func constStringTable(p *Prog, g *ssa.Global) ([]string, bool) {
	ini := g.Pkg.Func("init")
	if ini == nil {
		return nil, false
	}
	var out []string
	n := 0
	p.instrs(ini, func(b *ssa.BasicBlock, i int, in ssa.Instruction) {
		st, ok := in.(*ssa.Store)
		if !ok || st.Addr != ssa.Value(g) {
			return
		}
		n++
		sl, ok := st.Val.(*ssa.Slice)
		if !ok {
			n += 2
			return
		}
		al, ok := sl.X.(*ssa.Alloc)
		if !ok {
			n += 2
			return
		}
		for _, rf := range refs(al) {
			if ia, ok := rf.(*ssa.IndexAddr); ok {
				for _, r2 := range refs(ia) {
					if s2, ok := r2.(*ssa.Store); ok {
						if c, ok := constString(s2.Val); ok {
							out = append(out, c)
						} else {
							n += 2
						}
					}
				}
			}
		}
	})
	for _, fn := range p.srcFuncs {
		if fn == ini {
			continue
		}
		p.instrs(fn, func(b *ssa.BasicBlock, i int, in ssa.Instruction) {
			switch x := in.(type) {
			case *ssa.Store:
				if x.Addr == ssa.Value(g) {
					n += 2
				}
				// element assignment through the table
				if ia, ok := x.Addr.(*ssa.IndexAddr); ok {
					if ld, ok := ia.X.(*ssa.UnOp); ok && ld.X == ssa.Value(g) {
						n += 2
					}
				}
			}
		})
	}
	sort.Strings(out)
	return out, n == 1 && len(out) > 0
}

func checkC18(p *Prog, r *Report) {
	r.Rule("R18a", "both generators' regular expressions denote the same language (Thompson NFAs from regexp/syntax, simultaneous subset construction over a common rune partition); the failing-prefix groups denote the same language; the Coq name group equals \"test\" followed by the Go name group; the function name is reconstructed from the groups exactly as it was matched", 5)
	r.Rule("R18b", "both generators apply the same file filter: on every abstract path of the generator (helpers spliced in) that opens a source file, the file name was tested negative for the backup, gold and _test.go suffixes (directly or through a helper that is a pure suffix predicate over a constant set); a positive test never reaches the open call; the sets of suffixes tested by the two generators are equal", 4)
	r.Rule("R18c", "one emission per match: on every abstract path, Fprintf calls that print parts of the match occur only under len(m) != 0 (or m != nil); the Coq generator emits exactly one of the Fail/plain forms per match, the Fail form exactly under a non-empty failing group; the Go generator's emission sequence per match is brace-balanced, names Test<name> and calls <failing-prefix>test<name>", 6)
	r.Rule("R18e", "the generated Go file compiles (structural part): the constant text the Go generator writes on a path — header, per-match formats with a sample identifier for every %s, footer — assembled for a run with one match and for a run with none is a syntactically valid Go file, imports every package it names and uses every package it imports", 4)
	r.Rule("R18d", "the output file is opened with os.Create (truncating); no other file-opening-for-write call exists in the generator", 1)
	r.Rule("R18f", "distinct test functions yield distinct suite methods: the name of the emitted suite method carries both captured groups (the failing_ prefix and the name) of the function it calls, so that testX and failing_testX do not both become TestX (two methods of one name: the generated file does not compile)", 1)
	r.Assume = append(r.Assume, "matches inside raw strings or block comments are a limitation of the line-regex approach shared by both generators and are not decided", "bufio.Scanner yields lines without newline")
	f := p.Func(testGenPkg, "main")
	if f == nil {
		r.Anchor("R18a", "cmd/test_gen.main")
		return
	}
	r.Func(FuncName(f))
	// helpers that are pure suffix predicates stay opaque (their meaning is the constant set)
	preds := map[*ssa.Function][]string{}
	keep := map[*ssa.Function]bool{}
	for _, g := range p.FuncsIn(testGenPkg) {
		if g == f || g.Parent() != nil {
			continue
		}
		if set, ok := suffixPredicate(p, g); ok {
			preds[g] = set
			keep[g] = true
			r.Func(FuncName(g))
		}
	}
	ips, ok := p.ipathsHavoc(f, keep)
	if !ok {
		r.Unknown("R18a", "generator paths", f.Pos(), "the abstract paths of main could not be enumerated")
		return
	}
	// a path belongs to the generator whose text it writes (header, per-match formats); both generators may
	// share one regular expression
	kindOf := func(ip ipath) string {
		for _, e := range ip.Events {
			if !strings.HasPrefix(e.Callee, "fmt.Fprint") || len(e.Args) < 2 {
				continue
			}
			a := e.Args[1]
			switch {
			case strings.Contains(a, "Example ") || strings.Contains(a, "Require Import") || strings.Contains(a, "(* autogenerated"):
				return "coq"
			case strings.Contains(a, "func (suite") || strings.Contains(a, `\npackage `) || strings.Contains(a, "testing.T"):
				return "go"
			}
		}
		return ""
	}
	br := map[string]*genBranch{}
	nRegex := map[string]map[string]bool{}
	for _, ip := range ips {
		if ip.Exit != "return" {
			continue
		}
		fs := ip.eventsOf(findName)
		if len(fs) != 1 {
			continue
		}
		re, ok := regexOf(p, fs[0])
		if !ok {
			r.Unknown("R18a", "generator regular expression", instrPos(fs[0].In), "the receiver of FindStringSubmatch is not a regexp compiled from one constant pattern")
			return
		}
		k := kindOf(ip)
		if k == "" {
			continue
		}
		if br[k] == nil {
			br[k] = &genBranch{name: k, regex: re, pos: instrPos(fs[0].In)}
			nRegex[k] = map[string]bool{}
		}
		nRegex[k][re] = true
		br[k].paths = append(br[k].paths, ip)
	}
	if br["coq"] == nil || br["go"] == nil || len(nRegex["coq"]) != 1 || len(nRegex["go"]) != 1 {
		r.Unknown("R18a", "generator shape", f.Pos(), fmt.Sprintf("expected two generators (one writing Coq examples, one a Go suite), each applying one regular expression; found coq=%v (%d expressions) go=%v (%d expressions)", br["coq"] != nil, len(nRegex["coq"]), br["go"] != nil, len(nRegex["go"])))
		return
	}
	r.Table("regexes", map[string]string{"coq": br["coq"].regex, "go": br["go"].regex})
	checkRegexes(r, br["coq"], br["go"])
	checkFilters(p, r, f, ips, br, preds)
	checkEmissions(p, r, f, br)
	checkGoFile(p, r, br["go"])
	if os.Getenv("VERIF_DEBUG") == "R18e" {
		dbgC18Events(br["go"])
	}
	// R18d
	var creates, others []string
	for _, g := range p.region([]*ssa.Function{f}) {
		p.instrs(g, func(b *ssa.BasicBlock, i int, in ssa.Instruction) {
			if c, ok := in.(*ssa.Call); ok {
				switch calleeName(c) {
				case "os.Create":
					creates = append(creates, p.Pos(instrPos(c)))
				case "os.OpenFile":
					fl, okc := foldInt(c.Call.Args[1])
					if !(okc && fl&0x200 != 0) { // O_TRUNC on linux
						others = append(others, "os.OpenFile without O_TRUNC at "+p.Pos(instrPos(c)))
					}
				}
			}
		})
	}
	r.Check("R18d", "output file is truncated on open", f.Pos(), len(creates) >= 1 && len(others) == 0,
		fmt.Sprintf("os.Create calls: %v; %s: regenerating into an existing longer file would keep its tail", creates, strings.Join(others, ", ")))
	// the output is still open when it is written: on no abstract path does a (non-deferred) Close of a file
	// precede a write of generated text to it (the Fprint calls discard their errors, so a closed file yields
	// an empty test file without any message)
	closedEarly, nWrites := "", 0
	for _, ip := range ips {
		closed := map[string]bool{}
		for _, e := range ip.Events {
			if e.Callee == "(*os.File).Close" && !e.Deferred && len(e.Args) > 0 {
				closed[e.Args[0]] = true
			}
			if strings.HasPrefix(e.Callee, "fmt.Fprint") && len(e.Args) > 0 {
				nWrites++
				if closed[e.Args[0]] && closedEarly == "" {
					closedEarly = "text is written to " + e.Args[0] + " after it was closed on the path " + ip.Trace
				}
			}
		}
	}
	r.Check("R18d", "output file is open while the tests are written", f.Pos(), nWrites > 0 && closedEarly == "", closedEarly)
}

func checkRegexes(r *Report, cq, gq *genBranch) {
	pos := cq.pos
	eq, diff, err := regexEquiv(cq.regex, gq.regex)
	if err != nil {
		r.Unknown("R18a", "regex languages equal", pos, "cannot analyse: "+err.Error())
		return
	}
	r.Check("R18a", "regex languages equal", pos, eq, "the two generators match different lines; distinguishing line prefix "+diff)
	rc, _ := syntax.Parse(cq.regex, syntax.Perl)
	rg, _ := syntax.Parse(gq.regex, syntax.Perl)
	sub := func(re *syntax.Regexp, i int) *nfa {
		s := captureSub(re, i)
		if s == nil {
			return nil
		}
		n, err := nfaOf(s)
		if err != nil {
			return nil
		}
		return n
	}
	// group 2: failing prefix
	c2, g2 := sub(rc, 2), sub(rg, 2)
	if c2 == nil || g2 == nil {
		r.Unknown("R18a", "failing-prefix groups equal", pos, "group 2 missing")
	} else {
		e, w, who := langEquivalent(c2, g2)
		r.Check("R18a", "failing-prefix groups equal", pos, e, fmt.Sprintf("group 2 differs on %q (%s)", w, who))
		// group 2 is literally "failing_" so that the Coq side can print it back
		lit, _ := syntax.Parse("failing_", syntax.Perl)
		ln, _ := nfaOf(lit)
		e2, _, _ := langEquivalent(c2, ln)
		r.Check("R18a", "failing-prefix group is the literal failing_", pos, e2, "group 2 must match exactly \"failing_\"")
	}
	// group 3: coq = "test" + go
	c3 := captureSub(rc, 3)
	g3 := captureSub(rg, 3)
	if c3 == nil || g3 == nil {
		r.Unknown("R18a", "name groups correspond", pos, "group 3 missing")
	} else {
		// the function name after the failing prefix is <literal between the groups><name group> on both sides
		litOf := func(re *syntax.Regexp) string {
			sh := topLevelShape(re)
			i1, i3, lit := -1, -1, ""
			for i, x := range sh {
				if x == "cap1" {
					i1 = i
				}
				if x == "cap3" {
					i3 = i
				}
			}
			if i1 >= 0 && i3 > i1 {
				for _, x := range sh[i1+1 : i3] {
					if strings.HasPrefix(x, "lit:") {
						lit += x[4:]
					}
				}
			}
			return lit
		}
		catOf := func(lit string, g *syntax.Regexp) *syntax.Regexp {
			if lit == "" {
				return g
			}
			return &syntax.Regexp{Op: syntax.OpConcat, Sub: []*syntax.Regexp{{Op: syntax.OpLiteral, Rune: []rune(lit)}, g}}
		}
		n1, e1 := nfaOf(catOf(litOf(rc), c3))
		n2, e2 := nfaOf(catOf(litOf(rg), g3))
		if e1 != nil || e2 != nil {
			r.Unknown("R18a", "name groups correspond", pos, "unsupported operator in group 3")
		} else {
			e, w, who := langEquivalent(n1, n2)
			r.Check("R18a", "name groups correspond", pos, e, fmt.Sprintf("<literal><name group> must denote the same names in both generators; differ on %q (%s)", w, who))
		}
	}
	// reconstruction shape: [.. cap1(contains cap2) , (lit:test)?, cap3 ..]
	sc, sg := topLevelShape(rc), topLevelShape(rg)
	between := func(shape []string) (string, bool) {
		i1, i3 := -1, -1
		for i, s := range shape {
			if s == "cap1" {
				i1 = i
			}
			if s == "cap3" {
				i3 = i
			}
		}
		if i1 < 0 || i3 < 0 || i3 < i1 {
			return "", false
		}
		lit := ""
		for _, s := range shape[i1+1 : i3] {
			if !strings.HasPrefix(s, "lit:") {
				return "", false
			}
			lit += s[4:]
		}
		return lit, true
	}
	bc, okc := between(sc)
	bg, okg := between(sg)
	cq.between, gq.between = bc, bg
	// the literal between the groups is put back by the formats (checked per emission: the printed names are
	// <failing group><literal><name group>)
	r.Check("R18a", "groups are adjacent up to a literal", pos, okc && okg && (bc == "" || bc == "test") && (bg == "" || bg == "test"),
		fmt.Sprintf("between the failing group and the name group: Coq has %q, Go has %q (a literal \"test\" or nothing expected): the emitted call must spell the matched function name", bc, bg))
}

// suffixFacts: the suffix tests a path has decided about a file name: per tested name key, the
// constants tested negative and positive (helpers that are suffix predicates contribute their set).
func suffixFacts(ip ipath, preds map[*ssa.Function][]string) (neg, pos map[string]map[string]bool) {
	neg, pos = map[string]map[string]bool{}, map[string]map[string]bool{}
	add := func(m map[string]map[string]bool, k, s string) {
		if m[k] == nil {
			m[k] = map[string]bool{}
		}
		m[k][s] = true
	}
	for k := range ip.Rels {
		val, call := false, ""
		switch {
		case strings.HasSuffix(k, " == true"):
			val, call = true, strings.TrimSuffix(k, " == true")
		case strings.HasSuffix(k, " == false"):
			val, call = false, strings.TrimSuffix(k, " == false")
		case strings.HasPrefix(k, "true == "):
			val, call = true, strings.TrimPrefix(k, "true == ")
		case strings.HasPrefix(k, "false == "):
			val, call = false, strings.TrimPrefix(k, "false == ")
		default:
			continue
		}
		n, a, ok := parseCallKey(call)
		if !ok {
			continue
		}
		if n == "strings.HasSuffix" && len(a) == 2 && len(a[1]) >= 2 && a[1][0] == '"' {
			if s, err := strconv.Unquote(a[1]); err == nil {
				if val {
					add(pos, a[0], s)
				} else {
					add(neg, a[0], s)
				}
			}
			continue
		}
		for g, set := range preds {
			if n == FuncName(g) && len(a) == 1 {
				for _, s := range set {
					if val {
						add(pos, a[0], s)
					} else {
						add(neg, a[0], s)
					}
				}
			}
		}
	}
	return neg, pos
}

func checkFilters(p *Prog, r *Report, f *ssa.Function, ips []ipath, br map[string]*genBranch, preds map[*ssa.Function][]string) {
	need := []string{"~", ".gold.v", "_test.go"}
	// every returning path that opens a source file has tested its name negative for the needed suffixes
	nOpen := 0
	bad := ""
	for _, ip := range ips {
		if ip.Exit != "return" {
			continue
		}
		// the sink is the place where a line of the file is matched: a file that is opened and then skipped
		// yields no test (its descriptor leaks, which is not this property's business)
		var opens []ievent
		for _, e := range ip.eventsOf(findName) {
			if len(e.Args) >= 2 && strings.Contains(e.Args[1], "os.Open(") {
				opens = append(opens, ievent{Callee: e.Callee, Args: []string{e.Args[1]}, In: e.In, Fn: e.Fn})
			}
		}
		if len(opens) == 0 && len(ip.eventsOf(findName)) > 0 {
			opens = ip.eventsOf("os.Open") // the line's key does not show where the file came from
		}
		if len(opens) == 0 {
			continue
		}
		nOpen++
		neg, pos := suffixFacts(ip, preds)
		for _, o := range opens {
			okName := false
			for k, set := range neg {
				if !strings.Contains(o.Args[0], k) {
					continue
				}
				all := true
				for _, s := range need {
					if !set[s] {
						all = false
					}
				}
				if all {
					okName = true
				}
			}
			if !okName {
				bad = fmt.Sprintf("lines of the file %s are matched without the file name having been tested negative for all of %v on the path %s", o.Args[0][:min(len(o.Args[0]), 160)], need, ip.Trace)
			}
			for k := range pos {
				if strings.Contains(o.Args[0], k) {
					bad = fmt.Sprintf("lines of a file whose name has a skipped suffix are matched (%s) on the path %s", o.Args[0][:min(len(o.Args[0]), 160)], ip.Trace)
				}
			}
		}
	}
	if nOpen == 0 {
		r.Unknown("R18b", "generator file filter", f.Pos(), "no returning path opens a source file")
		return
	}
	r.Check("R18b", "source files are scanned only after the backup, gold and test suffixes were excluded", f.Pos(), bad == "", bad)
	sets := map[string][]string{}
	for _, n := range []string{"coq", "go"} {
		all := map[string]bool{}
		for _, ip := range br[n].paths {
			neg, pos := suffixFacts(ip, preds)
			for _, m := range []map[string]map[string]bool{neg, pos} {
				for _, set := range m {
					for s := range set {
						all[s] = true
					}
				}
			}
		}
		sets[n] = sortedKeys(all)
		miss := []string{}
		for _, s := range need {
			if !all[s] {
				miss = append(miss, s)
			}
		}
		r.Check("R18b", n+" generator filter covers backup, gold and test files", br[n].pos, len(miss) == 0,
			fmt.Sprintf("suffixes not skipped: %v (backup copies duplicate tests; the generated _test.go and the gold file are not sources)", miss))
	}
	r.Table("file filters", sets)
	same := strings.Join(sets["coq"], "|") == strings.Join(sets["go"], "|")
	r.Check("R18b", "filters agree", br["go"].pos, same, fmt.Sprintf("Coq generator skips suffixes %v, Go generator skips %v: a file scanned by only one of them yields tests the other lacks", sets["coq"], sets["go"]))
}

func hasAny(rs relSet, keys ...string) bool {
	for _, k := range keys {
		if rs[k] {
			return true
		}
	}
	return false
}

func checkEmissions(p *Prog, r *Report, f *ssa.Function, br map[string]*genBranch) {
	for _, n := range []string{"coq", "go"} {
		g := br[n]
		nMatch, nEmit := 0, 0
		scanBad, nScan := "", 0
		unguarded, formBad, argBad, goBad := "", "", "", ""
		nameDrops := ""
		for _, ip := range g.paths {
			mk := ip.eventsOf(findName)[0].Key
			m := func(i int) string { return mk + "[" + itoa(i) + "]" }
			var emit []ievent
			for _, e := range ip.eventsOf("fmt.Fprintf") {
				if len(e.Args) >= 3 && strings.Contains(e.Args[2], mk) {
					emit = append(emit, e)
				}
			}
			lm := "len(" + mk + ")"
			matched := hasAny(ip.Rels, "0 != "+lm, "0 < "+lm, eqRelNe("nil", mk), lm+" != 0")
			noMatch := hasAny(ip.Rels, eqRel("0", lm), eqRel("nil", mk), lm+" <= 0")
			// the examined line is one the scanner delivered: Scan() returned true for it, and the file's loop
			// is left only when Scan() returned false (otherwise lines, hence test functions, are skipped)
			scanT, scanF := false, false
			for k := range ip.Rels {
				if strings.Contains(k, "bufio.Scanner.Scan(") {
					if strings.HasSuffix(k, " == true") || strings.HasPrefix(k, "true == ") {
						scanT = true
					}
					if strings.HasSuffix(k, " == false") || strings.HasPrefix(k, "false == ") {
						scanF = true
					}
				}
			}
			// … and it is the must-fact where the line is taken from the scanner (an iteration entered on
			// Scan() == false examines a stale or empty line)
			nText := 0
			for _, te := range ip.eventsOf("(*bufio.Scanner).Text") {
				if te.In == nil || te.In.Parent() == nil {
					continue
				}
				nText++
				at := false
				for k := range p.RelsAt(p.Rels(te.In.Parent()), te.In) {
					if strings.Contains(k, "bufio.Scanner.Scan(") && (strings.HasSuffix(k, " == true") || strings.HasPrefix(k, "true == ")) {
						at = true
					}
				}
				scanT = scanT && at
			}
			scanT = scanT && nText > 0
			nScan++
			if !scanT {
				scanBad = "a line is examined without the fact that Scan() returned true for it on the path " + ip.Trace
			} else if !scanF {
				scanBad = "the scanning loop is left on the path " + ip.Trace + " without the fact that Scan() returned false: remaining lines are not examined"
			}
			if len(emit) > 0 {
				nEmit++
				if !matched {
					unguarded = "a test-emitting Fprintf is reached without the fact len(m) != 0 on the path " + ip.Trace
				}
			}
			if matched {
				nMatch++
			}
			if !matched && !noMatch {
				unguarded = "the path neither establishes nor excludes a match before continuing: " + ip.Trace
			}
			fm := func(e ievent) string {
				s, err := strconv.Unquote(e.Args[1])
				if err != nil {
					return e.Args[1]
				}
				return s
			}
			if n == "coq" {
				if !matched {
					continue
				}
				if len(emit) != 1 {
					formBad = fmt.Sprintf("%d emissions for one matched line on the path %s", len(emit), ip.Trace)
					continue
				}
				gk := "len(" + m(2) + ")"
				failing := hasAny(ip.Rels, "0 != "+gk, "0 < "+gk, eqRelNe(`""`, m(2)))
				plain := hasAny(ip.Rels, eqRel("0", gk), gk+" <= 0", eqRel(`""`, m(2)))
				// the emitted sentence with the groups put back symbolically: ⟨2⟩ failing group, ⟨3⟩ name group
				txt := substGroups(fm(emit[0]), emit[0].Args[2], m(2), m(3))
				name := g.between + "\x03"
				wantFail := "Fail Example " + name + "_ok : \x02" + name + " #() ~~> #true := t.\n"
				wantPlain := "Example " + name + "_ok : " + name + " #() ~~> #true := t.\n"
				switch {
				case strings.HasPrefix(txt, "Fail Example "):
					if !failing {
						formBad = "the Fail form is emitted without the fact that the failing group is non-empty: " + ip.Trace
					}
					if txt != wantFail {
						argBad = fmt.Sprintf("Fail form prints %s, expected %s", showGroups(txt), showGroups(wantFail))
					}
				case strings.HasPrefix(txt, "Example "):
					if !plain {
						formBad = "the plain form is emitted without the fact that the failing group is empty: " + ip.Trace
					}
					// under an empty failing group ⟨2⟩ prints nothing
					if strings.ReplaceAll(txt, "\x02", "") != wantPlain {
						argBad = fmt.Sprintf("plain form prints %s, expected %s", showGroups(txt), showGroups(wantPlain))
					}
				default:
					formBad = fmt.Sprintf("unexpected emission %q", showGroups(txt))
				}
			} else {
				if !matched {
					continue
				}
				// the whole per-match sequence: every Fprintf between the match and the end of the iteration
				depth := 0
				okCallee, okName := false, false
				after := false
				for _, e := range ip.Events {
					if e.Callee == findName {
						after = true
						continue
					}
					if !after || e.Callee != "fmt.Fprintf" || len(e.Args) < 2 {
						continue
					}
					fs := fm(e)
					depth += strings.Count(fs, "{") - strings.Count(fs, "}")
					if len(e.Args) >= 3 {
						txt := substGroups(fs, e.Args[2], m(2), m(3))
						// the call of the matched function: <failing group><literal><name group>()
						if strings.Contains(txt, "\x02"+g.between+"\x03()") {
							okCallee = true
						}
						// one suite method per match, named after the name group
						if strings.HasPrefix(txt, "func (suite *GoTestSuite) Test") && strings.Contains(txt, "\x03") && strings.Contains(txt, "() {") {
							okName = true
							if !strings.Contains(txt, "\x02") {
								nameDrops = showGroups(txt)
							}
						}
					}
				}
				if depth != 0 {
					goBad = fmt.Sprintf("net brace depth %d over the formats emitted for one match on the path %s", depth, ip.Trace)
				}
				if !okCallee || !okName {
					goBad = "a matched line does not produce `func (suite *GoTestSuite) Test<name>()` with a call of <failing group>test<name>() on the path " + ip.Trace
				}
			}
		}
		if nMatch == 0 || nEmit == 0 {
			r.Unknown("R18c", n+" generator emissions", g.pos, fmt.Sprintf("%d paths with a match, %d with an emission", nMatch, nEmit))
			continue
		}
		r.Check("R18c", n+" generator emits only on a match", g.pos, unguarded == "", unguarded)
		r.Check("R18c", n+" generator examines every line the scanner delivers", g.pos, nScan > 0 && scanBad == "", scanBad)
		if n == "coq" {
			r.Check("R18c", "coq generator emits exactly one form per match", g.pos, formBad == "" || !strings.Contains(formBad, "emissions for one"), formBad)
			r.Check("R18c", "coq Fail form exactly when the failing group is non-empty", g.pos, formBad == "" || strings.Contains(formBad, "emissions for one"), formBad)
			r.Check("R18c", "coq emission names the matched function", g.pos, argBad == "", argBad+"; the callee must be <failing group><name group>")
		} else {
			r.Check("R18c", "go generator emits one complete test per match", g.pos, goBad == "", goBad)
			r.Check("R18f", "distinct test functions yield distinct suite methods", g.pos, nameDrops == "",
				"the suite method is named "+nameDrops+" — after the name group only — while the function it calls is ⟨failing⟩test⟨name⟩: a package that declares both testX and failing_testX gets two methods TestX on GoTestSuite, and the generated Go file does not compile")
		}
	}
}

// eqRelNe: the canonical "a != b" relation.
func eqRelNe(a, b string) string {
	if b < a {
		a, b = b, a
	}
	return a + " != " + b
}

type goText struct {
	text  string
	trace string
}

// goFileTexts assembles, in path order, the constant text the Go generator writes on a path with one matched
// line (key true) and on a path without a match (key false). sub, if not nil, gives the text standing for the
// regular expression's groups 2 and 3; every other %s becomes a sample identifier.
func goFileTexts(g *genBranch, sub map[int]string) (map[bool]*goText, string) {
	type variant = goText
	texts := map[bool]*variant{}
	undec := ""
	for _, ip := range g.paths {
		mk := ip.eventsOf(findName)[0].Key
		lm := "len(" + mk + ")"
		matched := hasAny(ip.Rels, "0 != "+lm, "0 < "+lm, eqRelNe("nil", mk), lm+" != 0")
		if texts[matched] != nil {
			continue
		}
		var sb strings.Builder
		ok := true
		for _, e := range ip.Events {
			switch e.Callee {
			case "fmt.Fprintf":
				if len(e.Args) < 2 {
					ok = false
					continue
				}
				f, err := strconv.Unquote(e.Args[1])
				if err != nil {
					ok, undec = false, "a format that is not a constant: "+e.Args[1]
					continue
				}
				if sub != nil && len(e.Args) >= 3 {
					// the i-th %s receives the i-th printed operand: m[2] (failing group) or m[3] (name group)
					ops := splitTop(strings.TrimSuffix(strings.TrimPrefix(e.Args[2], "["), "]"))
					var vals []string
					for _, o := range ops {
						v := "Abc1"
						switch {
						case strings.HasSuffix(o, "[2]"):
							v = sub[2]
						case strings.HasSuffix(o, "[3]"):
							v = sub[3]
						}
						vals = append(vals, v)
					}
					f = fillVerbs(f, func(k int) string {
						if k >= 0 && k < len(vals) {
							return vals[k]
						}
						return "Abc1"
					})
				}
				f = fillVerbs(f, func(int) string { return "Abc1" })
				f = strings.ReplaceAll(f, "%%", "\x00")
				if strings.Contains(f, "%") {
					ok, undec = false, "a format verb other than %s in "+e.Args[1]
				}
				sb.WriteString(strings.ReplaceAll(f, "\x00", "%"))
			case "fmt.Fprint", "fmt.Fprintln":
				if len(e.Args) < 2 {
					ok = false
					continue
				}
				a := e.Args[1]
				if !strings.HasPrefix(a, "[") || !strings.HasSuffix(a, "]") {
					ok, undec = false, "printed operands are not constants: "+a
					continue
				}
				c, err := strconv.Unquote(a[1 : len(a)-1])
				if err != nil {
					ok, undec = false, "printed operands are not one constant string: "+a[:min(len(a), 60)]
					continue
				}
				sb.WriteString(c)
				if e.Callee == "fmt.Fprintln" {
					sb.WriteString("\n")
				}
			}
		}
		if ok {
			texts[matched] = &variant{sb.String(), ip.Trace}
		}
	}
	return texts, undec
}

// checkGoFile decides the structural part of "the generated Go file compiles against the package" (R18e): the
// constant text the Go generator writes on a path — header, the per-match formats with a sample identifier in
// place of every %s, footer — is assembled in path order for a run with one matched line and for a run with
// none, and each text must be a syntactically valid Go file (go/parser) whose package qualifiers are imported
// by that same text and whose imports are all used (an unused import is a compile error in Go).
func checkGoFile(p *Prog, r *Report, g *genBranch) {
	texts, undec := goFileTexts(g, nil)
	if texts[true] == nil || texts[false] == nil {
		r.Unknown("R18e", "go generator output text", g.pos, "the constant text of a run with one match and of a run without a match could not be assembled: "+undec)
		return
	}
	for _, m := range []bool{true, false} {
		what := map[bool]string{true: "one test function", false: "no test function"}[m]
		v := texts[m]
		fset := token.NewFileSet()
		file, err := parser.ParseFile(fset, "generated_test.go", v.text, parser.AllErrors)
		if err != nil {
			r.Check("R18e", "generated Go file for a package with "+what+" is syntactically valid", g.pos, false, fmt.Sprintf("the assembled text does not parse as Go: %v", err))
			continue
		}
		r.Check("R18e", "generated Go file for a package with "+what+" is syntactically valid", g.pos, true, "")
		imports := map[string]string{}
		for _, im := range file.Imports {
			pth, _ := strconv.Unquote(im.Path.Value)
			name := pth[strings.LastIndex(pth, "/")+1:]
			if im.Name != nil {
				name = im.Name.Name
			}
			imports[name] = pth
		}
		used := map[string]bool{}
		missing := ""
		ast.Inspect(file, func(n ast.Node) bool {
			if se, ok := n.(*ast.SelectorExpr); ok {
				if id, ok := se.X.(*ast.Ident); ok && id.Obj == nil {
					if _, isImp := imports[id.Name]; isImp {
						used[id.Name] = true
					} else if missing == "" {
						missing = id.Name + "." + se.Sel.Name
					}
				}
			}
			return true
		})
		r.Check("R18e", "generated Go file for a package with "+what+" imports every package it names", g.pos, missing == "", "the text uses "+missing+" but imports no such package")
		var unused []string
		for n, pth := range imports {
			if !used[n] && n != "_" && n != "." {
				unused = append(unused, pth)
			}
		}
		sort.Strings(unused)
		for _, u := range unused {
			r.Fail("R18e", "generated Go file for a package with "+what+" uses its import "+u, g.pos,
				"the header imports "+u+" but the text generated for a package with "+what+" never uses it: `imported and not used` is a compile error", v.trace)
		}
		if len(unused) == 0 {
			r.Check("R18e", "generated Go file for a package with "+what+" uses every import", g.pos, true, "")
		}
		// identifiers the text leaves undeclared: only predeclared names, imported packages and the test
		// function it calls (which the semantics package declares) may stay open
		var open []string
		for _, id := range file.Unresolved {
			if _, isImp := imports[id.Name]; isImp || types.Universe.Lookup(id.Name) != nil ||
				strings.HasPrefix(id.Name, "test") || strings.HasPrefix(id.Name, "failing_test") || strings.HasSuffix(id.Name, "testAbc1") {
				continue
			}
			open = append(open, id.Name)
		}
		r.Check("R18e", "generated Go file for a package with "+what+" declares what it uses", g.pos, len(open) == 0, fmt.Sprintf("identifiers %v are used but neither declared in the generated text, imported, nor a test function of the package", open))
	}
	checkGoFileTypes(p, r, g)
}

// checkGoFileTypes type-checks the generated text against the repository's semantics package: the package whose
// name is the generated file's package clause and which declares a function the Go generator's expression
// matches. The text for that one function (and the text for no function) replaces <dir>/generated_test.go through
// a go/packages overlay and the package's test variant is type-checked (go/types; nothing is executed). This
// decides "compiles against the package" for a sample test function; the templates treat every name alike.
func checkGoFileTypes(p *Prog, r *Report, g *genBranch) {
	re, err := regexp.Compile(g.regex)
	if err != nil {
		return
	}
	t0, _ := goFileTexts(g, nil)
	if t0[false] == nil {
		return
	}
	pf, err := parser.ParseFile(token.NewFileSet(), "g.go", t0[false].text, parser.PackageClauseOnly)
	if err != nil {
		return // reported by the syntactic obligation
	}
	var pkg *packages.Package
	var sub map[int]string
	sample := ""
	for _, pk := range p.Pkgs {
		if pk.Name != pf.Name.Name {
			continue
		}
		var names []string
		for _, f := range pk.Syntax {
			for _, d := range f.Decls {
				if fd, ok := d.(*ast.FuncDecl); ok && fd.Recv == nil {
					names = append(names, fd.Name.Name)
				}
			}
		}
		sort.Strings(names)
		for _, n := range names {
			if m := re.FindStringSubmatch("func " + n + "() bool {"); len(m) >= 4 && pkg == nil {
				pkg, sub, sample = pk, map[int]string{2: m[2], 3: m[3]}, n
			}
		}
	}
	if pkg == nil || len(pkg.GoFiles) == 0 {
		r.Note("R18e: no package named %s with a function matched by the Go generator's expression is part of the repository; the type-check of the generated text is skipped", pf.Name.Name)
		return
	}
	texts, _ := goFileTexts(g, sub)
	dir := filepath.Dir(pkg.GoFiles[0])
	for _, m := range []bool{true, false} {
		what := map[bool]string{true: "the test function " + sample, false: "no test function"}[m]
		if texts[m] == nil {
			continue
		}
		env := append(os.Environ(), "GOWORK=off", "GOFLAGS=-mod=mod", "GOPROXY=off", "GOSUMDB=off", "GOTOOLCHAIN=local", "CGO_ENABLED=0")
		cfg := &packages.Config{
			Mode:    packages.LoadSyntax,
			Dir:     p.Dir,
			Env:     env,
			Tests:   true,
			Overlay: map[string][]byte{filepath.Join(dir, "generated_test.go"): []byte(texts[m].text)},
		}
		pkgs, err := packages.Load(cfg, pkg.PkgPath)
		if err != nil {
			r.Unknown("R18e", "generated Go file for "+what+" type-checks against package "+pkg.Name, g.pos, fmt.Sprintf("cannot load %s with the generated text as overlay: %v", pkg.PkgPath, err))
			continue
		}
		var errs []string
		seen := false
		for _, pk := range pkgs {
			for _, f := range pk.GoFiles {
				if filepath.Base(f) == "generated_test.go" {
					seen = true
				}
			}
			for _, e := range pk.Errors {
				errs = append(errs, e.Error())
			}
		}
		sort.Strings(errs)
		if len(errs) > 3 {
			errs = errs[:3]
		}
		r.Check("R18e", "generated Go file for "+what+" type-checks against package "+pkg.Name, g.pos, seen && len(errs) == 0,
			fmt.Sprintf("the text the generator writes for %s does not compile in %s (overlay seen=%v): %s", what, pkg.PkgPath, seen, strings.Join(errs, "; ")))
	}
}

func dbgC18Events(g *genBranch) {
	for _, ip := range g.paths {
		for _, e := range ip.Events {
			if strings.HasPrefix(e.Callee, "fmt.Fp") {
				fmt.Printf("EV %s %q\n", e.Callee, e.Args)
			}
		}
		break
	}
}

// splitTop splits a rendered operand list at its top-level commas (brackets and quoted strings are skipped).
func splitTop(s string) []string {
	var out []string
	d, start, inq := 0, 0, false
	for i := 0; i < len(s); i++ {
		c := s[i]
		if inq {
			if c == '\\' {
				i++
			} else if c == '"' {
				inq = false
			}
			continue
		}
		switch c {
		case '"':
			inq = true
		case '(', '[', '{':
			d++
		case ')', ']', '}':
			d--
		case ',':
			if d == 0 {
				out = append(out, s[start:i])
				start = i + 1
			}
		}
	}
	if start < len(s) {
		out = append(out, s[start:])
	}
	return out
}

// substGroups fills the %s verbs of a format with symbols for the operands: \x02 for the failing group, \x03 for
// the name group, \x00 for anything else.
func substGroups(format, ops, g2, g3 string) string {
	list := splitTop(strings.TrimSuffix(strings.TrimPrefix(ops, "["), "]"))
	val := func(k int) string {
		if k < 0 || k >= len(list) {
			return "\x00"
		}
		switch list[k] {
		case g2:
			return "\x02"
		case g3:
			return "\x03"
		}
		return "\x00"
	}
	return fillVerbs(format, val)
}

// fillVerbs substitutes the string verbs of a format: %s takes the next operand, %[k]s takes operand k (1-based)
// and moves the cursor behind it; %% and every other verb are left as they are.
func fillVerbs(format string, val func(k int) string) string {
	var out strings.Builder
	next := 0
	for i := 0; i < len(format); i++ {
		if format[i] != '%' || i+1 >= len(format) {
			out.WriteByte(format[i])
			continue
		}
		if format[i+1] == '%' {
			out.WriteString("%%")
			i++
			continue
		}
		if format[i+1] == 's' {
			out.WriteString(val(next))
			next++
			i++
			continue
		}
		if format[i+1] == '[' {
			if e := strings.IndexByte(format[i:], ']'); e > 0 && i+e+1 < len(format) && format[i+e+1] == 's' {
				if k, err := strconv.Atoi(format[i+2 : i+e]); err == nil {
					out.WriteString(val(k - 1))
					next = k
					i += e + 1
					continue
				}
			}
		}
		out.WriteByte(format[i])
	}
	return out.String()
}

func showGroups(s string) string {
	s = strings.ReplaceAll(s, "\x02", "⟨failing⟩")
	s = strings.ReplaceAll(s, "\x03", "⟨name⟩")
	return strconv.Quote(strings.ReplaceAll(s, "\x00", "⟨?⟩"))
}
