package main

import (
	"fmt"
	"sort"
	"strconv"
	"strings"

	"golang.org/x/tools/go/ssa"
)

// printerSignature: the set of path signatures of a printer function with the text buffer's methods kept opaque.
// A path signature is the sequence of buffer operations with their constant operands (full=false) or with all
// operand keys (full=true).
func printerSignature(p *Prog, f *ssa.Function, full bool) (map[string]bool, bool) {
	keep := map[*ssa.Function]bool{}
	for _, g := range p.FuncsIn(coqPkg) {
		if rc := g.Signature.Recv(); rc != nil && strings.HasSuffix(rc.Type().String(), ".buffer") {
			keep[g] = true
		}
	}
	ips, ok := p.ipathsKeeping(f, keep)
	if !ok {
		return nil, false
	}
	out := map[string]bool{}
	for _, ip := range ips {
		if ip.Exit != "return" {
			continue
		}
		var parts []string
		for _, e := range ip.Events {
			if e.Fn == nil || !strings.Contains(e.Callee, ".buffer).") {
				continue
			}
			name := e.Callee[strings.LastIndex(e.Callee, ".")+1:]
			var ops []string
			for i, a := range e.Args {
				if i == 0 {
					continue // the buffer
				}
				if full {
					ops = append(ops, a)
					continue
				}
				if _, err := strconv.Unquote(a); err == nil {
					ops = append(ops, a)
				} else if _, err := strconv.Atoi(a); err == nil {
					ops = append(ops, a)
				} else {
					ops = append(ops, "_")
				}
			}
			parts = append(parts, name+"("+strings.Join(ops, ",")+")")
		}
		out[strings.Join(parts, " ")] = true
	}
	return out, true
}

// c05Siblings (R05h): printers that emit the same GooseLang form must agree. A struct declaration and an
// interface declaration are both `struct.decl` descriptors; the interface-conversion declaration is printed by
// two methods. Only one member of each group is pinned by the test suite's gold files, so a deviation of a
// sibling is a malformed or differently named definition nobody compares.
func c05Siblings(p *Prog, r *Report) {
	r.Rule("R05h", "sibling printers agree: printers of the same GooseLang form produce the same sequences of text-buffer operations with the same constant templates on their paths — StructDecl.CoqDecl, InterfaceDecl.CoqDecl and InterfaceDecl.Coq (struct.decl descriptors; constants compared), StructToInterface.Coq and StructToInterface.CoqDecl (all operands compared); the name printed by StructToInterface.Name is the name its declaration defines", 2)
	groups := []struct {
		full  bool
		names []string
	}{
		{false, []string{"StructDecl.CoqDecl", "InterfaceDecl.CoqDecl", "InterfaceDecl.Coq"}},
		{true, []string{"StructToInterface.CoqDecl", "StructToInterface.Coq"}},
	}
	for _, g := range groups {
		var fs []*ssa.Function
		for _, n := range g.names {
			if f := p.Func(coqPkg, n); f != nil {
				fs = append(fs, f)
			}
		}
		if len(fs) < 2 {
			r.Note("R05h: fewer than two of %v exist: nothing to cross-check", g.names)
			continue
		}
		ref, ok := printerSignature(p, fs[0], g.full)
		if !ok {
			r.Unknown("R05h", "paths of "+FuncName(fs[0]), fs[0].Pos(), "the abstract paths could not be enumerated")
			continue
		}
		r.Func(FuncName(fs[0]))
		for _, f := range fs[1:] {
			r.Func(FuncName(f))
			sig, ok := printerSignature(p, f, g.full)
			if !ok {
				r.Unknown("R05h", "paths of "+FuncName(f), f.Pos(), "the abstract paths could not be enumerated")
				continue
			}
			var diff []string
			for s := range sig {
				if !ref[s] {
					diff = append(diff, "only "+FuncName(f)+": "+s)
				}
			}
			for s := range ref {
				if !sig[s] {
					diff = append(diff, "only "+FuncName(fs[0])+": "+s)
				}
			}
			sort.Strings(diff)
			d := ""
			if len(diff) > 0 {
				d = diff[0]
				if len(d) > 600 {
					d = d[:600] + "…"
				}
			}
			r.Check("R05h", FuncName(f)+" prints the same form as "+FuncName(fs[0]), f.Pos(), len(diff) == 0 && len(sig) > 0,
				fmt.Sprintf("%d path signatures differ; first: %s", len(diff), d))
		}
	}
	// the conversion's name
	nameF := p.Func(coqPkg, "StructToInterface.Name")
	declF := p.Func(coqPkg, "StructToInterface.CoqDecl")
	if nameF != nil && declF != nil {
		ns, ok1 := printerSignature(p, nameF, true)
		ds, ok2 := printerSignature(p, declF, true)
		if ok1 && ok2 && len(ns) == 1 {
			// Name: Add("<fmt>", [a,b]); the declaration's first operation: Add("Definition <fmt>…", [a,b])
			var nsig string
			for s := range ns {
				nsig = s
			}
			if i := strings.Index(nsig, ") "); i >= 0 {
				nsig = nsig[:i+1]
			}
			nf, nargs := splitAdd(nsig)
			okAll, n := true, 0
			why := ""
			for s := range ds {
				first := s
				if i := strings.Index(s, ") "); i >= 0 {
					first = s[:i+1]
				}
				df, dargs := splitAdd(first)
				if df == "" {
					continue // a path that prints nothing
				}
				n++
				// (df == nf: the declaration calls Name itself and the call was spliced in)
				if !(strings.HasPrefix(df, "Definition "+nf) || df == nf) || dargs != nargs {
					okAll = false
					why = fmt.Sprintf("the declaration starts with %q %s, the name is %q %s", df, dargs, nf, nargs)
				}
			}
			r.Check("R05h", "StructToInterface.Name is the name the declaration defines", declF.Pos(), okAll && n > 0 && nf != "", why)
		}
	}
}

// splitAdd takes `Add("fmt",[args])` apart.
func splitAdd(s string) (string, string) {
	if !strings.HasPrefix(s, "Add(") {
		return "", ""
	}
	in := strings.TrimSuffix(strings.TrimPrefix(s, "Add("), ")")
	parts := splitTop(in)
	if len(parts) == 0 {
		return "", ""
	}
	f, err := strconv.Unquote(parts[0])
	if err != nil {
		return "", ""
	}
	return f, strings.Join(parts[1:], ",")
}
