package main

import (
	"fmt"
	"go/types"
	"sort"
	"strconv"
	"strings"

	"golang.org/x/tools/go/ssa"
)

// printerSignature: the set of path signatures of a printer function with the text buffer's methods kept opaque.
// A path signature is the sequence of buffer operations with their constant operands (full=false) or with all
// operand keys (full=true).
func printerSignature(p *Prog, f *ssa.Function, full bool) (map[string]bool, bool) {
	keep := map[*ssa.Function]bool{}
	for _, g := range p.FuncsIn(coqPkg) {
		if rc := g.Signature.Recv(); rc != nil && strings.HasSuffix(rc.Type().String(), ".buffer") {
			keep[g] = true
		}
	}
	ips, ok := p.ipathsKeeping(f, keep)
	if !ok {
		return nil, false
	}
	out := map[string]bool{}
	for _, ip := range ips {
		if ip.Exit != "return" {
			continue
		}
		var parts []string
		for _, e := range ip.Events {
			if e.Fn == nil || !strings.Contains(e.Callee, ".buffer).") {
				continue
			}
			name := e.Callee[strings.LastIndex(e.Callee, ".")+1:]
			if name == "Indent" {
				continue // layout only
			}
			var ops []string
			for i, a := range e.Args {
				if i == 0 {
					continue // the buffer
				}
				if full {
					ops = append(ops, a)
					continue
				}
				if _, err := strconv.Unquote(a); err == nil {
					ops = append(ops, a)
				} else if _, err := strconv.Atoi(a); err == nil {
					ops = append(ops, a)
				} else {
					ops = append(ops, "_")
				}
			}
			parts = append(parts, name+"("+strings.Join(ops, ",")+")")
		}
		out[strings.Join(parts, " ")] = true
	}
	return out, true
}

// c05Siblings (R05h): printers that emit the same GooseLang form must agree. A struct declaration and an
// interface declaration are both `struct.decl` descriptors; the interface-conversion declaration is printed by
// two methods. Only one member of each group is pinned by the test suite's gold files, so a deviation of a
// sibling is a malformed or differently named definition nobody compares.
func c05Siblings(p *Prog, r *Report) {
	r.Rule("R05h", "sibling printers agree: printers of the same GooseLang form produce the same sequences of text-buffer operations with the same constant templates on their paths — StructDecl.CoqDecl, InterfaceDecl.CoqDecl and InterfaceDecl.Coq (struct.decl descriptors; constants compared), StructToInterface.Coq and StructToInterface.CoqDecl (all operands compared); the name printed by StructToInterface.Name is the name its declaration defines", 2)
	groups := []struct {
		full  bool
		names []string
	}{
		{false, []string{"StructDecl.CoqDecl", "InterfaceDecl.CoqDecl", "InterfaceDecl.Coq"}},
		{true, []string{"StructToInterface.CoqDecl", "StructToInterface.Coq"}},
	}
	for _, g := range groups {
		var fs []*ssa.Function
		for _, n := range g.names {
			if f := p.Func(coqPkg, n); f != nil {
				fs = append(fs, f)
			}
		}
		if len(fs) < 2 {
			r.Note("R05h: fewer than two of %v exist: nothing to cross-check", g.names)
			continue
		}
		ref, ok := printerSignature(p, fs[0], g.full)
		if !ok {
			r.Unknown("R05h", "paths of "+FuncName(fs[0]), fs[0].Pos(), "the abstract paths could not be enumerated")
			continue
		}
		r.Func(FuncName(fs[0]))
		for _, f := range fs[1:] {
			r.Func(FuncName(f))
			sig, ok := printerSignature(p, f, g.full)
			if !ok {
				r.Unknown("R05h", "paths of "+FuncName(f), f.Pos(), "the abstract paths could not be enumerated")
				continue
			}
			var diff []string
			for s := range sig {
				if !ref[s] {
					diff = append(diff, "only "+FuncName(f)+": "+s)
				}
			}
			for s := range ref {
				if !sig[s] {
					diff = append(diff, "only "+FuncName(fs[0])+": "+s)
				}
			}
			sort.Strings(diff)
			d := ""
			if len(diff) > 0 {
				d = diff[0]
				if len(d) > 600 {
					d = d[:600] + "…"
				}
			}
			r.Check("R05h", FuncName(f)+" prints the same form as "+FuncName(fs[0]), f.Pos(), len(diff) == 0 && len(sig) > 0,
				fmt.Sprintf("%d path signatures differ; first: %s", len(diff), d))
		}
	}
	// the conversion's name
	nameF := p.Func(coqPkg, "StructToInterface.Name")
	declF := p.Func(coqPkg, "StructToInterface.CoqDecl")
	if nameF != nil && declF != nil {
		nf, nargs, okN := firstTemplate(p, nameF)
		df, dargs, okD := firstTemplate(p, declF)
		if okN && okD {
			// (df == nf: the declaration calls Name itself and the call was spliced in)
			ok := (strings.HasPrefix(df, "Definition "+nf) || df == nf) && dargs == nargs && nf != ""
			r.Check("R05h", "StructToInterface.Name is the name the declaration defines", declF.Pos(), ok,
				fmt.Sprintf("the declaration starts with %q %s, the name is %q %s", df, dargs, nf, nargs))
		} else {
			r.Note("R05h: the templates of StructToInterface.Name / CoqDecl are not single constant formats; the name agreement is not compared")
		}
	}
}

// firstTemplate: the constant format and the operands of the first formatted text a printer produces (a buffer Add
// or an fmt.Sprintf), the same on all its returning paths that produce any.
func firstTemplate(p *Prog, f *ssa.Function) (string, string, bool) {
	keep := map[*ssa.Function]bool{}
	for _, g := range p.FuncsIn(coqPkg) {
		if rc := g.Signature.Recv(); rc != nil && strings.HasSuffix(rc.Type().String(), ".buffer") {
			keep[g] = true
		}
	}
	ips, ok := p.ipathsKeeping(f, keep)
	if !ok {
		return "", "", false
	}
	format, args, found := "", "", false
	for _, ip := range ips {
		if ip.Exit != "return" {
			continue
		}
		for _, e := range ip.Events {
			var a []string
			switch {
			case strings.Contains(e.Callee, ".buffer).Add") && !strings.HasSuffix(e.Callee, "AddLine") && !strings.HasSuffix(e.Callee, "AddComment") && len(e.Args) >= 3:
				a = e.Args[1:]
			case e.Callee == "fmt.Sprintf" && len(e.Args) >= 2:
				a = e.Args
			default:
				continue
			}
			fm, err := strconv.Unquote(a[0])
			if err != nil {
				return "", "", false
			}
			rest := strings.Join(a[1:], ",")
			if found && (fm != format || rest != args) {
				return "", "", false
			}
			format, args, found = fm, rest, true
			break
		}
	}
	return format, args, found
}

// splitAdd takes `Add("fmt",[args])` apart.
func splitAdd(s string) (string, string) {
	if !strings.HasPrefix(s, "Add(") {
		return "", ""
	}
	in := strings.TrimSuffix(strings.TrimPrefix(s, "Add("), ")")
	parts := splitTop(in)
	if len(parts) == 0 {
		return "", ""
	}
	f, err := strconv.Unquote(parts[0])
	if err != nil {
		return "", ""
	}
	return f, strings.Join(parts[1:], ",")
}

var vernacularKW = []string{"Definition ", "Theorem ", "Proof.", "Hint ", "Notation ", "From ", "Section ", "End ", "Context ", "Local ", "Fixpoint ", "Lemma "}

func startsVernacular(s string) string {
	for _, k := range vernacularKW {
		if strings.HasPrefix(s, k) {
			return strings.TrimSpace(strings.TrimSuffix(k, "."))
		}
	}
	return ""
}

// c05Sentences (R05i): the declaration printers emit whole vernacular sentences.
func c05Sentences(p *Prog, r *Report) {
	r.Rule("R05i", "vernacular sentences: in every CoqDecl method, a constant template that begins with a vernacular keyword ends with the sentence terminator `.` or with an opener of the term that follows (`:=`, `[`); the last text written on every returning path ends with `.`; a `Theorem` template is directly followed by a `Proof.` template and a `Proof.` template is directly preceded by a `Theorem` template (the typing lemmas added by -typecheck are complete sentences after the definition)", 5)
	keep := map[*ssa.Function]bool{}
	for _, g := range p.FuncsIn(coqPkg) {
		if rc := g.Signature.Recv(); rc != nil && strings.HasSuffix(rc.Type().String(), ".buffer") {
			keep[g] = true
		}
	}
	for _, f := range p.FuncsIn(coqPkg) {
		if f.Name() != "CoqDecl" || f.Signature.Recv() == nil || len(f.Blocks) == 0 {
			continue
		}
		ips, ok := p.ipathsKeeping(f, keep)
		if !ok {
			r.Unknown("R05i", FuncName(f), f.Pos(), "the abstract paths could not be enumerated")
			continue
		}
		r.Func(FuncName(f))
		bad := ""
		nTemplates := 0
		for _, ip := range ips {
			if ip.Exit != "return" {
				continue
			}
			type piece struct {
				text  string // constant template, or "" when the text is not a constant
				tail  string // constant suffix of a concatenation
				known bool
			}
			var pieces []piece
			for _, e := range ip.Events {
				if !strings.Contains(e.Callee, ".buffer).") || len(e.Args) < 2 {
					continue
				}
				name := e.Callee[strings.LastIndex(e.Callee, ".")+1:]
				if name != "Add" && name != "AddLine" {
					continue
				}
				a := e.Args[1]
				if t, err := strconv.Unquote(a); err == nil {
					pieces = append(pieces, piece{text: t, tail: t, known: true})
					continue
				}
				// (x + "."): constant suffix
				pc := piece{}
				if strings.HasSuffix(a, ")") {
					if i := strings.LastIndex(a, " + "); i >= 0 {
						if t, err := strconv.Unquote(a[i+3 : len(a)-1]); err == nil {
							pc.tail = t
						}
					}
				}
				pieces = append(pieces, pc)
			}
			for i, pc := range pieces {
				if !pc.known {
					continue
				}
				kw := startsVernacular(pc.text)
				if kw == "" {
					continue
				}
				nTemplates++
				t := strings.TrimRight(pc.text, " \n")
				if !(strings.HasSuffix(t, ".") || strings.HasSuffix(t, ":=") || strings.HasSuffix(t, "[")) {
					bad = fmt.Sprintf("the %s template %q ends neither a sentence nor opens a term", kw, pc.text)
				}
				if kw == "Theorem" && !(i+1 < len(pieces) && startsVernacular(pieces[i+1].text) == "Proof") {
					bad = fmt.Sprintf("the Theorem template %q is not followed by its proof on the path %s", pc.text, ip.Trace)
				}
				if kw == "Proof" && !(i > 0 && startsVernacular(pieces[i-1].text) == "Theorem") {
					bad = fmt.Sprintf("a Proof template without the Theorem before it on the path %s", ip.Trace)
				}
			}
			if len(pieces) > 0 {
				last := pieces[len(pieces)-1]
				if !strings.HasSuffix(strings.TrimRight(last.tail, " \n"), ".") {
					bad = fmt.Sprintf("the last text written on the path %s does not end with `.` (%q)", ip.Trace, last.tail)
				}
			}
		}
		if nTemplates == 0 {
			continue // a delegate or a comment printer
		}
		r.Check("R05i", FuncName(f)+" emits whole sentences", f.Pos(), bad == "", bad)
	}
}

// c05FlagToChildren (R05a): an emitter may hand its own needs_paren flag to another emitter only when that
// emitter's text is its whole result (tail delegation: `return x.Coq(needs_paren)`). A child whose text is spliced
// into a larger form sits in an argument position whatever the context of the parent is, so it must be rendered
// with the constant true (or be printed by the parent's own layout).
func c05FlagToChildren(p *Prog, r *Report) {
	n := 0
	for _, f := range coqMethods(p) {
		var flag *ssa.Parameter
		for _, pa := range f.Params {
			if b, ok := pa.Type().Underlying().(*types.Basic); ok && b.Kind() == types.Bool {
				flag = pa
			}
		}
		if flag == nil {
			continue
		}
		p.instrs(f, func(b *ssa.BasicBlock, i int, in ssa.Instruction) {
			c, ok := in.(*ssa.Call)
			if !ok || len(c.Call.Args) == 0 || c.Call.Args[len(c.Call.Args)-1] != ssa.Value(flag) {
				return
			}
			isCoq := c.Call.IsInvoke() && c.Call.Method.Name() == "Coq"
			if cal := calleeOf(&c.Call); cal != nil && cal.Name() == "Coq" {
				isCoq = true
			}
			if !isCoq {
				return
			}
			n++
			tail := true
			for _, rf := range refs(c) {
				switch x := rf.(type) {
				case *ssa.Return:
				case *ssa.DebugRef:
				default:
					_ = x
					tail = false
				}
			}
			r.Check("R05a", FuncName(f)+" passes its needs_paren only in tail position", instrPos(c), tail,
				"the emitter's own needs_paren flag is handed to a child whose text is spliced into a larger form: printed at top level the child loses the parentheses its argument position needs")
		})
	}
	if n == 0 {
		r.Note("R05a: no emitter hands its needs_paren flag to another emitter")
	}
}
