package main

import (
	"fmt"
	"go/types"
	"sort"
	"strings"

	"golang.org/x/tools/go/ssa"
)

// Region-based versions of the disk rules: every rule looks at the interface
// methods of an implementation together with the package functions they reach
// (helpers), with facts established by callers (entryRels) and by helper calls
// (callPost), and with parameter roles propagated through forwarding calls.

// roles assigns "addr" / "buf" / "recv" to parameters: seeded at the interface methods,
// propagated to a helper parameter when every call site passes a parameter of that role unmodified.
func (dc *diskCtx) computeRoles(im *diskImpl) (map[*ssa.Parameter]string, []*ssa.Function) {
	roles := map[*ssa.Parameter]string{}
	var roots []*ssa.Function
	for _, mn := range sortedKeys(im.Methods) {
		f := im.Methods[mn]
		roots = append(roots, f)
		if len(f.Params) > 0 && f.Signature.Recv() != nil {
			roles[f.Params[0]] = "recv"
		}
		if mn == "ReadTo" || mn == "Write" || mn == "Read" {
			if a := firstUintParam(f); a != nil {
				roles[a] = "addr"
			}
			for _, b := range byteSliceParams(f) {
				roles[b] = "buf"
			}
		}
	}
	region := dc.p.region(roots)
	for changed := true; changed; {
		changed = false
		for _, g := range region {
			for j, pa := range g.Params {
				if roles[pa] != "" {
					continue
				}
				role, n, okAll := "", 0, true
				for _, caller := range region {
					dc.p.instrs(caller, func(b *ssa.BasicBlock, i int, in ssa.Instruction) {
						c, ok := in.(ssa.CallInstruction)
						if !ok || calleeOf(c.Common()) != g || j >= len(c.Common().Args) {
							return
						}
						n++
						a := stripConv(c.Common().Args[j])
						// receivers are passed by value or through the spilled copy
						if ld, ok := a.(*ssa.UnOp); ok {
							if al, ok := ld.X.(*ssa.Alloc); ok {
								for _, rf := range refs(al) {
									if st, ok := rf.(*ssa.Store); ok && st.Addr == ssa.Value(al) {
										a = st.Val
									}
								}
							}
						}
						ap, isParam := a.(*ssa.Parameter)
						if !isParam || roles[ap] == "" {
							okAll = false
							return
						}
						if role == "" {
							role = roles[ap]
						} else if role != roles[ap] {
							okAll = false
						}
					})
				}
				if n > 0 && okAll && role != "" {
					roles[pa] = role
					changed = true
				}
			}
		}
	}
	return roles, region
}

// sizeKeyIn renders the implementation's size expression in the terms of f (receiver renamed).
func sizeKeyIn(im *diskImpl, f *ssa.Function, roles map[*ssa.Parameter]string) []string {
	sizeF := im.Methods["Size"]
	if sizeF == nil || len(sizeF.Params) == 0 {
		return nil
	}
	from := sizeF.Params[0].Name()
	var out []string
	for _, pa := range f.Params {
		if roles[pa] == "recv" {
			out = append(out, substIdents(im.SizeKey, map[string]string{from: pa.Name()}))
		}
	}
	return out
}

func (dc *diskCtx) factsAt(f *ssa.Function, rm map[*ssa.BasicBlock]relSet, in ssa.Instruction) relSet {
	rs := dc.p.RelsAt(rm, in)
	for k := range dc.p.entryRels(f) {
		rs[k] = true
	}
	return rs
}

func (dc *diskCtx) ruleGuards2(r *Report, im *diskImpl) {
	p := dc.p
	bs := fmt.Sprint(dc.blockSize)
	roles, region := dc.computeRoles(im)
	paramOfRole := func(f *ssa.Function, role string) []*ssa.Parameter {
		var out []*ssa.Parameter
		for _, pa := range f.Params {
			if roles[pa] == role {
				out = append(out, pa)
			}
		}
		return out
	}
	nAccess := map[string]int{} // "mem-read", "mem-write", "file-read", "file-write"
	for _, f := range region {
		r.Func(FuncName(f))
		rm := p.Rels(f)
		sizeKeys := sizeKeyIn(im, f, roles)
		inRange := func(rs relSet, idx string) (bool, string) {
			var wants []string
			for _, skey := range sizeKeys {
				wants = append(wants, idx+" < "+skey)
			}
			for _, w := range wants {
				if rs[w] {
					return true, w
				}
			}
			return false, strings.Join(wants, "` or `")
		}
		p.instrs(f, func(b *ssa.BasicBlock, i int, in ssa.Instruction) {
			// in-memory storage access
			if ia, ok := in.(*ssa.IndexAddr); ok && dc.isBlockStorage(ia.X.Type()) {
				r.Sites++
				rs := dc.factsAt(f, rm, in)
				idx := sk(ia.Index)
				key := fmt.Sprintf("%s block-index in %s", im.Name, f.Name())
				okR, want := inRange(rs, idx)
				r.Check("R09a", key+" range", instrPos(in), okR,
					fmt.Sprintf("index %s into block storage requires fact `%s` on every path (including facts established by callers and helpers); facts here: %v", idx, want, relList(rs)))
				ip, isParam := stripConv(ia.Index).(*ssa.Parameter)
				r.Check("R09b", key+" is-address", instrPos(in), isParam && roles[ip] == "addr",
					fmt.Sprintf("index expression is %s, must be the operation's address parameter unmodified", idx))
				for _, rf := range refs(ia) {
					if sl, ok := rf.(*ssa.Slice); ok {
						r.Check("R09b", key+" whole-block", instrPos(sl), sl.Low == nil && sl.High == nil && sl.Max == nil,
							"the block is re-sliced with bounds; a partial block would be read/written")
						for _, r2 := range refs(sl) {
							if c, ok := r2.(*ssa.Call); ok {
								if bi, ok := c.Call.Value.(*ssa.Builtin); ok && bi.Name() == "copy" {
									if c.Call.Args[0] == ssa.Value(sl) {
										nAccess["mem-write"]++
										// the stored data must be the caller's block, with the size fact
										src := c.Call.Args[1]
										sp, isP := src.(*ssa.Parameter)
										r.Check("R09b", key+" copy source", instrPos(c), isP && roles[sp] == "buf", "the stored data is "+sk(src)+", must be the caller's block unmodified")
										rsC := dc.factsAt(f, rm, c)
										lenWant := eqRel("uint64(len("+sk(src)+"))", bs)
										r.Check("R09a", key+" copy size", instrPos(c), rsC[lenWant],
											fmt.Sprintf("storing a block requires fact `%s`; facts here: %v", lenWant, relList(rsC)))
									} else {
										nAccess["mem-read"]++
									}
								}
							}
						}
					}
				}
			}
			// file access
			if c, name, ok := unixCall(in); ok {
				switch name {
				case "Pread", "Pwrite":
					r.Sites++
					if name == "Pread" {
						nAccess["file-read"]++
					} else {
						nAccess["file-write"]++
					}
					key := fmt.Sprintf("%s %s in %s", im.Name, name, f.Name())
					rs := dc.factsAt(f, rm, in)
					addrs := paramOfRole(f, "addr")
					if len(addrs) != 1 || len(c.Call.Args) != 3 {
						r.Unknown("R09a", key, instrPos(in), "cannot identify the address parameter of this operation in "+FuncName(f))
						return
					}
					a := addrs[0].Name()
					okR, want := inRange(rs, a)
					r.Check("R09a", key+" range", instrPos(in), okR,
						fmt.Sprintf("requires fact `%s` on every path to the syscall; facts here: %v", want, relList(rs)))
					buf := c.Call.Args[1]
					lenWant := eqRel("uint64(len("+sk(buf)+"))", bs)
					r.Check("R09a", key+" size", instrPos(in), rs[lenWant],
						fmt.Sprintf("requires fact `%s` on every path to the syscall; facts here: %v", lenWant, relList(rs)))
					bp, isP := buf.(*ssa.Parameter)
					r.Check("R09b", key+" buffer", instrPos(in), isP && roles[bp] == "buf", "the transferred buffer is "+sk(buf)+", must be the caller's buffer parameter unmodified")
					offKey := sk(c.Call.Args[2])
					okOff := false
					for _, w := range []string{"int64((" + a + " * " + bs + "))", "int64((" + bs + " * " + a + "))"} {
						if offKey == w {
							okOff = true
						}
					}
					for sh := uint(1); sh < 63; sh++ {
						if uint64(1)<<sh == dc.blockSize && offKey == fmt.Sprintf("int64((%s << %d))", a, sh) {
							okOff = true
						}
					}
					r.Check("R09b", key+" offset", instrPos(in), okOff, fmt.Sprintf("offset is %s, must be int64(%s*%s)", offKey, a, bs))
				case "Fsync", "Close", "Open", "Fstat", "Ftruncate":
				default:
					r.Fail("R09a", fmt.Sprintf("%s unix.%s in %s", im.Name, name, f.Name()), instrPos(in),
						"system call outside the positioned-I/O set {Pread,Pwrite}: offset-relative or other I/O is not covered by the range/size guards", "")
				}
			}
		})
	}
	// each implementation must have a read access and a write access somewhere in its region
	st := im.Named.Underlying().(*types.Struct)
	hasStorage := false
	for i := 0; i < st.NumFields(); i++ {
		if dc.isBlockStorage(st.Field(i).Type()) {
			hasStorage = true
		}
	}
	if hasStorage {
		r.Check("R09a", im.Name+" has guarded read and write accesses", im.Named.Obj().Pos(), nAccess["mem-read"] > 0 && nAccess["mem-write"] > 0,
			fmt.Sprintf("recognised accesses: %v; neither an in-memory copy out of nor into block storage was found in the methods and their helpers", nAccess))
	} else {
		r.Check("R09a", im.Name+" has guarded read and write accesses", im.Named.Obj().Pos(), nAccess["file-read"] > 0 && nAccess["file-write"] > 0,
			fmt.Sprintf("recognised accesses: %v; no pread/pwrite found in the methods and their helpers", nAccess))
	}
	// Read returns a fresh, block-sized buffer that was filled through the guarded path
	if f := im.Methods["Read"]; f != nil {
		p.instrs(f, func(b *ssa.BasicBlock, i int, in ssa.Instruction) {
			ret, ok := in.(*ssa.Return)
			if !ok || len(ret.Results) != 1 {
				return
			}
			fresh, sized := true, false
			var what []string
			var roots []ssa.Value
			for _, o := range p.originsDeep(ret.Results[0]) {
				switch x := o.(type) {
				case *ssa.Alloc:
					if !x.Heap {
						fresh = false
					}
					what = append(what, "alloc")
					roots = append(roots, x)
					if at, ok := deref(x.Type()).Underlying().(*types.Array); ok && uint64(at.Len()) == dc.blockSize {
						sized = true
					}
				case *ssa.MakeSlice:
					what = append(what, "make")
					roots = append(roots, x)
					if n, ok := constUint(stripConv(x.Len)); ok && n == dc.blockSize {
						sized = true
					}
				default:
					fresh = false
					what = append(what, sk(o))
				}
			}
			r.Check("R09c", im.Name+".Read result-fresh", instrPos(in), fresh && len(roots) > 0,
				fmt.Sprintf("returned slice originates from %v; must be a slice allocated by Read (or its helper) itself", what))
			r.Check("R09b", im.Name+".Read result-size", instrPos(in), sized, "Read must return a buffer of exactly BlockSize bytes")
			filled := false
			for _, root := range roots {
				for _, u := range p.aliasUsesDeep(root) {
					switch {
					case u.Kind == "copy#0", strings.HasPrefix(u.Kind, "call:golang.org/x/sys/unix.Pread#1"):
						filled = true
					case strings.Contains(u.Kind, ".ReadTo#"):
						filled = true
					}
				}
			}
			r.Check("R09b", im.Name+".Read delegates", instrPos(in), filled, "Read must fill its fresh buffer through ReadTo or a guarded copy/pread (which R09a checks where it occurs)")
		})
	}
}

func (dc *diskCtx) ruleOwnership2(r *Report, im *diskImpl) {
	p := dc.p
	_, region := dc.computeRoles(im)
	inRegion := map[*ssa.Function]bool{}
	for _, f := range region {
		inRegion[f] = true
	}
	for _, mn := range sortedKeys(im.Methods) {
		f := im.Methods[mn]
		for _, bp := range byteSliceParams(f) {
			bad := []string{}
			for _, u := range p.aliasUsesDeep(bp) {
				switch {
				case u.Kind == "len#0", u.Kind == "cap#0", u.Kind == "copy#0", u.Kind == "copy#1":
				case strings.HasPrefix(u.Kind, "call:golang.org/x/sys/unix.Pread#1"), strings.HasPrefix(u.Kind, "call:golang.org/x/sys/unix.Pwrite#1"):
				case u.Kind == "load", u.Kind == "slice-bound", u.Kind == "index":
				case strings.HasPrefix(u.Kind, "call:invoke:") && (strings.Contains(u.Kind, ".ReadTo#") || strings.Contains(u.Kind, ".Write#")):
					// dynamic call of a sibling Disk method: the callee's parameter is checked for every implementation
				default:
					bad = append(bad, u.Kind+" at "+p.Pos(instrPos(u.In)))
				}
			}
			r.Check("R09c", fmt.Sprintf("%s.%s param %s", im.Name, mn, bp.Name()), bp.Pos(), len(bad) == 0,
				"caller-owned slice escapes or is used outside {len, copy, pread/pwrite} (followed through helper calls): "+strings.Join(bad, "; "))
		}
	}
	for _, f := range region {
		p.instrs(f, func(b *ssa.BasicBlock, i int, in ssa.Instruction) {
			v, ok := in.(ssa.Value)
			if !ok || !dc.isBlockStorage(v.Type()) {
				return
			}
			if _, isLoad := in.(*ssa.UnOp); !isLoad {
				if _, isField := in.(*ssa.Field); !isField {
					return
				}
			}
			bad := []string{}
			for _, u := range p.aliasUsesDeep(v) {
				switch u.Kind {
				case "len#0", "cap#0", "copy#0", "copy#1", "load", "index", "slice-bound":
				default:
					bad = append(bad, u.Kind+" at "+p.Pos(instrPos(u.In)))
				}
			}
			r.Check("R09c", fmt.Sprintf("%s storage in %s", im.Name, f.Name()), instrPos(in), len(bad) == 0,
				"internal block storage is exposed (returned, stored elsewhere or passed on): "+strings.Join(bad, "; "))
		})
	}
}

// checkForwarder2: the function's only effect, on every path, is one call of `target`
// (an interface method on the global disk, or a static function) with the parameters
// forwarded in order, and it returns that call's result. Helper calls (e.g. a getter for
// the global) are seen through by the abstract paths.
func (dc *diskCtx) checkForwarder2(r *Report, rule string, f *ssa.Function, want string, recvKey string) {
	p := dc.p
	key := "wrapper " + FuncName(f)
	keep := map[*ssa.Function]bool{}
	for _, g := range p.srcFuncs {
		if fullName(g) == want {
			keep[g] = true
		}
	}
	ips, ok := p.ipathsKeeping(f, keep)
	if !ok || len(ips) == 0 {
		r.Unknown(rule, key, f.Pos(), "cannot enumerate the wrapper's paths")
		return
	}
	okAll, why := true, ""
	for _, ip := range ips {
		if ip.Exit != "return" {
			okAll, why = false, "a path of the wrapper panics"
			continue
		}
		var evs []ievent
		for _, e := range ip.Events {
			if e.Deferred {
				continue
			}
			evs = append(evs, e)
		}
		if len(evs) != 1 {
			var ns []string
			for _, e := range evs {
				ns = append(ns, e.Callee)
			}
			okAll, why = false, fmt.Sprintf("the wrapper performs %d calls %v instead of one forwarding call", len(evs), ns)
			continue
		}
		e := evs[0]
		if e.Callee != want {
			okAll, why = false, "calls "+e.Callee+", expected "+want
			continue
		}
		args := e.Args
		if recvKey != "" {
			if len(args) == 0 || args[0] != recvKey {
				got := "<none>"
				if len(args) > 0 {
					got = args[0]
				}
				okAll, why = false, "receiver is "+got+", expected the global "+recvKey
				continue
			}
			args = args[1:]
		}
		if len(args) != len(f.Params) {
			okAll, why = false, "argument count differs from parameter count"
			continue
		}
		for i, a := range args {
			if a != f.Params[i].Name() {
				okAll, why = false, fmt.Sprintf("argument %d is %s, not parameter %s", i, a, f.Params[i].Name())
			}
		}
		// result
		n := f.Signature.Results().Len()
		if n == 1 && (len(ip.Ret) != 1 || stripConvs(ip.Ret[0]) != e.Key) {
			// a value-preserving conversion of the result (alias types) is accepted
			if len(ip.Ret) != 1 || !strings.HasSuffix(ip.Ret[0], e.Key+")") && ip.Ret[0] != e.Key {
				okAll, why = false, "does not return the callee's result"
			}
		}
		if n > 1 {
			for i, rk := range ip.Ret {
				if rk != shortKey(e.Key+"#"+itoa(i)) {
					okAll, why = false, "does not return the callee's results in order"
				}
			}
		}
	}
	r.Check(rule, key, f.Pos(), okAll, why)
}

func (dc *diskCtx) ruleWrappers2(r *Report) {
	p := dc.p
	// the global disk variable, by type
	var g *ssa.Global
	for _, name := range sortedKeys(dc.pkg.Members) {
		if gv, ok := dc.pkg.Members[name].(*ssa.Global); ok && types.Identical(deref(gv.Type()), dc.ifaceNamed()) {
			g = gv
		}
	}
	if g == nil {
		r.Anchor("R09g", "the package-level disk variable")
		return
	}
	recvKey := sk(g)
	for i := 0; i < dc.iface.NumMethods(); i++ {
		mn := dc.iface.Method(i).Name()
		f := p.Func(diskPkg, mn)
		if f == nil {
			continue
		}
		r.Func(FuncName(f))
		dc.checkForwarder2(r, "R09g", f, "invoke:"+types.TypeString(dc.ifaceNamed(), qualNone)+"."+mn, recvKey)
	}
}

func (dc *diskCtx) lockScope(im *diskImpl) map[*ssa.Function]bool {
	_, region := dc.computeRoles(im)
	isMethod := map[*ssa.Function]bool{}
	for _, m := range im.Methods {
		isMethod[m] = true
	}
	out := map[*ssa.Function]bool{}
	for _, f := range region {
		if !isMethod[f] {
			out[f] = true
		}
	}
	return out
}

var _ = sort.Strings
