package main

import (
	"encoding/json"
	"fmt"
	"go/token"
	"os"
	"path/filepath"
	"sort"
	"strings"
	"time"
)

// Status of one obligation.
type Status string

const (
	Discharged Status = "discharged"
	Violated   Status = "violated"
	Undecided  Status = "undecided" // counts as violated: the rule could not decide
)

// Obligation is one decided instance of a rule. Key identifies the construct
// (function, field, call, table entry) and never contains a line number, so that
// it survives unrelated edits and can be matched against known-findings.json.
type Obligation struct {
	Rule   string `json:"rule"`
	Key    string `json:"key"`
	Pos    string `json:"pos"`
	Status Status `json:"status"`
	Detail string `json:"detail,omitempty"`
	Path   string `json:"path,omitempty"` // witness (CFG path, call chain) for violations
}

// RuleInfo documents one rule in the evidence.
type RuleInfo struct {
	ID        string `json:"id"`
	Text      string `json:"text"`
	Instances int    `json:"instances"`
	Min       int    `json:"min_instances"`
	NotDecide string `json:"does_not_decide,omitempty"`
}

// Report collects everything a property check did.
type Report struct {
	Prop     string
	P        *Prog
	Obls     []Obligation
	Rules    []*RuleInfo
	ruleIdx  map[string]*RuleInfo
	Tables   map[string]interface{}
	Notes    []string
	Funcs    map[string]bool
	Sites    int
	Configs  []string
	Controls []string // positive controls that fired as required
	Assume   []string
}

func NewReport(prop string, p *Prog) *Report {
	return &Report{Prop: prop, P: p, ruleIdx: map[string]*RuleInfo{}, Tables: map[string]interface{}{}, Funcs: map[string]bool{}}
}

// Rule declares a rule: its text and the minimum number of instances that were
// confirmed by hand on the pinned tree (a rule matching fewer fails: vacuity guard).
func (r *Report) Rule(id, text string, min int) {
	if ri, ok := r.ruleIdx[id]; ok {
		ri.Text, ri.Min = text, min
		return
	}
	ri := &RuleInfo{ID: id, Text: text, Min: min}
	r.ruleIdx[id] = ri
	r.Rules = append(r.Rules, ri)
}

func (r *Report) add(rule, key string, pos token.Pos, st Status, detail, path string) {
	ri, ok := r.ruleIdx[rule]
	if !ok {
		r.Rule(rule, "", 0)
		ri = r.ruleIdx[rule]
	}
	ri.Instances++
	ps := "-"
	if r.P != nil {
		ps = r.P.Pos(pos)
	}
	r.Obls = append(r.Obls, Obligation{Rule: rule, Key: key, Pos: ps, Status: st, Detail: detail, Path: path})
}

// Check records an obligation that is discharged iff ok.
func (r *Report) Check(rule, key string, pos token.Pos, ok bool, detail string) bool {
	st := Discharged
	if !ok {
		st = Violated
	}
	r.add(rule, key, pos, st, detail, "")
	return ok
}

// Fail records a violated obligation with a witness path.
func (r *Report) Fail(rule, key string, pos token.Pos, detail, path string) {
	r.add(rule, key, pos, Violated, detail, path)
}

// OK records a discharged obligation.
func (r *Report) OK(rule, key string, pos token.Pos, detail string) {
	r.add(rule, key, pos, Discharged, detail, "")
}

// Unknown records an obligation the rule could not decide (treated as failing).
func (r *Report) Unknown(rule, key string, pos token.Pos, detail string) {
	r.add(rule, key, pos, Undecided, detail, "")
}

// Anchor records that a construct the rule is about could not be found.
func (r *Report) Anchor(rule, what string) {
	r.add(rule, "anchor:"+what, token.NoPos, Undecided, "anchor not found: the construct this rule is about does not resolve in the loaded program", "")
}

func (r *Report) Note(format string, a ...interface{}) {
	r.Notes = append(r.Notes, fmt.Sprintf(format, a...))
}

func (r *Report) Table(name string, v interface{}) { r.Tables[name] = v }

func (r *Report) Func(name string) { r.Funcs[name] = true }

// ---------------------------------------------------------------------------
// known findings

type KnownFinding struct {
	Property string `json:"property"`
	Rule     string `json:"rule"`
	Key      string `json:"key"`
	Status   string `json:"status"` // "known" or "fixed"
	Commit   string `json:"commit,omitempty"`
	What     string `json:"what"`
}

type knownFile struct {
	Findings []KnownFinding `json:"findings"`
}

func loadKnown(path string) ([]KnownFinding, error) {
	b, err := os.ReadFile(path)
	if err != nil {
		if os.IsNotExist(err) {
			return nil, nil
		}
		return nil, err
	}
	var kf knownFile
	if err := json.Unmarshal(b, &kf); err != nil {
		return nil, fmt.Errorf("%s: %v", path, err)
	}
	return kf.Findings, nil
}

// ---------------------------------------------------------------------------
// verdict + evidence

type evidence struct {
	PropertyID  string                 `json:"property_id"`
	Tier        string                 `json:"tier"`
	Seed        int                    `json:"seed"`
	Level       string                 `json:"level"`
	Coverage    map[string]interface{} `json:"coverage"`
	Assumptions []string               `json:"assumptions"`
	WallS       float64                `json:"wall_s"`
	Violations  int                    `json:"violations"`
}

// Finish matches violations against the known-findings file, prints the verdict
// lines, writes the evidence file and returns the process exit code.
func (r *Report) Finish(verifDir, tier string, seed int, start time.Time, extra map[string]interface{}) int {
	// vacuity guard
	for _, ri := range r.Rules {
		if ri.Instances < ri.Min {
			r.add(ri.ID, "vacuity", token.NoPos, Undecided,
				fmt.Sprintf("rule matched %d instances, fewer than the %d confirmed by hand on the pinned tree: the rule no longer sees the code it is about", ri.Instances, ri.Min), "")
			ri.Instances-- // the guard itself is not an instance
		}
	}
	// drop declared rules that had nothing to do in this property
	var kept []*RuleInfo
	for _, ri := range r.Rules {
		if ri.Instances > 0 || ri.Min > 0 {
			kept = append(kept, ri)
		}
	}
	r.Rules = kept
	known, err := loadKnown(filepath.Join(verifDir, "known-findings.json"))
	if err != nil {
		fmt.Printf("ERROR reading known findings: %v\n", err)
		return 1
	}
	knownIdx := map[string]KnownFinding{}
	for _, k := range known {
		if k.Property == r.Prop && k.Status == "known" {
			knownIdx[k.Rule+"\x00"+k.Key] = k
		}
	}
	sort.SliceStable(r.Obls, func(i, j int) bool {
		a, b := r.Obls[i], r.Obls[j]
		if a.Rule != b.Rule {
			return a.Rule < b.Rule
		}
		return a.Key < b.Key
	})
	replayDir := filepath.Join(verifDir, "evidence", "replay")
	os.MkdirAll(replayDir, 0o755)
	old, _ := filepath.Glob(filepath.Join(replayDir, r.Prop+"-*.json"))
	for _, f := range old {
		os.Remove(f)
	}
	nViol, nKnown, nDis, nUnd := 0, 0, 0, 0
	var matched []string
	var violSamples []Obligation
	seenKnown := map[string]bool{}
	for _, o := range r.Obls {
		switch o.Status {
		case Discharged:
			nDis++
			continue
		case Undecided:
			nUnd++
		}
		if k, ok := knownIdx[o.Rule+"\x00"+o.Key]; ok && o.Status == Violated {
			nKnown++
			if !seenKnown[o.Rule+"\x00"+o.Key] {
				seenKnown[o.Rule+"\x00"+o.Key] = true
				what := k.What
				if i := strings.Index(what, ". "); i > 0 && i < 300 {
					what = what[:i+1]
				} else if len(what) > 300 {
					what = what[:300] + "…"
				}
				fmt.Printf("KNOWN-FINDING: property=%s %s [%s] %s (%s)\n", r.Prop, o.Rule, o.Key, what, o.Pos)
				matched = append(matched, o.Rule+" "+o.Key)
			}
			continue
		}
		nViol++
		rp := filepath.Join(replayDir, fmt.Sprintf("%s-%d.json", r.Prop, nViol))
		b, _ := json.MarshalIndent(map[string]interface{}{
			"property": r.Prop, "rule": o.Rule, "key": o.Key, "pos": o.Pos, "status": o.Status,
			"detail": o.Detail, "path": o.Path, "rule_text": r.ruleIdx[o.Rule].Text,
			"replay": fmt.Sprintf("/verif/check %s quick   # re-evaluates every obligation of the property; this one is %s %s", r.Prop, o.Rule, o.Key),
		}, "", " ")
		os.WriteFile(rp, b, 0o644)
		fmt.Printf("VIOLATION property=%s replay=%s\n", r.Prop, rp)
		fmt.Printf("  rule %s [%s] at %s: %s\n", o.Rule, o.Key, o.Pos, o.Detail)
		if o.Path != "" {
			fmt.Printf("  witness: %s\n", o.Path)
		}
		if len(violSamples) < 20 {
			violSamples = append(violSamples, o)
		}
	}
	// samples: a spread of real obligations, a few per rule
	var samples []Obligation
	perRule := map[string]int{}
	for _, o := range r.Obls {
		if perRule[o.Rule] < 3 {
			perRule[o.Rule]++
			samples = append(samples, o)
		}
	}
	distinct := map[string]bool{}
	for _, o := range r.Obls {
		if !strings.HasPrefix(o.Key, "anchor:") {
			distinct[o.Rule+"\x00"+o.Key] = true
		}
	}
	var ruleTexts []string
	for _, ri := range r.Rules {
		ruleTexts = append(ruleTexts, fmt.Sprintf("%s: %s", ri.ID, ri.Text))
	}
	var funcs []string
	for f := range r.Funcs {
		funcs = append(funcs, f)
	}
	sort.Strings(funcs)
	cov := map[string]interface{}{
		"explanation":         "Static analysis of /repo's current source (go/packages type-checked program, go/ssa form, dominator/must-dataflow on the SSA control-flow graph, resolved call graph). Nothing from /repo is executed. Rules applied: " + strings.Join(ruleTexts, " | "),
		"obligations":         len(r.Obls),
		"discharged":          nDis,
		"undecided":           nUnd,
		"known_findings":      matched,
		"evaluations":         len(r.Obls),
		"distinct_nontrivial": len(distinct),
		"rule":                "one obligation per (rule, construct) instance found in the loaded program; distinct = distinct (rule, construct-key) pairs, excluding anchor lookups",
		"rules":               r.Rules,
		"samples":             samples,
		"violating_samples":   violSamples,
		"tables":              r.Tables,
		"notes":               r.Notes,
		"functions_analysed":  funcs,
		"call_sites":          r.Sites,
		"configs":             r.Configs,
		"positive_controls":   r.Controls,
		"checker_cmd":         fmt.Sprintf("/verif/check %s %s", r.Prop, tier),
		"trusted_base":        []string{"go/types type checker", "golang.org/x/tools v0.29.0 go/packages + go/ssa", "documented contracts of the Go standard library and golang.org/x/sys/unix"},
		"exhaustive":          true,
	}
	for k, v := range extra {
		cov[k] = v
	}
	ev := evidence{PropertyID: r.Prop, Tier: tier, Seed: seed, Level: "other", Coverage: cov,
		Assumptions: r.Assume, WallS: time.Since(start).Seconds(), Violations: nViol}
	if ev.Assumptions == nil {
		ev.Assumptions = []string{}
	}
	b, _ := json.MarshalIndent(ev, "", " ")
	os.MkdirAll(filepath.Join(verifDir, "evidence"), 0o755)
	if err := os.WriteFile(filepath.Join(verifDir, "evidence", r.Prop+".json"), b, 0o644); err != nil {
		fmt.Printf("ERROR writing evidence: %v\n", err)
		return 1
	}
	fmt.Printf("%s: %d obligations, %d discharged, %d known findings, %d violations (%d undecided); rules:", r.Prop, len(r.Obls), nDis, nKnown, nViol, nUnd)
	for _, ri := range r.Rules {
		fmt.Printf(" %s=%d", ri.ID, ri.Instances)
	}
	fmt.Println()
	if nViol > 0 {
		return 1
	}
	return 0
}
