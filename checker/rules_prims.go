package main

import (
	"fmt"
	"go/token"
	"go/types"
	"sort"
	"strings"

	"golang.org/x/tools/go/ssa"
)

const machinePkg = Mod + "/machine"

// realInstrs returns the instructions of f that are not debug refs.
func realInstrs(f *ssa.Function) []ssa.Instruction {
	var out []ssa.Instruction
	for _, b := range f.Blocks {
		for _, in := range b.Instrs {
			if _, ok := in.(*ssa.DebugRef); ok {
				continue
			}
			out = append(out, in)
		}
	}
	return out
}

// ---------------------------------------------------------------------------
// C15

func checkC15(p *Prog, r *Report) {
	r.Rule("R15", "each of UInt64Get/UInt32Get/UInt64Put/UInt32Put is either (i) exactly one call of the matching encoding/binary.LittleEndian method (resolved through go/types; BigEndian/NativeEndian or a method of another width are violations) with the buffer parameter itself (not a fixed-length re-slice, which is checked against the capacity instead of the length) and the value parameter forwarded and the result returned, and nothing else; or (ii) an explicit byte-lane idiom whose lane map is i -> 8i for i < width/8, touches no index outside the frame, and touches the highest index of the frame before any store (refusal before partial write). Any other body is undecided and fails", 4)
	r.Assume = append(r.Assume, "documented contract of encoding/binary.LittleEndian (little-endian, touches exactly the first 8/4 bytes, panics on short buffers before writing)")
	specs := []struct {
		name   string
		width  int
		put    bool
		method string
	}{
		{"UInt64Get", 64, false, "Uint64"}, {"UInt32Get", 32, false, "Uint32"},
		{"UInt64Put", 64, true, "PutUint64"}, {"UInt32Put", 32, true, "PutUint32"},
	}
	for _, sp := range specs {
		f := p.Func(machinePkg, sp.name)
		if f == nil {
			r.Anchor("R15", "machine."+sp.name)
			continue
		}
		r.Func(FuncName(f))
		ok, why := delegationIdiom(f, sp.width, sp.put, sp.method)
		how := "delegation to encoding/binary.LittleEndian." + sp.method
		if !ok {
			ok2, why2 := laneIdiom(f, sp.width, sp.put)
			if ok2 {
				ok, how = true, "explicit little-endian byte lanes"
			} else {
				why = "not a pure delegation (" + why + ") and not a recognised lane idiom (" + why2 + ")"
			}
		}
		if ok {
			r.OK("R15", "machine."+sp.name, f.Pos(), how)
		} else {
			r.Fail("R15", "machine."+sp.name, f.Pos(), why, "")
		}
		// signature witness
		sig := f.Signature
		okSig := false
		if sp.put {
			okSig = sig.Params().Len() == 2 && byteSliceType(sig.Params().At(0).Type()) && sig.Results().Len() == 0 && basicBits(sig.Params().At(1).Type()) == sp.width
		} else {
			okSig = sig.Params().Len() == 1 && byteSliceType(sig.Params().At(0).Type()) && sig.Results().Len() == 1 && basicBits(sig.Results().At(0).Type()) == sp.width
		}
		r.Check("R15", "machine."+sp.name+" signature", f.Pos(), okSig, "signature "+sig.String())
	}
}

func basicBits(t types.Type) int {
	b, ok := t.Underlying().(*types.Basic)
	if !ok {
		return 0
	}
	switch b.Kind() {
	case types.Uint64:
		return 64
	case types.Uint32:
		return 32
	case types.Uint8:
		return 8
	}
	return 0
}

func delegationIdiom(f *ssa.Function, width int, put bool, method string) (bool, string) {
	if len(f.Blocks) != 1 {
		return false, fmt.Sprintf("%d basic blocks, expected straight-line code", len(f.Blocks))
	}
	var call *ssa.Call
	var ret *ssa.Return
	frame := int64(width / 8)
	bufP := f.Params[0]
	for _, in := range realInstrs(f) {
		switch x := in.(type) {
		case *ssa.Call:
			if call != nil {
				return false, "more than one call"
			}
			call = x
		case *ssa.Return:
			ret = x
		case *ssa.UnOp:
			g, ok := x.X.(*ssa.Global)
			if !ok || x.Op != token.MUL {
				return false, "loads something other than the byte-order value"
			}
			if g.Pkg.Pkg.Path() != "encoding/binary" {
				// a package-level variable of the repository that holds binary.LittleEndian and is never reassigned
				if !holdsLittleEndian(g) {
					return false, "loads something other than the byte-order value"
				}
			} else if g.Name() != "LittleEndian" {
				return false, "uses encoding/binary." + g.Name() + ", not LittleEndian"
			}
		case *ssa.Slice:
			// p[:k] with k >= frame, or p[0:k]
			if x.X != ssa.Value(bufP) {
				return false, "slices something other than the buffer parameter"
			}
			if x.Low != nil {
				if l, ok := constInt(x.Low); !ok || l != 0 {
					return false, "buffer is re-sliced from a non-zero offset"
				}
			}
			if x.High != nil {
				if h, ok := constInt(x.High); !ok || h < frame {
					return false, "buffer is re-sliced shorter than the frame"
				}
				// p[:k] is bounded by the capacity of p, not by its length
				return false, "the buffer is re-sliced to a fixed length before it reaches the library: a slice expression is checked against the capacity, so a buffer shorter than the frame with spare capacity is no longer refused and bytes beyond its length are read or written"
			}
		default:
			return false, "extra instruction " + in.String()
		}
	}
	if call == nil || ret == nil {
		return false, "no call"
	}
	cal := calleeOf(&call.Call)
	want := "(encoding/binary.littleEndian)." + method
	if cal == nil || fullName(cal) != want {
		n := calleeName(call)
		return false, "calls " + n + ", expected " + want
	}
	args := call.Call.Args
	// args[0] is the receiver (the loaded LittleEndian value)
	if ld, ok := args[0].(*ssa.UnOp); !ok {
		return false, "receiver is not encoding/binary.LittleEndian"
	} else if g, ok := ld.X.(*ssa.Global); !ok || (g.Name() != "LittleEndian" || g.Pkg.Pkg.Path() != "encoding/binary") && !holdsLittleEndian(g) {
		return false, "receiver is not encoding/binary.LittleEndian"
	}
	buf := args[1]
	if sl, ok := buf.(*ssa.Slice); ok {
		buf = sl.X
	}
	if buf != ssa.Value(bufP) {
		return false, "buffer argument is not the buffer parameter"
	}
	if put {
		if len(args) != 3 || args[2] != ssa.Value(f.Params[1]) {
			return false, "value argument is not the value parameter unmodified"
		}
		if len(ret.Results) != 0 {
			return false, "unexpected result"
		}
	} else {
		if len(ret.Results) != 1 || ret.Results[0] != ssa.Value(call) {
			return false, "result is not the decoded value unmodified"
		}
	}
	return true, ""
}

// laneIdiom recognises explicit little-endian byte-lane code.
func laneIdiom(f *ssa.Function, width int, put bool) (bool, string) {
	frame := int64(width / 8)
	bufP := f.Params[0]
	if len(f.Blocks) != 1 {
		return false, "control flow in the body"
	}
	// collect index uses of the buffer
	type lane struct {
		idx   int64
		shift int64
		in    ssa.Instruction
	}
	var lanes []lane
	order := map[ssa.Instruction]int{}
	for i, in := range realInstrs(f) {
		order[in] = i
	}
	firstTouch, firstTouchIdx := 1<<30, int64(-1)
	for _, in := range realInstrs(f) {
		ia, ok := in.(*ssa.IndexAddr)
		if !ok {
			continue
		}
		if ia.X != ssa.Value(bufP) {
			return false, "indexes something other than the buffer parameter"
		}
		c, ok := constInt(ia.Index)
		if !ok {
			return false, "non-constant index"
		}
		if c < 0 || c >= frame {
			return false, fmt.Sprintf("index %d outside the %d-byte frame", c, frame)
		}
		if order[in] < firstTouch {
			firstTouch, firstTouchIdx = order[in], c
		}
		for _, rf := range refs(ia) {
			switch x := rf.(type) {
			case *ssa.Store:
				if !put {
					return false, "a Get stores into the buffer"
				}
				// value = byte(n >> k) or byte(n)
				v := x.Val
				cv, ok := v.(*ssa.Convert)
				if !ok || basicBits(cv.Type()) != 8 {
					return false, "stored value is not a byte conversion"
				}
				sh := int64(0)
				src := cv.X
				if b, ok := src.(*ssa.BinOp); ok && b.Op == token.SHR {
					k, ok := constInt(b.Y)
					if !ok {
						return false, "non-constant shift"
					}
					sh, src = k, b.X
				}
				if src != ssa.Value(f.Params[1]) {
					return false, "stored byte is not taken from the value parameter"
				}
				lanes = append(lanes, lane{c, sh, rf})
			case *ssa.UnOp:
				if put {
					continue // `_ = p[7]` bounds hint
				}
				// T(p[c]) << k
				sh := int64(-1)
				for _, r2 := range refs(x) {
					if cv, ok := r2.(*ssa.Convert); ok && basicBits(cv.Type()) == width {
						sh = 0
						for _, r3 := range refs(cv) {
							if b, ok := r3.(*ssa.BinOp); ok && b.Op == token.SHL && b.X == ssa.Value(cv) {
								if k, ok := constInt(b.Y); ok {
									sh = k
								}
							}
						}
					}
				}
				if sh < 0 {
					return false, fmt.Sprintf("byte %d is not widened to uint%d before combining (sign/width change)", c, width)
				}
				lanes = append(lanes, lane{c, sh, rf})
			}
		}
	}
	if len(lanes) == 0 {
		return false, "no byte lanes"
	}
	seen := map[int64]bool{}
	for _, l := range lanes {
		if l.shift != 8*l.idx {
			return false, fmt.Sprintf("byte %d carries bits %d.. (little-endian needs %d)", l.idx, l.shift, 8*l.idx)
		}
		seen[l.idx] = true
	}
	for i := int64(0); i < frame; i++ {
		if !seen[i] {
			return false, fmt.Sprintf("byte %d of the frame is not covered", i)
		}
	}
	if firstTouchIdx != frame-1 {
		return false, fmt.Sprintf("first buffer access is index %d: a too-short buffer is partially processed before the bounds panic (need index %d first)", firstTouchIdx, frame-1)
	}
	if !put {
		// result must combine the lanes with | or + only
		for _, in := range realInstrs(f) {
			if b, ok := in.(*ssa.BinOp); ok {
				switch b.Op {
				case token.OR, token.ADD, token.SHL:
				default:
					return false, "unexpected operator " + b.Op.String() + " in the decoder"
				}
			}
			if c, ok := in.(*ssa.Convert); ok && basicBits(c.Type()) != width {
				return false, "intermediate conversion to " + c.Type().String()
			}
		}
	}
	return true, ""
}

// ---------------------------------------------------------------------------
// C16

func checkC16(p *Prog, r *Report) {
	r.Rule("R16a", "UInt64ToString is canonical decimal of the uint64 parameter: fmt.Sprintf with constant format %d or %v applied to the parameter itself, or strconv.FormatUint(x, 10); any detour through a signed or narrower type, or hand-written digit code, is rejected/undecided", 1)
	r.Rule("R16b", "MapClear removes every entry: its body is the clear builtin applied to the parameter (a range/delete loop cannot remove NaN keys)", 1)
	r.Rule("R16c", "Assume/Assert panic exactly when the argument is false: exhaustive evaluation of the function's control-flow graph under c=true and c=false (every branch condition must be the parameter or its negation): panic reachable iff c=false, normal return reachable iff c=true", 4)
	r.Rule("R16d", "forwarding shape: WaitTimeout is a single call of primitive.WaitTimeout(cond, timeoutMs) with parameters in order; NewProph forwards to primitive.NewProph; ProphId is an alias of primitive.ProphId; Sleep passes its argument to time.Sleep in nanoseconds; Linearize does nothing", 5)
	c16LeftoverWaiter(p, r)
	r.Assume = append(r.Assume, "fmt %d on uint64 is canonical decimal", "WaitTimeout's timing and lock state are implemented in module goose-lang/primitive and are timing-dependent: not decided")
	// R16a
	if f := p.Func(machinePkg, "UInt64ToString"); f == nil {
		r.Anchor("R16a", "machine.UInt64ToString")
	} else {
		r.Func(FuncName(f))
		ok, why := false, "no recognised formatting call"
		if len(f.Blocks) == 1 {
			for _, in := range realInstrs(f) {
				c, isCall := in.(*ssa.Call)
				if !isCall {
					continue
				}
				switch calleeName(c) {
				case "fmt.Sprintf":
					fs, okf := constString(c.Call.Args[0])
					k := sk(c.Call.Args[1])
					if okf && (fs == "%d" || fs == "%v") && k == "["+f.Params[0].Name()+"]" {
						ok = true
					} else {
						why = fmt.Sprintf("fmt.Sprintf(%q, %s): need format %%d/%%v applied to the uint64 parameter itself", fs, k)
					}
				case "fmt.Sprint":
					if sk(c.Call.Args[0]) == "["+f.Params[0].Name()+"]" {
						ok = true
					}
				case "strconv.FormatUint":
					b, okb := constInt(c.Call.Args[1])
					if c.Call.Args[0] == ssa.Value(f.Params[0]) && okb && b == 10 {
						ok = true
					} else {
						why = "strconv.FormatUint with another argument or base"
					}
				default:
					why = "calls " + calleeName(c)
				}
				// result returned unmodified
				if ok {
					ret, _ := f.Blocks[0].Instrs[len(f.Blocks[0].Instrs)-1].(*ssa.Return)
					if ret == nil || len(ret.Results) != 1 || ret.Results[0] != ssa.Value(c) {
						ok, why = false, "formatted string is post-processed"
					}
				}
			}
		} else {
			why = "hand-written formatting (control flow in the body) is outside the recognised idioms"
		}
		r.Check("R16a", "machine.UInt64ToString", f.Pos(), ok, why)
	}
	// R16b
	if f := p.Func(machinePkg, "MapClear"); f == nil {
		r.Anchor("R16b", "machine.MapClear")
	} else {
		r.Func(FuncName(f))
		ok, why := false, ""
		ins := realInstrs(f)
		if len(f.Blocks) == 1 && len(ins) == 2 {
			if c, isCall := ins[0].(*ssa.Call); isCall {
				if bi, isB := c.Call.Value.(*ssa.Builtin); isB && bi.Name() == "clear" && c.Call.Args[0] == ssa.Value(f.Params[0]) {
					ok = true
				}
			}
		}
		if !ok {
			why = "body is not `clear(m)`"
			for _, in := range ins {
				if _, isRange := in.(*ssa.Range); isRange {
					why = "range/delete loop: delete(m, k) cannot remove an entry whose key is NaN (k != k), so a float-keyed map is not left empty"
				}
			}
		}
		r.Check("R16b", "machine.MapClear", f.Pos(), ok, why)
	}
	// R16c
	for _, name := range []string{"Assume", "Assert"} {
		f := p.Func(machinePkg, name)
		if f == nil {
			r.Anchor("R16c", "machine."+name)
			continue
		}
		r.Func(FuncName(f))
		for _, cv := range []bool{true, false} {
			pan, ret, und := evalBoolCFG(p, f, cv)
			key := fmt.Sprintf("machine.%s(c=%v)", name, cv)
			if und != "" {
				// the test lives in a helper: decide on the abstract paths (helper spliced in), on which every
				// branch fact must still be about the parameter alone
				if pan2, ret2, ok := evalBoolPaths(p, f, cv); ok {
					pan, ret, und = pan2, ret2, ""
				}
			}
			if und != "" {
				r.Unknown("R16c", key, f.Pos(), "branch condition is not a function of the parameter alone: "+und)
				continue
			}
			if cv {
				r.Check("R16c", key, f.Pos(), !pan && ret, fmt.Sprintf("with c=true: panic reachable=%v, normal return reachable=%v (need false/true)", pan, ret))
			} else {
				r.Check("R16c", key, f.Pos(), pan && !ret, fmt.Sprintf("with c=false: panic reachable=%v, normal return reachable=%v (need true/false)", pan, ret))
			}
		}
	}
	// R16d
	checkForward := func(name, target string, argsInOrder bool) {
		f := p.Func(machinePkg, name)
		if f == nil {
			r.Anchor("R16d", "machine."+name)
			return
		}
		r.Func(FuncName(f))
		ok, why := true, ""
		var calls []*ssa.Call
		for _, in := range realInstrs(f) {
			switch x := in.(type) {
			case *ssa.Call:
				calls = append(calls, x)
			case *ssa.Return:
			default:
				ok, why = false, "extra instruction "+in.String()
			}
		}
		if len(f.Blocks) != 1 || len(calls) != 1 {
			ok, why = false, fmt.Sprintf("not a single forwarding call (%d blocks, %d calls)", len(f.Blocks), len(calls))
		} else if calleeName(calls[0]) != target {
			ok, why = false, "calls "+calleeName(calls[0])+", expected "+target
		} else if argsInOrder {
			if len(calls[0].Call.Args) != len(f.Params) {
				ok, why = false, "argument count"
			} else {
				for i, a := range calls[0].Call.Args {
					if a != ssa.Value(f.Params[i]) {
						ok, why = false, fmt.Sprintf("argument %d is not parameter %s", i, f.Params[i].Name())
					}
				}
			}
		}
		r.Check("R16d", "machine."+name+" forwards to "+target, f.Pos(), ok, why)
	}
	// WaitTimeout: forwarded, or implemented here — then the structural part of its contract is decided on its own
	// abstract paths: every return re-acquires the caller's lock last (cond.L.Lock() is the last operation on the
	// lock), and the timer is armed with the timeout parameter in milliseconds
	if wt := p.Func(machinePkg, "WaitTimeout"); wt != nil && len(blockOfCall(p, wt, "github.com/goose-lang/primitive.WaitTimeout")) == 0 && len(wt.Params) == 2 {
		r.Func(FuncName(wt))
		ips, okp := p.ipaths(wt)
		ok, why, nRet := okp, "", 0
		if !okp {
			why = "the abstract paths of WaitTimeout could not be enumerated"
		}
		cond, tmo := wt.Params[0].Name(), wt.Params[1].Name()
		for _, ip := range ips {
			if ip.Exit != "return" {
				continue
			}
			nRet++
			last, timer := "", false
			for _, e := range ip.Events {
				if (e.Callee == "invoke:Locker.Lock" || e.Callee == "invoke:Locker.Unlock") && len(e.Args) > 0 && strings.HasPrefix(e.Args[0], cond+".L") {
					last = e.Callee
				}
				if (e.Callee == "time.After" || e.Callee == "time.NewTimer" || e.Callee == "time.AfterFunc") && len(e.Args) > 0 && strings.Contains(e.Args[0], tmo) && strings.Contains(e.Args[0], "1000000") {
					timer = true
				}
			}
			if last != "invoke:Locker.Lock" {
				ok, why = false, "a return of WaitTimeout is not preceded by "+cond+".L.Lock() as the last operation on the caller's lock: "+ip.Trace
			}
			if !timer {
				ok, why = false, "a returning path arms no timer with "+tmo+" milliseconds: "+ip.Trace
			}
		}
		r.Check("R16d", "machine.WaitTimeout (implemented here) returns with the lock re-acquired and a timer of timeoutMs ms", wt.Pos(), ok && nRet > 0, why)
	} else {
		checkForward("WaitTimeout", "github.com/goose-lang/primitive.WaitTimeout", true)
	}
	checkForward("NewProph", "github.com/goose-lang/primitive.NewProph", true)
	if mp := p.All[machinePkg]; mp != nil {
		tn, _ := mp.Types.Scope().Lookup("ProphId").(*types.TypeName)
		okA := tn != nil && tn.IsAlias()
		if okA {
			// identical to the type named primitive.ProphId (itself an alias of *prophId)
			okA = false
			if pp := p.All["github.com/goose-lang/primitive"]; pp != nil {
				if pt, ok := pp.Types.Scope().Lookup("ProphId").(*types.TypeName); ok {
					okA = types.Identical(tn.Type(), pt.Type())
				}
			}
		}
		pos := token.NoPos
		if tn != nil {
			pos = tn.Pos()
		}
		r.Check("R16d", "machine.ProphId alias", pos, okA, "must be an alias of primitive.ProphId")
	}
	if f := p.Func(machinePkg, "Sleep"); f != nil {
		r.Func(FuncName(f))
		ok, why := false, "no time.Sleep call"
		for _, in := range realInstrs(f) {
			if c, isCall := in.(*ssa.Call); isCall && calleeName(c) == "time.Sleep" {
				// time.Duration(ns) [* time.Nanosecond]
				a := c.Call.Args[0]
				if b, isB := a.(*ssa.BinOp); isB && b.Op == token.MUL {
					if one, okc := constInt(b.Y); okc && one == 1 {
						a = b.X
					} else if one, okc := constInt(b.X); okc && one == 1 {
						a = b.Y
					}
				}
				if cv, isC := a.(*ssa.Convert); isC && cv.X == ssa.Value(f.Params[0]) {
					ok = true
				} else {
					why = "sleeps for " + sk(c.Call.Args[0]) + ", expected the argument in nanoseconds"
				}
			}
		}
		r.Check("R16d", "machine.Sleep unit", f.Pos(), ok, why)
	} else {
		r.Anchor("R16d", "machine.Sleep")
	}
	if f := p.Func(machinePkg, "Linearize"); f != nil {
		r.Check("R16d", "machine.Linearize is empty", f.Pos(), len(realInstrs(f)) == 1, "Linearize must have no effect")
	} else {
		r.Anchor("R16d", "machine.Linearize")
	}
}

// evalBoolCFG walks f's CFG with its single bool parameter fixed to cv.
func evalBoolCFG(p *Prog, f *ssa.Function, cv bool) (panics, returns bool, undecided string) {
	if len(f.Params) != 1 {
		return false, false, "expected exactly one parameter"
	}
	param := ssa.Value(f.Params[0])
	var eval func(v ssa.Value) (bool, bool)
	eval = func(v ssa.Value) (bool, bool) {
		if v == param {
			return cv, true
		}
		if u, ok := v.(*ssa.UnOp); ok && u.Op == token.NOT {
			x, ok := eval(u.X)
			return !x, ok
		}
		if c, ok := v.(*ssa.Const); ok && c.Value != nil {
			s := c.Value.String()
			if s == "true" {
				return true, true
			}
			if s == "false" {
				return false, true
			}
		}
		if b, ok := v.(*ssa.BinOp); ok && (b.Op == token.EQL || b.Op == token.NEQ) {
			x, ok1 := eval(b.X)
			y, ok2 := eval(b.Y)
			if ok1 && ok2 {
				if b.Op == token.EQL {
					return x == y, true
				}
				return x != y, true
			}
		}
		return false, false
	}
	seen := map[*ssa.BasicBlock]bool{}
	var walk func(b *ssa.BasicBlock)
	walk = func(b *ssa.BasicBlock) {
		if seen[b] || undecided != "" {
			return
		}
		seen[b] = true
		for _, in := range b.Instrs {
			switch x := in.(type) {
			case *ssa.Panic:
				panics = true
				return
			case *ssa.Return:
				returns = true
				return
			case *ssa.Call:
				cal := calleeOf(&x.Call)
				if cal != nil && p.NoReturn(cal) {
					panics = true
					return
				}
				if cal == nil || (cal.Pkg != nil && InRepo(cal.Pkg.Pkg.Path())) {
					// calls that may themselves panic or change state make the verdict depend on more than c
					undecided = "call " + calleeName(x)
					return
				}
			case *ssa.Store, *ssa.MapUpdate, *ssa.Go, *ssa.Defer:
				undecided = "side effect " + in.String()
				return
			case *ssa.If:
				v, ok := eval(x.Cond)
				if !ok {
					undecided = sk(x.Cond)
					return
				}
				if v {
					walk(b.Succs[0])
				} else {
					walk(b.Succs[1])
				}
				return
			case *ssa.Jump:
				walk(b.Succs[0])
				return
			}
		}
	}
	if len(f.Blocks) > 0 {
		walk(f.Blocks[0])
	}
	return
}

var _ = sort.Strings
var _ = strings.Join

// holdsLittleEndian: g is a package-level variable of the repository initialised with
// encoding/binary.LittleEndian and assigned nowhere else.
func holdsLittleEndian(g *ssa.Global) bool {
	p := curProg
	if p == nil || g.Pkg == nil || !InRepo(g.Pkg.Pkg.Path()) {
		return false
	}
	ini := g.Pkg.Func("init")
	if ini == nil {
		return false
	}
	n, ok := 0, true
	p.instrs(ini, func(b *ssa.BasicBlock, i int, in ssa.Instruction) {
		if st, isSt := in.(*ssa.Store); isSt && st.Addr == ssa.Value(g) {
			n++
			ld, isLd := st.Val.(*ssa.UnOp)
			if !isLd {
				ok = false
				return
			}
			src, isG := ld.X.(*ssa.Global)
			if !isG || src.Pkg.Pkg.Path() != "encoding/binary" || src.Name() != "LittleEndian" {
				ok = false
			}
		}
	})
	for _, fn := range p.srcFuncs {
		if fn == ini {
			continue
		}
		p.instrs(fn, func(b *ssa.BasicBlock, i int, in ssa.Instruction) {
			if st, isSt := in.(*ssa.Store); isSt && st.Addr == ssa.Value(g) {
				ok = false
			}
		})
	}
	return ok && n == 1
}

// evalBoolPaths: evaluation of f(c bool, …) under c = cv on its abstract interprocedural paths. ok is false
// when some branch on a path depends on anything but c.
func evalBoolPaths(p *Prog, f *ssa.Function, cv bool) (pan, ret, ok bool) {
	if len(f.Params) == 0 {
		return false, false, false
	}
	c := f.Params[0].Name()
	ips, okp := p.ipaths(f)
	if !okp || len(ips) == 0 {
		return false, false, false
	}
	t, fl := c+" == true", c+" == false"
	t2, fl2 := "true == "+c, "false == "+c
	for _, ip := range ips {
		isT := ip.Rels[t] || ip.Rels[t2]
		isF := ip.Rels[fl] || ip.Rels[fl2]
		for k := range ip.Rels {
			if k != t && k != fl && k != t2 && k != fl2 {
				return false, false, false
			}
		}
		if cv && isF || !cv && isT {
			continue // not taken under this value
		}
		switch ip.Exit {
		case "panic":
			pan = true
		case "return":
			ret = true
		}
	}
	return pan, ret, true
}
