package main

import (
	"fmt"
	"go/types"
	"strings"

	"golang.org/x/tools/go/ssa"
)

// addressPrinting: fmt's %v of a value of this type shows addresses or file-set positions — a pointer to a struct
// without a String/Error method (fmt prints &{fields…}, and go/ast nodes carry token.Pos values and pointers to
// other nodes), a go/ast interface value, a raw pointer, a func or a channel.
func addressPrinting(t types.Type) (string, bool) {
	hasStringer := func(t types.Type) bool {
		for _, m := range []string{"String", "Error", "Format"} {
			if obj, _, _ := types.LookupFieldOrMethod(t, true, nil, m); obj != nil {
				if _, isF := obj.(*types.Func); isF {
					return true
				}
			}
		}
		return false
	}
	if hasStringer(t) {
		return "", false
	}
	switch u := t.Underlying().(type) {
	case *types.Pointer:
		return "a pointer (fmt prints the address, or &{…} with the addresses and positions stored in the fields)", true
	case *types.Signature, *types.Chan:
		return "a func or channel value (printed as an address)", true
	case *types.Interface:
		if n, ok := t.(*types.Named); ok && n.Obj().Pkg() != nil && n.Obj().Pkg().Path() == "go/ast" {
			return "a go/ast node (its dynamic value is a pointer to a struct holding token.Pos values and pointers)", true
		}
		_ = u
	}
	return "", false
}

// c06MessageOperands (R06g): the text of a structured error is a function of the source. Every operand that a
// reporter call (a no-return function of the translator taking a format and operands) formats into the message is
// text, a number, or a value with a String method; an operand whose default formatting shows addresses or file-set
// positions makes the error list differ from run to run (go/packages parses files concurrently, so even token.Pos
// values are not stable).
func c06MessageOperands(p *Prog, r *Report) {
	r.Rule("R06g", "deterministic messages: no operand formatted into a structured-error message (the variadic operands of a no-return reporter of the translator) has a type whose default formatting shows addresses or file-set positions (a pointer to a struct without a String method, a go/ast node, a func); such operands go through the source printer", 20)
	for _, f := range p.FuncsIn(Mod) {
		p.instrs(f, func(b *ssa.BasicBlock, i int, in ssa.Instruction) {
			c, ok := in.(*ssa.Call)
			if !ok {
				return
			}
			cal := calleeOf(&c.Call)
			if cal == nil || cal.Pkg == nil || cal.Pkg.Pkg.Path() != Mod || !p.NoReturn(cal) || !cal.Signature.Variadic() {
				return
			}
			// reporter shape: (…, format string, operands ...interface{})
			np := cal.Signature.Params().Len()
			if np < 2 {
				return
			}
			if b, ok := cal.Signature.Params().At(np - 2).Type().Underlying().(*types.Basic); !ok || b.Info()&types.IsString == 0 {
				return
			}
			// the verb each operand is printed with (%T shows only the type's name)
			var verbs []byte
			if fs, ok := constString(c.Call.Args[len(c.Call.Args)-2]); ok {
				for j := 0; j < len(fs); j++ {
					if fs[j] != '%' {
						continue
					}
					j++
					for j < len(fs) && strings.ContainsRune("+-# 0123456789.[]*", rune(fs[j])) {
						j++
					}
					if j < len(fs) && fs[j] != '%' {
						verbs = append(verbs, fs[j])
					}
				}
			}
			va := c.Call.Args[len(c.Call.Args)-1]
			sl, ok := va.(*ssa.Slice)
			if !ok {
				return // no operands (nil slice)
			}
			al, ok := sl.X.(*ssa.Alloc)
			if !ok {
				return
			}
			for _, rf := range refs(al) {
				ia, ok := rf.(*ssa.IndexAddr)
				if !ok {
					continue
				}
				for _, r2 := range refs(ia) {
					st, ok := r2.(*ssa.Store)
					if !ok {
						continue
					}
					v := st.Val
					if mi, ok := v.(*ssa.MakeInterface); ok {
						v = mi.X
					}
					if ci, ok := v.(*ssa.ChangeInterface); ok {
						v = ci.X
					}
					r.Sites++
					idx, _ := constInt(ia.Index)
					key := fmt.Sprintf("%s message operand %d of %s: %s", FuncName(f), idx, cal.Name(), strings.TrimPrefix(types.TypeString(v.Type(), nil), "*"))
					why, bad := addressPrinting(v.Type())
					if int(idx) < len(verbs) && verbs[idx] == 'T' {
						bad = false
					}
					r.Check("R06g", key, instrPos(c), !bad, fmt.Sprintf("the operand %s is %s: the message text changes from run to run", sk(v), why))
				}
			}
		})
	}
}
