package main

import (
	"fmt"
	"go/token"
	"go/types"
	"sort"
	"strings"

	"golang.org/x/tools/go/ssa"
)

const fsPkg = Mod + "/machine/filesys"

type fsImpl struct {
	Named   *types.Named
	Name    string
	Ptr     bool
	Methods map[string]*ssa.Function // interface methods
	Helpers map[*ssa.Function]bool   // other methods of the type
	InMem   bool                     // has map-typed fields and a mutex
	Mutex   string
}

type fsCtx struct {
	p     *Prog
	pkg   *ssa.Package
	iface *types.Interface
	impls []*fsImpl
	fileT types.Type
	ctors map[*ssa.Function]bool
}

func newFsCtx(p *Prog, r *Report, rule string) *fsCtx {
	sp := p.SSAPkg[fsPkg]
	if sp == nil {
		r.Anchor(rule, "package "+fsPkg)
		return nil
	}
	fc := &fsCtx{p: p, pkg: sp, ctors: map[*ssa.Function]bool{}}
	if tn, ok := sp.Pkg.Scope().Lookup("Filesys").(*types.TypeName); ok {
		fc.iface, _ = tn.Type().Underlying().(*types.Interface)
	}
	if tn, ok := sp.Pkg.Scope().Lookup("File").(*types.TypeName); ok {
		fc.fileT = tn.Type()
	}
	if fc.iface == nil || fc.fileT == nil {
		r.Anchor(rule, "filesys.Filesys / filesys.File")
		return nil
	}
	for _, name := range sp.Pkg.Scope().Names() {
		tn, ok := sp.Pkg.Scope().Lookup(name).(*types.TypeName)
		if !ok || tn.IsAlias() {
			continue
		}
		n, ok := tn.Type().(*types.Named)
		if !ok || types.IsInterface(n) {
			continue
		}
		byVal := types.Implements(n, fc.iface)
		byPtr := types.Implements(types.NewPointer(n), fc.iface)
		if !byVal && !byPtr {
			continue
		}
		im := &fsImpl{Named: n, Name: name, Ptr: !byVal, Methods: map[string]*ssa.Function{}, Helpers: map[*ssa.Function]bool{}}
		isIface := map[string]bool{}
		for i := 0; i < fc.iface.NumMethods(); i++ {
			mn := fc.iface.Method(i).Name()
			isIface[mn] = true
			if f := p.Func(fsPkg, name+"."+mn); f != nil {
				im.Methods[mn] = f
			}
		}
		for i := 0; i < n.NumMethods(); i++ {
			m := n.Method(i)
			if !isIface[m.Name()] {
				if f := p.SSA.FuncValue(m); f != nil {
					im.Helpers[f] = true
				}
			}
		}
		if st, ok := n.Underlying().(*types.Struct); ok {
			for i := 0; i < st.NumFields(); i++ {
				if _, isMap := st.Field(i).Type().Underlying().(*types.Map); isMap {
					im.InMem = true
				}
			}
		}
		if mfs := mutexFields(n); len(mfs) == 1 {
			im.Mutex = mfs[0]
		}
		fc.impls = append(fc.impls, im)
	}
	sort.Slice(fc.impls, func(i, j int) bool { return fc.impls[i].Name < fc.impls[j].Name })
	for _, f := range p.FuncsIn(fsPkg) {
		if f.Signature.Recv() != nil || f.Parent() != nil {
			continue
		}
		res := f.Signature.Results()
		for i := 0; i < res.Len(); i++ {
			for _, im := range fc.impls {
				if types.Identical(deref(res.At(i).Type()), im.Named) {
					fc.ctors[f] = true
				}
			}
		}
	}
	return fc
}

func (fc *fsCtx) memImpl() *fsImpl {
	for _, im := range fc.impls {
		if im.InMem {
			return im
		}
	}
	return nil
}

func (fc *fsCtx) dirImpl() *fsImpl {
	for _, im := range fc.impls {
		if !im.InMem {
			return im
		}
	}
	return nil
}

// mapFieldOf: if v is a loaded map field of impl, return its field name.
func (fc *fsCtx) mapFieldOf(im *fsImpl, v ssa.Value) (string, bool) {
	o, fld, ok := fieldOf(v)
	if !ok || !types.Identical(o, im.Named) {
		return "", false
	}
	if _, isMap := v.Type().Underlying().(*types.Map); !isMap {
		return "", false
	}
	return fld, true
}

// inodeField: the map field whose values are file contents ([]byte).
func (fc *fsCtx) contentField(im *fsImpl) string {
	st := im.Named.Underlying().(*types.Struct)
	for i := 0; i < st.NumFields(); i++ {
		if m, ok := st.Field(i).Type().Underlying().(*types.Map); ok {
			if s, ok := m.Elem().Underlying().(*types.Slice); ok {
				if b, ok := s.Elem().Underlying().(*types.Basic); ok && b.Kind() == types.Uint8 {
					return st.Field(i).Name()
				}
			}
		}
	}
	return ""
}

// direntField: the map field from a path key (struct) to an inode number.
func (fc *fsCtx) direntField(im *fsImpl) string {
	st := im.Named.Underlying().(*types.Struct)
	for i := 0; i < st.NumFields(); i++ {
		if m, ok := st.Field(i).Type().Underlying().(*types.Map); ok {
			if _, ok := m.Key().Underlying().(*types.Struct); ok {
				return st.Field(i).Name()
			}
		}
	}
	return ""
}

// allocator: the helper that hands out fresh inode numbers: an int-returning
// helper method with no parameters besides the receiver.
func (fc *fsCtx) allocator(im *fsImpl) *ssa.Function {
	var cands []*ssa.Function
	for h := range im.Helpers {
		if len(h.Params) == 1 && h.Signature.Results().Len() == 1 {
			if b, ok := h.Signature.Results().At(0).Type().Underlying().(*types.Basic); ok && b.Kind() == types.Int {
				cands = append(cands, h)
			}
		}
	}
	if len(cands) == 1 {
		return cands[0]
	}
	return nil
}

// ---------------------------------------------------------------------------
// C14

func checkC14(p *Prog, r *Report) {
	r.Rule("R14a", "lockset on the in-memory filesystem: every read of its maps happens with its mutex held, every insert/delete with it held exclusively; helper methods are analysed with the locks of their call sites (so a helper called before Lock is flagged); every return has released the mutex and every panic while it is held is covered by a deferred unlock; the mutex is reached through the pointer receiver", 60)
	r.Rule("R14b", "descriptor allocator: the contents map is insert-only (no delete, no reassignment outside the constructor), the allocator's result is len(contents map)+c with c>=1 (hence strictly fresh while the map is insert-only) or an incremented counter, and every insertion of a new key uses the allocator's result obtained in the same critical section", 4)
	r.Rule("R14c", "directory-backed implementation: Create opens with O_CREAT|O_EXCL (the kernel decides the single winner); its methods write no receiver field and no package-level variable (no in-process shared state)", 3)
	r.Assume = append(r.Assume, "sync.Mutex provides mutual exclusion; openat(O_CREAT|O_EXCL), linkat, renameat, unlinkat are atomic in the kernel", "linearizability against the reference model is not decided")
	fc := newFsCtx(p, r, "R14a")
	if fc == nil {
		return
	}
	mem, dir := fc.memImpl(), fc.dirImpl()
	if mem == nil || dir == nil {
		r.Unknown("R14a", "implementations", token.NoPos, "need one in-memory (map fields) and one directory-backed implementation of filesys.Filesys")
		return
	}
	if mem.Mutex == "" {
		r.Fail("R14a", mem.Name+" mutex", mem.Named.Obj().Pos(), "in-memory filesystem must have exactly one mutex field", "")
	} else {
		ls := lockSpec{rule: "R14a", typeName: mem.Name, methods: mem.Methods, helpers: fc.helperScope(mem), mutex: mem.Mutex,
			protected: func(o *types.Named, f string) bool {
				st := o.Underlying().(*types.Struct)
				for i := 0; i < st.NumFields(); i++ {
					if st.Field(i).Name() == f {
						_, isMap := st.Field(i).Type().Underlying().(*types.Map)
						return isMap
					}
				}
				return false
			}}
		p.runLockRules(r, ls, mem.Named)
		reg, _ := fc.regionOf(mem)
		for _, f := range reg {
			p.lockIdentity(r, "R14a", mem.Name, f)
		}
	}
	fc.ruleAllocator2(r, mem)
	fc.ruleDirShared(r, dir)
}

func (fc *fsCtx) allFuncsOf(im *fsImpl) []*ssa.Function {
	var fs []*ssa.Function
	for _, mn := range sortedKeys(im.Methods) {
		fs = append(fs, im.Methods[mn])
	}
	var hs []*ssa.Function
	for h := range im.Helpers {
		hs = append(hs, h)
	}
	sort.Slice(hs, func(i, j int) bool { return hs[i].Name() < hs[j].Name() })
	return append(fs, hs...)
}

func (fc *fsCtx) ruleAllocator(r *Report, im *fsImpl) {
	p := fc.p
	cf := fc.contentField(im)
	if cf == "" {
		r.Unknown("R14b", im.Name+" contents map", im.Named.Obj().Pos(), "no map field with []byte values")
		return
	}
	alloc := fc.allocator(im)
	// (1) insert-only
	nDel := 0
	for _, f := range p.FuncsIn(fsPkg) {
		p.instrs(f, func(b *ssa.BasicBlock, i int, in ssa.Instruction) {
			if c, ok := in.(*ssa.Call); ok {
				if bi, ok := c.Call.Value.(*ssa.Builtin); ok && (bi.Name() == "delete" || bi.Name() == "clear") {
					if fld, ok := fc.mapFieldOf(im, c.Call.Args[0]); ok && fld == cf {
						nDel++
						r.Fail("R14b", fmt.Sprintf("%s.%s %s(%s)", im.Name, f.Name(), bi.Name(), cf), instrPos(in),
							"an entry of the contents map is removed: len(map) shrinks, so the allocator hands out a number that is still in use (and a deleted file is no longer readable through open descriptors)", "")
					}
				}
			}
			if st, ok := in.(*ssa.Store); ok {
				if o, fld, ok := fieldOf(st.Addr); ok && types.Identical(o, im.Named) && fld == cf {
					_, fresh := st.Addr.(*ssa.FieldAddr).X.(*ssa.Alloc)
					r.Check("R14b", fmt.Sprintf("%s.%s reassigns %s", im.Name, f.Name(), cf), instrPos(in), fc.ctors[f] && fresh,
						"the contents map is replaced outside the constructor")
				}
			}
		})
	}
	if nDel == 0 {
		r.OK("R14b", im.Name+"."+cf+" insert-only", im.Named.Obj().Pos(), "no delete/clear of the contents map in the package")
	}
	// (2) allocator shape
	if alloc == nil {
		r.Unknown("R14b", im.Name+" allocator", im.Named.Obj().Pos(), "cannot identify the descriptor allocator (a parameterless int-returning helper method)")
		return
	}
	r.Func(FuncName(alloc))
	okShape, why := false, ""
	for _, b := range alloc.Blocks {
		for _, in := range b.Instrs {
			ret, ok := in.(*ssa.Return)
			if !ok {
				continue
			}
			k := sk(ret.Results[0])
			recv := alloc.Params[0].Name()
			for c := 1; c < 4; c++ {
				if k == fmt.Sprintf("(len(%s.%s) + %d)", recv, cf, c) {
					okShape = true
				}
			}
			why = "allocator returns " + k
		}
	}
	if !okShape {
		// counter idiom: a field incremented by a positive constant and returned
		p.instrs(alloc, func(b *ssa.BasicBlock, i int, in ssa.Instruction) {
			if st, ok := in.(*ssa.Store); ok {
				if bo, ok := st.Val.(*ssa.BinOp); ok && bo.Op == token.ADD {
					if c, ok := constInt(bo.Y); ok && c >= 1 && sk(bo.X) == sk(st.Addr) {
						okShape = true
					}
				}
			}
		})
	}
	r.Check("R14b", im.Name+" allocator shape", alloc.Pos(), okShape, why+"; expected len("+cf+")+c (c>=1) with an insert-only map, or an incremented counter")
	// (3) insertions use the allocator
	for _, f := range fc.allFuncsOf(im) {
		p.instrs(f, func(b *ssa.BasicBlock, i int, in ssa.Instruction) {
			mu, ok := in.(*ssa.MapUpdate)
			if !ok {
				return
			}
			fld, ok := fc.mapFieldOf(im, mu.Map)
			if !ok || fld != cf {
				return
			}
			r.Sites++
			fresh, existing := false, false
			for _, o := range origins(mu.Key) {
				if c, ok := o.(*ssa.Call); ok {
					if cal := calleeOf(&c.Call); cal == alloc {
						fresh = true
					} else if cal != nil && im.Helpers[cal] {
						existing = true // e.g. a descriptor validated by a helper: update of an existing file
					}
				}
			}
			r.Check("R14b", fmt.Sprintf("%s.%s insert into %s", im.Name, f.Name(), cf), instrPos(in), fresh || existing,
				"key is "+sk(mu.Key)+": a new entry must be keyed by the allocator's result, an update by a descriptor validated by a helper")
		})
	}
}

func (fc *fsCtx) ruleDirShared(r *Report, dir *fsImpl) {
	p := fc.p
	if f := dir.Methods["Create"]; f != nil {
		found := false
		p.instrs(f, func(b *ssa.BasicBlock, i int, in ssa.Instruction) {
			if c, name, ok := unixCall(in); ok && (name == "Openat" || name == "Open") {
				found = true
				flags, okc := constInt(c.Call.Args[len(c.Call.Args)-2])
				oc, _ := unixConst(p, "O_CREAT")
				ox, _ := unixConst(p, "O_EXCL")
				r.Check("R14c", dir.Name+".Create flags", instrPos(in), okc && flags&oc != 0 && flags&ox != 0,
					fmt.Sprintf("flags=%#x: Create must use O_CREAT|O_EXCL so that exactly one concurrent Create of a name succeeds", flags))
			}
		})
		// exactly one creating syscall: no probe-then-create
		n := 0
		p.instrs(f, func(b *ssa.BasicBlock, i int, in ssa.Instruction) {
			if _, _, ok := unixCall(in); ok {
				n++
			}
		})
		r.Check("R14c", dir.Name+".Create single syscall", f.Pos(), found && n == 1,
			fmt.Sprintf("Create issues %d system calls; existence test and creation must be one atomic openat", n))
	} else {
		r.Anchor("R14c", dir.Name+".Create")
	}
	for _, f := range fc.allFuncsOf(dir) {
		bad := []string{}
		p.instrs(f, func(b *ssa.BasicBlock, i int, in ssa.Instruction) {
			st, ok := in.(*ssa.Store)
			if !ok {
				return
			}
			if g, ok := st.Addr.(*ssa.Global); ok {
				bad = append(bad, "global "+g.Name())
			}
			if o, fld, ok := fieldOf(st.Addr); ok && types.Identical(o, dir.Named) {
				if _, local := st.Addr.(*ssa.FieldAddr).X.(*ssa.Alloc); !local {
					bad = append(bad, "field "+fld)
				}
			}
		})
		r.Check("R14c", dir.Name+"."+f.Name()+" no shared writes", f.Pos(), len(bad) == 0, "writes in-process shared state: "+strings.Join(bad, ", "))
	}
}

// ---------------------------------------------------------------------------
// C12

func byteSliceType(t types.Type) bool {
	s, ok := t.Underlying().(*types.Slice)
	if !ok {
		return false
	}
	b, ok := s.Elem().Underlying().(*types.Basic)
	return ok && b.Kind() == types.Uint8
}

func checkC12(p *Prog, r *Report) {
	r.Rule("R12a", "descriptor provenance: the File returned by Create/Open originates from a fresh allocation (the allocator helper, a kernel openat), never from a lookup in persistent directory state — otherwise two opens of one file share a descriptor", 4)
	r.Rule("R12b", "no aliasing: byte-slice parameters reach file contents only through copy/append-as-source/write syscalls (never stored, returned or used as an append base); byte slices returned by ReadAt are allocated in ReadAt (never a sub-slice of stored contents)", 6)
	r.Rule("R12c", "Create has no side effect when the name exists: in the in-memory implementation every map update of Create is reached only when the directory lookup failed; in the directory implementation Create is a single O_EXCL openat", 3)
	r.Rule("R12d", "sibling shape: both implementations implement filesys.Filesys and every package-level wrapper forwards to the same-named method of the global Fs with parameters in order", 9)
	r.Rule("R12e", "ReadAt shape in both implementations: result = buf[:n] where buf = make([]byte, length) for the length parameter, n is the count of copy/pread into buf from the offset parameter, and (in memory) offset < len(contents) holds; Link stores the existing inode number of the old name; Delete removes only the directory entry", 6)
	r.Assume = append(r.Assume, "kernel semantics of openat/pread/linkat/unlinkat", "equality with a reference model over all histories is not decided")
	fc := newFsCtx(p, r, "R12a")
	if fc == nil {
		return
	}
	mem, dir := fc.memImpl(), fc.dirImpl()
	if mem == nil || dir == nil {
		r.Unknown("R12a", "implementations", token.NoPos, "need one in-memory and one directory-backed implementation")
		return
	}
	fc.ruleDescriptorProvenance(r, mem)
	fc.ruleNoAliasing(r, mem)
	fc.ruleCreateGuard(r, mem)
	// R12d
	for _, im := range fc.impls {
		var T types.Type = im.Named
		if im.Ptr {
			T = types.NewPointer(im.Named)
		}
		r.Check("R12d", im.Name+" implements Filesys", im.Named.Obj().Pos(), types.Implements(T, fc.iface), "")
	}
	for i := 0; i < fc.iface.NumMethods(); i++ {
		mn := fc.iface.Method(i).Name()
		f := p.Func(fsPkg, mn)
		if f == nil {
			continue
		}
		p.checkForwarderGeneric(r, "R12d", f, "invoke:Filesys."+mn, "filesys.Fs")
	}
	// R12e
	fc.ruleReadAt2(r, mem, dir)
	fc.ruleLinkDelete2(r, mem)
	// contents clause of AtomicCreate, shared with C13 (filed there as R13c / R13e)
	declareC13Rules(r)
	fc.ruleAtomicCreateDir2(r, dir, false)
	fc.ruleAtomicCreateMem2(r, mem)
	for _, id := range []string{"R13a", "R13b", "R13d", "R13f"} {
		if ri := r.ruleIdx[id]; ri != nil {
			ri.Min = 0
			ri.Text = "(decided under C13)"
		}
	}
}

func (fc *fsCtx) checkFsForwarder(r *Report, f *ssa.Function, mn string) {
	key := "wrapper " + FuncName(f)
	var calls []*ssa.Call
	nret := 0
	for _, b := range f.Blocks {
		for _, in := range b.Instrs {
			switch x := in.(type) {
			case *ssa.Call:
				calls = append(calls, x)
			case *ssa.Return:
				nret++
			}
		}
	}
	ok, why := true, ""
	if len(f.Blocks) != 1 || len(calls) != 1 || nret != 1 {
		ok, why = false, "not a single forwarding call"
	} else {
		c := &calls[0].Call
		if !c.IsInvoke() || c.Method.Name() != mn {
			ok, why = false, "does not invoke "+mn
		} else if ld, isLoad := c.Value.(*ssa.UnOp); !isLoad {
			ok, why = false, "receiver is not the global Fs"
		} else if g, isG := ld.X.(*ssa.Global); !isG || g.Name() != "Fs" {
			ok, why = false, "receiver is not the global Fs"
		}
		if ok && len(c.Args) == len(f.Params) {
			for i, a := range c.Args {
				if a != ssa.Value(f.Params[i]) {
					ok, why = false, fmt.Sprintf("argument %d is not parameter %s", i, f.Params[i].Name())
				}
			}
		} else if ok {
			ok, why = false, "argument count"
		}
	}
	r.Check("R12d", key, f.Pos(), ok, why)
}

func (fc *fsCtx) ruleReadAt(r *Report, mem, dir *fsImpl) {
	p := fc.p
	for _, im := range []*fsImpl{mem, dir} {
		f := im.Methods["ReadAt"]
		if f == nil {
			r.Anchor("R12e", im.Name+".ReadAt")
			continue
		}
		r.Func(FuncName(f))
		// parameters: recv, f, offset, length
		if len(f.Params) != 4 {
			r.Unknown("R12e", im.Name+".ReadAt params", f.Pos(), "unexpected signature")
			continue
		}
		offP, lenP := f.Params[2], f.Params[3]
		rm := p.Rels(f)
		nRet := 0
		p.instrs(f, func(b *ssa.BasicBlock, i int, in ssa.Instruction) {
			ret, ok := in.(*ssa.Return)
			if !ok {
				return
			}
			for _, o := range origins(ret.Results[0]) {
				if c, ok := o.(*ssa.Const); ok && c.Value == nil {
					// nil result: allowed only when offset >= len(contents) (nothing exists there)
					continue
				}
			}
			// find the Slice values reaching this return
			var slices []*ssa.Slice
			var walk func(v ssa.Value, seen map[ssa.Value]bool)
			walk = func(v ssa.Value, seen map[ssa.Value]bool) {
				if seen[v] {
					return
				}
				seen[v] = true
				switch x := v.(type) {
				case *ssa.Slice:
					slices = append(slices, x)
				case *ssa.UnOp:
					if a, ok := x.X.(*ssa.Alloc); ok {
						for _, rf := range refs(a) {
							if st, ok := rf.(*ssa.Store); ok && st.Addr == ssa.Value(a) {
								walk(st.Val, seen)
							}
						}
					}
				case *ssa.Phi:
					for _, e := range x.Edges {
						walk(e, seen)
					}
				}
			}
			walk(ret.Results[0], map[ssa.Value]bool{})
			for _, sl := range slices {
				nRet++
				ms, isMake := sl.X.(*ssa.MakeSlice)
				okBuf := isMake && stripConv(ms.Len) == ssa.Value(lenP)
				r.Check("R12e", im.Name+".ReadAt buffer is make(length)", instrPos(sl), okBuf, "result buffer is "+sk(sl.X)+", must be make([]byte, length)")
				// High bound = count of copy/pread into that buffer
				okN, src := false, ""
				if sl.Low == nil && sl.High != nil {
					switch h := sl.High.(type) {
					case *ssa.Call: // copy
						if bi, ok := h.Call.Value.(*ssa.Builtin); ok && bi.Name() == "copy" && h.Call.Args[0] == sl.X {
							okN = true
							src = sk(h.Call.Args[1])
							// source must be contents[offset:]
							if s2, ok := h.Call.Args[1].(*ssa.Slice); ok {
								okSrc := s2.Low != nil && stripConv(s2.Low) == ssa.Value(offP) && s2.High == nil
								r.Check("R12e", im.Name+".ReadAt source is contents[offset:]", instrPos(h), okSrc, "copy source is "+src)
								// offset < len(contents) must hold (else the slice expression panics)
								rs := p.RelsAt(rm, s2)
								want := offP.Name() + " < uint64(len(" + sk(s2.X) + "))"
								r.Check("R12e", im.Name+".ReadAt offset in range", instrPos(s2), rs[want], fmt.Sprintf("need fact `%s`; facts: %v", want, relList(rs)))
							} else {
								r.Fail("R12e", im.Name+".ReadAt source is contents[offset:]", instrPos(h), "copy source is "+src, "")
							}
						}
					case *ssa.Extract: // pread count
						if c, ok := h.Tuple.(*ssa.Call); ok {
							if cal := calleeOf(&c.Call); cal != nil && fullName(cal) == "golang.org/x/sys/unix.Pread" && h.Index == 0 && c.Call.Args[1] == sl.X {
								okN = true
								okOff := stripConv(c.Call.Args[2]) == ssa.Value(offP)
								r.Check("R12e", im.Name+".ReadAt pread offset", instrPos(c), okOff, "pread offset is "+sk(c.Call.Args[2])+", must be the offset parameter")
							}
						}
					}
				}
				r.Check("R12e", im.Name+".ReadAt result is buf[:n]", instrPos(sl), okN, "result is "+sk(sl)+": must be buf[:n] with n the number of bytes copied/read into buf")
			}
		})
		if nRet == 0 {
			r.Unknown("R12e", im.Name+".ReadAt result", f.Pos(), "no sliced result recognised")
		}
	}
}

func (fc *fsCtx) ruleLinkDelete(r *Report, mem *fsImpl) {
	p := fc.p
	df := fc.direntField(mem)
	if f := mem.Methods["Link"]; f != nil {
		p.instrs(f, func(b *ssa.BasicBlock, i int, in ssa.Instruction) {
			mu, ok := in.(*ssa.MapUpdate)
			if !ok {
				return
			}
			fld, _ := fc.mapFieldOf(mem, mu.Map)
			if fld != df {
				r.Fail("R12e", mem.Name+".Link updates "+fld, instrPos(in), "Link must only add a directory entry", "")
				return
			}
			// value = lookup of the old name in the directory map
			okv := false
			for _, o := range origins(mu.Value) {
				if ex, ok := o.(*ssa.Extract); ok {
					if lk, ok := ex.Tuple.(*ssa.Lookup); ok {
						if f2, ok := fc.mapFieldOf(mem, lk.X); ok && f2 == df {
							d := paramDeps(lk.Index)
							if d[f.Params[1].Name()] && d[f.Params[2].Name()] {
								okv = true
							}
						}
					}
				}
			}
			kd := paramDeps(mu.Key)
			okk := len(f.Params) >= 5 && kd[f.Params[3].Name()] && kd[f.Params[4].Name()]
			r.Check("R12e", mem.Name+".Link shares the inode", instrPos(in), okv && okk, "the new entry must map (newDir,newName) to the inode number found under (oldDir,oldName)")
		})
	}
	if f := mem.Methods["Delete"]; f != nil {
		n := 0
		p.instrs(f, func(b *ssa.BasicBlock, i int, in ssa.Instruction) {
			switch x := in.(type) {
			case *ssa.MapUpdate:
				r.Fail("R12e", mem.Name+".Delete map update", instrPos(in), "Delete must not insert", "")
			case *ssa.Call:
				if bi, ok := x.Call.Value.(*ssa.Builtin); ok && bi.Name() == "delete" {
					n++
					fld, _ := fc.mapFieldOf(mem, x.Call.Args[0])
					d := paramDeps(x.Call.Args[1])
					r.Check("R12e", mem.Name+".Delete removes the directory entry only", instrPos(in), fld == df && d[f.Params[1].Name()] && d[f.Params[2].Name()],
						"delete on "+fld+": must remove exactly the (dir,fname) directory entry; contents stay readable through open descriptors and other links")
				}
			}
		})
		if n == 0 {
			r.Fail("R12e", mem.Name+".Delete removes the directory entry only", f.Pos(), "no delete of a directory entry", "")
		}
	}
}

// ---------------------------------------------------------------------------
// C13

func checkC13(p *Prog, r *Report) {
	declareC13Rules(r)
	r.Assume = append(r.Assume, "rename(2) atomically replaces the destination; fsync makes the data durable; O_TRUNC empties an existing file", "crash-point atomicity of the host filesystem is not decided")
	fc := newFsCtx(p, r, "R13a")
	if fc == nil {
		return
	}
	mem, dir := fc.memImpl(), fc.dirImpl()
	if mem == nil || dir == nil {
		r.Unknown("R13a", "implementations", token.NoPos, "need one in-memory and one directory-backed implementation")
		return
	}
	fc.ruleAtomicCreateDir2(r, dir, true)
	fc.ruleAtomicCreateMem2(r, mem)
}

func declareC13Rules(r *Report) {
	r.Rule("R13a", "protocol order on every normally returning path of the directory-backed AtomicCreate: openat(staging) ≺ every write(fd) ≺ fsync(fd) ≺ renameat(staging → dir/name), nothing else in between; every error checked (a failure never reaches a normal return); the only discarded result is the deferred close, accepted because fsync precedes every return", 4)
	r.Rule("R13b", "write-all: the write count advances a loop over the remaining slice that exits only when nothing remains (fact len(rest) <= 0 at fsync), or the count is proven equal to len(data) before fsync", 1)
	r.Rule("R13c", "the staging file starts empty: open flags contain O_CREAT and (O_TRUNC or O_EXCL) and allow writing, or ftruncate(fd, 0) precedes the first write", 1)
	r.Rule("R13d", "staging path: the path opened and the rename source are the same value; source and destination use the same root descriptor; the destination is path.Join(dir, fname)", 3)
	r.Rule("R13e", "in-memory AtomicCreate installs a private copy (make(len(data)) + copy) under a fresh inode from the allocator and points (dir, fname) at it, all inside one critical section", 4)
	r.Rule("R13f", "staging path is unique per call (fresh component or O_EXCL), so concurrent calls for the same name cannot write through one shared temporary file", 1)
}

func (fc *fsCtx) ruleAtomicCreateDir(r *Report, dir *fsImpl, full bool) {
	p := fc.p
	f := dir.Methods["AtomicCreate"]
	if f == nil {
		r.Anchor("R13a", dir.Name+".AtomicCreate")
		return
	}
	r.Func(FuncName(f))
	if len(f.Params) != 4 {
		r.Unknown("R13a", "AtomicCreate signature", f.Pos(), "unexpected parameters")
		return
	}
	dirP, nameP, dataP := f.Params[1], f.Params[2], f.Params[3]
	var open, fsync, rename *ssa.Call
	var writes []*ssa.Call
	var others []string
	p.instrs(f, func(b *ssa.BasicBlock, i int, in ssa.Instruction) {
		c, name, ok := unixCall(in)
		if !ok {
			return
		}
		switch name {
		case "Openat":
			open = c
		case "Write":
			writes = append(writes, c)
		case "Fsync":
			fsync = c
		case "Renameat":
			rename = c
		case "Ftruncate":
		default:
			others = append(others, name)
		}
	})
	if open == nil || fsync == nil || rename == nil || len(writes) == 0 {
		r.Fail("R13a", dir.Name+".AtomicCreate protocol calls", f.Pos(),
			fmt.Sprintf("protocol needs openat, write, fsync and renameat; found openat=%v writes=%d fsync=%v renameat=%v", open != nil, len(writes), fsync != nil, rename != nil), "")
		return
	}
	fdKey := sk(open) + "#0"
	if full {
		r.Check("R13a", dir.Name+".AtomicCreate no other syscalls", f.Pos(), len(others) == 0, "unexpected system calls in the protocol: "+strings.Join(others, ","))
		// order by dominance
		for _, w := range writes {
			r.Check("R13a", dir.Name+".AtomicCreate open ≺ write", instrPos(w), dominatesInstr(open, w) && sk(w.Call.Args[0]) == fdKey, "write must follow the open and go to the staging descriptor")
			// write must not be reachable after fsync
			r.Check("R13a", dir.Name+".AtomicCreate write ≺ fsync", instrPos(w), !reachesInstr(fsync, w), "a write is reachable after fsync: data written after the flush is not durable when the name becomes visible")
		}
		r.Check("R13a", dir.Name+".AtomicCreate fsync target", instrPos(fsync), sk(fsync.Call.Args[0]) == fdKey, "fsync must flush the staging descriptor")
		r.Check("R13a", dir.Name+".AtomicCreate fsync ≺ rename", instrPos(rename), dominatesInstr(fsync, rename), "rename is reachable without a preceding fsync: the name can become visible before the data is durable")
		// every normal return passes through rename
		paths, okp := p.enumPaths(f, 1, 20000)
		bad := ""
		if !okp {
			bad = "too many paths"
		}
		for _, pt := range paths {
			if _, isRet := pt.endsInReturn(); !isRet {
				continue
			}
			if !pathHas(pt, rename) || !pathHas(pt, fsync) {
				bad = "a normal return is reachable without fsync+rename: " + pt.String()
			}
		}
		r.Check("R13a", dir.Name+".AtomicCreate returns only after rename", f.Pos(), bad == "", bad)
		// error discipline; deferred close accepted only because fsync dominates every normal return through rename
		p.syscallDiscipline(r, "R13a", dir.Name+".AtomicCreate", f, countSpec{expected: func(c *ssa.Call, name string) []string { return nil }},
			func(name string) bool { return name == "Close" && bad == "" && dominatesInstr(fsync, rename) })
		// R13b write-all
		okAll, why := false, ""
		rm := p.Rels(f)
		rsF := p.RelsAt(rm, fsync)
		for _, w := range writes {
			buf := w.Call.Args[1]
			var cnt ssa.Value
			for _, rf := range refs(w) {
				if ex, ok := rf.(*ssa.Extract); ok && ex.Index == 0 {
					cnt = ex
				}
			}
			if cnt == nil {
				why = "the write count is discarded"
				continue
			}
			if ph, ok := buf.(*ssa.Phi); ok && len(ph.Edges) == 2 {
				init, adv := false, false
				for _, e := range ph.Edges {
					if e == ssa.Value(dataP) {
						init = true
					}
					if sl, ok := e.(*ssa.Slice); ok && sl.X == ssa.Value(ph) && sl.Low == cnt && sl.High == nil {
						adv = true
					}
				}
				k := "len(" + sk(ph) + ")"
				exit := rsF[k+" <= 0"] || rsF[eqRel(k, "0")]
				if init && adv && exit {
					okAll = true
				} else {
					why = fmt.Sprintf("write loop: starts at data=%v, advances by count=%v, exits only when empty=%v (facts at fsync: %v)", init, adv, exit, relList(rsF))
				}
			} else if buf == ssa.Value(dataP) && eqHolds(rsF, sk(cnt), "len("+dataP.Name()+")") {
				okAll = true
			} else if why == "" {
				why = "write buffer is " + sk(buf) + " and the count is not proven equal to len(data) before fsync"
			}
		}
		r.Check("R13b", dir.Name+".AtomicCreate writes all of data", instrPos(writes[0]), okAll, why)
	}
	// R13c
	flags, okc := constInt(open.Call.Args[2])
	oc, _ := unixConst(p, "O_CREAT")
	ot, _ := unixConst(p, "O_TRUNC")
	ox, _ := unixConst(p, "O_EXCL")
	acc, _ := unixConst(p, "O_ACCMODE")
	ow, _ := unixConst(p, "O_WRONLY")
	orw, _ := unixConst(p, "O_RDWR")
	empty := okc && flags&oc != 0 && (flags&ot != 0 || flags&ox != 0) && (flags&acc == ow || flags&acc == orw)
	if !empty {
		p.instrs(f, func(b *ssa.BasicBlock, i int, in ssa.Instruction) {
			if c, name, ok := unixCall(in); ok && name == "Ftruncate" && sk(c.Call.Args[0]) == fdKey {
				if z, ok := constInt(c.Call.Args[1]); ok && z == 0 {
					all := true
					for _, w := range writes {
						if !dominatesInstr(c, w) {
							all = false
						}
					}
					if all && okc && flags&oc != 0 {
						empty = true
					}
				}
			}
		})
	}
	r.Check("R13c", dir.Name+".AtomicCreate staging starts empty", instrPos(open), empty,
		fmt.Sprintf("open flags=%#x: without O_TRUNC/O_EXCL (or ftruncate(fd,0) before the first write) bytes left in the staging file by an earlier interrupted call survive past the new data", flags))
	if !full {
		return
	}
	// R13d
	stage := open.Call.Args[1]
	r.Check("R13d", dir.Name+".AtomicCreate rename source is the staging path", instrPos(rename), rename.Call.Args[1] == stage || sk(rename.Call.Args[1]) == sk(stage),
		"renameat source "+sk(rename.Call.Args[1])+" differs from the opened path "+sk(stage))
	deps := paramDeps(stage)
	r.Check("R13d", dir.Name+".AtomicCreate one root descriptor", instrPos(rename),
		sk(open.Call.Args[0]) == sk(rename.Call.Args[0]) && sk(rename.Call.Args[0]) == sk(rename.Call.Args[2]),
		"open and both sides of the rename must be relative to the same root descriptor")
	wantDst := "path.Join([" + dirP.Name() + "," + nameP.Name() + "])"
	r.Check("R13d", dir.Name+".AtomicCreate destination", instrPos(rename), sk(rename.Call.Args[3]) == wantDst,
		"destination is "+sk(rename.Call.Args[3])+", must be "+wantDst)
	// R13f uniqueness
	uniq := okc && flags&ox != 0
	for d := range deps {
		if d != dirP.Name() && d != nameP.Name() && d != f.Params[0].Name() {
			uniq = true
		}
	}
	if !uniq {
		// any call result (pid, counter, random) feeding the path
		var walk func(v ssa.Value, seen map[ssa.Value]bool)
		walk = func(v ssa.Value, seen map[ssa.Value]bool) {
			if v == nil || seen[v] {
				return
			}
			seen[v] = true
			if c, ok := v.(*ssa.Call); ok {
				n := calleeName(c)
				// sources of a per-call fresh component (a pid or a formatted name alone is not one)
				for _, pre := range []string{"sync/atomic.Add", "(*sync/atomic.Uint64).Add", "(*sync/atomic.Int64).Add", "(*sync/atomic.Uint32).Add", "(*sync/atomic.Int32).Add", "math/rand.", "math/rand/v2.", "crypto/rand.", "time.Now"} {
					if strings.HasPrefix(n, pre) {
						uniq = true
					}
				}
			}
			if in, ok := v.(ssa.Instruction); ok {
				var ops []*ssa.Value
				for _, o := range in.Operands(ops) {
					if o != nil {
						walk(*o, seen)
					}
				}
			}
			if a, ok := v.(*ssa.Alloc); ok {
				for _, rf := range refs(a) {
					if ia, ok := rf.(*ssa.IndexAddr); ok {
						for _, r2 := range refs(ia) {
							if st, ok := r2.(*ssa.Store); ok {
								walk(st.Val, seen)
							}
						}
					}
				}
			}
		}
		walk(stage, map[ssa.Value]bool{})
	}
	r.Check("R13f", dir.Name+".AtomicCreate staging path unique per call", instrPos(open), uniq,
		fmt.Sprintf("the staging path %s depends only on %v and is opened without O_EXCL: concurrent calls that agree on those (the same name; with fname alone also the same name in different directories) write through one shared temporary file", sk(stage), sortedKeys(deps)))
}

// reachesInstr: is b reachable from a (strictly after a)?
func reachesInstr(a, b ssa.Instruction) bool {
	if a.Block() == b.Block() {
		after := false
		for _, in := range a.Block().Instrs {
			if in == a {
				after = true
			} else if in == b && after {
				return true
			}
		}
	}
	seen := map[*ssa.BasicBlock]bool{}
	var q []*ssa.BasicBlock
	q = append(q, a.Block().Succs...)
	for len(q) > 0 {
		x := q[0]
		q = q[1:]
		if seen[x] {
			continue
		}
		seen[x] = true
		if x == b.Block() {
			return true
		}
		q = append(q, x.Succs...)
	}
	return false
}

func (fc *fsCtx) ruleAtomicCreateMem(r *Report, mem *fsImpl) {
	p := fc.p
	f := mem.Methods["AtomicCreate"]
	if f == nil {
		r.Anchor("R13e", mem.Name+".AtomicCreate")
		return
	}
	r.Func(FuncName(f))
	alloc := fc.allocator(mem)
	cf, df := fc.contentField(mem), fc.direntField(mem)
	dataP := f.Params[len(f.Params)-1]
	nC, nD := 0, 0
	var inodeKey ssa.Value
	p.instrs(f, func(b *ssa.BasicBlock, i int, in ssa.Instruction) {
		mu, ok := in.(*ssa.MapUpdate)
		if !ok {
			return
		}
		fld, _ := fc.mapFieldOf(mem, mu.Map)
		switch fld {
		case cf:
			nC++
			fresh := false
			if c, ok := mu.Key.(*ssa.Call); ok && alloc != nil && calleeOf(&c.Call) == alloc {
				fresh = true
				inodeKey = mu.Key
			}
			r.Check("R13e", mem.Name+".AtomicCreate fresh inode", instrPos(in), fresh,
				"contents are stored under key "+sk(mu.Key)+": must be a new inode from the allocator, otherwise readers holding the old file see it change (torn) and hard links change with it")
			// value = make(len(data)) filled by copy(p, data)
			ms, isMake := mu.Value.(*ssa.MakeSlice)
			okCopy := false
			if isMake {
				lenOK := sk(ms.Len) == "len("+dataP.Name()+")"
				for _, rf := range refs(ms) {
					if c, ok := rf.(*ssa.Call); ok {
						if bi, ok := c.Call.Value.(*ssa.Builtin); ok && bi.Name() == "copy" && c.Call.Args[0] == ssa.Value(ms) && c.Call.Args[1] == ssa.Value(dataP) && dominatesInstr(c, in) {
							okCopy = lenOK
						}
					}
				}
			}
			r.Check("R13e", mem.Name+".AtomicCreate installs a complete private copy", instrPos(in), okCopy,
				"stored value "+sk(mu.Value)+" must be make([]byte, len(data)) filled by copy(p, data) before it is installed")
		case df:
			nD++
			d := paramDeps(mu.Key)
			r.Check("R13e", mem.Name+".AtomicCreate points (dir,fname) at the new inode", instrPos(in),
				d[f.Params[1].Name()] && d[f.Params[2].Name()] && inodeKey != nil && mu.Value == inodeKey,
				"the directory entry for (dir, fname) must be set to the freshly allocated inode")
		default:
			r.Fail("R13e", mem.Name+".AtomicCreate updates "+fld, instrPos(in), "unexpected map update in AtomicCreate", "")
		}
	})
	r.Check("R13e", mem.Name+".AtomicCreate one contents and one directory update", f.Pos(), nC == 1 && nD == 1,
		fmt.Sprintf("found %d contents updates and %d directory updates", nC, nD))
}
