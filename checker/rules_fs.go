package main

import (
	"strconv"
	"fmt"
	"go/token"
	"go/types"
	"sort"
	"strings"

	"golang.org/x/tools/go/ssa"
)

const fsPkg = Mod + "/machine/filesys"

type fsImpl struct {
	Named   *types.Named
	Name    string
	Ptr     bool
	Methods map[string]*ssa.Function // interface methods
	Helpers map[*ssa.Function]bool   // other methods of the type
	InMem   bool                     // has map-typed fields and a mutex
	Mutex   string
}

type fsCtx struct {
	p     *Prog
	pkg   *ssa.Package
	iface *types.Interface
	impls []*fsImpl
	fileT types.Type
	ctors map[*ssa.Function]bool
}

func newFsCtx(p *Prog, r *Report, rule string) *fsCtx {
	sp := p.SSAPkg[fsPkg]
	if sp == nil {
		r.Anchor(rule, "package "+fsPkg)
		return nil
	}
	fc := &fsCtx{p: p, pkg: sp, ctors: map[*ssa.Function]bool{}}
	if tn, ok := sp.Pkg.Scope().Lookup("Filesys").(*types.TypeName); ok {
		fc.iface, _ = tn.Type().Underlying().(*types.Interface)
	}
	if tn, ok := sp.Pkg.Scope().Lookup("File").(*types.TypeName); ok {
		fc.fileT = tn.Type()
	}
	if fc.iface == nil || fc.fileT == nil {
		r.Anchor(rule, "filesys.Filesys / filesys.File")
		return nil
	}
	for _, name := range sp.Pkg.Scope().Names() {
		tn, ok := sp.Pkg.Scope().Lookup(name).(*types.TypeName)
		if !ok || tn.IsAlias() {
			continue
		}
		n, ok := tn.Type().(*types.Named)
		if !ok || types.IsInterface(n) {
			continue
		}
		byVal := types.Implements(n, fc.iface)
		byPtr := types.Implements(types.NewPointer(n), fc.iface)
		if !byVal && !byPtr {
			continue
		}
		im := &fsImpl{Named: n, Name: name, Ptr: !byVal, Methods: map[string]*ssa.Function{}, Helpers: map[*ssa.Function]bool{}}
		isIface := map[string]bool{}
		for i := 0; i < fc.iface.NumMethods(); i++ {
			mn := fc.iface.Method(i).Name()
			isIface[mn] = true
			if f := p.Func(fsPkg, name+"."+mn); f != nil {
				im.Methods[mn] = f
			}
		}
		for i := 0; i < n.NumMethods(); i++ {
			m := n.Method(i)
			if !isIface[m.Name()] {
				if f := p.SSA.FuncValue(m); f != nil {
					im.Helpers[f] = true
				}
			}
		}
		if st, ok := n.Underlying().(*types.Struct); ok {
			for i := 0; i < st.NumFields(); i++ {
				if _, isMap := st.Field(i).Type().Underlying().(*types.Map); isMap {
					im.InMem = true
				}
			}
		}
		if mfs := mutexFields(n); len(mfs) == 1 {
			im.Mutex = mfs[0]
		}
		fc.impls = append(fc.impls, im)
	}
	sort.Slice(fc.impls, func(i, j int) bool { return fc.impls[i].Name < fc.impls[j].Name })
	for _, f := range p.FuncsIn(fsPkg) {
		if f.Signature.Recv() != nil || f.Parent() != nil {
			continue
		}
		res := f.Signature.Results()
		for i := 0; i < res.Len(); i++ {
			for _, im := range fc.impls {
				if types.Identical(deref(res.At(i).Type()), im.Named) {
					fc.ctors[f] = true
				}
			}
		}
	}
	return fc
}

func (fc *fsCtx) memImpl() *fsImpl {
	for _, im := range fc.impls {
		if im.InMem {
			return im
		}
	}
	return nil
}

func (fc *fsCtx) dirImpl() *fsImpl {
	for _, im := range fc.impls {
		if !im.InMem {
			return im
		}
	}
	return nil
}

// mapFieldOf: if v is a loaded map field of impl, return its field name.
func (fc *fsCtx) mapFieldOf(im *fsImpl, v ssa.Value) (string, bool) {
	o, fld, ok := fieldOf(v)
	if !ok || !types.Identical(o, im.Named) {
		return "", false
	}
	if _, isMap := v.Type().Underlying().(*types.Map); !isMap {
		return "", false
	}
	return fld, true
}

// inodeField: the map field whose values are file contents ([]byte).
func (fc *fsCtx) contentField(im *fsImpl) string {
	st := im.Named.Underlying().(*types.Struct)
	for i := 0; i < st.NumFields(); i++ {
		if m, ok := st.Field(i).Type().Underlying().(*types.Map); ok {
			if s, ok := m.Elem().Underlying().(*types.Slice); ok {
				if b, ok := s.Elem().Underlying().(*types.Basic); ok && b.Kind() == types.Uint8 {
					return st.Field(i).Name()
				}
			}
		}
	}
	return ""
}

// direntField: the map field from a path key (struct) to an inode number.
func (fc *fsCtx) direntField(im *fsImpl) string {
	st := im.Named.Underlying().(*types.Struct)
	for i := 0; i < st.NumFields(); i++ {
		if m, ok := st.Field(i).Type().Underlying().(*types.Map); ok {
			if _, ok := m.Key().Underlying().(*types.Struct); ok {
				return st.Field(i).Name()
			}
		}
	}
	return ""
}

// ---------------------------------------------------------------------------
// C14

func checkC14(p *Prog, r *Report) {
	r.Rule("R14a", "lockset on the in-memory filesystem: every read of its maps happens with its mutex held, every insert/delete with it held exclusively; helper methods are analysed with the locks of their call sites (so a helper called before Lock is flagged); every return has released the mutex and every panic while it is held is covered by a deferred unlock; the mutex is reached through the pointer receiver", 60)
	r.Rule("R14b", "descriptor allocator: the contents map is insert-only (no delete, no reassignment outside the constructor), the allocator's result is len(contents map)+c with c>=1 (hence strictly fresh while the map is insert-only) or an incremented counter, and every insertion of a new key uses the allocator's result obtained in the same critical section", 4)
	r.Rule("R14c", "directory-backed implementation: Create opens with O_CREAT|O_EXCL (the kernel decides the single winner); its methods write no receiver field and no package-level variable (no in-process shared state)", 3)
	r.Assume = append(r.Assume, "sync.Mutex provides mutual exclusion; openat(O_CREAT|O_EXCL), linkat, renameat, unlinkat are atomic in the kernel", "linearizability against the reference model is not decided")
	fc := newFsCtx(p, r, "R14a")
	if fc == nil {
		return
	}
	mem, dir := fc.memImpl(), fc.dirImpl()
	if mem == nil || dir == nil {
		r.Unknown("R14a", "implementations", token.NoPos, "need one in-memory (map fields) and one directory-backed implementation of filesys.Filesys")
		return
	}
	if mem.Mutex == "" {
		r.Fail("R14a", mem.Name+" mutex", mem.Named.Obj().Pos(), "in-memory filesystem must have exactly one mutex field", "")
	} else {
		ls := lockSpec{rule: "R14a", typeName: mem.Name, methods: mem.Methods, helpers: fc.helperScope(mem), mutex: mem.Mutex,
			protected: func(o *types.Named, f string) bool {
				st := o.Underlying().(*types.Struct)
				for i := 0; i < st.NumFields(); i++ {
					if st.Field(i).Name() == f {
						_, isMap := st.Field(i).Type().Underlying().(*types.Map)
						return isMap
					}
				}
				return false
			}}
		p.runLockRules(r, ls, mem.Named)
		// one critical section per operation: a method that decides under one acquisition of the mutex and acts
		// under a second one (a self-locking helper followed by Lock) is not atomic — two concurrent Creates of
		// one name can both pass the test
		r.Rule("R14e", "one critical section per operation: on every returning abstract path of a method of the in-memory filesystem (helpers spliced in) the filesystem's mutex is acquired exactly once", 8)
		for _, mn := range sortedKeys(mem.Methods) {
			f := mem.Methods[mn]
			ips, okp := p.ipaths(f)
			if !okp {
				r.Unknown("R14e", mem.Name+"."+mn+" critical sections", f.Pos(), "the abstract paths could not be enumerated")
				continue
			}
			bad, nRet := "", 0
			touches := false
			for _, ip := range ips {
				if ip.Exit != "return" {
					continue
				}
				nRet++
				k := 0
				for _, e := range ip.Events {
					if e.Deferred {
						continue
					}
					switch e.Callee {
					case "(*sync.Mutex).Lock", "(*sync.RWMutex).Lock", "(*sync.RWMutex).RLock":
						if len(e.Args) > 0 && strings.Contains(e.Args[0], "."+mem.Mutex) {
							k++
						}
					}
				}
				if k > 0 {
					touches = true
				}
				if k > 1 {
					bad = fmt.Sprintf("the mutex is acquired %d times on the path %s: what was read in the first critical section may be stale in the second", k, ip.Trace)
				}
			}
			if !touches {
				continue // does not use the shared state (a constructor, a pure helper)
			}
			r.Check("R14e", mem.Name+"."+mn+" is one critical section", f.Pos(), bad == "" && nRet > 0, bad)
		}
		reg, _ := fc.regionOf(mem)
		for _, f := range reg {
			p.lockIdentity(r, "R14a", mem.Name, f)
		}
	}
	fc.ruleAllocator2(r, mem)
	fc.ruleDirShared(r, dir)
	// concurrent AtomicCreate calls for one name must not share a temporary file (decided by the C13 analysis R13f)
	r.Rule("R14d", "concurrent AtomicCreate calls for the same name leave the complete data of one of them (decided by the C13 analysis R13f): the staging path has a per-call fresh component taken from a counter all calls share, or the file is opened with O_EXCL", 1)
	s13 := NewReport("C13", p)
	checkC13(p, s13)
	for _, o := range s13.Obls {
		if o.Rule == "R13f" {
			o.Rule = "R14d"
			r.Obls = append(r.Obls, o)
			r.ruleIdx["R14d"].Instances++
		}
	}
}

func (fc *fsCtx) allFuncsOf(im *fsImpl) []*ssa.Function {
	var fs []*ssa.Function
	for _, mn := range sortedKeys(im.Methods) {
		fs = append(fs, im.Methods[mn])
	}
	var hs []*ssa.Function
	for h := range im.Helpers {
		hs = append(hs, h)
	}
	sort.Slice(hs, func(i, j int) bool { return hs[i].Name() < hs[j].Name() })
	return append(fs, hs...)
}

func (fc *fsCtx) ruleDirShared(r *Report, dir *fsImpl) {
	p := fc.p
	if f := dir.Methods["Create"]; f != nil {
		found := false
		p.instrs(f, func(b *ssa.BasicBlock, i int, in ssa.Instruction) {
			if c, name, ok := unixCall(in); ok && (name == "Openat" || name == "Open") {
				found = true
				flags, okc := constInt(c.Call.Args[len(c.Call.Args)-2])
				oc, _ := unixConst(p, "O_CREAT")
				ox, _ := unixConst(p, "O_EXCL")
				r.Check("R14c", dir.Name+".Create flags", instrPos(in), okc && flags&oc != 0 && flags&ox != 0,
					fmt.Sprintf("flags=%#x: Create must use O_CREAT|O_EXCL so that exactly one concurrent Create of a name succeeds", flags))
			}
		})
		// exactly one creating syscall: no probe-then-create
		n := 0
		p.instrs(f, func(b *ssa.BasicBlock, i int, in ssa.Instruction) {
			if _, _, ok := unixCall(in); ok {
				n++
			}
		})
		if !found || n != 1 {
			// through wrappers: on every returning abstract path (helpers spliced in) exactly one system call,
			// an openat whose constant flags contain O_CREAT|O_EXCL
			if ips, okp := p.ipaths(f); okp {
				oc, _ := unixConst(p, "O_CREAT")
				ox, _ := unixConst(p, "O_EXCL")
				okAll, nRet := true, 0
				for _, ip := range ips {
					if ip.Exit != "return" {
						continue
					}
					nRet++
					k := 0
					for _, e := range ip.Events {
						if !strings.HasPrefix(e.Callee, "golang.org/x/sys/unix.") {
							continue
						}
						k++
						nm := strings.TrimPrefix(e.Callee, "golang.org/x/sys/unix.")
						if nm != "Openat" && nm != "Open" || len(e.Args) < 2 {
							okAll = false
							continue
						}
						fl, err := strconv.ParseInt(e.Args[len(e.Args)-2], 0, 64)
						if err != nil || fl&oc == 0 || fl&ox == 0 {
							okAll = false
						}
					}
					if k != 1 {
						okAll = false
					}
				}
				if okAll && nRet > 0 {
					found, n = true, 1
				}
			}
		}
		r.Check("R14c", dir.Name+".Create single syscall", f.Pos(), found && n == 1,
			fmt.Sprintf("Create issues %d system calls; existence test and creation must be one atomic openat", n))
	} else {
		r.Anchor("R14c", dir.Name+".Create")
	}
	for _, f := range fc.allFuncsOf(dir) {
		bad := []string{}
		p.instrs(f, func(b *ssa.BasicBlock, i int, in ssa.Instruction) {
			st, ok := in.(*ssa.Store)
			if !ok {
				return
			}
			if g, ok := st.Addr.(*ssa.Global); ok {
				bad = append(bad, "global "+g.Name())
			}
			if o, fld, ok := fieldOf(st.Addr); ok && types.Identical(o, dir.Named) {
				if _, local := st.Addr.(*ssa.FieldAddr).X.(*ssa.Alloc); !local {
					bad = append(bad, "field "+fld)
				}
			}
		})
		r.Check("R14c", dir.Name+"."+f.Name()+" no shared writes", f.Pos(), len(bad) == 0, "writes in-process shared state: "+strings.Join(bad, ", "))
	}
}

// ---------------------------------------------------------------------------
// C12

func byteSliceType(t types.Type) bool {
	s, ok := t.Underlying().(*types.Slice)
	if !ok {
		return false
	}
	b, ok := s.Elem().Underlying().(*types.Basic)
	return ok && b.Kind() == types.Uint8
}

func checkC12(p *Prog, r *Report) {
	r.Rule("R12a", "descriptor provenance: the File returned by Create/Open originates from a fresh allocation (the allocator helper, a kernel openat), never from a lookup in persistent directory state — otherwise two opens of one file share a descriptor", 4)
	r.Rule("R12b", "no aliasing: byte-slice parameters reach file contents only through copy/append-as-source/write syscalls (never stored, returned or used as an append base); byte slices returned by ReadAt are allocated in ReadAt (never a sub-slice of stored contents)", 6)
	r.Rule("R12c", "Create has no side effect when the name exists: in the in-memory implementation every map update of Create is reached only when the directory lookup failed; in the directory implementation Create is a single O_EXCL openat", 3)
	r.Rule("R12d", "sibling shape: both implementations implement filesys.Filesys and every package-level wrapper forwards to the same-named method of the global Fs with parameters in order", 9)
	r.Rule("R12e", "ReadAt shape in both implementations: result = buf[:n] where buf = make([]byte, length) for the length parameter, n is the count of copy/pread into buf from the offset parameter, and (in memory) offset < len(contents) holds; Link stores the existing inode number of the old name; Delete removes only the directory entry", 6)
	r.Assume = append(r.Assume, "kernel semantics of openat/pread/linkat/unlinkat", "equality with a reference model over all histories is not decided")
	fc := newFsCtx(p, r, "R12a")
	if fc == nil {
		return
	}
	mem, dir := fc.memImpl(), fc.dirImpl()
	if mem == nil || dir == nil {
		r.Unknown("R12a", "implementations", token.NoPos, "need one in-memory and one directory-backed implementation")
		return
	}
	fc.ruleDescriptorProvenance(r, mem)
	fc.ruleNoAliasing(r, mem)
	fc.ruleCreateGuard(r, mem)
	fc.ruleCreateResult(r, mem, fc.direntField(mem))
	fc.ruleCreateResult(r, dir, "")
	// R12d
	for _, im := range fc.impls {
		var T types.Type = im.Named
		if im.Ptr {
			T = types.NewPointer(im.Named)
		}
		r.Check("R12d", im.Name+" implements Filesys", im.Named.Obj().Pos(), types.Implements(T, fc.iface), "")
	}
	for i := 0; i < fc.iface.NumMethods(); i++ {
		mn := fc.iface.Method(i).Name()
		f := p.Func(fsPkg, mn)
		if f == nil {
			continue
		}
		p.checkForwarderGeneric(r, "R12d", f, "invoke:Filesys."+mn, "filesys.Fs")
	}
	// R12e
	fc.ruleReadAt2(r, mem, dir)
	fc.ruleLinkDelete2(r, mem)
	fc.ruleLinkRoles(r, mem, dir)
	r.Rule("R12f", "List is exactly the set of names: the directory implementation returns the names accumulated by the kernel enumeration (unix.ParseDirent threaded through the read loop) and nothing rebuilds or filters them; the in-memory implementation appends every directory entry whose directory equals the argument, under no other condition", 2)
	fc.ruleList(r, mem, dir)
	// contents clause of AtomicCreate, shared with C13 (filed there as R13c / R13e)
	declareC13Rules(r)
	fc.ruleAtomicCreateDir2(r, dir, false)
	fc.ruleAtomicCreateMem2(r, mem)
	for _, id := range []string{"R13a", "R13b", "R13d", "R13f"} {
		if ri := r.ruleIdx[id]; ri != nil {
			ri.Min = 0
			ri.Text = "(decided under C13)"
		}
	}
}

// ---------------------------------------------------------------------------
// C13

func checkC13(p *Prog, r *Report) {
	declareC13Rules(r)
	r.Assume = append(r.Assume, "rename(2) atomically replaces the destination; fsync makes the data durable; O_TRUNC empties an existing file", "crash-point atomicity of the host filesystem is not decided")
	fc := newFsCtx(p, r, "R13a")
	if fc == nil {
		return
	}
	mem, dir := fc.memImpl(), fc.dirImpl()
	if mem == nil || dir == nil {
		r.Unknown("R13a", "implementations", token.NoPos, "need one in-memory and one directory-backed implementation")
		return
	}
	fc.ruleAtomicCreateDir2(r, dir, true)
	fc.ruleAtomicCreateMem2(r, mem)
}

func declareC13Rules(r *Report) {
	r.Rule("R13a", "protocol order on every normally returning path of the directory-backed AtomicCreate: openat(staging) ≺ every write(fd) ≺ fsync(fd) ≺ renameat(staging → dir/name), nothing else in between; every error checked (a failure never reaches a normal return); the only discarded result is the deferred close, accepted because fsync precedes every return", 4)
	r.Rule("R13b", "write-all: the write count advances a loop over the remaining slice that exits only when nothing remains (fact len(rest) <= 0 at fsync), or the count is proven equal to len(data) before fsync", 1)
	r.Rule("R13c", "the staging file starts empty: open flags contain O_CREAT and (O_TRUNC or O_EXCL) and allow writing, or ftruncate(fd, 0) precedes the first write", 1)
	r.Rule("R13d", "staging path: the path opened and the rename source are the same value; source and destination use the same root descriptor; the destination is path.Join(dir, fname)", 3)
	r.Rule("R13e", "in-memory AtomicCreate installs a private copy (make(len(data)) + copy) under a fresh inode from the allocator and points (dir, fname) at it, all inside one critical section", 4)
	r.Rule("R13f", "staging path is unique per call (fresh component or O_EXCL), so concurrent calls for the same name cannot write through one shared temporary file", 1)
}

// reachesInstr: is b reachable from a (strictly after a)?
func reachesInstr(a, b ssa.Instruction) bool {
	if a.Block() == b.Block() {
		after := false
		for _, in := range a.Block().Instrs {
			if in == a {
				after = true
			} else if in == b && after {
				return true
			}
		}
	}
	seen := map[*ssa.BasicBlock]bool{}
	var q []*ssa.BasicBlock
	q = append(q, a.Block().Succs...)
	for len(q) > 0 {
		x := q[0]
		q = q[1:]
		if seen[x] {
			continue
		}
		seen[x] = true
		if x == b.Block() {
			return true
		}
		q = append(q, x.Succs...)
	}
	return false
}

// ruleList: List returns exactly the set of names.
func (fc *fsCtx) ruleList(r *Report, mem, dir *fsImpl) {
	p := fc.p
	if f := dir.Methods["List"]; f != nil {
		r.Func(FuncName(f))
		bad, nParse := "", 0
		for _, b := range f.Blocks {
			ret, ok := b.Instrs[len(b.Instrs)-1].(*ssa.Return)
			if !ok || len(ret.Results) != 1 {
				continue
			}
			for _, o := range p.originsDeep(ret.Results[0]) {
				switch x := o.(type) {
				case *ssa.MakeSlice:
				case *ssa.Const:
				case *ssa.Slice:
					// make([]string, 0, N) with constant capacity: an empty slice of a fresh array
					if al, ok := x.X.(*ssa.Alloc); ok && x.Low == nil && al.Comment == "makeslice" {
						continue
					}
					bad = "the returned names are a re-sliced " + sk(x.X) + ": the kernel's enumeration is rebuilt or filtered before it is returned"
				case *ssa.Alloc:
					if x.Comment == "makeslice" {
						continue
					}
					bad = "the returned names come from " + sk(o)
				case *ssa.Extract:
					if c, ok := x.Tuple.(*ssa.Call); ok && calleeName(c) == "golang.org/x/sys/unix.ParseDirent" && x.Index == 2 {
						nParse++
						continue
					}
					bad = "the returned names come from " + sk(o)
				default:
					bad = "the returned names come from " + sk(o) + " (" + instrKind2(o) + "): the kernel's enumeration is rebuilt or filtered before it is returned"
				}
			}
		}
		r.Check("R12f", dir.Name+".List returns the enumerated names unfiltered", f.Pos(), bad == "" && nParse > 0, bad)
	} else {
		r.Anchor("R12f", dir.Name+".List")
	}
	if f0 := mem.Methods["List"]; f0 != nil {
		r.Func(FuncName(f0))
		// the loop may live in List or in the helper List delegates to (a *Locked body)
		f := f0
		hasAppend := func(g *ssa.Function) bool {
			found := false
			p.instrs(g, func(b *ssa.BasicBlock, i int, in ssa.Instruction) {
				if c, ok := in.(*ssa.Call); ok {
					if bi, ok := c.Call.Value.(*ssa.Builtin); ok && bi.Name() == "append" {
						found = true
					}
				}
			})
			return found
		}
		if !hasAppend(f) {
			for _, g := range directCallees(p, f0) {
				if hasAppend(g) {
					f = g
				}
			}
		}
		rm := p.Rels(f)
		n, bad := 0, ""
		var dirParam string
		for _, pa := range f.Params {
			if bt, ok := pa.Type().Underlying().(*types.Basic); ok && bt.Info()&types.IsString != 0 {
				dirParam = pa.Name()
			}
		}
		p.instrs(f, func(b *ssa.BasicBlock, i int, in ssa.Instruction) {
			c, ok := in.(*ssa.Call)
			if !ok {
				return
			}
			if bi, ok := c.Call.Value.(*ssa.Builtin); !ok || bi.Name() != "append" {
				return
			}
			n++
			for k := range p.RelsAt(rm, c) {
				if isLoopBoundFact(k) || strings.Contains(k, "next(range(") && strings.HasSuffix(k, "#0 == true") {
					continue
				}
				if !strings.Contains(k, "next(range(") {
					continue // a condition on the arguments (valid directory), not on the entry
				}
				j := topLevelIndex(k, " == ")
				if j >= 0 && (k[:j] == dirParam && strings.HasSuffix(k[j+4:], ".dir") || k[j+4:] == dirParam && strings.HasSuffix(k[:j], ".dir")) {
					continue
				}
				bad = "a name is listed only under the additional condition " + k
			}
		})
		r.Check("R12f", mem.Name+".List lists every entry of the directory", f.Pos(), n == 1 && bad == "", fmt.Sprintf("%d appends; %s", n, bad))
	} else {
		r.Anchor("R12f", mem.Name+".List")
	}
}

func instrKind2(v ssa.Value) string {
	if in, ok := v.(ssa.Instruction); ok {
		return instrKind(in)
	}
	return fmt.Sprintf("%T", v)
}
