package main

import (
	"fmt"
	"go/token"
	"go/types"
	"os"
	"strings"

	"golang.org/x/tools/go/ssa"
)

const cmdGoosePkg = Mod + "/cmd/goose"
const coqPkg = Mod + "/internal/coq"

// pathAvoiding reports whether `to` is reachable from `from` without entering any block in `avoid`
// and without taking any edge for which blockedEdge(b, succIndex) is true.
func pathAvoiding(from, to *ssa.BasicBlock, avoid map[*ssa.BasicBlock]bool, blockedEdge func(b *ssa.BasicBlock, i int) bool, p *Prog) bool {
	seen := map[*ssa.BasicBlock]bool{}
	q := []*ssa.BasicBlock{from}
	for len(q) > 0 {
		b := q[0]
		q = q[1:]
		if seen[b] || avoid[b] {
			continue
		}
		seen[b] = true
		if b == to {
			return true
		}
		if p.blockDiverges(b) {
			continue
		}
		for i, s := range b.Succs {
			if blockedEdge != nil && blockedEdge(b, i) {
				continue
			}
			q = append(q, s)
		}
	}
	return false
}

func blockOfCall(p *Prog, f *ssa.Function, name string) []*ssa.Call {
	var out []*ssa.Call
	p.instrs(f, func(b *ssa.BasicBlock, i int, in ssa.Instruction) {
		if c, ok := in.(*ssa.Call); ok && calleeName(c) == name {
			out = append(out, c)
		}
	})
	return out
}

func checkC17(p *Prog, r *Report) {
	r.Rule("R17a", "exit status: the error flag is a monotone accumulator (its loop-carried value is only ever `true` or itself, it is `true` on every path through the err != nil edge); the command's normal return is reached only through the false edge of the flag; every os.Exit has a non-zero constant status; a pattern error exits non-zero", 4)
	r.Rule("R17b", "write gating: from the err == nil edge every path to the next iteration passes through the write call (every translated package is written, whatever happened to other packages); from the err != nil edge the write call is reachable only through the ignoreErrors edge", 2)
	r.Rule("R17c", "file placement: the written path is path.Join(outRootDir, coq.ImportToPath(f.PkgPath, …)) for the same file value whose contents are written; contents are f.Write output", 3)
	r.Rule("R17d", "writeFileIfChanged: no file write is reachable once bytes.Equal(old, new) held; every other normal return returns the result of os.WriteFile(name, data, perm) with the parameters forwarded; os.WriteFile (create+truncate+write) is the only file-writing call of the command", 4)
	r.Rule("R17e", "loader and flags: the package configuration sets BuildFlags to exactly -tags goose and Dir to the directory argument; patterns reach packages.Load unchanged; matching no package is an error; each command-line flag is wired to the parameter it documents", 8)
	r.Rule("R17f", "partial output: translatePackage stores the translated imports and declarations into the returned file before every return that follows the translation (so -ignore-errors writes exactly the declarations that translated)", 2)
	r.Assume = append(r.Assume, "what go/packages matches for a pattern and the file system's behaviour are not decided")
	tr := p.Func(cmdGoosePkg, "translate")
	if tr == nil {
		r.Anchor("R17a", "cmd/goose.translate")
		return
	}
	r.Func(FuncName(tr))
	// --- locate the pieces by role
	var tpCall *ssa.Call // TranslatePackages
	p.instrs(tr, func(b *ssa.BasicBlock, i int, in ssa.Instruction) {
		if c, ok := in.(*ssa.Call); ok && strings.HasSuffix(calleeName(c), ".TranslatePackages") {
			tpCall = c
		}
	})
	if tpCall == nil {
		r.Anchor("R17a", "call of TranslatePackages in translate")
		return
	}
	var errsV, patErr ssa.Value
	for _, rf := range refs(tpCall) {
		if ex, ok := rf.(*ssa.Extract); ok {
			switch ex.Index {
			case 1:
				errsV = ex
			case 2:
				patErr = ex
			}
		}
	}
	// the per-package error test: If on (load errs[i]) != nil
	var errIf *ssa.If
	p.instrs(tr, func(b *ssa.BasicBlock, i int, in ssa.Instruction) {
		ifc, ok := in.(*ssa.If)
		if !ok {
			return
		}
		bo, ok := ifc.Cond.(*ssa.BinOp)
		if !ok || bo.Op != token.NEQ {
			return
		}
		if ld, ok := bo.X.(*ssa.UnOp); ok {
			if ia, ok := ld.X.(*ssa.IndexAddr); ok && ia.X == errsV {
				errIf = ifc
			}
		}
	})
	// the write call: the call in translate of a function of the command from which os.WriteFile is
	// reached (the writer itself or a per-package wrapper around it)
	w0 := directWriter(p)
	var writes []*ssa.Call
	p.instrs(tr, func(b *ssa.BasicBlock, i int, in ssa.Instruction) {
		if c, ok := in.(*ssa.Call); ok {
			if cal := calleeOf(&c.Call); cal != nil && w0 != nil {
				for _, g := range p.region([]*ssa.Function{cal}) {
					if g == w0 && cal.Pkg == w0.Pkg {
						writes = append(writes, c)
					}
				}
			}
		}
	})
	if errIf == nil || len(writes) != 1 || errsV == nil {
		r.Unknown("R17b", "translate loop shape", tr.Pos(), fmt.Sprintf("cannot find the per-package `errs[i] != nil` test (found=%v) and exactly one write call (found %d)", errIf != nil, len(writes)))
		return
	}
	write := writes[0]
	T := errIf.Block().Succs[0]
	// loop header: the block with phis that dominates errIf's block and has a back edge
	var header *ssa.BasicBlock
	for b := errIf.Block(); b != nil; b = b.Idom() {
		for _, pr := range b.Preds {
			if b.Dominates(pr) {
				header = b
			}
		}
		if header != nil {
			break
		}
	}
	if header == nil {
		r.Unknown("R17a", "translate loop header", tr.Pos(), "no loop found around the error test")
		return
	}
	// --- R17a: flag accumulator
	var flag *ssa.Phi
	for _, in := range header.Instrs {
		if ph, ok := in.(*ssa.Phi); ok {
			if b, ok := ph.Type().Underlying().(*types.Basic); ok && b.Kind() == types.Bool {
				flag = ph
			}
		}
	}
	if flag == nil {
		// an integer status or failure counter carried through the loop: it starts at 0 and an iteration never
		// sets it back to 0 (every loop-carried value is itself, itself plus something, or a non-zero constant)
		for _, in := range header.Instrs {
			ph, ok := in.(*ssa.Phi)
			if !ok || ph.Comment == "rangeindex" {
				continue
			}
			if b, ok := ph.Type().Underlying().(*types.Basic); !ok || b.Info()&types.IsInteger == 0 {
				continue
			}
			var bad []string
			var chk func(v ssa.Value, depth int)
			chk = func(v ssa.Value, depth int) {
				if v == ssa.Value(ph) || depth > 6 {
					return
				}
				if c, ok := constInt(v); ok {
					if c == 0 {
						bad = append(bad, "set back to 0 inside the loop")
					}
					return
				}
				if p2, ok := v.(*ssa.Phi); ok {
					for _, e := range p2.Edges {
						chk(e, depth+1)
					}
					return
				}
				if bo, ok := v.(*ssa.BinOp); ok && bo.Op == token.ADD && (bo.X == ssa.Value(ph) || bo.Y == ssa.Value(ph)) {
					return
				}
				bad = append(bad, "assigned "+sk(v))
			}
			for i, e := range ph.Edges {
				if !header.Dominates(header.Preds[i]) {
					if c, ok := constInt(e); !ok || c != 0 {
						bad = append(bad, "does not start at 0")
					}
					continue
				}
				chk(e, 0)
			}
			r.Check("R17a", "translate status/counter "+ph.Comment+" only grows", ph.Pos(), len(bad) == 0, strings.Join(bad, "; "))
		}
		// no boolean flag (e.g. a failure counter): the exit status is decided by the inductive path rule below alone
		r.Note("no loop-carried boolean error flag in %s: the phi-structure check is skipped, the inductive path rule decides", FuncName(tr))
	} else {
		reachFromT := func(b *ssa.BasicBlock) bool {
			return b == T || pathAvoiding(T, b, map[*ssa.BasicBlock]bool{header: true}, nil, p)
		}
		var bad []string
		var chk func(v ssa.Value, pred *ssa.BasicBlock, depth int)
		chk = func(v ssa.Value, pred *ssa.BasicBlock, depth int) {
			if depth > 8 {
				bad = append(bad, "phi nesting too deep")
				return
			}
			if c, ok := v.(*ssa.Const); ok {
				if c.Value != nil && c.Value.String() == "true" {
					return
				}
				bad = append(bad, fmt.Sprintf("flag reset to %s on the edge from b%d", constKey(c), pred.Index))
				return
			}
			if v == ssa.Value(flag) {
				if reachFromT(pred) {
					bad = append(bad, fmt.Sprintf("flag keeps its old value on a path through the err != nil edge (edge from b%d)", pred.Index))
				}
				return
			}
			if ph, ok := v.(*ssa.Phi); ok {
				for i, e := range ph.Edges {
					chk(e, ph.Block().Preds[i], depth+1)
				}
				return
			}
			bad = append(bad, "flag assigned "+sk(v)+" (overwritten, not accumulated) on the edge from b"+itoa(pred.Index))
		}
		for i, e := range flag.Edges {
			pred := header.Preds[i]
			if !header.Dominates(pred) { // entry edge
				if c, ok := e.(*ssa.Const); !ok || c.Value == nil || c.Value.String() != "false" {
					bad = append(bad, "flag does not start as false")
				}
				continue
			}
			chk(e, pred, 0)
		}
		r.Check("R17a", "translate error flag accumulates", flag.Pos(), len(bad) == 0, strings.Join(bad, "; "))
		// normal return only through the false edge of the flag
		rm := p.Rels(tr)
		nRet := 0
		p.instrs(tr, func(b *ssa.BasicBlock, i int, in ssa.Instruction) {
			if ret, ok := in.(*ssa.Return); ok {
				nRet++
				rs := p.RelsAt(rm, ret)
				r.Check("R17a", "translate returns only when no package failed", instrPos(in), rs[sk(flag)+" == false"],
					fmt.Sprintf("normal return (exit status 0) reachable without fact `%s == false`; facts: %v", sk(flag), relList(rs)))
				if patErr != nil {
					r.Check("R17a", "translate returns only without pattern error", instrPos(in), rs[eqRel(sk(patErr), "nil")],
						"normal return reachable although the pattern error was not nil")
				}
			}
		})
		if nRet == 0 {
			r.Fail("R17a", "translate returns only when no package failed", tr.Pos(), "translate never returns normally", "")
		}
	}
	statusMode := false // translate returns the exit status and main passes it to os.Exit
	for _, f := range p.FuncsIn(cmdGoosePkg) {
		p.instrs(f, func(b *ssa.BasicBlock, i int, in ssa.Instruction) {
			if c, ok := in.(*ssa.Call); ok && calleeName(c) == "os.Exit" {
				r.Sites++
				st, okc := constInt(c.Call.Args[0])
				if tc, isCall := c.Call.Args[0].(*ssa.Call); isCall && calleeOf(&tc.Call) == tr && tr.Signature.Results().Len() == 1 {
					// the status is computed by translate and returned: decided on translate's paths below
					statusMode = true
					r.OK("R17a", fmt.Sprintf("%s os.Exit status", f.Name()), instrPos(in), "the exit status is the result of "+tr.Name()+", decided on its returning paths")
					return
				}
				r.Check("R17a", fmt.Sprintf("%s os.Exit status", f.Name()), instrPos(in), okc && st != 0, "os.Exit with status "+sk(c.Call.Args[0])+": every explicit exit of the command reports a failure, success is the normal return")
			}
		})
	}
	// --- R17b (path-sensitive: on the abstract paths of translate that run the loop body exactly once)
	var ignoreP *ssa.Parameter
	for _, pa := range tr.Params {
		if b, ok := pa.Type().Underlying().(*types.Basic); ok && b.Kind() == types.Bool {
			ignoreP = pa
		}
	}
	wcal := calleeOf(&write.Call)
	keepB := map[*ssa.Function]bool{wcal: true}
	for _, g := range p.FuncsIn(cmdGoosePkg) {
		// rendering helpers are irrelevant to the gating and only multiply paths
		if g != tr && g != wcal && len(blockOfCall(p, g, "("+coqPkg+".File).Write")) > 0 {
			keepB[g] = true
		}
	}
	if g := p.Func(coqPkg, "ImportToPath"); g != nil {
		keepB[g] = true
	}
	if cal := calleeOf(&tpCall.Call); cal != nil {
		keepB[cal] = true
	}
	// loop-carried state is left symbolic: each one-iteration path stands for an arbitrary iteration
	bips, okb := p.ipathsHavoc(tr, keepB)
	errPrefix := sk(errsV) + "["
	missClean, wroteFailed, nOne, nClean, nFailed := "", "", 0, 0, 0
	leftLoop := ""
	for _, ip := range bips {
		n := 0
		for _, b := range ip.Root {
			if b == errIf.Block() {
				n++
			}
		}
		if n != 1 {
			continue
		}
		isNil, notNil := false, false
		for k := range ip.Rels {
			if nilCmp(k, " == ", errPrefix) {
				isNil = true
			}
			if nilCmp(k, " != ", errPrefix) {
				notNil = true
			}
		}
		if isNil {
			nClean++
		}
		if notNil {
			nFailed++
		}
		wrote := len(ip.eventsOf(fullName(wcal))) > 0
		// the iteration is complete when the loop header is reached again (or the write happened); a path
		// that leaves the process inside the iteration before the write decides nothing
		hv := 0
		for _, b := range ip.Root {
			if b == header {
				hv++
			}
		}
		if os.Getenv("VERIF_DEBUG") == "R17b" {
			fmt.Println("R17b path", ip.Trace[:min(len(ip.Trace), 90)], "exit", ip.Exit, "isNil", isNil, "notNil", notNil, "wrote", wrote, "hv", hv)
		}
		if hv < 2 && !wrote {
			// the loop was left inside this iteration without writing: the packages after this one are never
			// processed. Legitimate only if the process ends because of an I/O failure, which cannot happen
			// before the write; a failed (or clean) package must not stop the others (cf. C06 R06f).
			if isNil || notNil {
				leftLoop = "the per-package loop is left (" + ip.Exit + ") in the iteration of a package " + map[bool]string{true: "that failed", false: "that translated"}[notNil] + " before anything was written: later packages are not translated; path " + ip.Trace
			}
			continue
		}
		nOne++
		if isNil && !wrote {
			missClean = "a package that translated without error is not written on the path " + ip.Trace
		}
		ignoreFact := ignoreP != nil && (ip.Rels[ignoreP.Name()+" == true"] || ip.Rels["true == "+ignoreP.Name()])
		if !ignoreFact {
			// the setting may be a field of an options parameter
			for k := range ip.Rels {
				lhs := ""
				if strings.HasSuffix(k, " == true") {
					lhs = strings.TrimSuffix(k, " == true")
				} else if strings.HasPrefix(k, "true == ") {
					lhs = strings.TrimPrefix(k, "true == ")
				}
				if lhs == "" || strings.ContainsAny(lhs, "( ") {
					continue
				}
				for _, pa := range tr.Params {
					if strings.HasPrefix(lhs, pa.Name()+".") {
						ignoreFact = true
					}
				}
			}
		}
		if notNil && wrote && !ignoreFact {
			wroteFailed = "a package whose translation failed is written without the fact " + "ignoreErrors == true on the path " + ip.Trace
		}
	}
	// inductive step of the exit status: a normal return after an arbitrary iteration requires that the
	// incoming error flag was false and that this iteration's package had no error
	retBad, nRetP := "", 0
	for _, ip := range bips {
		n := 0
		for _, b := range ip.Root {
			if b == errIf.Block() {
				n++
			}
		}
		if n != 1 || ip.Exit != "return" {
			continue
		}
		if statusMode {
			// the returned status: a failed package in this iteration needs a non-zero constant; a clean
			// iteration may return 0 only with the incoming status known 0, or hand the incoming status on
			nRetP++
			code := ""
			if len(ip.Ret) == 1 {
				code = ip.Ret[0]
			}
			failed := false
			for k := range ip.Rels {
				if nilCmp(k, " != ", errPrefix) {
					failed = true
				}
			}
			var cv int64
			_, err := fmt.Sscan(code, &cv)
			isConst := err == nil && fmt.Sprint(cv) == code
			switch {
			case failed && !(isConst && cv != 0):
				retBad = "translate returns the status " + code + " on a path on which a package failed (a non-zero constant is required): " + ip.Trace
			case !failed && isConst && cv == 0:
				in0 := false
				for k := range ip.Rels {
					if strings.Contains(k, "phi:") && !strings.Contains(k, "rangeindex") && (strings.HasSuffix(k, " == 0") || strings.HasPrefix(k, "0 == ") || strings.HasSuffix(k, " <= 0")) {
						in0 = true
					}
				}
				if !in0 {
					retBad = "translate returns the constant 0 after an iteration without the fact that the status carried into the iteration was 0: " + ip.Trace
				}
			case !failed && !isConst && !strings.Contains(code, "phi:"):
				retBad = "translate returns " + code + ", which is neither a constant nor the status carried through the loop: " + ip.Trace
			}
			continue
		}
		nRetP++
		flagIn := false
		for k := range ip.Rels {
			if (strings.HasPrefix(k, "false == phi:") || strings.HasPrefix(k, "phi:") && strings.HasSuffix(k, " == false")) && !strings.Contains(k, "rangeindex") {
				flagIn = true
			}
			// a failure counter instead of a flag: the incoming count was zero
			if (strings.HasPrefix(k, "phi:") && (strings.HasSuffix(k, " <= 0") || strings.HasSuffix(k, " == 0")) || strings.HasPrefix(k, "0 == phi:")) && !strings.Contains(k, "rangeindex") && !strings.Contains(k, " + ") {
				flagIn = true
			}
			if nilCmp(k, " != ", errPrefix) {
				if os.Getenv("VERIF_DEBUG") == "R17a" {
					fmt.Println("R17a bad path rels:", relList(ip.Rels))
				}
				retBad = "translate returns normally on a path on which a package failed: " + ip.Trace
			}
		}
		if !flagIn && retBad == "" {
			retBad = "translate returns normally after an iteration without the fact that the loop-carried error flag was false (the flag is overwritten rather than accumulated): " + ip.Trace
		}
	}
	r.Check("R17a", "exit status 0 only if no package failed (inductive step over an arbitrary iteration)", tr.Pos(), okb && nRetP > 0 && retBad == "", retBad)
	// the converse: a non-zero exit needs a failure. On every abstract path that ends in os.Exit some failure
	// is known: an error value is non-nil (pattern error, the package's error, an I/O error), the loop-carried
	// flag is true or the failure counter is positive. A path that exits although everything it tested
	// succeeded reports failure for a run in which every package translated.
	exitBad, nExit := "", 0
	for _, ip := range bips {
		if len(ip.eventsOf("os.Exit")) == 0 {
			nonZeroRet := false
			if statusMode && ip.Exit == "return" && len(ip.Ret) == 1 {
				var cv int64
				if _, err := fmt.Sscan(ip.Ret[0], &cv); err == nil && fmt.Sprint(cv) == ip.Ret[0] && cv != 0 {
					nonZeroRet = true
				}
			}
			if !nonZeroRet {
				continue
			}
		}
		nExit++
		cause := false
		for k := range ip.Rels {
			if nilCmp(k, " != ", "") {
				cause = true
			}
			// a helper that reports success as a boolean: its result is false
			if i := topLevelIndex(k, " == "); i > 0 && !strings.HasPrefix(k, "phi:") && !strings.HasPrefix(k, "false == phi:") &&
				(k[:i] == "false" && strings.Contains(k[i:], "(") || k[i+4:] == "false" && strings.Contains(k[:i], "(")) {
				cause = true
			}
			if strings.HasPrefix(k, "phi:") && (strings.HasSuffix(k, " == true") || strings.HasSuffix(k, " > 0") || strings.HasSuffix(k, " != 0")) ||
				strings.HasPrefix(k, "true == phi:") || strings.HasPrefix(k, "0 < phi:") || strings.HasPrefix(k, "0 != phi:") {
				cause = true
			}
		}
		if !cause {
			if os.Getenv("VERIF_DEBUG") == "R17a" {
				fmt.Println("R17a exit without cause:", ip.Trace, relList(ip.Rels))
			}
			exitBad = "os.Exit is reached on a path on which no failure is known (no error value is non-nil, the error flag is not set): " + ip.Trace
		}
	}
	r.Check("R17a", "a non-zero exit only after a failure", tr.Pos(), okb && nExit > 0 && exitBad == "", exitBad)
	if nClean == 0 || nFailed == 0 {
		r.Unknown("R17b", "translate loop paths", tr.Pos(), fmt.Sprintf("%d one-iteration paths with err == nil and %d with err != nil: the per-package error test is not visible on the paths", nClean, nFailed))
	}
	r.Check("R17b", "translate writes every error-free package", instrPos(write), okb && nOne > 0 && missClean == "", missClean)
	r.Check("R17b", "translate writes a failed package only under -ignore-errors", instrPos(write), okb && nOne > 0 && wroteFailed == "", wroteFailed)
	r.Check("R17b", "a package's error does not end the per-package loop", instrPos(errIf), okb && nOne > 0 && leftLoop == "", leftLoop)
	// --- R17c (on the abstract paths of translate, per-package helpers spliced in)
	itpF := p.Func(coqPkg, "ImportToPath")
	var cfcF *ssa.Function // the function of the command that renders a coq.File with File.Write
	for _, g := range p.FuncsIn(cmdGoosePkg) {
		if len(blockOfCall(p, g, "("+coqPkg+".File).Write")) == 1 && g != tr {
			cfcF = g
		}
	}
	keep := map[*ssa.Function]bool{w0: true}
	if itpF != nil {
		keep[itpF] = true
	}
	if cfcF != nil {
		keep[cfcF] = true
	}
	if cal := calleeOf(&tpCall.Call); cal != nil {
		keep[cal] = true
	}
	ips, okp := p.ipathsKeeping(tr, keep)
	var outRoot *ssa.Parameter
	for _, pa := range tr.Params {
		if pa.Name() == "outRootDir" {
			outRoot = pa
		}
	}
	if outRoot == nil && len(tr.Params) >= 2 {
		outRoot = tr.Params[1]
	}
	okPath, okCont, nW := okp && itpF != nil && cfcF != nil, okp && itpF != nil && cfcF != nil, 0
	whyPath, whyCont := "", "the written bytes must be the rendering (File.Write) of the same file whose path was computed"
	if !okp {
		whyPath = "the paths of translate could not be enumerated"
	}
	seenW := map[string]bool{}
	for _, ip := range ips {
		for _, e := range ip.Events {
			if e.Callee != fullName(w0) || len(e.Args) < 2 || seenW[e.Args[0]+"\x00"+e.Args[1]] {
				continue
			}
			seenW[e.Args[0]+"\x00"+e.Args[1]] = true
			nW++
			// path.Join([outRootDir,coq.ImportToPath(F.PkgPath,F.GoPackage)])
			jn, ja, okj := parseCallKey(e.Args[0])
			fileKey := ""
			if !okj || (jn != "path.Join" && jn != "path/filepath.Join") || len(ja) != 1 {
				okPath, whyPath = false, "written path is "+e.Args[0]+", not path.Join(outRootDir, coq.ImportToPath(...))"
			} else {
				_, elems, _ := parseCallKey("x(" + strings.TrimSuffix(strings.TrimPrefix(ja[0], "["), "]") + ")")
				rootedAtParam := func(k string) bool {
					for _, pa := range tr.Params {
						if k == pa.Name() || strings.HasPrefix(k, pa.Name()+".") {
							return true
						}
					}
					return false
				}
				wantOut := flagWiredKey(p, tr, "out")
				okFirst := elems[0] == outRoot.Name() || rootedAtParam(elems[0]) && !strings.Contains(elems[0], "(")
				if wantOut != "" {
					okFirst = len(elems) > 0 && elems[0] == wantOut
				}
				if len(elems) != 2 || !okFirst {
					okPath, whyPath = false, "path elements are "+ja[0]+": the first must be the -out directory and the second coq.ImportToPath(...)"
				} else {
					// the second element is computed from F.PkgPath of one file value F — written as
					// coq.ImportToPath(F.PkgPath, …) or with that helper's body spliced into the key
					for _, e2 := range ip.Events {
						if itpF != nil && e2.Callee == fullName(itpF) && strings.Contains(elems[1], e2.Key) && len(e2.Args) >= 1 && strings.HasSuffix(e2.Args[0], ".PkgPath") {
							fileKey = strings.TrimSuffix(e2.Args[0], ".PkgPath")
						}
					}
					if fileKey == "" {
						okPath, whyPath = false, "second path element is "+elems[1]+", not coq.ImportToPath(f.PkgPath, …) of one file"
					}
				}
			}
			rendered := false
			for _, e2 := range ip.Events {
				if cfcF != nil && e2.Callee == fullName(cfcF) && e2.Key == e.Args[1] && len(e2.Args) == 1 && fileKey != "" && e2.Args[0] == fileKey {
					rendered = true
				}
			}
			if !rendered {
				okCont = false
				whyCont = "the written bytes are " + e.Args[1] + " while the path was computed for " + fileKey
			}
		}
	}
	if nW == 0 {
		okPath, okCont, whyPath = false, false, "no call of the file writer on any path of translate"
	}
	r.Check("R17c", "translate output path", instrPos(write), okPath, whyPath)
	r.Check("R17c", "translate writes the contents of the same file", instrPos(write), okCont, whyCont)
	if cfcF != nil {
		r.Func(FuncName(cfcF))
		calls := blockOfCall(p, cfcF, "("+coqPkg+".File).Write")
		okW := len(calls) == 1 && len(cfcF.Params) >= 1 && calls[0].Call.Args[0] == ssa.Value(cfcF.Params[0])
		r.Check("R17c", "the rendering helper returns f.Write output", cfcF.Pos(), okW, "the contents must be rendered from the argument with File.Write")
	}
	// a per-package wrapper around the writer calls it on every returning path
	if cal := calleeOf(&write.Call); cal != nil && cal != w0 {
		wips, okw := p.ipathsKeeping(cal, map[*ssa.Function]bool{w0: true})
		all := okw
		for _, ip := range wips {
			if ip.Exit == "return" && len(ip.eventsOf(fullName(w0))) == 0 {
				all = false
			}
		}
		r.Check("R17b", FuncName(cal)+" writes the file on every returning path", cal.Pos(), all, "the per-package wrapper can return without calling the file writer")
	}
	// --- R17d
	checkWriteIfChanged(p, r)
	// --- R17e
	checkLoaderAndFlags(p, r, tr, tpCall)
	// --- R17f
	checkPartialOutput(p, r)
}

// flowOperands returns all values reachable backwards from v through operands and local-array stores.
func flowOperands(v ssa.Value) []ssa.Value {
	var out []ssa.Value
	seen := map[ssa.Value]bool{}
	var walk func(v ssa.Value)
	walk = func(v ssa.Value) {
		if v == nil || seen[v] {
			return
		}
		seen[v] = true
		out = append(out, v)
		if a, ok := v.(*ssa.Alloc); ok {
			for _, rf := range refs(a) {
				if ia, ok := rf.(*ssa.IndexAddr); ok {
					for _, r2 := range refs(ia) {
						if st, ok := r2.(*ssa.Store); ok {
							walk(st.Val)
						}
					}
				}
			}
			return
		}
		if _, ok := v.(*ssa.Call); ok {
			return
		}
		if in, ok := v.(ssa.Instruction); ok {
			var ops []*ssa.Value
			for _, o := range in.Operands(ops) {
				if o != nil {
					walk(*o)
				}
			}
		}
	}
	walk(v)
	return out
}

func checkWriteIfChanged(p *Prog, r *Report) {
	f := directWriter(p)
	if f == nil || len(f.Params) != 3 {
		r.Anchor("R17d", "the function of cmd/goose that calls os.WriteFile(name, data, perm)")
		return
	}
	r.Func(FuncName(f))
	// abstract paths with the helpers (e.g. a "file already has these contents" predicate) spliced in
	ips, ok := p.ipaths(f)
	if !ok {
		r.Unknown("R17d", "writeFileIfChanged paths", f.Pos(), "too many paths")
		return
	}
	name, data, perm := f.Params[0].Name(), f.Params[1].Name(), f.Params[2].Name()
	readKey := "os.ReadFile(" + name + ")"
	eqA := "bytes.Equal(" + readKey + "#0," + data + ")"
	eqB := "bytes.Equal(" + data + "," + readKey + "#0)"
	nEq := 0
	badEq, badNe := "", ""
	for _, ip := range ips {
		if ip.Exit != "return" {
			continue
		}
		ws := ip.eventsOf("os.WriteFile")
		if ip.Rels[eqA+" == true"] || ip.Rels[eqB+" == true"] {
			nEq++
			if !ip.Rels[eqRel("nil", readKey+"#1")] {
				badEq = "the file is treated as unchanged without the fact that reading it succeeded (a missing file and empty new contents compare equal): " + ip.Trace
			}
			if len(ws) > 0 {
				badEq = "os.WriteFile on a path where the contents are equal: " + ip.Trace
			}
			continue
		}
		if len(ws) != 1 || len(ip.Ret) != 1 || ip.Ret[0] != ws[0].Key {
			badNe = "a path on which the contents differ (or the file is unreadable) does not end in `return os.WriteFile(...)`: " + ip.Trace
			continue
		}
		for i, want := range []string{name, data, perm} {
			if ws[0].Args[i] != want {
				badNe = fmt.Sprintf("os.WriteFile argument %d is %s, not parameter %s", i, ws[0].Args[i], want)
			}
		}
	}
	r.Check("R17d", "writeFileIfChanged compares the file's bytes with the new data", f.Pos(), nEq > 0,
		"no returning path carries the fact bytes.Equal(os.ReadFile(name) contents, data) == true: old and new contents are not compared")
	r.Check("R17d", "unchanged file is not rewritten", f.Pos(), badEq == "", badEq)
	r.Check("R17d", "changed or missing file is written completely", f.Pos(), badNe == "", badNe)
	// who may write files in the command
	var others []string
	for _, g := range p.FuncsIn(cmdGoosePkg) {
		p.instrs(g, func(b *ssa.BasicBlock, i int, in ssa.Instruction) {
			c, ok := in.(ssa.CallInstruction)
			if !ok {
				return
			}
			n := calleeName(c)
			switch n {
			case "os.Create", "os.OpenFile", "(*os.File).Write", "(*os.File).WriteAt", "(*os.File).WriteString", "os.Rename", "os.Truncate", "(*os.File).Truncate", "io/ioutil.WriteFile":
				others = append(others, n+" in "+g.Name())
			}
		})
	}
	r.Check("R17d", "os.WriteFile is the only file-writing call", f.Pos(), len(others) == 0,
		"other file-writing calls bypass the create+truncate+write contract of os.WriteFile (a shorter new file would keep the tail of the old one): "+strings.Join(others, ", "))
}

func checkLoaderAndFlags(p *Prog, r *Report, tr *ssa.Function, tpCall *ssa.Call) {
	// newPackageConfig
	npc := p.Func(Mod, "newPackageConfig")
	if npc == nil {
		// the configuration literal was inlined or its constructor renamed: find it by its type
		for _, g := range p.FuncsIn(Mod) {
			p.instrs(g, func(b *ssa.BasicBlock, i int, in ssa.Instruction) {
				if al, ok := in.(*ssa.Alloc); ok && al.Comment == "complit" && strings.HasSuffix(types.TypeString(al.Type(), nil), "go/packages.Config") {
					npc = g
				}
			})
		}
	}
	cfgDirParam := ""
	inlinedCfg := npc != nil && npc.Name() != "newPackageConfig" && len(blockOfCall(p, npc, "golang.org/x/tools/go/packages.Load")) > 0
	if npc == nil {
		r.Anchor("R17e", "the packages.Config literal of the translator")
	} else {
		r.Func(FuncName(npc))
		var flags, dir string
		mode := int64(-1)
		p.instrs(npc, func(b *ssa.BasicBlock, i int, in ssa.Instruction) {
			st, ok := in.(*ssa.Store)
			if !ok {
				return
			}
			fa, ok := st.Addr.(*ssa.FieldAddr)
			if !ok {
				return
			}
			_, fld, _ := fieldOf(fa)
			switch fld {
			case "BuildFlags":
				flags = sk(st.Val)
			case "Dir":
				dir = sk(st.Val)
			case "Mode":
				if m, ok := foldInt(st.Val); ok {
					mode = m
				} else {
					mode = -2
				}
			}
		})
		r.Check("R17e", "package config build flags", npc.Pos(), flags == `["-tags","goose"]`, "BuildFlags = "+flags+`, expected ["-tags","goose"]`)
		cfgDirParam = dir
		dirOK := len(npc.Params) == 1 && dir == npc.Params[0].Name()
		if !dirOK {
			for _, pa := range npc.Params {
				if b, ok := pa.Type().Underlying().(*types.Basic); ok && b.Info()&types.IsString != 0 && dir == pa.Name() {
					dirOK = true
				}
			}
		}
		r.Check("R17e", "package config directory", npc.Pos(), dirOK, "Dir = "+dir+", expected the directory parameter")
		need := int64(0)
		for _, n := range []string{"NeedName", "NeedCompiledGoFiles", "NeedImports", "NeedTypes", "NeedSyntax", "NeedTypesInfo"} {
			if pk := p.All["golang.org/x/tools/go/packages"]; pk != nil {
				if c, ok := pk.Types.Scope().Lookup(n).(*types.Const); ok {
					if v, ok := constantInt64(c); ok {
						need |= v
					}
				}
			}
		}
		r.Check("R17e", "package config load mode", npc.Pos(), mode >= 0 && mode&need == need, fmt.Sprintf("Mode=%#x must include %#x (names, compiled files, imports, types, syntax, type info)", mode, need))
	}
	tp := p.Func(Mod, "TranslationConfig.TranslatePackages")
	if tp == nil {
		r.Anchor("R17e", "goose.TranslatePackages")
	} else {
		r.Func(FuncName(tp))
		// abstract paths of TranslatePackages with loading helpers spliced in; the configuration
		// constructor and the per-package translation stay opaque events
		keep := map[*ssa.Function]bool{}
		if npc != nil && !inlinedCfg {
			keep[npc] = true
		}
		if tpk := p.Func(Mod, "TranslationConfig.translatePackage"); tpk != nil {
			keep[tpk] = true
		}
		ips, okp := p.ipathsKeeping(tp, keep)
		okL, why, nLoad := okp, "", 0
		okZero, nZero := okp, 0
		for _, ip := range ips {
			loads := ip.eventsOf("golang.org/x/tools/go/packages.Load")
			if len(loads) > 1 {
				okL, why = false, "packages.Load is called more than once on a path"
			}
			for _, ld := range loads {
				nLoad++
				cfgOK := false
				for _, e := range ip.Events {
					if npc != nil && e.Callee == fullName(npc) && e.Key == ld.Args[0] && len(e.Args) == 1 && e.Args[0] == tp.Params[1].Name() {
						cfgOK = true
					}
				}
				patOK := len(ld.Args) == 2 && ld.Args[1] == tp.Params[2].Name()
				if inlinedCfg {
					// the literal is built where packages.Load is called (a loading helper spliced in here):
					// what matters is that helper's operands at its call
					cfgOK = false
					for _, e := range ip.Events {
						_ = e
					}
					for _, g := range []*ssa.Function{npc} {
						for _, c := range blockOfCall(p, tp, fullName(g)) {
							if len(c.Call.Args) >= 2 {
								for i, a := range c.Call.Args {
									if sk(a) == tp.Params[1].Name() && i < len(g.Params) && g.Params[i].Name() == cfgDirParam {
										cfgOK = true
									}
								}
							}
						}
						if g == tp {
							cfgOK = cfgDirParam == tp.Params[1].Name()
						}
					}
				}
				if !cfgOK || !patOK {
					okL = false
					why = fmt.Sprintf("config from newPackageConfig(modDir)=%v, patterns forwarded unchanged=%v (packages.Load(%s))", cfgOK, patOK, strings.Join(ld.Args, ", "))
				}
				if ip.Exit == "return" && (ip.Rels[eqRel("0", "len("+ld.Key+"#0)")] || ip.Rels["len("+ld.Key+"#0) <= 0"]) {
					nZero++
					if len(ip.Ret) != 3 || ip.Ret[2] == "nil" {
						okZero = false
					}
				}
			}
			if ip.Exit == "return" && len(loads) == 0 {
				okL, why = false, "a returning path of TranslatePackages does not load any package"
			}
		}
		if nLoad == 0 {
			okL, why = false, "no packages.Load call"
		}
		r.Check("R17e", "patterns and directory reach packages.Load unchanged", tp.Pos(), okL, why)
		r.Check("R17e", "matching no package is an error", tp.Pos(), okZero && nZero > 0, fmt.Sprintf("%d returning paths under the fact len(pkgs) == 0; each must return a non-nil pattern error", nZero))
	}
	// flags
	mainF := p.Func(cmdGoosePkg, "main")
	if mainF == nil {
		r.Anchor("R17e", "cmd/goose.main")
		return
	}
	r.Func(FuncName(mainF))
	flagVar := map[string]ssa.Value{} // flag name -> address registered
	flagDef := map[string]ssa.Value{} // flag name -> default value
	var regs, parses []*ssa.Call
	p.instrs(mainF, func(b *ssa.BasicBlock, i int, in ssa.Instruction) {
		c, ok := in.(*ssa.Call)
		if !ok {
			return
		}
		n := calleeName(c)
		if (n == "flag.StringVar" || n == "flag.BoolVar") && len(c.Call.Args) >= 3 {
			if name, ok := constString(c.Call.Args[1]); ok {
				flagVar[name] = c.Call.Args[0]
				flagDef[name] = c.Call.Args[2]
				regs = append(regs, c)
			}
		}
		if n == "flag.Parse" {
			parses = append(parses, c)
		}
	})
	trCalls := blockOfCall(p, mainF, cmdGoosePkg+".translate")
	if len(trCalls) != 1 {
		r.Fail("R17e", "main calls translate once", mainF.Pos(), fmt.Sprintf("%d calls", len(trCalls)), "")
		return
	}
	tc := trCalls[0]
	wire := func(flagName string, argIdx int) {
		addr := flagVar[flagName]
		ok := false
		if argIdx >= len(tc.Call.Args) || argIdx >= len(tr.Params) {
			wireByUse(p, r, mainF, tr, tc, flagName, addr)
			return
		}
		if _, isStruct := tr.Params[argIdx].Type().Underlying().(*types.Struct); isStruct {
			wireByUse(p, r, mainF, tr, tc, flagName, addr)
			return
		}
		if ld, isLd := tc.Call.Args[argIdx].(*ssa.UnOp); isLd && addr != nil && ld.X == addr {
			ok = true
		}
		r.Check("R17e", "flag -"+flagName+" wired to "+tr.Params[argIdx].Name(), instrPos(tc), ok,
			fmt.Sprintf("argument %d of translate is %s, expected the variable registered for -%s", argIdx, sk(tc.Call.Args[argIdx]), flagName))
	}
	wire("out", 1)
	wire("dir", 2)
	wire("ignore-errors", 3)
	// inside translate each setting is used where it belongs: the parameter that carries -dir is what the loader
	// gets as its directory, the one that carries -out is the root of every written path (two strings of the same
	// type are easily exchanged)
	wiredParam := func(flagName string) string {
		addr := flagVar[flagName]
		if addr == nil {
			return ""
		}
		for i, a := range tc.Call.Args {
			if i >= len(tr.Params) {
				break
			}
			if ld, ok := a.(*ssa.UnOp); ok {
				if ld.X == addr {
					return tr.Params[i].Name()
				}
				if fa, ok := addr.(*ssa.FieldAddr); ok && fa.X == ld.X {
					return tr.Params[i].Name() // a field of the options value passed here
				}
			}
		}
		return ""
	}
	if dp := wiredParam("dir"); dp != "" && len(tpCall.Call.Args) >= 2 {
		d := paramDeps(tpCall.Call.Args[1])
		r.Check("R17e", "the loader's directory is the -dir setting", instrPos(tpCall), len(d) == 1 && d[dp],
			fmt.Sprintf("TranslatePackages is given %s as its directory; the parameter that carries -dir is %s", sk(tpCall.Call.Args[1]), dp))
	}
	// the command line is parsed after every registration and before the values are read; without the parse
	// (or with a flag registered after it) -out, -dir and -ignore-errors keep their defaults whatever was given
	if len(regs) > 0 {
		okP, why := len(parses) == 1, fmt.Sprintf("%d calls of flag.Parse in main", len(parses))
		if okP {
			if !dominatesInstr(parses[0], tc) {
				okP, why = false, "flag.Parse does not precede the call of translate on every path"
			}
			for _, rg := range regs {
				if !dominatesInstr(rg, parses[0]) {
					okP, why = false, "a flag registration (-"+func() string { n, _ := constString(rg.Call.Args[1]); return n }()+") does not precede flag.Parse on every path"
				}
			}
			// the values are read after the parse
			for _, a := range tc.Call.Args {
				if ld, isLd := a.(*ssa.UnOp); isLd && !dominatesInstr(parses[0], ld) {
					okP, why = false, "a flag variable is read before flag.Parse"
				}
			}
		}
		r.Check("R17e", "flags are parsed after registration and before use", instrPos(tc), okP, why)
		// "writes nothing unless -ignore-errors is given": the flag is off when it is not given
		if d := flagDef["ignore-errors"]; d != nil {
			c, isC := d.(*ssa.Const)
			r.Check("R17e", "flag -ignore-errors defaults to false", instrPos(tc), isC && c.Value != nil && c.Value.String() == "false",
				"the default of -ignore-errors is "+sk(d)+": a package with a conversion error would be written although the flag was not given")
		}
	}
	okArgs := false
	for _, a := range tc.Call.Args {
		if ac, ok := a.(*ssa.Call); ok && calleeName(ac) == "flag.Args" {
			okArgs = true
		}
	}
	if !okArgs {
		// stored into the options value that translate receives
		p.instrs(mainF, func(b *ssa.BasicBlock, i int, in ssa.Instruction) {
			if st, ok := in.(*ssa.Store); ok {
				if ac, ok := st.Val.(*ssa.Call); ok && calleeName(ac) == "flag.Args" {
					okArgs = true
				}
			}
		})
	}
	r.Check("R17e", "positional arguments are the patterns", instrPos(tc), okArgs, "no argument of translate is flag.Args()")
	for fl, fld := range map[string]string{"source-comments": "AddSourceFileComments", "typecheck": "TypeCheck", "skip-interfaces": "SkipInterfaces"} {
		ok := false
		if a := flagVar[fl]; a != nil {
			if _, f2, okf := fieldOf(a); okf && f2 == fld {
				// and that struct is what translate receives (as an argument, or inside an options value)
				base := a.(*ssa.FieldAddr).X
				for _, arg := range tc.Call.Args {
					if ld, isLd := arg.(*ssa.UnOp); isLd && ld.X == base {
						ok = true
					}
				}
				if !ok {
					for _, rf := range refs(base) {
						if ld, isLd := rf.(*ssa.UnOp); isLd && ld.X == base {
							for _, r2 := range refs(ld) {
								if _, isSt := r2.(*ssa.Store); isSt {
									ok = true // copied into the options value
								}
							}
						}
					}
					if fa2, isFA := base.(*ssa.FieldAddr); isFA {
						// registered on a field of a configuration nested in the options value
						for _, arg := range tc.Call.Args {
							if ld, isLd := arg.(*ssa.UnOp); isLd && ld.X == fa2.X {
								ok = true
							}
						}
					}
				}
			}
		}
		r.Check("R17e", "flag -"+fl+" sets "+fld, instrPos(tc), ok, "flag is not registered on field "+fld+" of the configuration passed to translate")
	}
}

func checkPartialOutput(p *Prog, r *Report) {
	f := p.Func(Mod, "TranslationConfig.translatePackage")
	if f == nil {
		r.Anchor("R17f", "goose.translatePackage")
		return
	}
	r.Func(FuncName(f))
	var declsCall *ssa.Call
	p.instrs(f, func(b *ssa.BasicBlock, i int, in ssa.Instruction) {
		if c, ok := in.(*ssa.Call); ok && strings.HasSuffix(calleeName(c), ".Decls") {
			declsCall = c
		}
	})
	if declsCall == nil {
		r.Anchor("R17f", "call of Ctx.Decls in translatePackage")
		return
	}
	// only a package that loaded without errors is translated: with type errors go/types leaves holes in the
	// type information and the translation of such a package is meaningless (and the command would exit 0)
	okLoad := false
	for k := range p.RelsAt(p.Rels(f), declsCall) {
		if strings.Contains(k, ".Errors)") && (strings.HasPrefix(k, "0 == len(") || strings.HasSuffix(k, " <= 0")) {
			okLoad = true
		}
	}
	r.Check("R17f", "translatePackage translates only a package without load errors", instrPos(declsCall), okLoad,
		"the call of Decls is not dominated by the fact len(pkg.Errors) == 0: a package with (some) load or type errors is translated as if it were well-typed")
	// the local file value and the stores of its Imports / Decls fields
	stores := map[string]*ssa.Store{}
	var fileAlloc *ssa.Alloc
	p.instrs(f, func(b *ssa.BasicBlock, i int, in ssa.Instruction) {
		st, ok := in.(*ssa.Store)
		if !ok {
			return
		}
		fa, ok := st.Addr.(*ssa.FieldAddr)
		if !ok {
			return
		}
		o, fld, _ := fieldOf(fa)
		if o == nil || o.Obj().Name() != "File" {
			return
		}
		if fld == "Imports" || fld == "Decls" {
			for _, org := range origins(st.Val) {
				if ex, ok := org.(*ssa.Extract); ok && ex.Tuple == ssa.Value(declsCall) {
					stores[fld] = st
					fileAlloc, _ = fa.X.(*ssa.Alloc)
				}
			}
		}
	})
	for _, fld := range []string{"Imports", "Decls"} {
		st := stores[fld]
		if st == nil {
			r.Fail("R17f", "translatePackage stores "+fld, f.Pos(), "the result of Decls is never stored into the file's "+fld, "")
			continue
		}
		bad := ""
		p.instrs(f, func(b *ssa.BasicBlock, i int, in ssa.Instruction) {
			ret, ok := in.(*ssa.Return)
			if !ok || !reachesInstr(declsCall, ret) {
				return
			}
			// returns the local file?
			if ld, ok := ret.Results[0].(*ssa.UnOp); ok && fileAlloc != nil && ld.X == ssa.Value(fileAlloc) {
				if !dominatesInstr(st, ret) {
					bad = "a return after the translation (" + p.Pos(instrPos(ret)) + ") is reachable before the file's " + fld + " are stored: the error path returns a file without the declarations that did translate"
				}
			} else {
				bad = "a return after the translation does not return the translated file"
			}
		})
		r.Check("R17f", "translatePackage stores "+fld+" before returning", instrPos(st), bad == "", bad)
	}
}

func constantInt64(c *types.Const) (int64, bool) {
	if c == nil {
		return 0, false
	}
	v := c.Val()
	if v == nil {
		return 0, false
	}
	s := v.ExactString()
	var n int64
	_, err := fmt.Sscan(s, &n)
	return n, err == nil
}

// directWriter: the function of the command that calls os.WriteFile directly.
func directWriter(p *Prog) *ssa.Function {
	var w *ssa.Function
	for _, g := range p.FuncsIn(cmdGoosePkg) {
		if len(blockOfCall(p, g, "os.WriteFile")) > 0 {
			w = g
		}
	}
	return w
}

// nilCmp: k is the relation "nil <op> X" or "X <op> nil" with X starting with prefix.
func nilCmp(k, op, prefix string) bool {
	i := topLevelIndex(k, op)
	if i < 0 {
		return false
	}
	a, b := k[:i], k[i+len(op):]
	return a == "nil" && strings.HasPrefix(b, prefix) || b == "nil" && strings.HasPrefix(a, prefix)
}

// wireByUse decides the wiring of a command-line flag when translate does not take it as a positional parameter
// (an options struct, a method on a configuration value): the abstract paths of main with translate spliced in
// show, in main's terms, what reaches the loader's directory argument, the output path and the error-gating test.
func wireByUse(p *Prog, r *Report, mainF, tr *ssa.Function, tc *ssa.Call, flagName string, addr ssa.Value) {
	key := "flag -" + flagName + " reaches its use in " + tr.Name()
	if addr == nil {
		r.Fail("R17e", key, instrPos(tc), "no flag -"+flagName+" is registered", "")
		return
	}
	// the key of the flag variable's value as main reads it
	vk := ""
	for _, rf := range refs(addr) {
		if ld, ok := rf.(*ssa.UnOp); ok && ld.X == addr {
			vk = sk(ld)
		}
	}
	if fa, ok := addr.(*ssa.FieldAddr); ok && vk == "" {
		// registered on a field of a struct that is passed on as a whole
		vk = strings.TrimPrefix(sk(fa), "&")
	}
	if vk == "" {
		r.Unknown("R17e", key, instrPos(tc), "the variable registered for -"+flagName+" is never read")
		return
	}
	keep := map[*ssa.Function]bool{}
	for _, g := range p.srcFuncs {
		if g != mainF && g != tr && g.Pkg != nil && g.Pkg.Pkg.Path() != cmdGoosePkg {
			keep[g] = true
		}
	}
	ips, ok := p.ipathsHavoc(mainF, keep)
	if !ok {
		r.Unknown("R17e", key, instrPos(tc), "the abstract paths of main could not be enumerated")
		return
	}
	found := false
	for _, ip := range ips {
		switch flagName {
		case "dir":
			for _, e := range ip.Events {
				if strings.HasSuffix(e.Callee, ".TranslatePackages") && len(e.Args) >= 2 && strings.Contains(e.Args[1], vk) {
					found = true
				}
			}
		case "out":
			for _, e := range ip.Events {
				if (e.Callee == "path.Join" || e.Callee == "path/filepath.Join") && len(e.Args) >= 1 && strings.Contains(e.Args[0], vk) {
					found = true
				}
			}
		case "ignore-errors":
			for k := range ip.Rels {
				if strings.Contains(k, vk) && (strings.HasSuffix(k, " == true") || strings.HasSuffix(k, " == false") || strings.HasPrefix(k, "true == ") || strings.HasPrefix(k, "false == ")) {
					found = true
				}
			}
		}
	}
	r.Check("R17e", key, instrPos(tc), found, fmt.Sprintf("the value of the variable registered for -%s (%s) does not reach the place where %s uses that setting", flagName, vk, tr.Name()))
}

// flagWiredKey: the key, in translate's terms, of the value that carries the command-line flag: the parameter that
// receives the flag variable at the call in main, or parameter.field when the flag is registered on a field of an
// options value passed as a whole. "" if it cannot be determined.
func flagWiredKey(p *Prog, tr *ssa.Function, flagName string) string {
	mainF := p.Func(cmdGoosePkg, "main")
	if mainF == nil {
		return ""
	}
	var addr ssa.Value
	p.instrs(mainF, func(b *ssa.BasicBlock, i int, in ssa.Instruction) {
		if c, ok := in.(*ssa.Call); ok {
			n := calleeName(c)
			if (n == "flag.StringVar" || n == "flag.BoolVar") && len(c.Call.Args) >= 3 {
				if name, ok := constString(c.Call.Args[1]); ok && name == flagName {
					addr = c.Call.Args[0]
				}
			}
		}
	})
	if addr == nil {
		return ""
	}
	key := ""
	p.instrs(mainF, func(b *ssa.BasicBlock, i int, in ssa.Instruction) {
		c, ok := in.(*ssa.Call)
		if !ok || calleeOf(&c.Call) != tr {
			return
		}
		for i, a := range c.Call.Args {
			if i >= len(tr.Params) {
				break
			}
			ld, ok := a.(*ssa.UnOp)
			if !ok {
				continue
			}
			if ld.X == addr {
				key = tr.Params[i].Name()
			}
			if fa, ok := addr.(*ssa.FieldAddr); ok && fa.X == ld.X {
				_, fld, _ := fieldOf(fa)
				key = tr.Params[i].Name() + "." + fld
			}
		}
	})
	return key
}
