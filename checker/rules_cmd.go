package main

import (
	"fmt"
	"go/token"
	"go/types"
	"strings"

	"golang.org/x/tools/go/ssa"
)

const cmdGoosePkg = Mod + "/cmd/goose"
const coqPkg = Mod + "/internal/coq"

// pathAvoiding reports whether `to` is reachable from `from` without entering any block in `avoid`
// and without taking any edge for which blockedEdge(b, succIndex) is true.
func pathAvoiding(from, to *ssa.BasicBlock, avoid map[*ssa.BasicBlock]bool, blockedEdge func(b *ssa.BasicBlock, i int) bool, p *Prog) bool {
	seen := map[*ssa.BasicBlock]bool{}
	q := []*ssa.BasicBlock{from}
	for len(q) > 0 {
		b := q[0]
		q = q[1:]
		if seen[b] || avoid[b] {
			continue
		}
		seen[b] = true
		if b == to {
			return true
		}
		if p.blockDiverges(b) {
			continue
		}
		for i, s := range b.Succs {
			if blockedEdge != nil && blockedEdge(b, i) {
				continue
			}
			q = append(q, s)
		}
	}
	return false
}

func blockOfCall(p *Prog, f *ssa.Function, name string) []*ssa.Call {
	var out []*ssa.Call
	p.instrs(f, func(b *ssa.BasicBlock, i int, in ssa.Instruction) {
		if c, ok := in.(*ssa.Call); ok && calleeName(c) == name {
			out = append(out, c)
		}
	})
	return out
}

func checkC17(p *Prog, r *Report) {
	r.Rule("R17a", "exit status: the error flag is a monotone accumulator (its loop-carried value is only ever `true` or itself, it is `true` on every path through the err != nil edge); the command's normal return is reached only through the false edge of the flag; every os.Exit has a non-zero constant status; a pattern error exits non-zero", 6)
	r.Rule("R17b", "write gating: from the err == nil edge every path to the next iteration passes through the write call (every translated package is written, whatever happened to other packages); from the err != nil edge the write call is reachable only through the ignoreErrors edge", 2)
	r.Rule("R17c", "file placement: the written path is path.Join(outRootDir, coq.ImportToPath(f.PkgPath, …)) for the same file value whose contents are written; contents are f.Write output", 3)
	r.Rule("R17d", "writeFileIfChanged: no file write is reachable once bytes.Equal(old, new) held; every other normal return returns the result of os.WriteFile(name, data, perm) with the parameters forwarded; os.WriteFile (create+truncate+write) is the only file-writing call of the command", 4)
	r.Rule("R17e", "loader and flags: the package configuration sets BuildFlags to exactly -tags goose and Dir to the directory argument; patterns reach packages.Load unchanged; matching no package is an error; each command-line flag is wired to the parameter it documents", 8)
	r.Rule("R17f", "partial output: translatePackage stores the translated imports and declarations into the returned file before every return that follows the translation (so -ignore-errors writes exactly the declarations that translated)", 2)
	r.Assume = append(r.Assume, "what go/packages matches for a pattern and the file system's behaviour are not decided")
	tr := p.Func(cmdGoosePkg, "translate")
	if tr == nil {
		r.Anchor("R17a", "cmd/goose.translate")
		return
	}
	r.Func(FuncName(tr))
	// --- locate the pieces by role
	var tpCall *ssa.Call // TranslatePackages
	p.instrs(tr, func(b *ssa.BasicBlock, i int, in ssa.Instruction) {
		if c, ok := in.(*ssa.Call); ok && strings.HasSuffix(calleeName(c), ".TranslatePackages") {
			tpCall = c
		}
	})
	if tpCall == nil {
		r.Anchor("R17a", "call of TranslatePackages in translate")
		return
	}
	var errsV, patErr ssa.Value
	for _, rf := range refs(tpCall) {
		if ex, ok := rf.(*ssa.Extract); ok {
			switch ex.Index {
			case 1:
				errsV = ex
			case 2:
				patErr = ex
			}
		}
	}
	// the per-package error test: If on (load errs[i]) != nil
	var errIf *ssa.If
	p.instrs(tr, func(b *ssa.BasicBlock, i int, in ssa.Instruction) {
		ifc, ok := in.(*ssa.If)
		if !ok {
			return
		}
		bo, ok := ifc.Cond.(*ssa.BinOp)
		if !ok || bo.Op != token.NEQ {
			return
		}
		if ld, ok := bo.X.(*ssa.UnOp); ok {
			if ia, ok := ld.X.(*ssa.IndexAddr); ok && ia.X == errsV {
				errIf = ifc
			}
		}
	})
	writes := blockOfCall(p, tr, cmdGoosePkg+".writeFileIfChanged")
	if errIf == nil || len(writes) != 1 || errsV == nil {
		r.Unknown("R17b", "translate loop shape", tr.Pos(), fmt.Sprintf("cannot find the per-package `errs[i] != nil` test (found=%v) and exactly one write call (found %d)", errIf != nil, len(writes)))
		return
	}
	write := writes[0]
	T, F := errIf.Block().Succs[0], errIf.Block().Succs[1]
	// loop header: the block with phis that dominates errIf's block and has a back edge
	var header *ssa.BasicBlock
	for b := errIf.Block(); b != nil; b = b.Idom() {
		for _, pr := range b.Preds {
			if b.Dominates(pr) {
				header = b
			}
		}
		if header != nil {
			break
		}
	}
	if header == nil {
		r.Unknown("R17a", "translate loop header", tr.Pos(), "no loop found around the error test")
		return
	}
	// --- R17a: flag accumulator
	var flag *ssa.Phi
	for _, in := range header.Instrs {
		if ph, ok := in.(*ssa.Phi); ok {
			if b, ok := ph.Type().Underlying().(*types.Basic); ok && b.Kind() == types.Bool {
				flag = ph
			}
		}
	}
	if flag == nil {
		r.Fail("R17a", "translate error flag", tr.Pos(), "no loop-carried boolean error flag", "")
	} else {
		reachFromT := func(b *ssa.BasicBlock) bool {
			return b == T || pathAvoiding(T, b, map[*ssa.BasicBlock]bool{header: true}, nil, p)
		}
		var bad []string
		var chk func(v ssa.Value, pred *ssa.BasicBlock, depth int)
		chk = func(v ssa.Value, pred *ssa.BasicBlock, depth int) {
			if depth > 8 {
				bad = append(bad, "phi nesting too deep")
				return
			}
			if c, ok := v.(*ssa.Const); ok {
				if c.Value != nil && c.Value.String() == "true" {
					return
				}
				bad = append(bad, fmt.Sprintf("flag reset to %s on the edge from b%d", constKey(c), pred.Index))
				return
			}
			if v == ssa.Value(flag) {
				if reachFromT(pred) {
					bad = append(bad, fmt.Sprintf("flag keeps its old value on a path through the err != nil edge (edge from b%d)", pred.Index))
				}
				return
			}
			if ph, ok := v.(*ssa.Phi); ok {
				for i, e := range ph.Edges {
					chk(e, ph.Block().Preds[i], depth+1)
				}
				return
			}
			bad = append(bad, "flag assigned "+sk(v)+" (overwritten, not accumulated) on the edge from b"+itoa(pred.Index))
		}
		for i, e := range flag.Edges {
			pred := header.Preds[i]
			if !header.Dominates(pred) { // entry edge
				if c, ok := e.(*ssa.Const); !ok || c.Value == nil || c.Value.String() != "false" {
					bad = append(bad, "flag does not start as false")
				}
				continue
			}
			chk(e, pred, 0)
		}
		r.Check("R17a", "translate error flag accumulates", flag.Pos(), len(bad) == 0, strings.Join(bad, "; "))
		// normal return only through the false edge of the flag
		rm := p.Rels(tr)
		nRet := 0
		p.instrs(tr, func(b *ssa.BasicBlock, i int, in ssa.Instruction) {
			if ret, ok := in.(*ssa.Return); ok {
				nRet++
				rs := p.RelsAt(rm, ret)
				r.Check("R17a", "translate returns only when no package failed", instrPos(in), rs[sk(flag)+" == false"],
					fmt.Sprintf("normal return (exit status 0) reachable without fact `%s == false`; facts: %v", sk(flag), relList(rs)))
				if patErr != nil {
					r.Check("R17a", "translate returns only without pattern error", instrPos(in), rs[eqRel(sk(patErr), "nil")],
						"normal return reachable although the pattern error was not nil")
				}
			}
		})
		if nRet == 0 {
			r.Fail("R17a", "translate returns only when no package failed", tr.Pos(), "translate never returns normally", "")
		}
	}
	for _, f := range p.FuncsIn(cmdGoosePkg) {
		p.instrs(f, func(b *ssa.BasicBlock, i int, in ssa.Instruction) {
			if c, ok := in.(*ssa.Call); ok && calleeName(c) == "os.Exit" {
				r.Sites++
				st, okc := constInt(c.Call.Args[0])
				r.Check("R17a", fmt.Sprintf("%s os.Exit status", f.Name()), instrPos(in), okc && st != 0, "os.Exit with status "+sk(c.Call.Args[0])+": every explicit exit of the command reports a failure, success is the normal return")
			}
		})
	}
	// --- R17b
	W := write.Block()
	r.Check("R17b", "translate writes every error-free package", instrPos(write), !pathAvoiding(F, header, map[*ssa.BasicBlock]bool{W: true}, nil, p),
		"from the err == nil edge the next iteration is reachable without passing the write call: a package that translated cleanly is not written (its fate depends on other packages)")
	var ignoreP *ssa.Parameter
	for _, pa := range tr.Params {
		if b, ok := pa.Type().Underlying().(*types.Basic); ok && b.Kind() == types.Bool {
			ignoreP = pa
		}
	}
	blocked := func(b *ssa.BasicBlock, i int) bool {
		if len(b.Instrs) == 0 || ignoreP == nil {
			return false
		}
		ifc, ok := b.Instrs[len(b.Instrs)-1].(*ssa.If)
		if !ok {
			return false
		}
		if ifc.Cond == ssa.Value(ignoreP) {
			return i == 0 // the ignoreErrors==true edge is the permitted way through
		}
		if u, ok := ifc.Cond.(*ssa.UnOp); ok && u.Op == token.NOT && u.X == ssa.Value(ignoreP) {
			return i == 1
		}
		return false
	}
	r.Check("R17b", "translate writes a failed package only under -ignore-errors", instrPos(write),
		ignoreP != nil && !pathAvoiding(T, W, map[*ssa.BasicBlock]bool{header: true}, blocked, p),
		"from the err != nil edge the write call is reachable without passing the ignoreErrors test")
	// --- R17c
	var outRoot *ssa.Parameter
	for _, pa := range tr.Params {
		if pa.Name() == "outRootDir" {
			outRoot = pa
		}
	}
	if outRoot == nil && len(tr.Params) >= 2 {
		outRoot = tr.Params[1]
	}
	okPath, whyPath := false, ""
	var fileAlloc ssa.Value
	if jc, ok := write.Call.Args[0].(*ssa.Call); ok && (calleeName(jc) == "path.Join" || calleeName(jc) == "path/filepath.Join") {
		k := sk(jc.Call.Args[0])
		// find the ImportToPath call among the joined elements
		var itp *ssa.Call
		for _, d := range flowOperands(jc.Call.Args[0]) {
			if c, ok := d.(*ssa.Call); ok && calleeName(c) == coqPkg+".ImportToPath" {
				itp = c
			}
		}
		if itp == nil {
			whyPath = "joined elements " + k + " do not contain coq.ImportToPath(...)"
		} else if !strings.HasPrefix(k, "["+outRoot.Name()+",") {
			whyPath = "first path element is not the -out directory: " + k
		} else {
			o, fld, okf := fieldOf(itp.Call.Args[0])
			if okf && fld == "PkgPath" && o.Obj().Name() == "File" {
				okPath = true
				if ld, ok := itp.Call.Args[0].(*ssa.UnOp); ok {
					fileAlloc = ld.X.(*ssa.FieldAddr).X
				}
			} else {
				whyPath = "ImportToPath is not applied to the file's PkgPath"
			}
		}
	} else {
		whyPath = "written path is " + sk(write.Call.Args[0]) + ", not path.Join(outRootDir, coq.ImportToPath(...))"
	}
	r.Check("R17c", "translate output path", instrPos(write), okPath, whyPath)
	okCont := false
	if cc, ok := write.Call.Args[1].(*ssa.Call); ok && calleeName(cc) == cmdGoosePkg+".coqFileContents" {
		if ld, ok := cc.Call.Args[0].(*ssa.UnOp); ok && fileAlloc != nil && ld.X == fileAlloc {
			okCont = true
		}
	}
	r.Check("R17c", "translate writes the contents of the same file", instrPos(write), okCont, "the written bytes must be coqFileContents(f) for the same f whose path was computed")
	if cf := p.Func(cmdGoosePkg, "coqFileContents"); cf != nil {
		r.Func(FuncName(cf))
		calls := blockOfCall(p, cf, "("+coqPkg+".File).Write")
		okW := len(calls) == 1 && calls[0].Call.Args[0] == ssa.Value(cf.Params[0])
		r.Check("R17c", "coqFileContents is f.Write output", cf.Pos(), okW, "coqFileContents must render its argument with File.Write")
	}
	// --- R17d
	checkWriteIfChanged(p, r)
	// --- R17e
	checkLoaderAndFlags(p, r, tr, tpCall)
	// --- R17f
	checkPartialOutput(p, r)
}

// flowOperands returns all values reachable backwards from v through operands and local-array stores.
func flowOperands(v ssa.Value) []ssa.Value {
	var out []ssa.Value
	seen := map[ssa.Value]bool{}
	var walk func(v ssa.Value)
	walk = func(v ssa.Value) {
		if v == nil || seen[v] {
			return
		}
		seen[v] = true
		out = append(out, v)
		if a, ok := v.(*ssa.Alloc); ok {
			for _, rf := range refs(a) {
				if ia, ok := rf.(*ssa.IndexAddr); ok {
					for _, r2 := range refs(ia) {
						if st, ok := r2.(*ssa.Store); ok {
							walk(st.Val)
						}
					}
				}
			}
			return
		}
		if _, ok := v.(*ssa.Call); ok {
			return
		}
		if in, ok := v.(ssa.Instruction); ok {
			var ops []*ssa.Value
			for _, o := range in.Operands(ops) {
				if o != nil {
					walk(*o)
				}
			}
		}
	}
	walk(v)
	return out
}

func checkWriteIfChanged(p *Prog, r *Report) {
	f := p.Func(cmdGoosePkg, "writeFileIfChanged")
	if f == nil {
		r.Anchor("R17d", "cmd/goose.writeFileIfChanged")
		return
	}
	r.Func(FuncName(f))
	paths, ok := p.enumPaths(f, 1, 5000)
	if !ok {
		r.Unknown("R17d", "writeFileIfChanged paths", f.Pos(), "too many paths")
		return
	}
	var eqCall *ssa.Call
	p.instrs(f, func(b *ssa.BasicBlock, i int, in ssa.Instruction) {
		if c, ok := in.(*ssa.Call); ok && calleeName(c) == "bytes.Equal" {
			eqCall = c
		}
	})
	if eqCall == nil {
		r.Fail("R17d", "writeFileIfChanged compares", f.Pos(), "no bytes.Equal comparison of old and new contents", "")
		return
	}
	// compared values: the bytes read from the file named by param 0, and param 1
	okArgs := false
	for _, pair := range [][2]int{{0, 1}, {1, 0}} {
		a, b := eqCall.Call.Args[pair[0]], eqCall.Call.Args[pair[1]]
		if b == ssa.Value(f.Params[1]) {
			if ex, ok := a.(*ssa.Extract); ok {
				if rc, ok := ex.Tuple.(*ssa.Call); ok && calleeName(rc) == "os.ReadFile" && rc.Call.Args[0] == ssa.Value(f.Params[0]) {
					okArgs = true
				}
			}
		}
	}
	r.Check("R17d", "writeFileIfChanged compares the file's bytes with the new data", instrPos(eqCall), okArgs, "bytes.Equal must compare os.ReadFile(name) with data")
	eqKey := sk(eqCall) + " == true"
	badEq, badNe := "", ""
	for _, pt := range paths {
		ret, isRet := pt.endsInReturn()
		if !isRet {
			continue
		}
		var ws []*ssa.Call
		for _, b := range pt.Blocks {
			for _, in := range b.Instrs {
				if c, ok := in.(*ssa.Call); ok && calleeName(c) == "os.WriteFile" {
					ws = append(ws, c)
				}
			}
		}
		if pt.rels()[eqKey] {
			if len(ws) > 0 {
				badEq = "os.WriteFile on a path where the contents are equal: " + pt.String()
			}
			continue
		}
		if len(ws) != 1 || len(ret.Results) != 1 || ret.Results[0] != ssa.Value(ws[0]) {
			badNe = "a path on which the contents differ (or the file is unreadable) does not end in `return os.WriteFile(...)`: " + pt.String()
			continue
		}
		for i := 0; i < 3; i++ {
			if ws[0].Call.Args[i] != ssa.Value(f.Params[i]) {
				badNe = fmt.Sprintf("os.WriteFile argument %d is not parameter %s", i, f.Params[i].Name())
			}
		}
	}
	r.Check("R17d", "unchanged file is not rewritten", f.Pos(), badEq == "", badEq)
	r.Check("R17d", "changed or missing file is written completely", f.Pos(), badNe == "", badNe)
	// who may write files in the command
	var others []string
	for _, g := range p.FuncsIn(cmdGoosePkg) {
		p.instrs(g, func(b *ssa.BasicBlock, i int, in ssa.Instruction) {
			c, ok := in.(ssa.CallInstruction)
			if !ok {
				return
			}
			n := calleeName(c)
			switch n {
			case "os.Create", "os.OpenFile", "(*os.File).Write", "(*os.File).WriteAt", "(*os.File).WriteString", "os.Rename", "os.Truncate", "(*os.File).Truncate", "io/ioutil.WriteFile":
				others = append(others, n+" in "+g.Name())
			}
		})
	}
	r.Check("R17d", "os.WriteFile is the only file-writing call", f.Pos(), len(others) == 0,
		"other file-writing calls bypass the create+truncate+write contract of os.WriteFile (a shorter new file would keep the tail of the old one): "+strings.Join(others, ", "))
}

func checkLoaderAndFlags(p *Prog, r *Report, tr *ssa.Function, tpCall *ssa.Call) {
	// newPackageConfig
	npc := p.Func(Mod, "newPackageConfig")
	if npc == nil {
		r.Anchor("R17e", "goose.newPackageConfig")
	} else {
		r.Func(FuncName(npc))
		var flags, dir string
		mode := int64(-1)
		p.instrs(npc, func(b *ssa.BasicBlock, i int, in ssa.Instruction) {
			st, ok := in.(*ssa.Store)
			if !ok {
				return
			}
			fa, ok := st.Addr.(*ssa.FieldAddr)
			if !ok {
				return
			}
			_, fld, _ := fieldOf(fa)
			switch fld {
			case "BuildFlags":
				flags = sk(st.Val)
			case "Dir":
				dir = sk(st.Val)
			case "Mode":
				if m, ok := foldInt(st.Val); ok {
					mode = m
				} else {
					mode = -2
				}
			}
		})
		r.Check("R17e", "package config build flags", npc.Pos(), flags == `["-tags","goose"]`, "BuildFlags = "+flags+`, expected ["-tags","goose"]`)
		r.Check("R17e", "package config directory", npc.Pos(), len(npc.Params) == 1 && dir == npc.Params[0].Name(), "Dir = "+dir+", expected the directory parameter")
		need := int64(0)
		for _, n := range []string{"NeedName", "NeedCompiledGoFiles", "NeedImports", "NeedTypes", "NeedSyntax", "NeedTypesInfo"} {
			if pk := p.All["golang.org/x/tools/go/packages"]; pk != nil {
				if c, ok := pk.Types.Scope().Lookup(n).(*types.Const); ok {
					if v, ok := constantInt64(c); ok {
						need |= v
					}
				}
			}
		}
		r.Check("R17e", "package config load mode", npc.Pos(), mode >= 0 && mode&need == need, fmt.Sprintf("Mode=%#x must include %#x (names, compiled files, imports, types, syntax, type info)", mode, need))
	}
	tp := p.Func(Mod, "TranslationConfig.TranslatePackages")
	if tp == nil {
		r.Anchor("R17e", "goose.TranslatePackages")
	} else {
		r.Func(FuncName(tp))
		loads := blockOfCall(p, tp, "golang.org/x/tools/go/packages.Load")
		okL, why := false, "no packages.Load call"
		if len(loads) == 1 {
			c := loads[0]
			cfgOK := false
			if cc, ok := c.Call.Args[0].(*ssa.Call); ok && calleeOf(&cc.Call) == npc && len(cc.Call.Args) == 1 && cc.Call.Args[0] == ssa.Value(tp.Params[1]) {
				cfgOK = true
			}
			patOK := c.Call.Args[1] == ssa.Value(tp.Params[2])
			okL = cfgOK && patOK
			why = fmt.Sprintf("config from newPackageConfig(modDir)=%v, patterns forwarded unchanged=%v", cfgOK, patOK)
		}
		r.Check("R17e", "patterns and directory reach packages.Load unchanged", tp.Pos(), okL, why)
		// zero matches is an error
		rm := p.Rels(tp)
		okZero := false
		p.instrs(tp, func(b *ssa.BasicBlock, i int, in ssa.Instruction) {
			ret, ok := in.(*ssa.Return)
			if !ok {
				return
			}
			rs := p.RelsAt(rm, ret)
			for k := range rs {
				if strings.HasPrefix(k, "0 == len(") && strings.Contains(k, "packages.Load") {
					if c, isC := ret.Results[2].(*ssa.Const); !isC || c.Value != nil {
						okZero = true
					}
				}
			}
		})
		r.Check("R17e", "matching no package is an error", tp.Pos(), okZero, "no return with a non-nil pattern error under the fact len(pkgs) == 0")
	}
	// flags
	mainF := p.Func(cmdGoosePkg, "main")
	if mainF == nil {
		r.Anchor("R17e", "cmd/goose.main")
		return
	}
	r.Func(FuncName(mainF))
	flagVar := map[string]ssa.Value{} // flag name -> address registered
	p.instrs(mainF, func(b *ssa.BasicBlock, i int, in ssa.Instruction) {
		c, ok := in.(*ssa.Call)
		if !ok {
			return
		}
		n := calleeName(c)
		if n == "flag.StringVar" || n == "flag.BoolVar" {
			if name, ok := constString(c.Call.Args[1]); ok {
				flagVar[name] = c.Call.Args[0]
			}
		}
	})
	trCalls := blockOfCall(p, mainF, cmdGoosePkg+".translate")
	if len(trCalls) != 1 {
		r.Fail("R17e", "main calls translate once", mainF.Pos(), fmt.Sprintf("%d calls", len(trCalls)), "")
		return
	}
	tc := trCalls[0]
	wire := func(flagName string, argIdx int) {
		addr := flagVar[flagName]
		ok := false
		if ld, isLd := tc.Call.Args[argIdx].(*ssa.UnOp); isLd && addr != nil && ld.X == addr {
			ok = true
		}
		r.Check("R17e", "flag -"+flagName+" wired to "+tr.Params[argIdx].Name(), instrPos(tc), ok,
			fmt.Sprintf("argument %d of translate is %s, expected the variable registered for -%s", argIdx, sk(tc.Call.Args[argIdx]), flagName))
	}
	wire("out", 1)
	wire("dir", 2)
	wire("ignore-errors", 3)
	okArgs := false
	if ac, ok := tc.Call.Args[0].(*ssa.Call); ok && calleeName(ac) == "flag.Args" {
		okArgs = true
	}
	r.Check("R17e", "positional arguments are the patterns", instrPos(tc), okArgs, "patterns argument is "+sk(tc.Call.Args[0])+", expected flag.Args()")
	for fl, fld := range map[string]string{"source-comments": "AddSourceFileComments", "typecheck": "TypeCheck", "skip-interfaces": "SkipInterfaces"} {
		ok := false
		if a := flagVar[fl]; a != nil {
			if _, f2, okf := fieldOf(a); okf && f2 == fld {
				// and that struct is what translate receives
				if ld, isLd := tc.Call.Args[4].(*ssa.UnOp); isLd && ld.X == a.(*ssa.FieldAddr).X {
					ok = true
				}
			}
		}
		r.Check("R17e", "flag -"+fl+" sets "+fld, instrPos(tc), ok, "flag is not registered on field "+fld+" of the configuration passed to translate")
	}
}

func checkPartialOutput(p *Prog, r *Report) {
	f := p.Func(Mod, "TranslationConfig.translatePackage")
	if f == nil {
		r.Anchor("R17f", "goose.translatePackage")
		return
	}
	r.Func(FuncName(f))
	var declsCall *ssa.Call
	p.instrs(f, func(b *ssa.BasicBlock, i int, in ssa.Instruction) {
		if c, ok := in.(*ssa.Call); ok && strings.HasSuffix(calleeName(c), ".Decls") {
			declsCall = c
		}
	})
	if declsCall == nil {
		r.Anchor("R17f", "call of Ctx.Decls in translatePackage")
		return
	}
	// the local file value and the stores of its Imports / Decls fields
	stores := map[string]*ssa.Store{}
	var fileAlloc *ssa.Alloc
	p.instrs(f, func(b *ssa.BasicBlock, i int, in ssa.Instruction) {
		st, ok := in.(*ssa.Store)
		if !ok {
			return
		}
		fa, ok := st.Addr.(*ssa.FieldAddr)
		if !ok {
			return
		}
		o, fld, _ := fieldOf(fa)
		if o == nil || o.Obj().Name() != "File" {
			return
		}
		if fld == "Imports" || fld == "Decls" {
			for _, org := range origins(st.Val) {
				if ex, ok := org.(*ssa.Extract); ok && ex.Tuple == ssa.Value(declsCall) {
					stores[fld] = st
					fileAlloc, _ = fa.X.(*ssa.Alloc)
				}
			}
		}
	})
	for _, fld := range []string{"Imports", "Decls"} {
		st := stores[fld]
		if st == nil {
			r.Fail("R17f", "translatePackage stores "+fld, f.Pos(), "the result of Decls is never stored into the file's "+fld, "")
			continue
		}
		bad := ""
		p.instrs(f, func(b *ssa.BasicBlock, i int, in ssa.Instruction) {
			ret, ok := in.(*ssa.Return)
			if !ok || !reachesInstr(declsCall, ret) {
				return
			}
			// returns the local file?
			if ld, ok := ret.Results[0].(*ssa.UnOp); ok && fileAlloc != nil && ld.X == ssa.Value(fileAlloc) {
				if !dominatesInstr(st, ret) {
					bad = "a return after the translation (" + p.Pos(instrPos(ret)) + ") is reachable before the file's " + fld + " are stored: the error path returns a file without the declarations that did translate"
				}
			} else {
				bad = "a return after the translation does not return the translated file"
			}
		})
		r.Check("R17f", "translatePackage stores "+fld+" before returning", instrPos(st), bad == "", bad)
	}
}

func constantInt64(c *types.Const) (int64, bool) {
	if c == nil {
		return 0, false
	}
	v := c.Val()
	if v == nil {
		return 0, false
	}
	s := v.ExactString()
	var n int64
	_, err := fmt.Sscan(s, &n)
	return n, err == nil
}
