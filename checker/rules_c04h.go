package main

import (
	"fmt"
	"go/token"
	"go/types"
	"sort"
	"strings"

	"golang.org/x/tools/go/ssa"
)

// c04ConversionPairing: R04h. A struct-to-interface conversion S__to__I is named after the struct type of an argument
// and the interface type of a parameter; the two must be taken at the same position of the call, at the site that
// defines the conversion and at the site that uses it, or the use names a definition that is never emitted.
func c04ConversionPairing(p *Prog, r *Report) {
	r.Rule("R04h", "conversion names pair an argument with its own parameter: wherever the translator builds a struct-to-interface conversion (definition or use), the struct name is derived from the call's argument at some position and the interface name from the signature's parameter at the same position (the same index value); a name built from argument i and parameter j≠i is defined under one name and used under another", 2)
	n := 0
	for _, f := range p.FuncsIn(Mod) {
		type lit struct {
			tn           string
			strct, iface ssa.Value
			pos          token.Pos
		}
		lits := map[*ssa.Alloc]*lit{}
		p.instrs(f, func(b *ssa.BasicBlock, i int, in ssa.Instruction) {
			st, ok := in.(*ssa.Store)
			if !ok {
				return
			}
			fa, ok := st.Addr.(*ssa.FieldAddr)
			if !ok {
				return
			}
			al, ok := fa.X.(*ssa.Alloc)
			if !ok {
				return
			}
			o, fld, ok := fieldOf(fa)
			if !ok || o.Obj().Pkg() == nil || o.Obj().Pkg().Path() != coqPkg || !strings.HasPrefix(o.Obj().Name(), "StructToInterface") {
				return
			}
			l := lits[al]
			if l == nil {
				l = &lit{tn: o.Obj().Name(), pos: instrPos(in)}
				lits[al] = l
			}
			switch fld {
			case "Struct":
				l.strct = st.Val
			case "Interface":
				l.iface = st.Val
			}
		})
		var als []*ssa.Alloc
		for al := range lits {
			als = append(als, al)
		}
		sort.Slice(als, func(i, j int) bool { return lits[als[i]].pos < lits[als[j]].pos })
		for _, al := range als {
			l := lits[al]
			if l.strct == nil || l.iface == nil {
				continue
			}
			n++
			r.Sites++
			r.Func(FuncName(f))
			argIdx, _ := positionsBehind(l.strct)
			_, parIdx := positionsBehind(l.iface)
			// keyed by the role of the site, not by the function it lives in
			key := "the definition of a struct-to-interface conversion (coq." + l.tn + ") pairs argument and parameter"
			if strings.HasSuffix(l.tn, "Decl") {
				key = "the use of a struct-to-interface conversion (coq." + l.tn + ") pairs argument and parameter"
			}
			show := func(vs []ssa.Value) string {
				var s []string
				for _, v := range vs {
					s = append(s, sk(v))
				}
				sort.Strings(s)
				return "[" + strings.Join(s, ", ") + "]"
			}
			switch {
			case len(argIdx) == 0 || len(parIdx) == 0:
				r.Unknown("R04h", key, l.pos, fmt.Sprintf("the struct name is not derived from an argument position or the interface name not from a parameter position (arguments %s, parameters %s)", show(argIdx), show(parIdx)))
			case len(argIdx) == 1 && len(parIdx) == 1 && samePosition(argIdx[0], parIdx[0]):
				r.OK("R04h", key, l.pos, "struct name from argument "+sk(argIdx[0])+", interface name from the parameter at the same position")
			default:
				r.Fail("R04h", key, l.pos, fmt.Sprintf("the struct name comes from argument position %s and the interface name from parameter position %s: for a call whose interface parameter is not at that argument's position (f(p I, k uint64), f(k uint64, p I)) the conversion is defined under one name and used under another", show(argIdx), show(parIdx)), "")
			}
		}
	}
	if n == 0 {
		r.Unknown("R04h", "conversion construction sites", token.NoPos, "no construction of a struct-to-interface conversion found")
	}
}

func samePosition(a, b ssa.Value) bool {
	if a == b {
		return true
	}
	ka, oka := constInt(a)
	kb, okb := constInt(b)
	return oka && okb && ka == kb
}

// positionsBehind walks the operands behind v (through calls, phis, loads) and collects the index values of
// `<call>.Args[i]` element reads and of (*types.Tuple).At(j) calls.
func positionsBehind(v ssa.Value) (args, params []ssa.Value) {
	seen := map[ssa.Value]bool{}
	seenA, seenP := map[ssa.Value]bool{}, map[ssa.Value]bool{}
	var walk func(v ssa.Value, d int)
	walk = func(v ssa.Value, d int) {
		if v == nil || seen[v] || d > 40 {
			return
		}
		seen[v] = true
		switch x := v.(type) {
		case *ssa.IndexAddr:
			if o, fld, ok := fieldOf(x.X); ok && o.Obj().Name() == "CallExpr" && fld == "Args" {
				if !seenA[x.Index] {
					seenA[x.Index] = true
					args = append(args, x.Index)
				}
				return
			}
		case *ssa.Call:
			if calleeName(x) == "(*go/types.Tuple).At" && len(x.Call.Args) == 2 {
				if !seenP[x.Call.Args[1]] {
					seenP[x.Call.Args[1]] = true
					params = append(params, x.Call.Args[1])
				}
				return
			}
			if x.Call.IsInvoke() {
				walk(x.Call.Value, d+1)
			}
			for _, a := range x.Call.Args {
				// the translator context and its tables are not the origin of a name
				if t := types.TypeString(a.Type(), nil); strings.HasSuffix(t, "goose.Ctx") {
					continue
				}
				walk(a, d+1)
			}
			return
		case *ssa.Alloc:
			// a local: the values stored into it
			for _, rf := range refs(x) {
				if st, ok := rf.(*ssa.Store); ok && st.Addr == ssa.Value(x) {
					walk(st.Val, d+1)
				}
			}
			return
		}
		if in, ok := v.(ssa.Instruction); ok {
			for _, op := range in.Operands(nil) {
				if op != nil && *op != nil {
					walk(*op, d+1)
				}
			}
		}
	}
	walk(v, 0)
	return
}
