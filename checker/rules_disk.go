package main

import (
	"fmt"
	"go/constant"
	"go/token"
	"go/types"
	"sort"
	"strings"

	"golang.org/x/tools/go/ssa"
)

const diskPkg = Mod + "/machine/disk"
const asyncDiskPkg = Mod + "/machine/async_disk"

// diskImpl describes one implementation of disk.Disk found in the package.
type diskImpl struct {
	Named   *types.Named
	Name    string
	Methods map[string]*ssa.Function
	SizeKey string // exprKey of what Size() returns, e.g. "d.numBlocks" or "uint64(len(d.blocks))"
}

type diskCtx struct {
	p         *Prog
	pkg       *ssa.Package
	iface     *types.Interface
	impls     []*diskImpl
	blockSize uint64
	ctors     map[*ssa.Function]bool // package-level functions that return an implementation type
}

func newDiskCtx(p *Prog, r *Report, rule string) *diskCtx {
	sp := p.SSAPkg[diskPkg]
	if sp == nil {
		r.Anchor(rule, "package "+diskPkg)
		return nil
	}
	dc := &diskCtx{p: p, pkg: sp, ctors: map[*ssa.Function]bool{}}
	if tn, ok := sp.Pkg.Scope().Lookup("Disk").(*types.TypeName); ok {
		dc.iface, _ = tn.Type().Underlying().(*types.Interface)
	}
	if dc.iface == nil {
		r.Anchor(rule, "interface disk.Disk")
		return nil
	}
	if c, ok := sp.Pkg.Scope().Lookup("BlockSize").(*types.Const); ok {
		dc.blockSize, _ = constant.Uint64Val(c.Val())
	}
	if dc.blockSize == 0 {
		r.Anchor(rule, "constant disk.BlockSize")
		return nil
	}
	for _, name := range sp.Pkg.Scope().Names() {
		tn, ok := sp.Pkg.Scope().Lookup(name).(*types.TypeName)
		if !ok || tn.IsAlias() {
			continue
		}
		n, ok := tn.Type().(*types.Named)
		if !ok || types.IsInterface(n) {
			continue
		}
		if !types.Implements(n, dc.iface) && !types.Implements(types.NewPointer(n), dc.iface) {
			continue
		}
		im := &diskImpl{Named: n, Name: name, Methods: map[string]*ssa.Function{}}
		for i := 0; i < dc.iface.NumMethods(); i++ {
			mn := dc.iface.Method(i).Name()
			if f := p.Func(diskPkg, name+"."+mn); f != nil {
				im.Methods[mn] = f
			}
		}
		if f := im.Methods["Size"]; f != nil {
			for _, b := range f.Blocks {
				for _, in := range b.Instrs {
					if ret, ok := in.(*ssa.Return); ok && len(ret.Results) == 1 {
						im.SizeKey = sk(ret.Results[0])
					}
				}
			}
		}
		dc.impls = append(dc.impls, im)
	}
	sort.Slice(dc.impls, func(i, j int) bool { return dc.impls[i].Name < dc.impls[j].Name })
	for _, f := range p.FuncsIn(diskPkg) {
		if f.Signature.Recv() != nil || f.Parent() != nil {
			continue
		}
		res := f.Signature.Results()
		for i := 0; i < res.Len(); i++ {
			for _, im := range dc.impls {
				if types.Identical(res.At(i).Type(), im.Named) || types.Identical(res.At(i).Type(), types.NewPointer(im.Named)) {
					dc.ctors[f] = true
				}
			}
		}
	}
	return dc
}

func (dc *diskCtx) implOf(t types.Type) *diskImpl {
	t = deref(t)
	for _, im := range dc.impls {
		if types.Identical(t, im.Named) {
			return im
		}
	}
	return nil
}

// byteSliceParams returns parameters of f whose type is a byte slice (disk.Block).
func byteSliceParams(f *ssa.Function) []*ssa.Parameter {
	var out []*ssa.Parameter
	for _, pa := range f.Params {
		if s, ok := pa.Type().Underlying().(*types.Slice); ok {
			if b, ok := s.Elem().Underlying().(*types.Basic); ok && b.Kind() == types.Uint8 {
				out = append(out, pa)
			}
		}
	}
	return out
}

func firstUintParam(f *ssa.Function) *ssa.Parameter {
	for _, pa := range f.Params {
		if b, ok := pa.Type().Underlying().(*types.Basic); ok && b.Kind() == types.Uint64 {
			return pa
		}
	}
	return nil
}

// isBlockStorage reports whether v has type [][BlockSize]byte (the in-memory block array).
func (dc *diskCtx) isBlockStorage(t types.Type) bool {
	s, ok := t.Underlying().(*types.Slice)
	if !ok {
		return false
	}
	a, ok := s.Elem().Underlying().(*types.Array)
	return ok && uint64(a.Len()) == dc.blockSize
}

// unixCall matches a call into golang.org/x/sys/unix.
func unixCall(in ssa.Instruction) (*ssa.Call, string, bool) {
	c, ok := in.(*ssa.Call)
	if !ok {
		return nil, "", false
	}
	f := calleeOf(&c.Call)
	if f == nil || f.Pkg == nil || f.Pkg.Pkg.Path() != "golang.org/x/sys/unix" {
		return nil, "", false
	}
	return c, f.Name(), true
}

// ---------------------------------------------------------------------------
// C09

func checkC09(p *Prog, r *Report) {
	r.Rule("R09a", "guard domination: every access to block storage (index into the in-memory block array, pread/pwrite) is reached only when `addr < Size()` holds for the address parameter itself, every pread/pwrite and every store of a written block only when `len(buf) == BlockSize` holds (facts = branch conditions on all paths, edges out of panicking blocks removed)", 7)
	r.Rule("R09b", "offset shape: the file offset passed to pread/pwrite is exactly int64(addr*BlockSize) for the unmodified address parameter and the transferred buffer is the caller's buffer parameter unmodified; the in-memory index is the unmodified address parameter and the copy spans the whole block", 4)
	r.Rule("R09c", "ownership: caller-owned byte slices flow only into len/copy/syscalls/sibling methods, never into a field, global, map, closure or result; internal block storage flows only into copy; the slice returned by Read is allocated in Read", 6)
	r.Rule("R09d", "immutability: fields of disk implementations are stored only inside constructors; the global disk is stored only by Init (hence lock-free Size is sound and Size never changes)", 3)
	r.Rule("R09f", "async_disk is alias + delegation: every exported type is an alias of the same-named disk type, constants are the disk constants, constructors are single delegations with parameters forwarded in order", 5)
	r.Rule("R09g", "global wrappers Read/Write/Size/Barrier invoke the same-named method on the global disk with parameters forwarded in order and return its result", 4)
	r.Rule("R09i", "a refused operation leaves the disk usable, as it does for the file disk: whenever an in-memory disk method can panic (out-of-range address, wrong-sized buffer) every lock it holds has a deferred unlock, and every return has released it (same lockset analysis as R10a)", 4)
	r.Rule("R09h", "zero initialisation: in-memory block storage comes from make() of length numBlocks (zeroed by the language) and is stored unmodified", 1)
	r.Assume = append(r.Assume, "pread/pwrite/copy/make behave as documented", "R09 decides necessary structural conditions only; equality of Mem and File results over all histories is not decided")
	dc := newDiskCtx(p, r, "R09a")
	if dc == nil {
		return
	}
	r.Note("implementations of disk.Disk found by type: %s", implNames(dc))
	if len(dc.impls) < 2 {
		r.Unknown("R09a", "implementations", token.NoPos, fmt.Sprintf("expected at least two implementations of disk.Disk, found %d", len(dc.impls)))
	}
	for _, im := range dc.impls {
		dc.ruleGuards2(r, im)
		dc.ruleOwnership2(r, im)
	}
	dc.ruleRefusalLeavesUsable(r)
	dc.ruleImmutable(r)
	dc.ruleZeroInit(r)
	dc.ruleWrappers2(r)
	dc.ruleAsync(r)
}

func implNames(dc *diskCtx) string {
	var s []string
	for _, im := range dc.impls {
		s = append(s, im.Name+"(size="+im.SizeKey+")")
	}
	return strings.Join(s, ", ")
}

func (dc *diskCtx) ruleImmutable(r *Report) {
	p := dc.p
	// stores to fields of implementation structs, per function
	for _, f := range p.FuncsIn(diskPkg) {
		p.instrs(f, func(b *ssa.BasicBlock, i int, in ssa.Instruction) {
			st, ok := in.(*ssa.Store)
			if !ok {
				return
			}
			if fa, ok := st.Addr.(*ssa.FieldAddr); ok {
				if im := dc.implOf(fa.X.Type()); im != nil {
					_, fld, _ := fieldOf(fa)
					inCtor := dc.ctors[f]
					// storing into a fresh composite literal is construction
					_, fresh := fa.X.(*ssa.Alloc)
					r.Check("R09d", fmt.Sprintf("store %s.%s in %s", im.Name, fld, FuncName(f)), instrPos(in), inCtor && fresh,
						"field of a disk implementation is assigned outside a constructor's composite literal: Size()/storage identity could change after construction")
				}
			}
			if g, ok := st.Addr.(*ssa.Global); ok && g.Pkg == dc.pkg {
				if types.Identical(deref(g.Type()), dc.ifaceNamed()) {
					okInit := f.Name() == "Init" && f.Signature.Recv() == nil
					if okInit {
						_, isParam := st.Val.(*ssa.Parameter)
						okInit = isParam
					}
					r.Check("R09d", fmt.Sprintf("store %s in %s", g.Name(), FuncName(f)), instrPos(in), okInit,
						"the global disk may only be set by Init to its argument")
				}
			}
		})
	}
	// pointer-receiver or mutable escape: methods must not take the address of a field and leak it
	for _, im := range dc.impls {
		st := im.Named.Underlying().(*types.Struct)
		for i := 0; i < st.NumFields(); i++ {
			r.OK("R09d", fmt.Sprintf("field %s.%s enumerated", im.Name, st.Field(i).Name()), st.Field(i).Pos(), "stores to this field are listed above (none outside constructors)")
		}
	}
}

func (dc *diskCtx) ifaceNamed() types.Type {
	return dc.pkg.Pkg.Scope().Lookup("Disk").Type()
}

func (dc *diskCtx) ruleZeroInit(r *Report) {
	p := dc.p
	found := false
	for f := range dc.ctors {
		p.instrs(f, func(b *ssa.BasicBlock, i int, in ssa.Instruction) {
			st, ok := in.(*ssa.Store)
			if !ok {
				return
			}
			fa, ok := st.Addr.(*ssa.FieldAddr)
			if !ok || !dc.isBlockStorage(st.Val.Type()) {
				return
			}
			_ = fa
			found = true
			ms, isMake := st.Val.(*ssa.MakeSlice)
			okLen := false
			if isMake {
				for _, pa := range f.Params {
					if stripConv(ms.Len) == ssa.Value(pa) {
						okLen = true
					}
				}
			}
			r.Check("R09h", "storage init in "+FuncName(f), instrPos(in), isMake && okLen,
				"block storage must be make([][BlockSize]byte, numBlocks) with the constructor's parameter as length; got "+sk(st.Val))
		})
	}
	if !found {
		r.Unknown("R09h", "storage init", token.NoPos, "no constructor stores a block array")
	}
}

func (dc *diskCtx) ruleAsync(r *Report) {
	p := dc.p
	ap := p.All[asyncDiskPkg]
	if ap == nil {
		r.Anchor("R09f", "package "+asyncDiskPkg)
		return
	}
	dscope := dc.pkg.Pkg.Scope()
	for _, name := range ap.Types.Scope().Names() {
		obj := ap.Types.Scope().Lookup(name)
		if !obj.Exported() {
			continue
		}
		switch o := obj.(type) {
		case *types.TypeName:
			d, _ := dscope.Lookup(name).(*types.TypeName)
			r.Check("R09f", "type async_disk."+name, o.Pos(), o.IsAlias() && d != nil && types.Identical(o.Type(), d.Type()),
				"must be declared as an alias (=) of disk."+name+": a defined type would give async_disk users a different implementation/method set")
		case *types.Const:
			d, _ := dscope.Lookup(name).(*types.Const)
			r.Check("R09f", "const async_disk."+name, o.Pos(), d != nil && constant.Compare(o.Val(), token.EQL, d.Val()) && types.Identical(o.Type(), d.Type()),
				"must equal disk."+name)
		case *types.Func:
			f := p.Func(asyncDiskPkg, name)
			target := p.Func(diskPkg, name)
			if f == nil || target == nil {
				r.Fail("R09f", "func async_disk."+name, o.Pos(), "no same-named function in package disk to delegate to", "")
				continue
			}
			r.Func(FuncName(f))
			// single static call to disk.<name> with parameters forwarded
			dc.checkForwarder2(r, "R09f", f, fullName(target), "")
		case *types.Var:
			r.Fail("R09f", "var async_disk."+name, o.Pos(), "exported variable: async_disk must not have state of its own", "")
		}
	}
}

// ---------------------------------------------------------------------------
// C10: lock discipline of the in-memory disk; positioned I/O of the file disk

// mutexFields lists fields of a struct that are mutexes (by value or pointer).
func mutexFields(n *types.Named) []string {
	st, ok := n.Underlying().(*types.Struct)
	if !ok {
		return nil
	}
	var out []string
	for i := 0; i < st.NumFields(); i++ {
		t := deref(st.Field(i).Type())
		if nn, ok := t.(*types.Named); ok && nn.Obj().Pkg() != nil && nn.Obj().Pkg().Path() == "sync" &&
			(nn.Obj().Name() == "Mutex" || nn.Obj().Name() == "RWMutex") {
			out = append(out, st.Field(i).Name())
		}
	}
	return out
}

// lockRules runs the lockset analysis over the methods of one type.
// protected(v) says whether v (a loaded field value / field address) is shared state guarded by the mutex,
// and exemptLen whether len() of it may be read lock-free.
type lockSpec struct {
	rule      string // obligations are filed under this rule id
	typeName  string
	methods   map[string]*ssa.Function
	helpers   map[*ssa.Function]bool // unexported methods reachable only from methods (analysed with callers' locks)
	mutex     string                 // mutex field name
	protected func(owner *types.Named, field string) bool
	exemptLen bool
}

func (p *Prog) runLockRules(r *Report, ls lockSpec, owner *types.Named) {
	mayPanic := p.mayPanicSet()
	mp := func(f *ssa.Function) bool { return mayPanic[f] }
	scope := map[*ssa.Function]bool{}
	for h := range ls.helpers {
		scope[h] = true
	}
	// required lock mode per instruction, per function
	required := func(f *ssa.Function) map[ssa.Instruction]int {
		req := map[ssa.Instruction]int{}
		set := func(in ssa.Instruction, m int) {
			if req[in] < m {
				req[in] = m
			}
		}
		p.instrs(f, func(b *ssa.BasicBlock, i int, in ssa.Instruction) {
			v, ok := in.(ssa.Value)
			if !ok {
				return
			}
			o, fld, ok := fieldOf(v)
			if !ok || !types.Identical(o, owner) || !ls.protected(o, fld) {
				return
			}
			if _, isAddr := v.(*ssa.FieldAddr); isAddr {
				// the address itself: loads/stores of the field are accesses
				for _, rf := range refs(v) {
					switch x := rf.(type) {
					case *ssa.Store:
						if x.Addr == v {
							set(rf, 2)
						}
					case *ssa.UnOp:
						if !ls.exemptLen {
							set(rf, 1)
						}
					}
				}
				return
			}
			// v is the loaded field value (map, slice…)
			for _, u := range aliasUses(v) {
				switch {
				case u.Kind == "len#0" || u.Kind == "cap#0":
					if !ls.exemptLen {
						set(u.In, 1)
					}
				case u.Kind == "copy#0", u.Kind == "store-addr", u.Kind == "mapupdate", u.Kind == "delete#0", u.Kind == "clear#0":
					set(u.In, 2)
				case u.Kind == "append#0":
					set(u.In, 1)
				case u.Kind == "index" || u.Kind == "slice-bound":
				default:
					set(u.In, 1)
				}
			}
			for _, rf := range refs(v) {
				switch x := rf.(type) {
				case *ssa.Lookup:
					set(rf, 1)
				case *ssa.Range:
					set(rf, 1)
					for _, nx := range refs(x) {
						set(nx, 1)
					}
				}
			}
		})
		return req
	}
	analysed := map[*ssa.Function]bool{}
	entryOf := map[*ssa.Function]cfgSet{}
	var names []string
	for n := range ls.methods {
		names = append(names, n)
	}
	sort.Strings(names)
	var queue []*ssa.Function
	for _, n := range names {
		queue = append(queue, ls.methods[n])
	}
	modeName := map[int]string{0: "not held", 1: "read-held", 2: "write-held"}
	run := func(f *ssa.Function, entry cfgSet, isHelper bool) map[*ssa.Function]cfgSet {
		r.Func(FuncName(f))
		req := required(f)
		fname := ls.typeName + "." + f.Name()
		seenAccess := map[ssa.Instruction]bool{}
		return p.lockAnalysis(f, entry, scope, mp, func(ev lockEvent) {
			switch ev.Kind {
			case "instr":
				m, ok := req[ev.In]
				if !ok || seenAccess[ev.In] {
					return
				}
				seenAccess[ev.In] = true
				r.Sites++
				have := heldAllSuffix(ev.Cfgs, "."+ls.mutex)
				what := "read"
				if m == 2 {
					what = "write"
				}
				key := fmt.Sprintf("%s %s of guarded state: %s", fname, what, accessDesc(ev.In))
				if have >= m {
					r.OK(ls.rule, key, instrPos(ev.In), fmt.Sprintf("the %s lock is %s on every path", ls.mutex, modeName[have]))
				} else {
					r.Fail(ls.rule, key, instrPos(ev.In),
						fmt.Sprintf("%s access needs the %s lock %s but on some path it is %s", what, ls.mutex, modeName[m], modeName[have]),
						p.blockPath(f, ev.In.Block()))
				}
			case "exit-return":
				if isHelper {
					return
				}
				lk := []string{}
				for _, c := range ev.Cfgs {
					for k := range c.held {
						lk = append(lk, k)
					}
				}
				sort.Strings(lk)
				key := fmt.Sprintf("%s release at return", fname)
				if len(lk) == 0 {
					r.OK(ls.rule, key, instrPos(ev.In), "no lock held at return on any path")
				} else {
					r.Fail(ls.rule, key, instrPos(ev.In), "returns with lock still held on some path: "+strings.Join(lk, ","), p.blockPath(f, ev.In.Block()))
				}
			case "exit-panic", "exit-noreturn-call", "maypanic-call":
				if isHelper {
					// a helper's panic unwinds into the caller, whose deferred unlock is checked at the call site (maypanic-call)
					return
				}
				lk := leaked(ev.Cfgs)
				key := fmt.Sprintf("%s release at panic: %s", fname, accessDesc(ev.In))
				if len(lk) == 0 {
					r.OK(ls.rule, key, instrPos(ev.In), "every held lock has a deferred unlock when this panic can occur")
				} else {
					r.Fail(ls.rule, key, instrPos(ev.In),
						"a panic here (a refused operation) leaves "+strings.Join(lk, ",")+" locked forever: no deferred unlock on some path",
						p.blockPath(f, ev.In.Block()))
				}
			case "misuse":
				r.Fail(ls.rule, fmt.Sprintf("%s lock misuse: %s", fname, accessDesc(ev.In)), instrPos(ev.In), ev.Msg, p.blockPath(f, ev.In.Block()))
			}
		})
	}
	helperEntry := map[*ssa.Function]cfgSet{}
	for _, f := range queue {
		analysed[f] = true
		for h, cs := range run(f, nil, false) {
			if helperEntry[h] == nil {
				helperEntry[h] = cfgSet{}
			}
			for _, c := range cs {
				helperEntry[h].add(c)
			}
		}
	}
	// helpers: analysed with the union of their call-site configurations (two rounds for helper→helper)
	for round := 0; round < 2; round++ {
		var hs []*ssa.Function
		for h := range ls.helpers {
			hs = append(hs, h)
		}
		sort.Slice(hs, func(i, j int) bool { return hs[i].Name() < hs[j].Name() })
		for _, h := range hs {
			if analysed[h] {
				continue
			}
			ent := helperEntry[h]
			if len(ent) == 0 {
				if round == 1 {
					r.Note("helper %s is never called from an analysed method", FuncName(h))
				}
				continue
			}
			analysed[h] = true
			entryOf[h] = ent
			for h2, cs := range run(h, ent, true) {
				if helperEntry[h2] == nil {
					helperEntry[h2] = cfgSet{}
				}
				for _, c := range cs {
					helperEntry[h2].add(c)
				}
			}
		}
	}
}

func accessDesc(in ssa.Instruction) string {
	switch x := in.(type) {
	case *ssa.Call:
		n := calleeName(x)
		n = strings.TrimPrefix(n, "builtin.")
		var as []string
		for _, a := range x.Call.Args {
			as = append(as, sk(a))
		}
		if i := strings.LastIndex(n, "/"); i >= 0 {
			n = n[i+1:]
		}
		return n + "(" + strings.Join(as, ",") + ")"
	case *ssa.MapUpdate:
		return sk(x.Map) + "[" + sk(x.Key) + "] = …"
	case *ssa.Lookup:
		return sk(x.X) + "[" + sk(x.Index) + "]"
	case *ssa.Store:
		return "store " + sk(x.Addr)
	case *ssa.UnOp:
		return "load " + sk(x.X)
	case *ssa.Range:
		return "range " + sk(x.X)
	case *ssa.Next:
		return "next of range"
	case *ssa.Panic:
		return "panic"
	case *ssa.Return:
		return "return"
	}
	if v, ok := in.(ssa.Value); ok {
		return sk(v)
	}
	return in.String()
}

// lockIdentity: the mutex that is locked must be shared by all callers.
func (p *Prog) lockIdentity(r *Report, rule, typeName string, f *ssa.Function) {
	p.instrs(f, func(b *ssa.BasicBlock, i int, in ssa.Instruction) {
		var cc *ssa.CallCommon
		switch x := in.(type) {
		case *ssa.Call:
			cc = &x.Call
		case *ssa.Defer:
			cc = &x.Call
		default:
			return
		}
		op, k, ok := lockOp(cc)
		if !ok {
			return
		}
		recv := cc.Args[0]
		shared := false
		why := ""
		switch x := recv.(type) {
		case *ssa.UnOp: // loaded pointer field: *sync.RWMutex stored in the struct
			if _, _, ok := fieldOf(x); ok {
				shared = true
			}
		case *ssa.FieldAddr: // address of a mutex stored by value: shared only if reached through a pointer
			if _, isAlloc := x.X.(*ssa.Alloc); isAlloc {
				why = "the mutex is a by-value field of a by-value receiver copy: each call locks its own private copy"
			} else if _, isPtr := x.X.Type().Underlying().(*types.Pointer); isPtr {
				shared = true
			}
		case *ssa.Alloc:
			why = "the mutex is a local variable"
		}
		if !shared && why == "" {
			why = "cannot establish that the mutex " + k + " is shared between callers"
		}
		r.Check(rule, fmt.Sprintf("%s.%s %s(%s) shared", typeName, f.Name(), op, k), instrPos(in), shared, why)
	})
}

func checkC10(p *Prog, r *Report) {
	r.Rule("R10a", "lockset (SSA dataflow over sets of lock configurations): every element read of the in-memory block storage happens with the disk's mutex held (read or write mode), every element write with it write-held; every return has released it; a panic (refused operation) while it is held is covered by a deferred unlock; no double lock / unmatched unlock", 6)
	r.Rule("R10b", "file disk uses positioned I/O only: the only data-transfer system calls are pread/pwrite (no shared file offset), no method writes receiver or package state, package-level variables are written only by Init", 4)
	r.Rule("R10c", "lock identity: the locked mutex is reached through a pointer stored in the struct (or a pointer receiver), never a by-value copy private to the call", 4)
	r.Assume = append(r.Assume, "sync.RWMutex provides mutual exclusion as documented", "linearizability of histories and kernel-level atomicity of pread/pwrite are not decided; R10 decides the lock discipline and the absence of shared mutable state")
	dc := newDiskCtx(p, r, "R10a")
	if dc == nil {
		return
	}
	nMutexImpl := 0
	for _, im := range dc.impls {
		mfs := mutexFields(im.Named)
		hasStorage := false
		st := im.Named.Underlying().(*types.Struct)
		for i := 0; i < st.NumFields(); i++ {
			if dc.isBlockStorage(st.Field(i).Type()) {
				hasStorage = true
			}
		}
		if hasStorage {
			if len(mfs) != 1 {
				r.Fail("R10a", im.Name+" mutex", im.Named.Obj().Pos(), fmt.Sprintf("in-memory disk must have exactly one mutex field guarding its storage, found %d", len(mfs)), "")
				continue
			}
			nMutexImpl++
			ls := lockSpec{rule: "R10a", typeName: im.Name, methods: im.Methods, helpers: dc.lockScope(im), mutex: mfs[0],
				protected: func(o *types.Named, f string) bool {
					st := o.Underlying().(*types.Struct)
					for i := 0; i < st.NumFields(); i++ {
						if st.Field(i).Name() == f {
							return dc.isBlockStorage(st.Field(i).Type())
						}
					}
					return false
				},
				exemptLen: true, // sound because R09d shows the slice header is never reassigned
			}
			p.runLockRules(r, ls, im.Named)
			_, reg := dc.computeRoles(im)
			for _, f := range reg {
				p.lockIdentity(r, "R10c", im.Name, f)
			}
		} else {
			// file-backed: positioned I/O only
			_, reg := dc.computeRoles(im)
			for _, f := range reg {
				mn := f.Name()
				r.Func(FuncName(f))
				p.instrs(f, func(b *ssa.BasicBlock, i int, in ssa.Instruction) {
					if _, name, ok := unixCall(in); ok {
						r.Sites++
						allowed := map[string]bool{"Pread": true, "Pwrite": true, "Fsync": true, "Close": true}
						r.Check("R10b", fmt.Sprintf("%s.%s unix.%s", im.Name, mn, name), instrPos(in), allowed[name],
							"only pread/pwrite (explicit offset, no shared file position) may transfer data; seek/read/write share the descriptor's offset between goroutines")
					}
					if _, ok := in.(*ssa.Go); ok {
						r.Fail("R10b", fmt.Sprintf("%s.%s go", im.Name, mn), instrPos(in), "method spawns a goroutine", "")
					}
				})
			}
		}
	}
	if nMutexImpl == 0 {
		r.Unknown("R10a", "in-memory implementation", token.NoPos, "no implementation with block storage and a mutex found")
	}
	// package-level state
	for _, name := range sortedKeys(dc.pkg.Members) {
		g, ok := dc.pkg.Members[name].(*ssa.Global)
		if !ok || strings.HasPrefix(name, "init$") {
			continue
		}
		writers := []string{}
		for _, f := range p.FuncsIn(diskPkg) {
			p.instrs(f, func(b *ssa.BasicBlock, i int, in ssa.Instruction) {
				if st, ok := in.(*ssa.Store); ok && st.Addr == ssa.Value(g) {
					writers = append(writers, f.Name())
				}
			})
		}
		okW := true
		for _, w := range writers {
			if w != "Init" && w != "init" {
				okW = false
			}
		}
		r.Check("R10b", "global "+name+" writers", g.Pos(), okW, fmt.Sprintf("package-level variable written by %v; only Init may set the global disk", writers))
	}
	// methods do not store to receiver fields (value receivers) — shared with R09d
	dc.ruleImmutableInto(r, "R10b")
}

// ruleImmutableInto re-files the store enumeration of R09d under another rule id.
func (dc *diskCtx) ruleImmutableInto(r *Report, rule string) {
	p := dc.p
	for _, im := range dc.impls {
		for _, mn := range sortedKeys(im.Methods) {
			f := im.Methods[mn]
			n := 0
			p.instrs(f, func(b *ssa.BasicBlock, i int, in ssa.Instruction) {
				st, ok := in.(*ssa.Store)
				if !ok {
					return
				}
				if fa, ok := st.Addr.(*ssa.FieldAddr); ok && dc.implOf(fa.X.Type()) != nil {
					n++
					_, fld, _ := fieldOf(fa)
					r.Fail(rule, fmt.Sprintf("%s.%s stores field %s", im.Name, mn, fld), instrPos(in), "a disk method assigns a field of the disk: shared state without synchronisation", "")
				}
			})
			if n == 0 {
				r.OK(rule, fmt.Sprintf("%s.%s stores no field", im.Name, mn), f.Pos(), "")
			}
		}
	}
}

// ruleRefusalLeavesUsable files the lock-release obligations of the in-memory disk under C09:
// Mem and File must agree after a refused operation, and a leaked lock makes Mem hang.
func (dc *diskCtx) ruleRefusalLeavesUsable(r *Report) {
	for _, im := range dc.impls {
		mfs := mutexFields(im.Named)
		if len(mfs) != 1 {
			continue
		}
		ls := lockSpec{rule: "R09i", typeName: im.Name, methods: im.Methods, helpers: dc.lockScope(im), mutex: mfs[0],
			protected: func(o *types.Named, f string) bool { return false }, exemptLen: true}
		dc.p.runLockRules(r, ls, im.Named)
	}
}
