package main

import (
	"golang.org/x/tools/go/ssa"
)

// A path is a sequence of blocks from entry to an exit, with the branch facts taken.
type cfgPath struct {
	Blocks   []*ssa.BasicBlock
	Facts    []fact
	Diverges bool // the last block ends in a panic or a call that never returns
}

func (pt cfgPath) rels() relSet {
	out := relSet{}
	for _, f := range pt.Facts {
		if s, ok := relOf(f); ok {
			out[s] = true
		}
	}
	return out
}

func (pt cfgPath) String() string {
	s := ""
	for i, b := range pt.Blocks {
		if i > 0 {
			s += "→"
		}
		s += "b" + itoa(b.Index)
	}
	return s
}

// enumPaths enumerates all entry→exit paths of f where every back edge is
// taken at most `unroll` times (0: loops are entered at most once per header
// visit). Exits are blocks without successors or diverging blocks. ok=false if
// more than limit paths exist.
func (p *Prog) enumPaths(f *ssa.Function, unroll, limit int) (paths []cfgPath, ok bool) {
	if len(f.Blocks) == 0 {
		return nil, true
	}
	ok = true
	visits := map[*ssa.BasicBlock]int{}
	var cur cfgPath
	var walk func(b *ssa.BasicBlock)
	walk = func(b *ssa.BasicBlock) {
		if !ok {
			return
		}
		if visits[b] > unroll {
			return
		}
		visits[b]++
		cur.Blocks = append(cur.Blocks, b)
		defer func() {
			visits[b]--
			cur.Blocks = cur.Blocks[:len(cur.Blocks)-1]
		}()
		if len(b.Succs) == 0 || p.blockDiverges(b) {
			cp := cfgPath{Blocks: append([]*ssa.BasicBlock{}, cur.Blocks...), Facts: append([]fact{}, cur.Facts...), Diverges: p.blockDiverges(b)}
			paths = append(paths, cp)
			if len(paths) > limit {
				ok = false
			}
			return
		}
		var ifc *ssa.If
		if len(b.Instrs) > 0 {
			ifc, _ = b.Instrs[len(b.Instrs)-1].(*ssa.If)
		}
		for i, s := range b.Succs {
			n := len(cur.Facts)
			if ifc != nil && b.Succs[0] != b.Succs[1] {
				cur.Facts = append(cur.Facts, fact{Cond: ifc.Cond, Val: i == 0, At: len(cur.Blocks) - 1})
			}
			walk(s)
			cur.Facts = cur.Facts[:n]
		}
	}
	walk(f.Blocks[0])
	return paths, ok
}

// endsInReturn reports whether the path ends in a normal return.
func (pt cfgPath) endsInReturn() (*ssa.Return, bool) {
	if len(pt.Blocks) == 0 || pt.Diverges {
		return nil, false
	}
	b := pt.Blocks[len(pt.Blocks)-1]
	if len(b.Instrs) == 0 {
		return nil, false
	}
	r, ok := b.Instrs[len(b.Instrs)-1].(*ssa.Return)
	return r, ok
}

// dominatesInstr reports whether instruction a is executed before b on every path to b.
func dominatesInstr(a, b ssa.Instruction) bool {
	ba, bb := a.Block(), b.Block()
	if ba == bb {
		for _, in := range ba.Instrs {
			if in == a {
				return true
			}
			if in == b {
				return false
			}
		}
		return false
	}
	return ba.Dominates(bb)
}

// relsResolved is rels with the phi nodes of the conditions resolved along the path (the value of
// `a && b` in a switch case is a phi of false and b).
func (pt cfgPath) relsResolved() relSet {
	out := relSet{}
	for _, f := range pt.Facts {
		cond := resolveOnPathAt(pt, f.Cond, f.At, false)
		if _, ok := cond.(*ssa.Const); ok {
			continue
		}
		if s, ok := relOf(fact{Cond: cond, Val: f.Val}); ok {
			out[s] = true
		}
	}
	return out
}
